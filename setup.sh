#!/bin/sh
# Offline setup after a fresh restore: regenerate the Lean tables from /repo, build the Lean
# library (theorems), the oracle executable, the extractor and the harness.
set -e
cd "$(dirname "$0")"
export GOFLAGS=-mod=mod GOPROXY=off GOSUMDB=off GOTOOLCHAIN=local
mkdir -p build evidence
(cd tools/extract && go build -o ../../build/extract .)
./build/extract "${VERIF_REPO:-/repo}" lean/Gv/Gen
(cd tools/detscan && go build -o ../../build/detscan .)
./build/detscan "${VERIF_REPO:-/repo}" lean/Gv/Gen
(cd tools/mutscan && go build -o ../../build/mutscan .)
./build/mutscan "${VERIF_REPO:-/repo}" lean/Gv/Gen
python3 -c "import sys; sys.path.insert(0, '.'); from driver import common; ok, out, _, _ = common.build_harness(); print(out); sys.exit(0 if ok else 1)"
(cd lean && lake build Gv oracle $(ls Mains | sed "s/^\(.*\)\.lean$/oracle_\1/"))
echo setup-ok
