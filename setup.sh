#!/bin/sh
# Offline setup after a fresh restore: regenerate the Lean tables from /repo, build the Lean
# library (theorems), the oracle executable, the extractor and the harness.
set -e
cd "$(dirname "$0")"
export GOFLAGS=-mod=mod GOPROXY=off GOSUMDB=off GOTOOLCHAIN=local
mkdir -p build evidence
(cd tools/extract && go build -o ../../build/extract .)
./build/extract "${VERIF_REPO:-/repo}" lean/Gv/Gen
cp "${VERIF_REPO:-/repo}/go.sum" tools/harness/go.sum
(cd tools/harness && go build -tags verif -o ../../build/harness .)
(cd lean && lake build Gv oracle)
echo setup-ok
