/-
Shared representation (DESIGN §4.1): residues are `UInt8`, sequences are `List UInt8`,
names are `String`.  Core-only (no Mathlib): the oracle executable links this file.
-/
namespace Gv

abbrev Byte := UInt8
abbrev Seq := List UInt8

/-- `∀ c : UInt8, p c` is decidable by checking the 256 values (used by `decide` proofs over the
whole byte range; no axiom is involved). -/
instance instDecForallUInt8 (p : UInt8 → Prop) [DecidablePred p] : Decidable (∀ c, p c) :=
  decidable_of_iff (∀ n : Nat, (h : n < 256) → p (UInt8.ofNatLT n h)) (by
    constructor
    · intro h c
      have := h c.toNat c.toNat_lt
      simpa using this
    · intro h n _; exact h _)

/-- Go: `uint8(unicode.ToUpper(rune(b)))`.  For b < 128 this is ASCII upper-casing.
For b ≥ 128 Go's unicode tables apply (e.g. 0xB5 ↦ 0x39C truncated to 0x9C, 0xE0..0xFE ↦ minus 32
except 0xF7, 0xFF ↦ 0x178 truncated to 0x78); those bytes lie outside every property's
quantifier and the model is only claimed for ASCII (`isAscii`). -/
def toUpper (c : Byte) : Byte := if 97 ≤ c ∧ c ≤ 122 then c - 32 else c
def toLower (c : Byte) : Byte := if 65 ≤ c ∧ c ≤ 90 then c + 32 else c

def isAscii (c : Byte) : Bool := c < 128

def GAP : Byte := 45
def POINT : Byte := 46
def OTHER : Byte := 42

/-- association-list lookup (Go map lookup with `ok`) -/
def lookup {α β} [BEq α] (k : α) : List (α × β) → Option β
  | [] => none
  | (k', v) :: t => if k == k' then some v else lookup k t

theorem lookup_eq_some_mem {α β} [BEq α] [LawfulBEq α] {k : α} {l : List (α × β)} {v : β}
    (h : lookup k l = some v) : (k, v) ∈ l := by
  induction l with
  | nil => simp [lookup] at h
  | cons p t ih =>
    obtain ⟨k', v'⟩ := p
    simp only [lookup] at h
    split at h
    · rename_i hk
      have : k = k' := by simpa using hk
      subst this
      simp at h; subst h; simp
    · exact List.mem_cons_of_mem _ (ih h)

/-! ### text helpers for the line protocol -/

def hexDigit (n : Nat) : Char :=
  if n < 10 then Char.ofNat (48 + n) else Char.ofNat (87 + n)

def hexOfBytes (bs : List Byte) : String :=
  String.ofList (bs.flatMap fun b => [hexDigit (b.toNat / 16), hexDigit (b.toNat % 16)])

def hexVal (c : Char) : Option Nat :=
  if '0' ≤ c ∧ c ≤ '9' then some (c.toNat - 48)
  else if 'a' ≤ c ∧ c ≤ 'f' then some (c.toNat - 87)
  else if 'A' ≤ c ∧ c ≤ 'F' then some (c.toNat - 55)
  else none

def bytesOfHexAux : List Char → List Byte → Option (List Byte)
  | [], acc => some acc.reverse
  | [_], _ => none
  | a :: b :: t, acc =>
    match hexVal a, hexVal b with
    | some x, some y => bytesOfHexAux t (UInt8.ofNat (x * 16 + y) :: acc)
    | _, _ => none

def bytesOfHex (s : String) : Option (List Byte) := bytesOfHexAux s.toList []

def bytesOfString (s : String) : List Byte := s.toUTF8.toList

/-- printable-ASCII rendering of a byte list (only used for bytes < 128) -/
def stringOfBytes (bs : List Byte) : String := String.ofList (bs.map fun b => Char.ofNat b.toNat)

def parseInt? (s : String) : Option Int :=
  match s.toList with
  | '-' :: t => (String.ofList t).toNat?.map fun n => - (Int.ofNat n)
  | _ => s.toNat?.map Int.ofNat

end Gv
