/-!
Numeric layer (DESIGN §4.2): a minimal numeric interface shared by `Float` (execution in the oracle)
and `ℝ` (proofs, instance in a Mathlib-importing module).  The regenerated straight-line float code
(`Gv/Gen/Numeric*.lean`, tie T2) is emitted once, generic in `[RealLike α]`.
Core-only.
-/
namespace Gv

class RealLike (α : Type) extends Add α, Sub α, Mul α, Div α, Neg α where
  log : α → α
  exp : α → α
  pow : α → α → α
  sqrt : α → α
  abs : α → α
  /-- strict comparison as a Boolean (Go `<` on float64: false when either side is NaN) -/
  ltb : α → α → Bool
  /-- Go `<=` -/
  leb : α → α → Bool
  /-- Go `==` -/
  eqb : α → α → Bool
  ofNat : Nat → α

instance {α} [RealLike α] (n : Nat) : OfNat α n := ⟨RealLike.ofNat n⟩

instance : RealLike Float where
  log := Float.log
  exp := Float.exp
  pow := Float.pow
  sqrt := Float.sqrt
  abs := Float.abs
  ltb := fun a b => a < b
  leb := fun a b => a ≤ b
  eqb := fun a b => a == b
  ofNat := Float.ofNat

end Gv
