import Gv.Num
/-!
The nucleotide distance estimators of property C07 **as printed in the literature**, written
independently of the Go code and of its regenerated translation (`Gv.Gen.*Distance`).  Generic in
`[RealLike α]`: evaluated at `Float` by the oracle's verdict, reasoned about at `ℝ` by
`Props/C07.lean`.

Notation: `p` observed proportion of differing sites; `P`, `Q` proportions of transitional and
transversional differences; `P1`, `P2` proportions of A<->G and C<->T differences; `πA πC πG πT`
base frequencies, `πR = πA + πG`, `πY = πC + πT`; `a` the shape of the gamma distribution of rates.
The gamma variants replace `-log x` by `a (x^(-1/a) - 1)` (Jin & Nei 1990, Mol. Biol. Evol. 7:82).

* raw: number of differences; p-distance: `p`.
* JC69: Jukes & Cantor 1969, `d = -(3/4) ln(1 - (4/3) p)`.
* K80 (K2P): Kimura 1980 (J. Mol. Evol. 16:111), `d = -(1/2) ln(1 - 2P - Q) - (1/4) ln(1 - 2Q)`.
* F81 distance (Tajima & Nei 1984, Mol. Biol. Evol. 1:269, "equal-input"): `b = 1 - Σ πi²`,
  `d = -b ln(1 - p/b)`.
* F84: Felsenstein & Churchill 1996 / PHYLIP dnadist (McGuire, Prentice & Wright 1999):
  `A = πCπT/πY + πAπG/πR`, `B = πCπT + πAπG`, `C = πRπY`,
  `d = -2A ln(1 - P/(2A) - (A-B)Q/(2AC)) + 2(A - B - C) ln(1 - Q/(2C))`.
* TN93: Tamura & Nei 1993 (Mol. Biol. Evol. 10:512), eq. (7) and its gamma form.
Core-only.
-/
namespace Gv.Spec.Published
open Gv RealLike

variable {α : Type} [RealLike α]

def raw (k : α) : α := k

def pdist (k n : α) : α := k / n

def jc69 (p : α) : α := -((3 : α) / 4) * log (1 - (4 : α) / 3 * p)

def jc69Gamma (a p : α) : α := (3 : α) / 4 * a * (pow (1 - (4 : α) / 3 * p) (-(1 / a)) - 1)

def k80 (P Q : α) : α := -((1 : α) / 2) * log (1 - 2 * P - Q) - (1 : α) / 4 * log (1 - 2 * Q)

def k80Gamma (a P Q : α) : α :=
  a / 2 * (pow (1 - 2 * P - Q) (-(1 / a)) + (1 : α) / 2 * pow (1 - 2 * Q) (-(1 / a)) - (3 : α) / 2)

/-- `b = 1 - Σ πi²` -/
def tajimaNeiB (πA πC πG πT : α) : α := 1 - (πA * πA + πC * πC + πG * πG + πT * πT)

def f81 (πA πC πG πT p : α) : α :=
  let b := tajimaNeiB πA πC πG πT;
  (-b * log (1 - p / b))

def f81Gamma (a πA πC πG πT p : α) : α :=
  let b := tajimaNeiB πA πC πG πT
  b * a * (pow (1 - p / b) (-(1 / a)) - 1)

def f84A (πA πC πG πT : α) : α := πC * πT / (πC + πT) + πA * πG / (πA + πG)
def f84B (πA πC πG πT : α) : α := πC * πT + πA * πG
def f84C (πA πC πG πT : α) : α := (πA + πG) * (πC + πT)

def f84 (πA πC πG πT P Q : α) : α :=
  let A := f84A πA πC πG πT
  let B := f84B πA πC πG πT
  let C := f84C πA πC πG πT;
  (-(2 * A) * log (1 - P / (2 * A) - (A - B) * Q / (2 * A * C)) + 2 * (A - B - C) * log (1 - Q / (2 * C)))

def f84Gamma (a πA πC πG πT P Q : α) : α :=
  let A := f84A πA πC πG πT
  let B := f84B πA πC πG πT
  let C := f84C πA πC πG πT
  2 * a * (A * pow (1 - P / (2 * A) - (A - B) * Q / (2 * A * C)) (-(1 / a))
           + (B + C - A) * pow (1 - Q / (2 * C)) (-(1 / a)) - B - C)

/-- the three logarithm arguments of TN93 -/
def tn93E1 (πA πC πG πT Q : α) : α := 1 - Q / (2 * (πA + πG) * (πC + πT))
def tn93E2 (πA _πC πG _πT P1 Q : α) : α := 1 - (πA + πG) * P1 / (2 * πA * πG) - Q / (2 * (πA + πG))
def tn93E3 (_πA πC _πG πT P2 Q : α) : α := 1 - (πC + πT) * P2 / (2 * πC * πT) - Q / (2 * (πC + πT))

def tn93 (πA πC πG πT P1 P2 Q : α) : α :=
  let πR := πA + πG
  let πY := πC + πT;
  (-(2 * πA * πG / πR) * log (tn93E2 πA πC πG πT P1 Q)
  - 2 * πC * πT / πY * log (tn93E3 πA πC πG πT P2 Q)
  - 2 * (πR * πY - πA * πG * πY / πR - πC * πT * πR / πY) * log (tn93E1 πA πC πG πT Q))

def tn93Gamma (a πA πC πG πT P1 P2 Q : α) : α :=
  let πR := πA + πG
  let πY := πC + πT
  2 * a * (πA * πG / πR * pow (tn93E2 πA πC πG πT P1 Q) (-(1 / a))
           + πC * πT / πY * pow (tn93E3 πA πC πG πT P2 Q) (-(1 / a))
           + (πR * πY - πA * πG * πY / πR - πC * πT * πR / πY) * pow (tn93E1 πA πC πG πT Q) (-(1 / a))
           - πA * πG - πC * πT - πR * πY)

end Gv.Spec.Published
