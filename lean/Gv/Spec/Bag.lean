import Gv.Model.BagHist
/-!
Reference model of property C01: a container is a plain list of (name, sequence) pairs plus its
settings; every operation is stated by its documented meaning on that list.  No index, no ids, no
cached length.  (Pure name/residue computations that *are* the documented meaning — the `%04d`
suffix, `cleanName`, the short-name scheme, codon translation — are shared with the model.)
-/
namespace Gv.Spec
open Gv Gv.Model

structure SBag where
  rows : List (String × Seq) := []
  policy : Nat := 0
  alphabet : Nat := 3
  isAlign : Bool := false
deriving Repr

def SBag.names (b : SBag) : List String := b.rows.map Prod.fst

/-- length of an alignment: the common row length, `-1` when empty -/
def SBag.length (b : SBag) : Int := match b.rows with | r :: _ => (r.2.length : Int) | [] => -1

def firstNamed (n : String) : List (String × Seq) → Option (String × Seq)
  | [] => none
  | r :: t => if r.1 == n then some r else firstNamed n t

def freshSuffix (names : List String) (name : String) : Nat → Nat → String
  | 0, k => name ++ "_" ++ fmt04 k
  | fuel + 1, k =>
    let cand := name ++ "_" ++ fmt04 k
    if names.contains cand then freshSuffix names name fuel (k + 1) else cand

def freshName (names : List String) (name : String) : String :=
  if names.contains name then freshSuffix names name (names.length + 1) 1 else name

/-- adding under the three duplicate-name policies; `true` = rejected with an error (state unchanged) -/
def add (b : SBag) (name : String) (s : Seq) : SBag × Bool :=
  let ex := firstNamed name b.rows
  if ex.isSome && b.policy == IGNORE_NAME then (b, false)
  else if b.policy == IGNORE_SEQUENCE && (match ex with | some r => r.2 == s | none => false) then (b, false)
  else if b.isAlign && b.rows ≠ [] && b.length != (s.length : Int) then (b, true)
  else ({ b with rows := b.rows ++ [(freshName b.names name, s)] }, false)

def addAllStop : SBag → List (String × Seq) → SBag × Bool
  | b, [] => (b, false)
  | b, (n, s) :: t => let r := add b n s; if r.2 then r else addAllStop r.1 t

def addAllIgnore : SBag → List (String × Seq) → SBag
  | b, [] => b
  | b, (n, s) :: t => addAllIgnore (add b n s).1 t

/-- keep the first occurrence of every distinct key, in order; groups of names per kept row -/
def dedupRows (key : Seq → Seq) : List (String × Seq) → List (Seq × String × Seq × List String) → List (Seq × String × Seq × List String)
  | [], acc => acc
  | r :: t, acc =>
    if acc.any (fun g => g.1 == key r.2) then
      dedupRows key t (acc.map fun g => if g.1 == key r.2 then (g.1, g.2.1, g.2.2.1, g.2.2.2 ++ [r.1]) else g)
    else dedupRows key t (acc ++ [(key r.2, r.1, r.2, [r.1])])

/-- `ReverseComplementSequences` by its meaning: the names are taken in the order given; a name designates the first
row carrying it (a name no row carries designates nothing); the designated row has every residue replaced by its IUPAC
complement and the order of its residues reversed (a name given twice: twice).  `none`: a designated row holds a
residue without a complement. -/
def revcompNamedRef : List String → List (String × Seq) → Option (List (String × Seq))
  | [], rows => some rows
  | n :: t, rows =>
    match firstNamed n rows with
    | none => revcompNamedRef t rows
    | some r =>
      if r.2.any (fun c => (complementByte c).isNone) then none
      else revcompNamedRef t (updateFirst n (fun s => (s.map fun c => (complementByte c).getD c).reverse) rows)

/-- removal of sites of rows of `L` columns given, site by site, whether the site qualifies (`q`): every qualifying
site is removed, or with `ends` only those of the maximal qualifying runs at the start and at the end; reported: the
lengths of these two runs, the kept and the removed positions -/
def cleanByQual (rows : List (String × Seq)) (L : Nat) (q : List Bool) (ends : Bool) : List (String × Seq) × String :=
  let lead := (q.takeWhile id).length
  let trail := (q.reverse.takeWhile id).length
  let gone (i : Nat) : Bool := q.getD i false && (!ends || i < lead || i ≥ L - trail)
  let kept := (List.range L).filter fun i => !gone i
  let removed := (List.range L).filter gone
  (rows.map fun r => (r.1, kept.filterMap fun j => r.2[j]?), sitesStatus lead trail kept removed)

/-- the residues of site `j`, one per row holding one -/
def siteColumn (rows : List (String × Seq)) (j : Nat) : List Byte := rows.filterMap fun r => r.2[j]?

/-- `RemoveCharacterSites`: a site qualifies when the number of its residues that are selected meets the cutoff
`num/den` (`cutoffTest`: at least that proportion, or at least one for a cutoff of 0) over the number of its residues that
count.  Selected: a member of the character set `cs` (up to case with `ic`) - or, with `rev`, a non-member.  Counting: every
residue but the gaps with `ig` and the wildcard (N/n, X/x for amino acids) with `iN`. -/
def charQual (cs : List Byte) (num den : Nat) (ic ig iN rev : Bool) (alphabet : Nat) (rows : List (String × Seq)) (L : Nat) :
    List Bool :=
  let wild : Byte := if alphabet == AMINOACIDS then 88 else 78
  let selected (x : Byte) : Bool := (cs.any fun v => v == x || (ic && toLower v == toLower x)) != rev
  let counts (x : Byte) : Bool := !(ig && x == GAP) && !(iN && (x == wild || x == toLower wild))
  (List.range L).map fun j =>
    cutoffTest num den ((siteColumn rows j).filter selected).length ((siteColumn rows j).filter counts).length

/-- `RemoveMajorityCharacterSites`: a site qualifies when the number of occurrences of its most frequent residue meets
the cutoff over the number of its residues that count (`maxCharSite`, the per-site function of `MaxCharStats`, whose meaning
is `C14.maxCharSite_is_argmax`: case is folded, gaps / wildcards do not count with `ig` / `iN`; when no residue counts the
occurrences are the number of rows and the total is 0, so that the site qualifies).  The cutoff is used as given
(`cutoffTestRaw`): the step is only specified for a cutoff within [0, 1]. -/
def majQual (num den : Nat) (ig iN : Bool) (alphabet : Nat) (rows : List (String × Seq)) (L : Nat) : List Bool :=
  (List.range L).map fun j =>
    cutoffTestRaw num den (maxCharSite alphabet ig iN (siteColumn rows j)).2.1 (maxCharSite alphabet ig iN (siteColumn rows j)).2.2

/-- outcome of a step: the new state (`none` = the documented behaviour leaves the state unspecified
after this error) and the status -/
def stepOp (b : SBag) : Op → Option SBag × String
  | .add n s => let r := add b n s; (some r.1, if r.2 then "err" else "ok")
  | .ignore p => (some { b with policy := if p == 0 || p == 1 || p == 2 then p.toNat else 0 }, "ok")
  | .clear => (some { b with rows := [] }, "ok")
  | .append rows =>
    if !b.isAlign then (some b, "na") else
    let o := addAllStop { alphabet := b.alphabet, isAlign := true } rows
    if o.2 then (some b, "na") else
    let r := addAllStop b o.1.rows
    if r.2 then (none, "err") else (some r.1, "ok")
  | .concat rows =>
    if !b.isAlign then (some b, "na") else
    let o := addAllStop { alphabet := b.alphabet, isAlign := true } rows
    if o.2 then (some b, "na") else
    let c := o.1
    if !b.names.Nodup then (none, "ok") else
    -- pair rows by name; pad absent sequences with gaps on either side
    let clen := if c.rows = [] then 0 else c.length.toNat
    let alen := if b.rows = [] then 0 else b.length.toNat
    let part1 := b.rows.map fun r =>
      match firstNamed r.1 c.rows with
      | some q => (r.1, r.2 ++ q.2)
      | none => (r.1, r.2 ++ List.replicate clen GAP)
    let part2 := (c.rows.filter fun q => (firstNamed q.1 b.rows).isNone).map fun q =>
      (q.1, List.replicate alen GAP ++ q.2)
    (some { b with rows := part1 ++ part2 }, "ok")
  | .rename m => (some { b with rows := b.rows.map fun r => (mapLookup m r.1, r.2) }, "ok")
  | .appendId id right =>
    (some { b with rows := b.rows.map fun r => ((if id.isEmpty then r.1 else if right then r.1 ++ id else id ++ r.1), r.2) }, "ok")
  | .cleanNames => (some { b with rows := b.rows.map fun r => (cleanName r.1, r.2) }, "ok")
  | .trimNames size =>
    let rows := b.rows.zipIdx.map fun (r, i) => (⟨i, r.1, r.2⟩ : Row)
    let n := rows.length
    let tooSmall := if size - 2 < 0 then n ≥ 1 else 10 ^ (size - 2).toNat < n
    if tooSmall then (some b, "err") else
    let r := trimNamesLoop size rows [] [] []
    if r.2 then (none, "err") else (some { b with rows := r.1.map fun x => (x.name, x.seq) }, "ok")
  | .trimAuto cur =>
    let rows := b.rows.zipIdx.map fun (r, i) => (⟨i, r.1, r.2⟩ : Row)
    let r := trimAutoLoop rows [] cur (ceilLog10 (rows.length + 1)) []
    (some { b with rows := r.1.map fun x => (x.name, x.seq) }, "ok[" ++ toString r.2 ++ "]")
  | .sort => (some { b with rows := b.rows.mergeSort fun a c => decide (a.1 ≤ c.1) }, "ok")
  | .permute perm =>
    -- with repeated names "the row of that name" is ambiguous once the order is shuffled
    if b.names.Nodup then (some { b with rows := perm.filterMap fun i => b.rows[i]? }, "ok") else (none, "ok")
  | .filter mn mx =>
    let keep := b.rows.filter fun r => (mn < 0 || (r.2.length : Int) ≥ mn) && (mx < 0 || (r.2.length : Int) ≤ mx)
    if b.names.Nodup then (some { b with rows := keep }, "ok") else (none, "ok")
  | .dedup g =>
    if !b.names.Nodup then (none, "ok[]") else
    let gs := dedupRows (dedupKey b.alphabet g) b.rows []
    (some { b with rows := gs.map fun x => (x.2.1, x.2.2.1) },
     "ok[" ++ ",".intercalate (gs.map fun x => "+".intercalate (x.2.2.2.map pctEnc)) ++ "]")
  | .rmSeqs c num den ic ig iN =>
    if !b.isAlign then (some b, "na") else
    if !b.names.Nodup then (none, "ok[]") else
    let all : Byte := if b.alphabet == AMINOACIDS then 88 else 78
    let allc := toLower all
    let removed (s : Seq) : Bool :=
      let nb := (s.filter fun x => x == c || (ic && toLower x == toLower c)).length
      let total := (s.filter fun x => !(ig && x == GAP) && !(iN && (x == all || x == allc))).length
      cutoffTest num den nb total
    let keep := b.rows.filter fun r => !removed r.2
    (some { b with rows := keep }, "ok[" ++ toString (b.rows.length - keep.length) ++ "]")
  | .translate ph codeId =>
    match geneticCode codeId with
    | none => (none, "err")
    | some code =>
      if b.alphabet != NUCLEOTIDS then (none, "err") else
      if !b.names.Nodup then (none, "ok") else
      let phases : List Nat := if ph == -1 then [0, 1, 2] else [ph.toNat]
      let out := b.rows.flatMap fun r => phases.map fun p =>
        ((if ph == -1 then r.1 ++ "_" ++ toString p else r.1), bufferTranslate code p r.2)
      if out.any (fun x => x.2.isNone) then (none, "err")
      else
        let rows := out.map fun x => (x.1, x.2.getD [])
        -- the three-frame names are distinct when the input names are and none ends like a frame suffix
        if !(rows.map Prod.fst).Nodup then (none, "ok") else
        -- three frames of an alignment have different lengths unless L ≡ 2 (mod 3): no rectangular
        -- result exists, the reference leaves the state unspecified (known finding)
        if b.isAlign && rows.any (fun r => r.2.length != (rows.head?.map (·.2.length)).getD 0) then (none, "ok") else
        (some { b with rows := rows, alphabet := autoAlphabet (rows.map Prod.snd) }, "ok")
  | .clone => if b.names.Nodup then (some b, "ok") else (none, "ok")
  | .sample nb perm =>
    if (b.rows.length : Int) < nb || nb < 1 then (some b, "err")
    else if !b.names.Nodup then (none, "ok")
    else (some { b with rows := (perm.take nb.toNat).filterMap (fun i => b.rows[i]?), policy := 0,
                        alphabet := if b.isAlign && b.alphabet == BOTH then NUCLEOTIDS else b.alphabet }, "ok")
  | .toUpper => (some { b with rows := b.rows.map fun r => (r.1, r.2.map toUpper) }, "ok")
  | .toLower => (some { b with rows := b.rows.map fun r => (r.1, r.2.map toLower) }, "ok")
  | .replace old new =>
    let rows := b.rows.map fun r => (r.1, replaceAll old new r.2)
    if b.isAlign && rows.any (fun r => (r.2.length : Int) != b.length) then (none, "err")
    else (some { b with rows := rows }, "ok")
  | .setChar i j c =>
    if i < 0 || i ≥ b.rows.length then (some b, "err")
    else match b.rows[i.toNat]? with
      | none => (some b, "err")
      | some r =>
        if j < 0 || j ≥ r.2.length then (some b, "err")
        else (some { b with rows := b.rows.set i.toNat (r.1, r.2.set j.toNat c) }, "ok")
  | .trimSeqs n fs =>
    if !b.isAlign then (some b, "na") else
    if n < 0 || n ≥ b.length then (some b, "err")
    else (some { b with rows := b.rows.map fun r => (r.1, if fs then r.2.drop n.toNat else r.2.take (r.2.length - n.toNat)) }, "ok")
  | .autoAlpha => (some { b with alphabet := autoAlphabet (b.rows.map Prod.snd) }, "ok")
  | .revcomp =>
    -- only defined on nucleotides (an error otherwise, nothing changed); every residue is replaced by
    -- its IUPAC complement and the order of the residues is reversed; a residue without a complement is
    -- an error after which the content is unspecified
    if b.alphabet != NUCLEOTIDS then (some b, "err") else
    if b.rows.any (fun r => r.2.any fun c => (complementByte c).isNone) then (none, "err") else
    (some { b with rows := b.rows.map fun r => (r.1, (r.2.map fun c => (complementByte c).getD c).reverse) }, "ok")
  | .replaceChar name site c =>
    -- overwrites the residue at position `site` of the sequence called `name` (the first one of that name,
    -- as every by-name access); an error, nothing changed, for a site outside the alignment or an unknown name
    if !b.isAlign then (some b, "na") else
    if site < 0 || site ≥ b.length then (some b, "err") else
    if (firstNamed name b.rows).isNone then (some b, "err") else
    (some { b with rows := updateFirst name (fun s => s.set site.toNat c) b.rows }, "ok")
  | .rmGapSites num den ends =>
    -- a site qualifies when its number of gaps meets the cutoff `num/den` over all sequences (`cutoffTest`:
    -- at least that proportion, or at least one gap for a cutoff of 0); every qualifying site is removed,
    -- or with `ends` only those of the maximal qualifying runs at the start and at the end; reported:
    -- the lengths of these two runs, the kept and the removed positions
    if !b.isAlign then (some b, "na") else
    if b.rows = [] then (some b, sitesStatus 0 0 [] []) else
    let L := b.length.toNat
    let q : List Bool := (List.range L).map fun j =>
      cutoffTest num den (b.rows.filter fun r => r.2[j]? == some GAP).length b.rows.length
    let lead := (q.takeWhile id).length
    let trail := (q.reverse.takeWhile id).length
    let gone (i : Nat) : Bool := q.getD i false && (!ends || i < lead || i ≥ L - trail)
    let kept := (List.range L).filter fun i => !gone i
    let removed := (List.range L).filter gone
    (some { b with rows := b.rows.map fun r => (r.1, kept.filterMap fun j => r.2[j]?) },
     sitesStatus lead trail kept removed)
  | .compress =>
    -- identical sites are merged: the distinct columns, each once, with its number of occurrences; the
    -- documentation leaves their order open, the reference takes increasing byte-wise lexicographic order
    -- (`patternTable`: strictly increasing, weights = multiplicities — `C13.patternTable_spec`).
    -- An alignment without sequences has no site to merge and stays as it is.
    if !b.isAlign then (some b, "na") else
    if b.rows = [] then (some b, "ok[_]") else
    let cols := (List.range b.length.toNat).map fun j => b.rows.filterMap fun r => r.2[j]?
    let tbl := patternTable cols
    (some { b with rows := b.rows.zipIdx.map fun (r, i) => (r.1, tbl.filterMap fun p => p.1[i]?) },
     "ok[" ++ plusList (tbl.map Prod.snd) ++ "]")
  | .unalign =>
    -- the result is a NEW plain sequence set (default duplicate-name policy, same alphabet) into which every
    -- row has been inserted, in order, under its name with its sequence without the gap characters (an
    -- insertion under a name already in use renames, as every insertion does: with pairwise distinct names the
    -- rows are exactly the degapped rows, `C01.unalign_rows_of_distinct_names`); no sequence set exists for an alphabet other
    -- than the three known ones
    if !seqBagAlphabetOK b.alphabet then (none, "EXIT") else
    (some (addAllIgnore { alphabet := b.alphabet } (b.rows.map fun r => (r.1, r.2.filter fun c => c != GAP))), "ok")
  | .renameRe ok names =>
    -- a regular expression that does not compile is an error and nothing changes; otherwise the `i`-th row
    -- takes the `i`-th new name (whatever it is: two rows may end up with one name), sequences and order stay;
    -- the name map receives `old name ↦ new name` for every row, in row order (a map: a later entry for the
    -- same old name replaces the earlier one)
    if !ok then (some b, "err" ++ mapStatus []) else
    (some { b with rows := b.rows.zipIdx.map fun (r, i) => (names.getD i r.1, r.2) },
     "ok" ++ mapStatus (renameMap b.names names []))
  | .setAlpha a =>
    -- only the nucleotide or the amino-acid alphabet can be given, and only when the sequences fit it: the
    -- alphabet detected from all residues (`detectAlphabetBag`, the published tables) is that one or "both";
    -- anything else is an error and nothing changes
    let d := detectAlphabetBag (b.rows.map Prod.snd)
    if a == 1 && (d == NUCLEOTIDS || d == BOTH) then (some { b with alphabet := NUCLEOTIDS }, "ok")
    else if a == 0 && (d == AMINOACIDS || d == BOTH) then (some { b with alphabet := AMINOACIDS }, "ok")
    else (some b, "err")
  | .revcompSeqs names =>
    -- only defined on nucleotides (an error otherwise, nothing changed); the rows designated by the names are
    -- reverse-complemented (`revcompNamedRef`), everything else stays; a residue without a complement in a designated
    -- row is an error after which the content is unspecified
    if b.alphabet != NUCLEOTIDS then (some b, "err") else
    match revcompNamedRef names b.rows with
    | none => (none, "err")
    | some rows => (some { b with rows := rows }, "ok")
  | .diffFirst =>
    -- every sequence but the first shows a point wherever it carries the residue the first sequence carries at
    -- that position; the first sequence, names and order stay
    if !b.isAlign then (some b, "na") else
    match b.rows with
    | [] => (some b, "ok")
    | r0 :: rest =>
      (some { b with rows := r0 :: rest.map fun r =>
        (r.1, r.2.zipIdx.map fun (c, i) => if r0.2[i]? == some c then POINT else c) }, "ok")
  | .replaceMatch =>
    -- the inverse display: in every sequence but the first a point is replaced by the residue the first sequence
    -- carries at that position
    if !b.isAlign then (some b, "na") else
    match b.rows with
    | [] => (some b, "ok")
    | r0 :: rest =>
      (some { b with rows := r0 :: rest.map fun r =>
        (r.1, r.2.zipIdx.map fun (c, i) => if c == POINT then (r0.2[i]?).getD c else c) }, "ok")
  | .mask refseq start len mr nogap noref =>
    -- the row-level function of property C15 on the plain rows (the reference sequence is the first row of that name,
    -- the length is the rows' length): `C15.mask_cells` - a residue changes exactly when it lies in the window
    -- `[start, start+len)` and is not protected (a gap with `nogap`, the reference's residue with `noref`), and then
    -- becomes the replacement character; `C15.mask_ok_iff` - an error (nothing changes) exactly for a start outside
    -- `[0, L]`, an unknown replacement, a reference that is asked for and absent
    if !b.isAlign then (some b, "na") else
    match Gv.Model.mask b.rows b.length b.alphabet refseq start len mr nogap noref with
    | none => (some b, "err")
    | some rows => (some { b with rows := rows }, "ok")
  | .maskOcc refseq maxOcc mr =>
    -- likewise `MaskOccurences` (`MaskUnique`: `maxOcc = 1`): `C15.maskOcc_cells` - residue `i` of a row becomes the
    -- column's replacement character exactly when it is selected (`Spec.occSelected`: counted, not a gap, at most
    -- `maxOcc` occurrences among the counted residues of the column); `C15.maskOcc_ok_iff` for the errors
    if !b.isAlign then (some b, "na") else
    match Gv.Model.maskOccurences b.rows b.length b.alphabet refseq maxOcc mr with
    | none => (some b, "err")
    | some rows => (some { b with rows := rows }, "ok")
  | .rmCharSites cs num den ends ic ig iN rev =>
    -- the qualifying sites (`charQual`) are removed (`cleanByQual`: all of them, or the leading and trailing runs);
    -- names, order and the other residues stay; an alignment without sequences has no site
    if !b.isAlign then (some b, "na") else
    if b.rows = [] then (some b, sitesStatus 0 0 [] []) else
    (some { b with rows := (cleanByQual b.rows b.length.toNat
              (charQual cs num den ic ig iN rev b.alphabet b.rows b.length.toNat) ends).1 },
     (cleanByQual b.rows b.length.toNat (charQual cs num den ic ig iN rev b.alphabet b.rows b.length.toNat) ends).2)
  | .rmMajSites num den ends ig iN =>
    -- likewise with the majority qualification (`majQual`); the documentation announces that a cutoff outside [0, 1] is
    -- taken as 0, the method uses it as given: nothing is specified there
    if !b.isAlign then (some b, "na") else
    if b.rows = [] then (some b, sitesStatus 0 0 [] []) else
    if den == 0 || num > den then (none, "ok") else
    (some { b with rows := (cleanByQual b.rows b.length.toNat (majQual num den ig iN b.alphabet b.rows b.length.toNat) ends).1 },
     (cleanByQual b.rows b.length.toNat (majQual num den ig iN b.alphabet b.rows b.length.toNat) ends).2)
  | .replaceRe ok seqs =>
    -- a regular expression that does not compile is an error and nothing changes; otherwise the `i`-th row takes the
    -- `i`-th new sequence, names and order stay; in an alignment a replacement that changes the length of a sequence is
    -- an error after which the content is unspecified
    if !ok then (some b, "err") else
    let rows := b.rows.zipIdx.map fun (r, i) => (r.1, seqs.getD i r.2)
    if b.isAlign && rows.any (fun r => (r.2.length : Int) != b.length) then (none, "err")
    else (some { b with rows := rows }, "ok")

end Gv.Spec
