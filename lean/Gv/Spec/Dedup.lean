import Gv.Basic
/-!
Independent statement of what `Deduplicate` must return (property C13), on plain rows: the kept rows are
the first occurrences of every comparison key, and every kept row leads the group of the names of
all rows with its key.  Core-only (the oracle evaluates these definitions on the implementation's
result; the theorems of `Gv.Props.C13` prove them about the model).
-/
namespace Gv.Spec
open Gv

/-- the rows whose comparison key does not occur in any earlier row, in original order -/
def firstOccs (key : Seq → Seq) (rows : List (String × Seq)) : List (String × Seq) :=
  (rows.zipIdx.filter fun xi => !((rows.take xi.2).any fun y => key y.2 == key xi.1.2)).map Prod.fst

/-- for every kept row, the names of all rows having its key, in original order -/
def groupsOf (key : Seq → Seq) (rows : List (String × Seq)) : List (List String) :=
  (firstOccs key rows).map fun x => (rows.filter fun y => key y.2 == key x.2).map Prod.fst

end Gv.Spec
