import Gv.Basic
/-! Decidable statements of what each randomised operation promises (property C10), on plain rows. -/
namespace Gv.Spec
open Gv

abbrev Rows := List (String × Seq)

def names (r : Rows) : List String := r.map Prod.fst

def col (r : Rows) (j : Nat) : List Byte := r.map fun x => x.2.getD j 0

def width (r : Rows) : Nat := match r with | x :: _ => x.2.length | [] => 0

def rectangular (r : Rows) : Bool := r.all fun x => x.2.length == width r

/-- same elements with the same multiplicities -/
def sameMultiset {α} [BEq α] (a b : List α) : Bool :=
  a.length == b.length && a.all fun x => a.count x == b.count x

/-- sequence shuffling is a row permutation -/
def isRowPermutation (inp out : Rows) : Bool := sameMultiset inp out

/-- every bootstrap column is an original column taken for all rows at once; names kept; length n -/
def isBootstrap (n : Nat) (inp out : Rows) : Bool :=
  names out == names inp && out.all (fun x => x.2.length == n) &&
  (List.range n).all fun j => (List.range (width inp)).any fun k => col out j == col inp k

/-- sequence sampling draws `nb` distinct original rows -/
def isRowSample (nb : Nat) (inp out : Rows) : Bool :=
  out.length == nb && out.all (fun x => out.count x ≤ inp.count x)

/-- contiguous window of width `len` -/
def isWindow (len : Nat) (inp out : Rows) : Bool :=
  (List.range (width inp - len + 1)).any fun start => out == inp.map fun r => (r.1, (r.2.drop start).take len)

/-- `len` distinct columns (in any order) -/
def isColumnSample (len : Nat) (inp out : Rows) : Bool :=
  names out == names inp && out.all (fun x => x.2.length == len) &&
  let oc := (List.range len).map (col out)
  let ic := (List.range (width inp)).map (col inp)
  oc.all fun c => oc.count c ≤ ic.count c

def zipAll (inp out : Rows) (p : Byte → Byte → Bool) : Bool :=
  names out == names inp && (inp.zip out).all fun (a, b) =>
    a.2.length == b.2.length && (a.2.zip b.2).all fun (x, y) => p x y

/-- substitutions only replace non-gap residues, by alphabet letters -/
def isMutation (alphabet : List Byte) (inp out : Rows) : Bool :=
  zipAll inp out fun x y => x == y || (x != 45 && x != 46 && x != 42 && alphabet.contains y)

/-- added gaps only turn residues into gaps -/
def isGapAddition (inp out : Rows) : Bool := zipAll inp out fun x y => x == y || y == 45

/-- every column keeps its character multiset (swap, site shuffling) -/
def columnsKeepMultiset (inp out : Rows) : Bool :=
  names out == names inp && rectangular out && width out == width inp &&
  (List.range (width inp)).all fun j => sameMultiset (col inp j) (col out j)

/-- recombination only copies residues between rows at the same column -/
def isColumnCopy (inp out : Rows) : Bool :=
  names out == names inp && (out.all fun x => x.2.length == width inp) &&
  (List.range (width inp)).all fun j => (col out j).all fun c => (col inp j).contains c

/-- rogue simulation: residues permuted within the reported rogue rows only; rogue and intact names
partition the rows -/
def isRogue (inp out : Rows) (rogue intact : List String) : Bool :=
  names out == names inp && sameMultiset (rogue ++ intact) (names inp) &&
  (inp.zip out).all fun (a, b) =>
    if intact.contains a.1 && !rogue.contains a.1 then a.2 == b.2 else sameMultiset a.2 b.2

end Gv.Spec
