import Gv.Num
/-!
# Textbook substitution rate matrices (independent meaning for C18)

The general time-reversible construction as printed in the literature (Felsenstein 2004, ch. 13;
Yang 2006, ch. 1): for exchangeabilities `s i j = s j i` and stationary distribution `π̂`,
`q i j = s i j · π̂ j` for `i ≠ j`, `q i i = −Σ_{j≠i} q i j`, and the whole matrix divided by the
mean rate `−Σ π̂ i · q i i`, so that one substitution is expected per unit time.  The named
nucleotide models differ only in their exchangeabilities (state order A, C, G, T; transitions are
A↔G and C↔T).  `π̂ = π / Σπ`: a textbook model's frequencies are a probability vector.

Generic in the numeric type (evaluated at `Float` by the oracle, reasoned about at `ℝ`).  Core only.
-/
namespace Gv.Spec.Subst
open Gv

variable {α : Type} [RealLike α]

/-- `f 0 + f 1 + … + f (n-1)`, accumulated from the left starting at `0` -/
def sumTo (n : Nat) (f : Nat → α) : α := (List.range n).foldl (fun acc k => acc + f k) 0

/-- frequencies rescaled to sum to one -/
def normalise (n : Nat) (pi : Nat → α) (i : Nat) : α := pi i / sumTo n pi

/-- total rate of leaving state `i` (before scaling) -/
def rowOut (n : Nat) (s : Nat → Nat → α) (p : Nat → α) (i : Nat) : α :=
  sumTo n fun j => if i = j then 0 else s i j * p j

/-- expected number of substitutions per unit time (before scaling) -/
def meanRate (n : Nat) (s : Nat → Nat → α) (p : Nat → α) : α :=
  sumTo n fun i => p i * rowOut n s p i

/-- the textbook rate matrix for exchangeabilities `s` and frequencies `pi`, scaled to mean rate one -/
def textbookQ (n : Nat) (s : Nat → Nat → α) (pi : Nat → α) (i j : Nat) : α :=
  let p := normalise n pi
  (if i = j then -(rowOut n s p i) else s i j * p j) / meanRate n s p

/-- A↔G (0,2) and C↔T (1,3) -/
def isTransition (i j : Nat) : Bool := i != j && (i + j) % 2 == 0

/-- purines are A (0) and G (2) -/
def isPurine (i : Nat) : Bool := i % 2 == 0

def exJC : Nat → Nat → α := fun _ _ => 1

/-- Kimura 1980: transitions `κ` times as fast as transversions -/
def exK2P (kappa : α) (i j : Nat) : α := if isTransition i j then kappa else 1

/-- Felsenstein 1981: equal exchangeabilities, unequal frequencies -/
def exF81 : Nat → Nat → α := fun _ _ => 1

/-- Felsenstein 1984 (as in PHYLIP / Bio++): `q_ij = π_j (1 + κ/π_R)` for purine transitions,
`π_j (1 + κ/π_Y)` for pyrimidine transitions, `π_j` for transversions -/
def exF84 (kappa piR piY : α) (i j : Nat) : α :=
  if isTransition i j then (if isPurine i then 1 + kappa / piR else 1 + kappa / piY) else 1

/-- Tamura–Nei 1993: `κ1` for purine transitions, `κ2` for pyrimidine transitions -/
def exTN93 (kappa1 kappa2 : α) (i j : Nat) : α :=
  if isTransition i j then (if isPurine i then kappa1 else kappa2) else 1

/-- general time reversible; letters as in goalign's documentation of `GTRModel.InitModel`:
AC = d, AG = f, AT = b, CG = e, CT = a, GT = c -/
def exGTR (d f b e a c : α) (i j : Nat) : α :=
  match min i j, max i j with
  | 0, 1 => d | 0, 2 => f | 0, 3 => b | 1, 2 => e | 1, 3 => a | 2, 3 => c
  | _, _ => 0

end Gv.Spec.Subst
