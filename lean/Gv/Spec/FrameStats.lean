import Gv.Basic
import Gv.Spec.Genetic
/-!
What `Frameshifts` and `Stops` mean, written from their documentation (`align/align.go`: "First sequence of the
alignment is considered as the reference orf (in phase).  It returns for each sequence the coordinates of the longest
dephased part"; "if startinggapsasincomplete is true, then considers gaps at the beginning as incomplete sequence, then
take the right phase"; "Position of the first encountered STOP in frame"; `goalign phasent`: "Positions of nt not in
phase with reference orf", "Position of the first stop in phase") with plain counts over prefixes of the two rows: no
loop state, no running record.  Core-only.
-/
namespace Gv.Spec
open Gv

/-- number of gaps among the columns `[a, b)` of a row -/
def gapsIn (s : Seq) (a b : Nat) : Nat := ((s.take b).drop a).countP (· == 45)

/-- number of residues (non-gaps) among the columns `[a, b)` of a row -/
def resIn (s : Seq) (a b : Nat) : Nat := ((s.take b).drop a).countP (· != 45)

/-- The column where the complete part of the row begins when its beginning is taken as incomplete: the first column
holding a residue of the row at which the number of reference residues seen (this column included) is 1 modulo 3 -
the residue stands on the first base of a reference codon (or over a reference gap that follows one). -/
def completeFrom (ref seq : Seq) : Option Nat :=
  (List.range (min ref.length seq.length)).find? fun k => seq.getD k 45 != 45 && resIn ref 0 (k + 1) % 3 == 1

/-- The frame of the row after `k` columns, relative to the reference, counted from column `o`: every reference gap
(an insertion in the row) moves it forward, every gap of the row (a deletion) backward; 0 = in phase -/
def frameAt (ref seq : Seq) (o k : Nat) : Nat := (gapsIn ref o k + 2 * gapsIn seq o k) % 3

/-- The longest dephased part of the row, in coordinates of the row (residues counted from column `p0`): the
alignment is cut at the points `k ≥ o` where the row is in phase (and at its end); a part is what lies between two
consecutive cuts; parts of at most one residue do not count; the first of the longest ones is reported; `(0, 0)`
when there is none. -/
def longestDephased (ref seq : Seq) (o p0 : Nat) : Nat × Nat :=
  let L := min ref.length seq.length
  let cuts := (List.range (L + 1)).filter fun k => o ≤ k && (frameAt ref seq o k == 0 || k == L)
  let parts := (cuts.zip (cuts.drop 1)).map fun (a, b) => (resIn seq p0 a, resIn seq p0 b)
  let long := parts.filter fun p => p.2 > p.1 + 1
  let best := long.foldl (fun m p => max m (p.2 - p.1)) 0
  (long.find? fun p => p.2 - p.1 == best).getD (0, 0)

/-- `Frameshifts` for one row: without the option the frame and the coordinates are counted from the first column;
with it, from the beginning of the complete part (nothing is reported for a row without complete part) -/
def frameshiftsRow (flag : Bool) (ref seq : Seq) : Nat × Nat :=
  if flag then
    match completeFrom ref seq with
    | none => (0, 0)
    | some K => longestDephased ref seq (K + 1) K
  else longestDephased ref seq 0 0

/-- exact codon of the NCBI table `tbl` (case folded, U read as T); `X` for anything that is not three plain bases -/
def plainAA (tbl : List Byte) (a b c : Byte) : Byte :=
  let isBase (x : Byte) : Bool := fold x == 65 || fold x == 67 || fold x == 71 || fold x == 84
  if isBase a && isBase b && isBase c then ncbiAA tbl (fold a) (fold b) (fold c) else 88

/-- is the `j`-th codon (0-based) of the residues `s` a stop? -/
def isStopAt (tbl : List Byte) (s : Seq) (j : Nat) : Bool :=
  plainAA tbl (s.getD (3 * j) 0) (s.getD (3 * j + 1) 0) (s.getD (3 * j + 2) 0) == 42

/-- position (number of residues read, the stop codon included) of the first stop codon of the residues `s` read
three by three from their beginning; −1 without stop codon -/
def firstStop (tbl : List Byte) (s : Seq) : Int :=
  match (List.range (s.length / 3)).find? (isStopAt tbl s) with
  | some j => ((3 * (j + 1) : Nat) : Int)
  | none => -1

/-- `Stops` for one row: the residues of the row (of its complete part with the option) read codon by codon -/
def stopsRow (tbl : List Byte) (flag : Bool) (ref seq : Seq) : Int :=
  if flag then
    match completeFrom ref seq with
    | none => -1
    | some K => firstStop tbl ((seq.drop K).filter (· != 45))
  else firstStop tbl (seq.filter (· != 45))

end Gv.Spec
