import Gv.Model.Sites
/-!
Independent vocabulary for the C04 theorems (site extraction and coordinates): what a rectangular
alignment is, residue counting on a gapped reference row, windows as explicit position lists, and
the re-interleaving of partition blocks.  Simple list functions only.  Core-only.
-/
namespace Gv.Spec.Sites
open Gv Gv.Model

/-- rectangular alignment with cached length `L` (`-1` iff empty) -/
def Rect (rows : SRows) (L : Int) : Prop :=
  (rows = [] ∧ L = -1) ∨ (rows ≠ [] ∧ 0 ≤ L ∧ ∀ r ∈ rows, (r.2.length : Int) = L)

/-- the length an alignment reports: the length of its first row, `-1` when it has no row -/
def lenOf (rows : SRows) : Int := match rows with | r :: _ => (r.2.length : Int) | [] => -1

/-- number of residues (non-gap characters) -/
def nres (s : Seq) : Nat := (s.filter (· != GAP)).length

/-- index of the `k`-th (0-based) residue -/
def skipTo : Nat → Seq → Nat
  | _, [] => 0
  | k, c :: t => if c = GAP then 1 + skipTo k t else if k = 0 then 0 else 1 + skipTo (k - 1) t

/-- length of the shortest prefix holding `m ≥ 1` residues -/
def spanOf : Nat → Seq → Nat
  | _, [] => 0
  | m, c :: t => if c = GAP then 1 + spanOf m t else if m ≤ 1 then 1 else 1 + spanOf (m - 1) t

/-- the positions `st, st+1, …, st+ln-1` -/
def window (st ln : Int) : List Int := (List.range ln.toNat).map fun (k : Nat) => st + (k : Int)

/-- the columns `[w.1, w.1 + w.2)` of one row -/
def seg (s : Seq) (w : Int × Int) : Seq := (s.drop w.1.toNat).take w.2.toNat

/-- how many earlier sites belong to the same partition as site `j` -/
def rank (parts : List Int) (j : Nat) : Nat :=
  ((List.range j).filter fun j' => parts.getD j' (-1) == parts.getD j (-1)).length

/-- re-interleaving: site `j` is taken from the block of its partition, at the rank of `j` in it;
`blockSeqs` holds, block by block, the row of one fixed sequence -/
def reinterleaveSeq (parts : List Int) (blockSeqs : List Seq) : Seq :=
  (List.range parts.length).map fun j => (blockSeqs.getD (parts.getD j (-1)).toNat []).getD (rank parts j) 0

/-- well-formed partition table over `names`: one entry per site, each `-1` (unassigned) or the index
of a registered partition name -/
def PartInv (ps : PartSet) : Prop :=
  ps.parts.length = ps.length.toNat ∧ ∀ p ∈ ps.parts, p = -1 ∨ (0 ≤ p ∧ p < (ps.names.length : Int))

end Gv.Spec.Sites
