import Gv.Model.Mask
/-!
Independent, cell-by-cell statement of what `MaskOccurences` / `MaskUnique` must do (property C15): which
residues are counted in a column, which are selected, and by what they are replaced.  No loop, no
occurrence tables, no row indices.  Core-only.
-/
namespace Gv.Spec
open Gv Gv.Model

/-- row `x` takes part in the count of column `i`: always when no reference is given; otherwise when `x`
is not the reference row and its residue differs from the reference residue or faces a gap in the reference -/
def occCounts (refseq : String) (refs : Seq) (i : Nat) (x : String × Seq) : Bool :=
  refseq == "" || (x.1 != refseq && (x.2.getD i 0 != refs.getD i 0 || refs.getD i 0 == GAP))

/-- the residues that take part in the count of column `i` -/
def occChars (rows : CRows) (refseq : String) (refs : Seq) (i : Nat) : List Byte :=
  (rows.filter (occCounts refseq refs i)).map fun x => x.2.getD i 0

/-- the residue of row `x` in column `i` is selected: it is counted, it is not a gap, and it occurs at
most `maxOcc` times among the counted residues of its column -/
def occSelected (rows : CRows) (refseq : String) (refs : Seq) (maxOcc : Int) (i : Nat) (x : String × Seq) : Bool :=
  occCounts refseq refs i x && x.2.getD i 0 != GAP &&
    decide (((occChars rows refseq refs i).count (x.2.getD i 0) : Int) ≤ maxOcc)

/-- the replacement character of column `i`: the fixed character of the mode, or for MAJ the most frequent
counted residue of the column.  (When a column has no counted residue the Go loop keeps the value of the
previous column; nothing is selected in such a column, so that value is never written.) -/
def occRepAt (rows : CRows) (refseq : String) (refs : Seq) (mr : MaskRep) (rep0 : Byte) : Nat → Byte
  | 0 => if mr == .maj then majorityChar (occChars rows refseq refs 0) rep0 else rep0
  | i + 1 =>
    if mr == .maj then majorityChar (occChars rows refseq refs (i + 1)) (occRepAt rows refseq refs mr rep0 i) else rep0

/-- one residue of the result of `MaskOccurences` -/
def maskOccCell (rows : CRows) (refseq : String) (refs : Seq) (maxOcc : Int) (mr : MaskRep) (rep0 : Byte)
    (i : Nat) (x : String × Seq) : Byte :=
  if occSelected rows refseq refs maxOcc i x then occRepAt rows refseq refs mr rep0 i else x.2.getD i 0

end Gv.Spec
