import Gv.Basic
/-!
Independent statement of what translation and complementation *mean* (not derived from the Go
tables): NCBI translation tables 1, 2 and 5 as their canonical 64-letter strings (base order
T, C, A, G), IUPAC nucleotide codes as sets of bases.
-/
namespace Gv.Spec
open Gv

/-- NCBI transl_table=1 (standard), 2 (vertebrate mitochondrial), 5 (invertebrate mitochondrial);
`AAs` lines of https://www.ncbi.nlm.nih.gov/Taxonomy/Utils/wprintgc.cgi, base order TCAG.
table 1: `FFLLSSSSYY**CC*WLLLLPPPPHHQQRRRRIIIMTTTTNNKKSSRRVVVVAAAADDEEGGGG` -/
def ncbi1 : List Byte := [70, 70, 76, 76, 83, 83, 83, 83, 89, 89, 42, 42, 67, 67, 42, 87, 76, 76, 76, 76, 80, 80, 80, 80, 72, 72, 81, 81, 82, 82, 82, 82, 73, 73, 73, 77, 84, 84, 84, 84, 78, 78, 75, 75, 83, 83, 82, 82, 86, 86, 86, 86, 65, 65, 65, 65, 68, 68, 69, 69, 71, 71, 71, 71]
/-- `FFLLSSSSYY**CCWWLLLLPPPPHHQQRRRRIIMMTTTTNNKKSS**VVVVAAAADDEEGGGG` -/
def ncbi2 : List Byte := [70, 70, 76, 76, 83, 83, 83, 83, 89, 89, 42, 42, 67, 67, 87, 87, 76, 76, 76, 76, 80, 80, 80, 80, 72, 72, 81, 81, 82, 82, 82, 82, 73, 73, 77, 77, 84, 84, 84, 84, 78, 78, 75, 75, 83, 83, 42, 42, 86, 86, 86, 86, 65, 65, 65, 65, 68, 68, 69, 69, 71, 71, 71, 71]
/-- `FFLLSSSSYY**CCWWLLLLPPPPHHQQRRRRIIMMTTTTNNKKSSSSVVVVAAAADDEEGGGG` -/
def ncbi5 : List Byte := [70, 70, 76, 76, 83, 83, 83, 83, 89, 89, 42, 42, 67, 67, 87, 87, 76, 76, 76, 76, 80, 80, 80, 80, 72, 72, 81, 81, 82, 82, 82, 82, 73, 73, 77, 77, 84, 84, 84, 84, 78, 78, 75, 75, 83, 83, 83, 83, 86, 86, 86, 86, 65, 65, 65, 65, 68, 68, 69, 69, 71, 71, 71, 71]

def ncbi (code : Nat) : List Byte := if code = 0 then ncbi1 else if code = 1 then ncbi2 else ncbi5

/-- index of a base in TCAG order -/
def baseIdx (c : Byte) : Nat :=
  if c = 84 then 0 else if c = 67 then 1 else if c = 65 then 2 else 3

def ncbiAA (tbl : List Byte) (x y z : Byte) : Byte :=
  tbl.getD (16 * baseIdx x + 4 * baseIdx y + baseIdx z) 63

/-- case folding and U→T -/
def fold (c : Byte) : Byte :=
  let u := if 97 ≤ c ∧ c ≤ 122 then c - 32 else c
  if u = 85 then 84 else u

/-- plain ASCII upper-casing -/
def fold' (c : Byte) : Byte := if 97 ≤ c ∧ c ≤ 122 then c - 32 else c

/-- IUPAC nucleotide code ↦ set of bases (as a list; order irrelevant).  `none`: not a
nucleotide code (gap included). Bytes: A65 C67 G71 T84 R82 Y89 S83 W87 K75 M77 B66 D68 H72 V86 N78 -/
def iupacSet (c : Byte) : Option (List Byte) :=
  match fold c with
  | 65 => some [65] | 67 => some [67] | 71 => some [71] | 84 => some [84]
  | 82 => some [65, 71] | 89 => some [67, 84] | 83 => some [67, 71] | 87 => some [65, 84]
  | 75 => some [71, 84] | 77 => some [65, 67]
  | 66 => some [67, 71, 84] | 68 => some [65, 71, 84] | 72 => some [65, 67, 84] | 86 => some [65, 67, 71]
  | 78 => some [65, 67, 71, 84]
  | _ => none

/-- amino acids of all expansions of an ambiguous codon -/
def expansions (tbl : List Byte) (X Y Z : List Byte) : List Byte :=
  X.flatMap fun x => Y.flatMap fun y => Z.map fun z => ncbiAA tbl x y z

/-- Meaning of codon translation (property C05): full-gap codon ↦ gap; IUPAC codon ↦ the amino
acid shared by all its expansions, else X; anything else ↦ X. -/
def translateCodon (tbl : List Byte) (a b c : Byte) : Byte :=
  if a = 45 ∧ b = 45 ∧ c = 45 then 45
  else match iupacSet a, iupacSet b, iupacSet c with
    | some X, some Y, some Z =>
      match expansions tbl X Y Z with
      | [] => 88
      | aa :: rest => if rest.all (· == aa) then aa else 88
    | _, _, _ => 88

/-- Watson–Crick complement of a base -/
def baseComp (c : Byte) : Byte :=
  if c = 65 then 84 else if c = 84 then 65 else if c = 67 then 71 else if c = 71 then 67 else c

def sameSet (l₁ l₂ : List Byte) : Bool := l₁.all (l₂.contains ·) && l₂.all (l₁.contains ·)

/-- the upper-case IUPAC DNA alphabet of property C06 -/
def dnaUpper : List Byte := [65, 67, 71, 84, 82, 89, 83, 87, 75, 77, 66, 68, 72, 86, 78]
/-- full C06 alphabet: both cases plus `-`, `.`, `*` -/
def dnaAlphabet : List Byte := dnaUpper ++ dnaUpper.map (· + 32) ++ [45, 46, 42]

def isUpperAZ (c : Byte) : Bool := 65 ≤ c && c ≤ 90
def isLowerAZ (c : Byte) : Bool := 97 ≤ c && c ≤ 122

end Gv.Spec
