import Gv.Basic
/-!
Independent meaning of C02 / C03 (no reference to any parser or writer model).

* `WellFormed`  – what a successful parse must return (C03): a non-empty rectangular alignment with
  pairwise distinct names.
* `declared…`   – the counts a file header declares, read off the raw bytes by a deliberately naive
  scanner (first two decimal numbers of a Phylip file; `ntax=` / `nchar=` of a Nexus file).
* `Repr…`       – which alignments are representable in a format (C02's quantifier): names of
  printable non-blank bytes without the format's own delimiters / reserved words, residues from
  the IUPAC nucleotide or protein alphabet in both cases plus `-`, `*`, `?`.
Core-only (the oracle links it); every predicate is a `Bool` function, hence decidable.
-/
namespace Gv.Spec.Fmt
open Gv

abbrev Name := List Byte
abbrev XRow := Name × Seq

/-! ### C03: well-formed result -/

def distinct : List Name → Bool
  | [] => true
  | n :: t => !t.contains n && distinct t

/-- non-empty, at least one column, every row of the reported length, names pairwise distinct -/
def wellFormed (length : Int) (rows : List XRow) : Bool :=
  !rows.isEmpty && decide (1 ≤ length) && rows.all (fun r => (r.2.length : Int) == length) &&
    distinct (rows.map (·.1))

/-- which clause of `wellFormed` fails first (for the verdict text) -/
def wfClause (length : Int) (rows : List XRow) : String :=
  if rows.isEmpty then "empty-alignment"
  else if !(rows.all fun r => (r.2.length : Int) == length) then "ragged"
  else if !decide (1 ≤ length) then "zero-columns"
  else if !distinct (rows.map (·.1)) then "duplicate-names"
  else "ok"

/-! ### header counts declared by a file (naive, independent scanners) -/

def isDigit (b : Byte) : Bool := 48 ≤ b && b ≤ 57
def isBlank (b : Byte) : Bool := b == 32 || b == 9 || b == 10 || b == 13

def decVal (ds : List Byte) : Nat := ds.foldl (fun a d => a * 10 + (d.toNat - 48)) 0

/-- leading decimal number (optionally signed) of a byte string, and the rest -/
def leadingInt (s : List Byte) : Option (Int × List Byte) :=
  let (neg, s') := match s with
    | 45 :: t => (true, t)
    | 43 :: t => (false, t)
    | _ => (false, s)
  let ds := s'.takeWhile isDigit
  if ds.isEmpty then none
  else some ((if neg then -(decVal ds : Int) else (decVal ds : Int)), s'.dropWhile isDigit)

/-- Phylip: the first two numbers of the file (after leading blanks), when the header line has that
shape -/
def declaredPhylip (s : List Byte) : Option (Int × Int) :=
  match leadingInt (s.dropWhile isBlank) with
  | none => none
  | some (n, r) =>
    match leadingInt (r.dropWhile (fun b => b == 32 || b == 9)) with
    | none => none
    | some (l, _) => some (n, l)

/-- number of rows of a result against a declared count: equal when no duplicate policy drops rows
(`dropsRows = false`, IGNORE_NONE), at most the declared count otherwise -/
def rowsOk (dropsRows : Bool) (n d : Int) : Bool := if dropsRows then decide (n ≤ d) else n == d

/-- nothing but blanks up to the first NUL (NUL is goalign's in-band end-of-input marker: the lexers return rune 0
at EOF) -/
def blankToNul (bs : List Byte) : Bool := (bs.takeWhile (· != 0)).all isBlank

def lower (b : Byte) : Byte := if 65 ≤ b && b ≤ 90 then b + 32 else b

/-- remove `[...]` comments (naively, unnested) -/
def stripComments : List Byte → Bool → List Byte
  | [], _ => []
  | b :: t, false => if b == 91 then stripComments t true else b :: stripComments t false
  | b :: t, true => if b == 93 then 32 :: stripComments t false else stripComments t true

def isPrefix : List Byte → List Byte → Bool
  | [], _ => true
  | _ :: _, [] => false
  | a :: p, b :: s => a == b && isPrefix p s

/-- split at `;` (Nexus command separator) -/
def splitCommands : List Byte → List Byte → List (List Byte)
  | [], cur => [cur.reverse]
  | b :: t, cur => if b == 59 then cur.reverse :: splitCommands t [] else splitCommands t (b :: cur)

/-- first blank-separated word of a command, lower-cased, and the rest -/
def firstWord (c : List Byte) : List Byte × List Byte :=
  let c := c.dropWhile isBlank
  ((c.takeWhile (fun b => !isBlank b)).map lower, c.dropWhile (fun b => !isBlank b))

/-- all values `v` of occurrences `key [blanks] = [blanks] v` inside one command (case-insensitive
key, preceded by a blank; the number must end the token) -/
def keyValues (key : List Byte) : List Byte → Byte → List Int
  | [], _ => []
  | b :: t, prev =>
    let rest := keyValues key t b
    if isBlank prev && isPrefix key ((b :: t).map lower) then
      let after := ((b :: t).drop key.length).dropWhile (fun c => c == 32 || c == 9)
      match after with
      | 61 :: u =>
        match leadingInt (u.dropWhile (fun c => c == 32 || c == 9)) with
        | some (v, w) => if (match w with | [] => true | c :: _ => isBlank c) then v :: rest else rest
        | none => rest
      | _ => rest
    else rest

def allSame : List Int → Option Int
  | [] => none
  | v :: t => if t.all (· == v) then some v else none

/-- walk the commands, tracking the current block (`begin <name>` … `end`); collect the `ntax` /
`nchar` values of `dimensions` commands inside a DATA / CHARACTERS block -/
def nexusDims : List (List Byte) → Option (List Byte) → List Int × List Int
  | [], _ => ([], [])
  | c :: cs, blk =>
    let (w, rest) := firstWord c
    if w == [98, 101, 103, 105, 110] then nexusDims cs (some (firstWord rest).1)          -- begin
    else if w == [101, 110, 100] || w == [101, 110, 100, 98, 108, 111, 99, 107] then nexusDims cs none  -- end / endblock
    else
      let r := nexusDims cs blk
      let inData := blk == some [100, 97, 116, 97] || blk == some [99, 104, 97, 114, 97, 99, 116, 101, 114, 115]
      if inData && w == [100, 105, 109, 101, 110, 115, 105, 111, 110, 115] then
        (keyValues [110, 116, 97, 120] rest 32 ++ r.1, keyValues [110, 99, 104, 97, 114] rest 32 ++ r.2)
      else r

/-- the file after its `#NEXUS` word (which is not followed by a `;`: without this the first command would be
`#NEXUS begin data` and the DATA block would go unnoticed) -/
def afterNexusWord (s : List Byte) : List Byte :=
  let t := s.dropWhile isBlank
  if isPrefix [35, 110, 101, 120, 117, 115] (t.map lower) then t.drop 6 else s

/-- Nexus: `ntax` / `nchar` of the DATA block's `dimensions` command, when every declaration agrees -/
def declaredNexus (s : List Byte) : Option Int × Option Int :=
  let d := nexusDims (splitCommands (afterNexusWord (stripComments s false)) []) none
  (allSame d.1, allSame d.2)

/-! ### C02: representable alignments -/

def upper (b : Byte) : Byte := if 97 ≤ b && b ≤ 122 then b - 32 else b

/-- `- * ?` -/
def isSpecial (b : Byte) : Bool := b == 45 || b == 42 || b == 63

/-- IUPAC nucleotide codes ACGTU RYSWKM BDHV N, either case -/
def isNt (b : Byte) : Bool := [65, 67, 71, 84, 85, 82, 89, 83, 87, 75, 77, 66, 68, 72, 86, 78].contains (upper b)

/-- the 20 amino acids and the ambiguity codes B Z X, either case -/
def isAa (b : Byte) : Bool :=
  [65, 82, 78, 68, 67, 81, 69, 71, 72, 73, 76, 75, 77, 70, 80, 83, 84, 87, 89, 86, 66, 90, 88].contains (upper b)

/-- the alignment is nucleotide or protein (one alphabet for all rows), with `- * ?` -/
def residuesOk (rows : List XRow) : Bool :=
  rows.all (fun r => r.2.all fun b => isNt b || isSpecial b) ||
  rows.all (fun r => r.2.all fun b => isAa b || isSpecial b)

/-- printable, non-blank ASCII -/
def isPrintable (b : Byte) : Bool := 33 ≤ b && b ≤ 126

def rectangular (rows : List XRow) : Bool :=
  match rows with
  | [] => false
  | r :: t => 1 ≤ r.2.length && t.all (fun q => q.2.length == r.2.length)

/-- format-independent part of representability -/
def reprBase (rows : List XRow) : Bool :=
  rectangular rows && residuesOk rows && distinct (rows.map (·.1)) &&
    rows.all (fun r => !r.1.isEmpty && r.1.all isPrintable)

def upperName (n : Name) : Name := n.map upper

def isDecimal (n : Name) : Bool :=
  match n with
  | 45 :: t | 43 :: t => !t.isEmpty && t.all isDigit
  | _ => !n.isEmpty && n.all isDigit

def str (s : String) : List Byte := s.toUTF8.toList

/-- #NEXUS BEGIN DATA CHARACTERS TAXA TAXLABELS TREES TREE DIMENSIONS NTAX NCHAR FORMAT DATATYPE MISSING MATCHCHAR GAP
MATRIX END ENDBLOCK (byte literals: kernel-evaluable) -/
def nexusKeywords : List Name := [
  [35, 78, 69, 88, 85, 83],
  [66, 69, 71, 73, 78],
  [68, 65, 84, 65],
  [67, 72, 65, 82, 65, 67, 84, 69, 82, 83],
  [84, 65, 88, 65],
  [84, 65, 88, 76, 65, 66, 69, 76, 83],
  [84, 82, 69, 69, 83],
  [84, 82, 69, 69],
  [68, 73, 77, 69, 78, 83, 73, 79, 78, 83],
  [78, 84, 65, 88],
  [78, 67, 72, 65, 82],
  [70, 79, 82, 77, 65, 84],
  [68, 65, 84, 65, 84, 89, 80, 69],
  [77, 73, 83, 83, 73, 78, 71],
  [77, 65, 84, 67, 72, 67, 72, 65, 82],
  [71, 65, 80],
  [77, 65, 84, 82, 73, 88],
  [69, 78, 68],
  [69, 78, 68, 66, 76, 79, 67, 75]]

/-- FASTA: a name is one line (no line break, no leading blank: guaranteed by `isPrintable`) that
does not start with the record delimiter `>`. -/
def reprFasta (rows : List XRow) : Bool := reprBase rows && rows.all (fun r => r.1.head? != some 62)

/-- Phylip: names hold no blank (guaranteed by `isPrintable`); strict names are at most 10 bytes.
(In strict mode the writer pads to 10 columns and the reader removes spaces.) -/
def reprPhylip (strict : Bool) (rows : List XRow) : Bool :=
  reprBase rows && (!strict || rows.all (fun r => r.1.length ≤ 10))

/-- Nexus: names free of the delimiters `[ ] ; =` and not a reserved word (any case).  The property's
residue alphabet has no `.` (the match character).  *Residue rows* that spell a reserved word are
representable (the writer emits them) — the parser's rejection of them is a recorded finding. -/
def reprNexus (rows : List XRow) : Bool :=
  reprBase rows && rows.all (fun r =>
    r.1.all (fun b => b != 91 && b != 93 && b != 59 && b != 61) && !nexusKeywords.contains (upperName r.1))

/-- Clustal: names hold no blank; a name must not spell the header word. -/
def reprClustal (rows : List XRow) : Bool :=
  reprBase rows && rows.all (fun r => upperName r.1 != [67, 76, 85, 83, 84, 65, 76] && upperName r.1 != [67, 76, 85, 83, 84, 65, 76, 87])

/-- Stockholm: names free of `[ ] ; =`, not starting with `#`, not `//` and not the header word -/
def reprStockholm (rows : List XRow) : Bool :=
  reprBase rows && rows.all (fun r =>
    r.1.all (fun b => b != 91 && b != 93 && b != 59 && b != 61) && r.1.head? != some 35 &&
    r.1 != [47, 47] && upperName r.1 != [83, 84, 79, 67, 75, 72, 79, 76, 77])

def reprFmt (fmt : String) (strict : Bool) (rows : List XRow) : Bool :=
  match fmt with
  | "fasta" => reprFasta rows
  | "phylip" => reprPhylip strict rows
  | "nexus" => reprNexus rows
  | "clustal" => reprClustal rows
  | "stockholm" => reprStockholm rows
  | _ => false

end Gv.Spec.Fmt
