import Gv.Basic
import Gv.Num
import Gv.Spec.Published
/-!
Independent meaning of the inputs of the C07 estimators: which sites of a pair are comparable,
what counts as a difference / transition / transversion, and the alignment's base frequencies —
stated on the **residues** (characters) through IUPAC base sets, not on the bit codes and mutable
loops of the Go code (`Model/Dist.lean`).  Used by the oracle's verdict (at `Float`) to compute the
published estimator of every pair independently of the model.  Core-only.

Conventions fixed here (they are the reading of the property used by the check):
* a residue is a *nucleotide* iff it is one of the 15 IUPAC codes (either case); everything else
  (`-`, `*`, `.`, `X`) is a gap-like symbol;
* two nucleotides *differ* iff their base sets are disjoint (`R` vs `Y` differ, `N` vs `A` do not);
  in the gap-counting modes a nucleotide facing a gap-like symbol is a difference;
* a difference is a *transversion* iff one base set lies within the purines and the other within
  the pyrimidines, a *transition* iff both residues are single bases of the same class; a
  difference between ambiguity codes that is neither (e.g. `M` vs `G`) is counted in neither
  class by K80 / F84 / TN93, whose observed proportion of differences is therefore `P + Q`;
* with gap-site removal a site is kept iff every row holds one of A, C, G, T there;
* base frequencies: over the nucleotide cells of the kept sites, a cell of weight `w` holding a
  code with `k` bases gives `w/k` to each of them, normalised by the total weight of those cells.
-/
namespace Gv.Spec.Dist
open Gv

def up (c : Byte) : Byte := if 97 ≤ c ∧ c ≤ 122 then c - 32 else c

/-- IUPAC nucleotide code ↦ its bases (A=65 C=67 G=71 T=84); `none`: not a nucleotide -/
def baseSet (c : Byte) : Option (List Byte) :=
  match up c with
  | 65 => some [65] | 67 => some [67] | 71 => some [71] | 84 => some [84]
  | 82 => some [65, 71] | 89 => some [67, 84] | 83 => some [67, 71] | 87 => some [65, 84]
  | 75 => some [71, 84] | 77 => some [65, 67]
  | 66 => some [67, 71, 84] | 68 => some [65, 71, 84] | 72 => some [65, 67, 84] | 86 => some [65, 67, 71]
  | 78 => some [65, 67, 71, 84]
  | _ => none

def isNt (c : Byte) : Bool := (baseSet c).isSome
def bases (c : Byte) : List Byte := (baseSet c).getD []
def isAmbiguous (c : Byte) : Bool := (bases c).length > 1
def isPlainBase (c : Byte) : Bool := (bases c).length == 1
/-- symbols the distance code accepts at all (others make `InitModel` fail) -/
def isGapLike (c : Byte) : Bool := c == 45 || c == 42 || c == 46 || up c == 88

def purines : List Byte := [65, 71]
def pyrimidines : List Byte := [67, 84]
def within (s cls : List Byte) : Bool := !s.isEmpty && s.all (cls.contains ·)
def disjoint (s t : List Byte) : Bool := s.all (!t.contains ·)

/-- both are nucleotides and they share no base -/
def differ (x y : Byte) : Bool := isNt x && isNt y && disjoint (bases x) (bases y)
/-- difference in the gap-counting modes: as `differ`, or a nucleotide facing a gap-like symbol -/
def differWithGaps (x y : Byte) : Bool := differ x y || (isNt x != isNt y)

def isTransversion (x y : Byte) : Bool :=
  (within (bases x) purines && within (bases y) pyrimidines) ||
  (within (bases x) pyrimidines && within (bases y) purines)
def isTransition (x y : Byte) : Bool :=
  isPlainBase x && isPlainBase y && up x != up y &&
  ((within (bases x) purines && within (bases y) purines) || (within (bases x) pyrimidines && within (bases y) pyrimidines))
def isAG (x y : Byte) : Bool := isTransition x y && within (bases x) purines
def isCT (x y : Byte) : Bool := isTransition x y && within (bases x) pyrimidines

/-- site kept under gap-site removal: every row holds A, C, G or T (either case) -/
def keptSite (rows : List Seq) (rmGaps : Bool) (l : Nat) : Bool :=
  !rmGaps || rows.all fun s => [65, 67, 71, 84].contains (up (s.getD l 0))

inductive GapMode | none | internal | all
deriving BEq, Repr

/-- position of the first / last nucleotide of a row -/
def firstNt (s : Seq) : Option Nat := (List.range s.length).find? fun i => isNt (s.getD i 0)
def lastNt (s : Seq) : Option Nat := (List.range s.length).reverse.find? fun i => isNt (s.getD i 0)

/-- is position `l` of the pair compared in the given gap mode (before site removal)? -/
def comparable (mode : GapMode) (s t : Seq) (l : Nat) : Bool :=
  let x := s.getD l 0
  let y := t.getD l 0
  match mode with
  | .none => isNt x && isNt y
  | .all => isNt x || isNt y
  | .internal =>
    (isNt x || isNt y) &&
    (match firstNt s, firstNt t, lastNt s, lastNt t with
     | some f1, some f2, some l1, some l2 => max f1 f2 ≤ l && l ≤ min l1 l2
     | _, _, _, _ => false)

section
variable {α : Type} [RealLike α]

def sum (l : List α) : α := l.foldl (· + ·) 0

def weightAt (ws : Option (List α)) (l : Nat) : α := match ws with | none => 1 | some v => v.getD l 1

/-- positions of the pair that enter the estimator -/
def pairSites (mode : GapMode) (kept : Nat → Bool) (s t : Seq) : List Nat :=
  (List.range s.length).filter fun l => comparable mode s t l && kept l

structure Counts (α : Type) where
  /-- weight of the differing sites -/
  diffs : α
  /-- weight of the compared sites (the denominator of the proportions) -/
  total : α
  transitions : α
  transversions : α
  ag : α
  ct : α

/-- the sufficient statistics of a pair.  `rmAmb` (p-distance only): compatible sites holding an
ambiguity code are left out of the denominator -/
def counts (mode : GapMode) (rmAmb : Bool) (kept : Nat → Bool) (ws : Option (List α)) (s t : Seq) : Counts α :=
  let ps := pairSites mode kept s t
  let wsum := fun (f : Byte → Byte → Bool) => sum ((ps.filter fun l => f (s.getD l 0) (t.getD l 0)).map (weightAt ws))
  let dropped := fun (x y : Byte) => rmAmb && !differWithGaps x y && (isAmbiguous x || isAmbiguous y)
  { diffs := wsum differWithGaps
    total := wsum fun x y => !dropped x y
    transitions := wsum isTransition
    transversions := wsum isTransversion
    ag := wsum isAG
    ct := wsum isCT }

/-- share of base `b` in the cells of the kept sites; `overAllCells`: divide by the weight of all
cells of the kept sites (gap-like symbols included) instead of the nucleotide cells — this is what
the unchanged `probaNt` does and is only used to attribute a failure to that cause -/
def baseFreq (overAllCells : Bool) (rows : List Seq) (kept : Nat → Bool) (ws : Option (List α)) (b : Byte) : α :=
  let cells : List (Byte × Nat) := rows.flatMap fun s => ((List.range s.length).filter kept).map fun l => (s.getD l 0, l)
  let num := sum (cells.map fun c =>
    if (bases c.1).contains b then weightAt ws c.2 / RealLike.ofNat (bases c.1).length else 0)
  let den := sum ((cells.filter fun c => overAllCells || isNt c.1).map fun c => weightAt ws c.2)
  num / den

end
end Gv.Spec.Dist
