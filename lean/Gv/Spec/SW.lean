import Gv.Basic
/-!
What C09 *means*, independently of `Gv.Model.SW`:

* a local alignment of `s1`, `s2` is a pair of start offsets and a list of columns (residue pair,
  residue of `s1` over a gap, gap over a residue of `s2`) whose residues spell substrings of the
  inputs beginning at the offsets;
* its score under a scheme (substitution function, affine gap: a maximal run of `n` gap columns of
  the same kind costs `gapopen + (n-1)·gapextend`);
* `enumBest`: the best score over *all* local alignments by literally enumerating every column list
  from every pair of start offsets (exponential; the reference for tiny inputs); `bruteFrom` is the
  same search written as a recursion on scores;
* `gotohBest`: the same optimum by an O(|s1|·|s2|) three-state dynamic program (Gotoh 1982), written
  over *suffixes* with one explicit value per end state — a formulation different from the
  prefix/running-maximum one of the Go code.

`Gv.Props.C09` relates them: the enumeration is complete, and `gotohBest` is an upper bound on the
score of every local alignment that some local alignment attains.
Core-only.
-/
namespace Gv.Spec.SW
open Gv

/-- one alignment column -/
inductive Col
  | pair (a b : Byte)   -- residue of s1 over residue of s2
  | gap2 (a : Byte)     -- residue of s1 over a gap
  | gap1 (b : Byte)     -- gap over residue of s2
  deriving DecidableEq, Repr

/-- kind of the previous column (`m` also stands for "no previous column") -/
inductive St | m | x | y
  deriving DecidableEq, Repr

structure Scheme where
  sub : Byte → Byte → Int
  gapopen : Int
  gapext : Int

def Col.kind : Col → St
  | .pair _ _ => .m
  | .gap2 _ => .x
  | .gap1 _ => .y

/-- cost of entering a gap column of kind `k` after a column of kind `prev` -/
def gapCost (S : Scheme) (prev k : St) : Int := if prev = k then S.gapext else S.gapopen

def colScore (S : Scheme) (prev : St) : Col → Int
  | .pair a b => S.sub a b
  | .gap2 _ => gapCost S prev .x
  | .gap1 _ => gapCost S prev .y

/-- score of a column list entered from state `prev` -/
def scoreFrom (S : Scheme) : St → List Col → Int
  | _, [] => 0
  | prev, c :: t => colScore S prev c + scoreFrom S c.kind t

/-- score of an alignment -/
def score (S : Scheme) (cols : List Col) : Int := scoreFrom S .m cols

/-- residues of `s1` (resp. `s2`) spelled by the columns -/
def proj1 : List Col → Seq
  | [] => []
  | .pair a _ :: t => a :: proj1 t
  | .gap2 a :: t => a :: proj1 t
  | .gap1 _ :: t => proj1 t

def proj2 : List Col → Seq
  | [] => []
  | .pair _ b :: t => b :: proj2 t
  | .gap2 _ :: t => proj2 t
  | .gap1 b :: t => b :: proj2 t

/-- the columns align a prefix of `s` with a prefix of `t` -/
def Anchored (s t : Seq) (cols : List Col) : Prop := proj1 cols <+: s ∧ proj2 cols <+: t

/-- `cols` is a local alignment of `s1`, `s2` starting at offsets `p1`, `p2` -/
def IsLocal (s1 s2 : Seq) (p1 p2 : Nat) (cols : List Col) : Prop :=
  p1 ≤ s1.length ∧ p2 ≤ s2.length ∧ Anchored (s1.drop p1) (s2.drop p2) cols

/-! ### exhaustive reference -/

def max3 (a b c : Int) : Int := max a (max b c)

def maxList (l : List Int) : Int := l.foldl max 0

/-- all suffixes, the list itself first, `[]` last -/
def suffixes {α} : List α → List (List α)
  | [] => [[]]
  | a :: t => (a :: t) :: suffixes t

/-- every column list aligning a prefix of `[]` with a prefix of `t` -/
def enum0 : Seq → List (List Col)
  | [] => [[]]
  | b :: t => [] :: (enum0 t).map (Col.gap1 b :: ·)

/-- every column list aligning a prefix of `a :: s` with a prefix of the argument, given the
enumeration `rec` for `s` -/
def enumInner (a : Byte) (rec : Seq → List (List Col)) : Seq → List (List Col)
  | [] => [] :: (rec []).map (Col.gap2 a :: ·)
  | b :: t =>
    [] :: ((rec t).map (Col.pair a b :: ·) ++ (rec (b :: t)).map (Col.gap2 a :: ·)
           ++ (enumInner a rec t).map (Col.gap1 b :: ·))

/-- **every** column list aligning a prefix of `s` with a prefix of `t` (brute-force enumeration) -/
def enumAnchored : Seq → Seq → List (List Col)
  | [] => enum0
  | a :: s => enumInner a (enumAnchored s)

/-- optimum over all local alignments by enumeration: all start offsets, all column lists -/
def enumBest (S : Scheme) (s1 s2 : Seq) : Int :=
  maxList ((suffixes s1).flatMap fun s => (suffixes s2).flatMap fun t =>
    (enumAnchored s t).map (score S))

/-- the same search as a recursion on scores: best score of a column list anchored at the heads of
the two sequences and entered from `prev` (the empty list scores 0), trying every continuation;
exponential. -/
def brute0 (S : Scheme) : Seq → St → Int
  | [], _ => 0
  | _ :: t, prev => max 0 (gapCost S prev .y + brute0 S t .y)

def bruteInner (S : Scheme) (a : Byte) (rec : Seq → St → Int) : Seq → St → Int
  | [], prev => max 0 (gapCost S prev .x + rec [] .x)
  | b :: t, prev =>
    max 0 (max3 (S.sub a b + rec t .m)
                (gapCost S prev .x + rec (b :: t) .x)
                (gapCost S prev .y + bruteInner S a rec t .y))

def bruteFrom (S : Scheme) : Seq → Seq → St → Int
  | [] => brute0 S
  | a :: s => bruteInner S a (bruteFrom S s)

/-! ### Gotoh dynamic program over suffixes -/

/-- best anchored score per entry state -/
structure Trip where
  m : Int
  x : Int
  y : Int
  deriving Repr, DecidableEq

def Trip.zero : Trip := ⟨0, 0, 0⟩
def Trip.get (p : Trip) : St → Int
  | .m => p.m | .x => p.x | .y => p.y

def Trip.ofFn (f : St → Int) : Trip := ⟨f .m, f .x, f .y⟩

/-- row for the empty first sequence: entry `k` belongs to the suffix `t.drop k` (`|t| + 1`
entries); only gaps over `t` remain -/
def gotohRow0 (S : Scheme) : Seq → List Trip
  | [] => [Trip.zero]
  | _ :: t =>
    let rest := gotohRow0 S t
    let right := (rest.headD Trip.zero).y
    Trip.ofFn (fun st => max 0 (gapCost S st .y + right)) :: rest

/-- row for `a :: s` from the row `prev` of `s` -/
def gotohRow (S : Scheme) (a : Byte) : Seq → List Trip → List Trip
  | [], prev =>
    let down := (prev.headD Trip.zero).x
    [Trip.ofFn fun st => max 0 (gapCost S st .x + down)]
  | b :: t, prev =>
    let rest := gotohRow S a t (prev.drop 1)
    let down := (prev.headD Trip.zero).x            -- (s, b :: t) entered in state x
    let diag := S.sub a b + ((prev.drop 1).headD Trip.zero).m
    let right := (rest.headD Trip.zero).y           -- (a :: s, t) entered in state y
    Trip.ofFn (fun st => max 0 (max3 diag (gapCost S st .x + down) (gapCost S st .y + right))) :: rest

/-- rows for all suffixes of `s1`, the row of `s1` itself first -/
def gotohRows (S : Scheme) : Seq → Seq → List (List Trip)
  | [], t => [gotohRow0 S t]
  | a :: s, t =>
    let rs := gotohRows S s t
    gotohRow S a t (rs.headD []) :: rs

/-- optimum over all local alignments by dynamic programming: the best `m`-entry of any cell -/
def gotohBest (S : Scheme) (s1 s2 : Seq) : Int :=
  maxList ((gotohRows S s1 s2).flatMap fun r => r.map (·.m))

/-! ### reading an alignment back from two gapped rows -/

/-- columns of two gapped rows of equal length; `none` on an all-gap column or unequal lengths -/
def colsOfRows : Seq → Seq → Option (List Col)
  | [], [] => some []
  | c1 :: r1, c2 :: r2 =>
    if c1 == GAP && c2 == GAP then none
    else
      (colsOfRows r1 r2).map fun t =>
        (if c2 == GAP then Col.gap2 c1 else if c1 == GAP then Col.gap1 c2 else Col.pair c1 c2) :: t
  | _, _ => none

end Gv.Spec.SW
