import Gv.Basic
import Gv.Spec.Genetic
/-!
Naive definitions of the column statistics of property C14, written independently of the model
(`Gv.Model.Stats`): plain recounts over `List (String × List UInt8)`; no loops, no accumulators, no
early exits.  Core-only.
-/
namespace Gv.Spec
open Gv

/-- all byte values in increasing order -/
def allBytes : List Byte := (List.range 256).map UInt8.ofNat

/-- number of characters of `cs` whose image under `f` is `k` -/
def occ (f : Byte → Byte) (cs : List Byte) (k : Byte) : Nat := cs.countP fun c => f c == k

/-- a table of positive counts, listed by increasing key (canonical rendering of a Go map `char ↦ count`) -/
def tableOf (g : Byte → Nat) : List (Byte × Nat) :=
  allBytes.filterMap fun k => if g k > 0 then some (k, g k) else none

/-- count table of the images under `f` of the characters of `cs` -/
def countTable (f : Byte → Byte) (cs : List Byte) : List (Byte × Nat) := tableOf (occ f cs)

/-- ASCII upper-casing (what `unicode.ToUpper` does on bytes < 128) -/
def upperCase (c : Byte) : Byte := if 97 ≤ c ∧ c ≤ 122 then c - 32 else c

/-- column `j` (byte 0 where a row is too short: never the case in an alignment) -/
def column (rows : List (String × Seq)) (j : Nat) : List Byte := rows.map fun r => r.2.getD j 0

/-- `CharStats`: every character of every row, upper-cased -/
def charStats (rows : List (String × Seq)) : List (Byte × Nat) := countTable upperCase (rows.flatMap Prod.snd)

/-- `UniqueCharacters`: the byte values that are the upper-case form of some residue, increasing -/
def uniqueCharacters (rows : List (String × Seq)) : List Byte :=
  allBytes.filter fun k => (rows.flatMap Prod.snd).any fun c => upperCase c == k

/-- `CharStatsSeq(idx)`: defined exactly for `0 ≤ idx < number of rows` -/
def charStatsSeq (rows : List (String × Seq)) (idx : Int) : Option (List (Byte × Nat)) :=
  if 0 ≤ idx ∧ idx < rows.length then some (countTable upperCase (rows.getD idx.toNat ("", [])).2) else none

/-- `CharStatsSite(site)`: defined exactly for `0 ≤ site < L` -/
def charStatsSite (rows : List (String × Seq)) (L : Int) (site : Int) : Option (List (Byte × Nat)) :=
  if 0 ≤ site ∧ site < L then some (countTable upperCase (column rows site.toNat)) else none

/-- characters that the site measures look at: not `-`, `.`, `*` -/
def plain (c : Byte) : Bool := c != 45 && c != 46 && c != 42

/-- a site is variable when it holds two different plain characters -/
def isVariable (col : List Byte) : Bool :=
  (col.filter plain).any fun a => (col.filter plain).any fun b => a != b

def nbVariableSites (rows : List (String × Seq)) (L : Nat) : Nat :=
  ((List.range L).filter fun j => isVariable (column rows j)).length

/-- number of byte values occurring (as they are) among the characters -/
def nbDistinct (cs : List Byte) : Nat := (allBytes.filter fun k => cs.contains k).length

/-- `AvgAllelesPerSite` = first component / second component: distinct plain characters summed over the
sites, and the number of sites holding a plain character -/
def allelesCounts (rows : List (String × Seq)) (L : Nat) : Nat × Nat :=
  (((List.range L).map fun j => nbDistinct ((column rows j).filter plain)).sum,
   ((List.range L).filter fun j => (column rows j).any plain).length)

/-- Shannon entropy (natural logarithm) of a site over the characters other than `*`, `.` (and `-` when gaps
are removed): `− Σ p log p` over the characters present, taken in increasing order; NaN when no character
is left; defined exactly for `0 ≤ site < L` -/
def entropy (rows : List (String × Seq)) (L : Int) (site : Int) (removegaps : Bool) : Option Float :=
  if 0 ≤ site ∧ site < L then
    let col := (column rows site.toNat).filter fun s => s != 42 && s != 46 && (!removegaps || s != 45)
    if col.length = 0 then some (0.0 / 0.0)
    else some ((countTable id col).foldl (fun e p =>
      let proba := Float.ofNat p.2 / Float.ofNat col.length
      e - proba * Float.log proba) 0.0)
  else none

/-- the wildcard of an alphabet code (0 amino acids: `X`, 1 nucleotides: `N`, otherwise `.`) -/
def wildcardOf (alphabet : Nat) : Byte := if alphabet = 0 then 88 else if alphabet = 1 then 78 else 46

/-- a site is parsimony-informative when at least two (upper-cased) characters occur at least twice each
among the characters other than `-`, `.` and the wildcard -/
def isInformative (all : Byte) (col : List Byte) : Bool :=
  let kept := col.filter fun s => s != 45 && s != 46 && s != all
  decide ((allBytes.filter fun k => occ upperCase kept k ≥ 2).length ≥ 2)

def informativeSites (rows : List (String × Seq)) (L : Nat) (alphabet : Nat) : List Nat :=
  (List.range L).filter fun j => isInformative (wildcardOf alphabet) (column rows j)

/-- gaps of row `i` that no other row shares: sites where row `i` has a gap and the column has one gap -/
def gapsUniqueOf (rows : List (String × Seq)) (L : Nat) (i : Nat) : Nat :=
  ((List.range L).filter fun j => (column rows j).getD i 0 == 45 && (column rows j).count 45 == 1).length

def numGapsUnique (rows : List (String × Seq)) (L : Nat) : List Nat := (List.range rows.length).map (gapsUniqueOf rows L)

/-- characters of row `i` (neither gap nor wildcard) that occur once in their column -/
def mutationsUniqueOf (all : Byte) (rows : List (String × Seq)) (L : Nat) (i : Nat) : Nat :=
  ((List.range L).filter fun j =>
    let c := (column rows j).getD i 0
    c != all && c != 45 && (column rows j).count c == 1).length

def numMutationsUnique (rows : List (String × Seq)) (L : Nat) (alphabet : Nat) : List Nat :=
  (List.range rows.length).map (mutationsUniqueOf (wildcardOf alphabet) rows L)

/-- some residue of the first `L` columns is a byte ≥ 130 (not ASCII) -/
def hasHighByte (rows : List (String × Seq)) (L : Nat) : Bool := (List.range L).any fun j => (column rows j).any fun r => r ≥ 130

/-- first occurrences, in order -/
def firstOccurrences {α : Type} [BEq α] : List α → List α
  | [] => []
  | a :: t => a :: (firstOccurrences t).filter (· != a)

/-- the differences of a row with the first row: pairs (first row's character, this row's character) at
the positions where they differ -/
def diffsOf (first row : Seq) : List (Byte × Byte) := (first.zip row).filter fun p => p.1 != p.2

/-- `CountDifferences`: every kind of difference in order of first appearance (row by row, left to right)
and, per row other than the first, how often each kind occurs -/
def allDiffs (rows : List (String × Seq)) : List (Byte × Byte) :=
  match rows with
  | [] => []
  | f :: rest => firstOccurrences (rest.flatMap fun r => diffsOf f.2 r.2)

def diffCount (first row : Seq) (p : Byte × Byte) : Nat := (diffsOf first row).count p

/-! ### count profile -/

/-- number of rows whose residue at site `j` is exactly `r` (no case folding) -/
def profileCountAt (rows : List (String × Seq)) (j : Nat) (r : Byte) : Nat :=
  (rows.filter fun row => row.2[j]? == some r).length

/-- the characters of the profile, in order of first appearance (row after row, left to right) -/
def profileHeader (rows : List (String × Seq)) : List Byte := firstOccurrences (rows.flatMap Prod.snd)

/-- `Count(r, site)`: defined for the characters occurring in the alignment and `0 ≤ site < L` -/
def profileCount (rows : List (String × Seq)) (L : Nat) (r : Byte) (site : Int) : Option Nat :=
  if r ∈ rows.flatMap Prod.snd ∧ 0 ≤ site ∧ site < L then some (profileCountAt rows site.toNat r) else none

/-- does the length check of the unique-gap / unique-mutation counters accept a profile built from `prows`
(sites `Lp`) for an alignment of `L` sites: every character of the profile has `L` counters -/
def profileFits (prows : List (String × Seq)) (Lp L : Nat) : Bool := (prows.flatMap Prod.snd).isEmpty || Lp == L

/-- `NumGapsUniquePerSequence(profile)` for row `i`: gaps that are the only one of their column; gaps at sites
where the profile has no gap; gaps that are both -/
def gapsWithProfileOf (rows prows : List (String × Seq)) (L : Nat) (i : Nat) : Nat × Nat × Nat :=
  let isGap := fun j => (column rows j).getD i 0 == 45
  let uniq := fun j => (column rows j).count 45 == 1
  let isNew := fun j => profileCountAt prows j 45 == 0
  (((List.range L).filter fun j => isGap j && uniq j).length,
   ((List.range L).filter fun j => isGap j && isNew j).length,
   ((List.range L).filter fun j => isGap j && uniq j && isNew j).length)

/-- `NumMutationsUniquePerSequence(profile)` for row `i`: characters (neither gap nor wildcard) occurring once
in their column; characters the profile does not have at that site; both -/
def mutationsWithProfileOf (all : Byte) (rows prows : List (String × Seq)) (L : Nat) (i : Nat) : Nat × Nat × Nat :=
  let ch := fun j => (column rows j).getD i 0
  let counted := fun j => ch j != all && ch j != 45
  let uniq := fun j => (column rows j).count (ch j) == 1
  let isNew := fun j => profileCountAt prows j (ch j) == 0
  (((List.range L).filter fun j => counted j && uniq j).length,
   ((List.range L).filter fun j => counted j && isNew j).length,
   ((List.range L).filter fun j => counted j && uniq j && isNew j).length)

/-! ### differences with a reference sequence -/

/-- what a nucleotide character stands for: an IUPAC letter (either case) ↦ its bases (in the order A, C, G, T);
`-`, `*`, `X`, `.` ↦ no base; any other character is not a nucleotide character -/
def ntBases (c : Byte) : Option (List Byte) :=
  match upperCase c with
  | 65 => some [65] | 67 => some [67] | 71 => some [71] | 84 => some [84]
  | 82 => some [65, 71] | 89 => some [67, 84] | 83 => some [67, 71] | 87 => some [65, 84]
  | 75 => some [71, 84] | 77 => some [65, 67]
  | 66 => some [67, 71, 84] | 68 => some [65, 71, 84] | 72 => some [65, 67, 84] | 86 => some [65, 67, 71]
  | 78 => some [65, 67, 71, 84]
  | 45 => some [] | 42 => some [] | 88 => some [] | 46 => some []
  | _ => none

def basesOf (c : Byte) : List Byte := (ntBases c).getD []

/-- the same set of bases, or a base in common -/
def compatible (X Y : List Byte) : Bool := X == Y || X.any fun b => Y.contains b

/-- `NumMutationsComparedToReferenceSequence`: positions whose query character is neither a gap nor the
wildcard (`N` for nucleotides, `X` otherwise) and is incompatible with (nucleotides) / different from
(otherwise) the reference character.  Error: different lengths, or (nucleotides) a character that is not a
nucleotide character. -/
def numMutations (alphabet : Nat) (s ref : Seq) : Option Nat :=
  if s.length ≠ ref.length then none
  else if alphabet = 1 then
    if (ref ++ s).all (fun c => (ntBases c).isSome) then
      some ((s.zip ref).countP fun p => p.1 != 45 && p.1 != 78 && !(compatible (basesOf p.1) (basesOf p.2)))
    else none
  else some ((s.zip ref).countP fun p => p.1 != 45 && p.1 != 88 && p.1 != p.2)

/-- one aligned position: query character, reference character, "equal or compatible" -/
abbrev Facing := Byte × Byte × Bool

/-- the pairwise alignment cut after each reference residue: a block is the run of query characters
inserted before a reference residue (those facing reference gaps; query gaps dropped) together with the
aligned pair of that residue; the last block has no residue -/
def blocks : List Facing → List (List Byte × Option Facing)
  | [] => [([], none)]
  | x :: t =>
    if x.2.1 == 45 then
      match blocks t with
      | (ins, o) :: bs => ((if x.1 != 45 then x.1 :: ins else ins), o) :: bs
      | [] => []
    else ([], some x) :: blocks t

/-- the mutations of the block at reference coordinate `p`: one insertion (reference `-`) holding all
inserted characters, then the substitution when the query character is not the wildcard and is not
equal/compatible (a deleted residue, query `-`, is listed like a substitution) -/
def renderBlock (all : Byte) (b : (List Byte × Option Facing) × Nat) : List (Byte × Nat × List Byte) :=
  (if b.1.1.isEmpty then [] else [(45, b.2, b.1.1)]) ++
  (match b.1.2 with
   | some (c, r, eq) => if c != all && !eq then [(r, b.2, [c])] else []
   | none => [])

def mutationList (all : Byte) (l : List Facing) : List (Byte × Nat × List Byte) :=
  (blocks l).zipIdx.flatMap (renderBlock all)

/-- `ListMutationsComparedToReferenceSequence(alphabet, ref, false)` -/
def mutationListVsRef (alphabet : Nat) (s ref : Seq) : Option (List (Byte × Nat × List Byte)) :=
  if s.length ≠ ref.length then none
  else if alphabet = 1 then
    if (ref ++ s).all (fun c => (ntBases c).isSome) then
      some (mutationList 78 ((s.zip ref).map fun p => (p.1, p.2, compatible (basesOf p.1) (basesOf p.2))))
    else none
  else some (mutationList 88 ((s.zip ref).map fun p => (p.1, p.2, p.1 == p.2)))

/-! ### codon-wise differences with a reference sequence (`--aa`) -/

/-- what the query shows in a window of columns: `-` when it holds only gaps, `/` when the number of its residues is
not a multiple of three (a possible frameshift), else the amino acids of its residues read three by three -/
def aaAlt (tr : Byte → Byte → Byte → Byte) (q : Seq) : List Byte :=
  let t := q.filter (· != 45)
  if t.length = 0 then [45] else if t.length % 3 ≠ 0 then [47]
  else (List.range (t.length / 3)).map fun k => tr (t.getD (3 * k) 0) (t.getD (3 * k + 1) 0) (t.getD (3 * k + 2) 0)

/-- columns `i … j` -/
def window (s : Seq) (i j : Nat) : Seq := (s.drop i).take (j + 1 - i)

/-- the columns of the reference that hold a residue, from left to right -/
def resCols (ref : Seq) : List Nat := (List.range ref.length).filter fun i => ref.getD i 45 != 45

/-- the entries in front of and at reference codon `k` (residues `3k, 3k+1, 3k+2` of the reference; `k` = the number of
complete codons stands for what follows the last one).  The run of reference gaps that starts right after codon
`k − 1` is read three columns at a time (a possible insertion of one amino acid after codon `k − 1`: reference `-`,
position `k − 1`, hence −1 in front of the first codon; the `run mod 3` columns left over are not looked at); codon `k`
itself spans the columns from its first to its third residue.  An entry is listed exactly when what the query shows is
not the reference amino acid alone. -/
def aaMutationsAt (tr : Byte → Byte → Byte → Byte) (s ref : Seq) (k : Nat) : List (Byte × Int × List Byte) :=
  let cols := resCols ref
  let e := if k = 0 then 0 else cols.getD (3 * k - 1) 0 + 1
  let run := ((ref.drop e).takeWhile (· == 45)).length
  let ins := (List.range (run / 3)).filterMap fun t =>
    let alt := aaAlt tr (window s (e + 3 * t) (e + 3 * t + 2))
    if alt = [45] then none else some ((45 : Byte), (k : Int) - 1, alt)
  let codon :=
    if 3 * k + 2 < cols.length then
      let i := cols.getD (3 * k) 0
      let j := cols.getD (3 * k + 2) 0
      let refaa := tr (ref.getD i 0) (ref.getD (cols.getD (3 * k + 1) 0) 0) (ref.getD j 0)
      let alt := aaAlt tr (window s i j)
      if alt = [refaa] then [] else [(refaa, (k : Int), alt)]
    else []
  ins ++ codon

/-- `ListMutationsComparedToReferenceSequence(alphabet, ref, true)`: the reference is read codon by codon (its residues
three by three, whatever gaps lie between them), translated with the standard genetic code (NCBI table 1).
Error: different lengths, an alphabet other than nucleotides. -/
def aaMutations (alphabet : Nat) (s ref : Seq) : Option (List (Byte × Int × List Byte)) :=
  if s.length ≠ ref.length then none
  else if alphabet ≠ 1 then none
  else some ((List.range ((resCols ref).length / 3 + 1)).flatMap (aaMutationsAt (translateCodon ncbi1) s ref))

end Gv.Spec
