import Mathlib.Analysis.SpecialFunctions.Log.Basic
import Mathlib.Analysis.SpecialFunctions.Pow.Real
import Gv.NumReal
/-!
`RealLike` at `ℝ` (the regenerated numeric code is reasoned about here) and at `FVal`, an
IEEE-754-like interpretation with NaN and the two infinities (DESIGN §4.2): `log` of a negative
number and `0/0` are NaN, `x/0` is an infinity, every comparison with NaN is false.
Not modelled: rounding, overflow of finite results, signed zeros.
Imports Mathlib: never imported by the oracle.
-/
namespace Gv
open Classical

namespace RealR
theorem ofNat_def (n : ℕ) : (@OfNat.ofNat ℝ n (@instOfNatOfRealLike ℝ instRealLikeReal n)) = (n : ℝ) := rfl
theorem log_def (a : ℝ) : RealLike.log a = Real.log a := rfl
theorem exp_def (a : ℝ) : RealLike.exp a = Real.exp a := rfl
theorem pow_def (a b : ℝ) : RealLike.pow a b = a ^ b := rfl
theorem sqrt_def (a : ℝ) : RealLike.sqrt a = Real.sqrt a := rfl
theorem abs_def (a : ℝ) : RealLike.abs a = |a| := rfl
theorem ltb_def (a b : ℝ) : RealLike.ltb a b = decide (a < b) := rfl
theorem leb_def (a b : ℝ) : RealLike.leb a b = decide (a ≤ b) := rfl
theorem eqb_def (a b : ℝ) : RealLike.eqb a b = decide (a = b) := rfl
end RealR

/-- normalises a term built with the `RealLike ℝ` instance into ordinary real arithmetic -/
syntax "real_like" (Lean.Parser.Tactic.location)? : tactic
macro_rules
  | `(tactic| real_like $[$loc]?) => `(tactic|
    (simp only [RealR.ofNat_def, RealR.log_def, RealR.exp_def, RealR.pow_def, RealR.sqrt_def, RealR.abs_def,
       RealR.ltb_def, RealR.leb_def, RealR.eqb_def] $[$loc]?
     try simp only [Nat.cast_ofNat, Nat.cast_zero, Nat.cast_one] $[$loc]?
     try dsimp only [instRealLikeReal] $[$loc]?))

/-! ## IEEE-like special values -/

/-- a `float64` up to rounding: NaN, the two infinities, or a real number (no signed zero) -/
inductive FVal where
  | nan | pinf | ninf
  | fin (x : ℝ)

namespace FVal

noncomputable def neg : FVal → FVal
  | nan => nan | pinf => ninf | ninf => pinf | fin x => fin (-x)

noncomputable def add : FVal → FVal → FVal
  | nan, _ => nan | _, nan => nan
  | pinf, ninf => nan | ninf, pinf => nan
  | pinf, _ => pinf | _, pinf => pinf
  | ninf, _ => ninf | _, ninf => ninf
  | fin x, fin y => fin (x + y)

noncomputable def sub (a b : FVal) : FVal := add a (neg b)

/-- an infinity of the given sign times `y` -/
noncomputable def infMul (pos : Bool) : FVal → FVal
  | nan => nan
  | pinf => if pos then pinf else ninf
  | ninf => if pos then ninf else pinf
  | fin y => if y = 0 then nan else if (0 < y) = pos then pinf else ninf

noncomputable def mul : FVal → FVal → FVal
  | nan, _ => nan | _, nan => nan
  | pinf, y => infMul true y | ninf, y => infMul false y
  | x, pinf => infMul true x | x, ninf => infMul false x
  | fin x, fin y => fin (x * y)

noncomputable def div : FVal → FVal → FVal
  | nan, _ => nan | _, nan => nan
  | pinf, pinf => nan | pinf, ninf => nan | ninf, pinf => nan | ninf, ninf => nan
  | fin _, pinf => fin 0 | fin _, ninf => fin 0
  | pinf, fin y => if 0 ≤ y then pinf else ninf
  | ninf, fin y => if 0 ≤ y then ninf else pinf
  | fin x, fin y => if y = 0 then (if x = 0 then nan else if 0 < x then pinf else ninf) else fin (x / y)

/-- `math.Log`: NaN below zero, `-Inf` at zero -/
noncomputable def log : FVal → FVal
  | nan => nan | pinf => pinf | ninf => nan
  | fin x => if x < 0 then nan else if x = 0 then ninf else fin (Real.log x)

noncomputable def exp : FVal → FVal
  | nan => nan | pinf => pinf | ninf => fin 0 | fin x => fin (Real.exp x)

/-- `math.Pow` (its special cases for zero exponent, unit base, zero and negative bases, infinities) -/
noncomputable def pow : FVal → FVal → FVal
  | x, fin e =>
    if e = 0 then fin 1 else
    match x with
    | nan => nan
    | pinf => if e < 0 then fin 0 else pinf
    | ninf => if e < 0 then fin 0 else if ∃ k : ℤ, e = 2 * k + 1 then ninf else pinf
    | fin b =>
      if b = 1 then fin 1
      else if 0 < b then fin (b ^ e)
      else if b = 0 then (if e < 0 then pinf else fin 0)
      else if ∃ k : ℤ, e = k then fin (b ^ (⌊e⌋ : ℤ)) else nan
  | fin b, pinf => if b = 1 then fin 1 else if |b| < 1 then fin 0 else if |b| = 1 then fin 1 else pinf
  | fin b, ninf => if b = 1 then fin 1 else if |b| < 1 then pinf else if |b| = 1 then fin 1 else fin 0
  | _, nan => nan
  | nan, _ => nan
  | pinf, pinf => pinf | ninf, pinf => pinf
  | pinf, ninf => fin 0 | ninf, ninf => fin 0

noncomputable def sqrt : FVal → FVal
  | nan => nan | pinf => pinf | ninf => nan
  | fin x => if x < 0 then nan else fin (Real.sqrt x)

noncomputable def abs : FVal → FVal
  | nan => nan | pinf => pinf | ninf => pinf | fin x => fin |x|

/-- Go `<` (false as soon as one side is NaN) -/
noncomputable def ltb : FVal → FVal → Bool
  | nan, _ => false | _, nan => false
  | pinf, _ => false | _, ninf => false
  | ninf, _ => true
  | fin _, pinf => true
  | fin x, fin y => decide (x < y)

noncomputable def eqb : FVal → FVal → Bool
  | pinf, pinf => true | ninf, ninf => true
  | fin x, fin y => decide (x = y)
  | _, _ => false

noncomputable def leb (a b : FVal) : Bool := ltb a b || eqb a b

end FVal

noncomputable instance instRealLikeFVal : RealLike FVal where
  add := FVal.add
  sub := FVal.sub
  mul := FVal.mul
  div := FVal.div
  neg := FVal.neg
  log := FVal.log
  exp := FVal.exp
  pow := FVal.pow
  sqrt := FVal.sqrt
  abs := FVal.abs
  ltb := FVal.ltb
  leb := FVal.leb
  eqb := FVal.eqb
  ofNat := fun n => FVal.fin (n : ℝ)

namespace FVal
open RealLike

/-! simp lemmas: arithmetic of finite values, and the special values that the estimators meet -/
@[simp] theorem ofNat_eq (n : ℕ) : (@OfNat.ofNat FVal n (@instOfNatOfRealLike FVal instRealLikeFVal n)) = fin (n : ℝ) := rfl
@[simp] theorem realLike_ofNat (n : ℕ) : (RealLike.ofNat n : FVal) = fin (n : ℝ) := rfl
@[simp] theorem add_fin (x y : ℝ) : (fin x + fin y : FVal) = fin (x + y) := rfl
@[simp] theorem sub_fin (x y : ℝ) : (fin x - fin y : FVal) = fin (x - y) := by
  show add (fin x) (neg (fin y)) = _
  simp [add, neg, sub_eq_add_neg]
@[simp] theorem mul_fin (x y : ℝ) : (fin x * fin y : FVal) = fin (x * y) := rfl
@[simp] theorem neg_fin (x : ℝ) : (-(fin x) : FVal) = fin (-x) := rfl
theorem div_fin (x y : ℝ) : (fin x / fin y : FVal) =
    if y = 0 then (if x = 0 then nan else if 0 < x then pinf else ninf) else fin (x / y) := rfl
@[simp] theorem div_fin_ne {x y : ℝ} (h : y ≠ 0) : (fin x / fin y : FVal) = fin (x / y) := by
  rw [div_fin, if_neg h]
@[simp] theorem zero_div_zero : (fin 0 / fin 0 : FVal) = nan := by simp [div_fin]
@[simp] theorem pos_div_zero {x : ℝ} (h : 0 < x) : (fin x / fin 0 : FVal) = pinf := by
  simp [div_fin, h, ne_of_gt h]
@[simp] theorem log_fin (x : ℝ) : RealLike.log (fin x) = if x < 0 then nan else if x = 0 then ninf else fin (Real.log x) := rfl
@[simp] theorem ltb_fin (x y : ℝ) : RealLike.ltb (fin x) (fin y) = decide (x < y) := rfl
@[simp] theorem eqb_fin (x y : ℝ) : RealLike.eqb (fin x) (fin y) = decide (x = y) := rfl
@[simp] theorem ltb_nan_right (a : FVal) : RealLike.ltb a nan = false := by cases a <;> rfl
@[simp] theorem ltb_nan_left (a : FVal) : RealLike.ltb nan a = false := rfl
@[simp] theorem ltb_fin_ninf (x : ℝ) : RealLike.ltb (fin x) ninf = false := rfl
@[simp] theorem ltb_fin_pinf (x : ℝ) : RealLike.ltb (fin x) pinf = true := rfl
@[simp] theorem ltb_pinf (a : FVal) : RealLike.ltb pinf a = false := by cases a <;> rfl
@[simp] theorem ltb_ninf_fin (x : ℝ) : RealLike.ltb ninf (fin x) = true := rfl
@[simp] theorem eqb_pinf_pinf : RealLike.eqb pinf pinf = true := rfl
@[simp] theorem eqb_nan_left (a : FVal) : RealLike.eqb nan a = false := rfl
@[simp] theorem eqb_nan_right (a : FVal) : RealLike.eqb a nan = false := by cases a <;> rfl
@[simp] theorem eqb_fin_pinf (x : ℝ) : RealLike.eqb (fin x) pinf = false := rfl
@[simp] theorem eqb_ninf_pinf : RealLike.eqb ninf pinf = false := rfl
@[simp] theorem mul_nan_right (a : FVal) : (a * nan : FVal) = nan := by cases a <;> rfl
@[simp] theorem mul_nan_left (a : FVal) : (nan * a : FVal) = nan := rfl
@[simp] theorem div_nan_left (a : FVal) : (nan / a : FVal) = nan := rfl
@[simp] theorem div_nan_right (a : FVal) : (a / nan : FVal) = nan := by cases a <;> rfl
@[simp] theorem sub_nan_right (a : FVal) : (a - nan : FVal) = nan := by cases a <;> rfl
@[simp] theorem sub_nan_left (a : FVal) : (nan - a : FVal) = nan := rfl
@[simp] theorem add_nan_right (a : FVal) : (a + nan : FVal) = nan := by cases a <;> rfl
@[simp] theorem add_nan_left (a : FVal) : (nan + a : FVal) = nan := rfl
@[simp] theorem fin_mul_pinf {x : ℝ} (h : 0 < x) : (fin x * pinf : FVal) = pinf := by
  show infMul true (fin x) = pinf
  simp [infMul, ne_of_gt h, h]
@[simp] theorem pinf_div_fin {y : ℝ} (h : 0 ≤ y) : (pinf / fin y : FVal) = pinf := by
  show (if 0 ≤ y then pinf else ninf) = pinf
  simp [h]
@[simp] theorem fin_sub_pinf (x : ℝ) : (fin x - pinf : FVal) = ninf := rfl
@[simp] theorem one_div_zero : (fin 1 / fin 0 : FVal) = pinf := pos_div_zero one_pos
@[simp] theorem ninf_sub_pinf : (ninf - pinf : FVal) = ninf := rfl
@[simp] theorem ninf_sub_fin (x : ℝ) : (ninf - fin x : FVal) = ninf := rfl
@[simp] theorem ltb_ninf_right (a : FVal) : RealLike.ltb a ninf = false := by cases a <;> rfl

/-- `math.Pow(1, y) = 1` -/
theorem pow_one_base (y : ℝ) (hy : y ≠ 0) : RealLike.pow (fin 1) (fin y) = fin 1 := by
  show FVal.pow (fin 1) (fin y) = fin 1
  unfold FVal.pow
  simp [hy]

/-- `math.Pow(-1, -2) = 1`: a negative base with an integer exponent is finite -/
theorem pow_neg_one_neg_two : RealLike.pow (fin (-1)) (fin (-2)) = fin 1 := by
  show FVal.pow (fin (-1)) (fin (-2)) = fin 1
  unfold FVal.pow
  have h1 : ¬ ((-2 : ℝ) = 0) := by norm_num
  have h2 : ¬ ((-1 : ℝ) = 1) := by norm_num
  have h3 : ¬ ((0 : ℝ) < -1) := by norm_num
  have h4 : ¬ ((-1 : ℝ) = 0) := by norm_num
  have h5 : ∃ k : ℤ, (-2 : ℝ) = k := ⟨-2, by norm_num⟩
  have h6 : ⌊(-2 : ℝ)⌋ = -2 := by
    have : (-2 : ℝ) = ((-2 : ℤ) : ℝ) := by norm_num
    rw [this, Int.floor_intCast]
  simp only [h1, h2, h3, h4, h5, h6, if_false, if_true]
  norm_num

end FVal

end Gv
