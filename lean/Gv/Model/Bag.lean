import Gv.Model.Seq
import Gv.Model.Compress
import Gv.Model.Mask
/-!
Implementation-shaped model of `align.seqbag` / `align.align` (property C01).

Go keeps an ordered slice of row *pointers* (`seqs []*seq`) and, beside it, a name index
(`seqmap map[string]*seq`).  Here a row carries an `id` (its pointer identity), the index maps a
name to an id, and `deref` follows it.  Every operation below mirrors the Go method of the same name
(after the three `fix:` commits recorded in known_findings.jsonl: in-place renames rebuild the
index, `FilterLength` uses both bounds, `Sort` sorts the slice stably).  Core-only.
-/
namespace Gv.Model
open Gv

structure Row where
  id : Nat
  name : String
  seq : Seq
deriving DecidableEq, Repr

structure Bag where
  rows : List Row := []
  index : List (String × Nat) := []
  next : Nat := 0
  policy : Nat := 0          -- IGNORE_NONE / IGNORE_NAME / IGNORE_SEQUENCE
  alphabet : Nat := 3
  isAlign : Bool := false
  length : Int := -1         -- cached alignment length (`-1` when empty); unused for a plain bag
deriving Repr

def IGNORE_NONE : Nat := 0
def IGNORE_NAME : Nat := 1
def IGNORE_SEQUENCE : Nat := 2

/-! ### the name index (Go map) -/

def idxLookup (n : String) : List (String × Nat) → Option Nat
  | [] => none
  | (k, v) :: t => if n == k then some v else idxLookup n t

/-- `m[k] = v` -/
def idxInsert (n : String) (i : Nat) : List (String × Nat) → List (String × Nat)
  | [] => [(n, i)]
  | (k, v) :: t => if n == k then (k, i) :: t else (k, v) :: idxInsert n i t

def deref (i : Nat) : List Row → Option Row
  | [] => none
  | r :: t => if r.id == i then some r else deref i t

/-- `sb.seqmap[name]` followed through the pointer -/
def getByName (b : Bag) (n : String) : Option Row := (idxLookup n b.index).bind fun i => deref i b.rows

/-- `GetSequenceIdByName`: linear scan, first match -/
def idByNameAux (n : String) : List Row → Nat → Int
  | [], _ => -1
  | r :: t, k => if r.name == n then (k : Int) else idByNameAux n t (k + 1)

def idByName (b : Bag) (n : String) : Int := idByNameAux n b.rows 0

/-- `rebuildIndex`: first row of each name wins -/
def rebuildIndexAux : List Row → List (String × Nat) → List (String × Nat)
  | [], idx => idx
  | r :: t, idx =>
    match idxLookup r.name idx with
    | some _ => rebuildIndexAux t idx
    | none => rebuildIndexAux t (idx ++ [(r.name, r.id)])

def rebuildIndex (rows : List Row) : List (String × Nat) := rebuildIndexAux rows []

/-! ### AddSequenceChar -/

/-- `fmt.Sprintf("%04d", n)` -/
def fmt04 (n : Nat) : String :=
  let s := toString n
  String.ofList (List.replicate (4 - s.length) '0') ++ s

/-- the renaming loop: first `k ≥ 1` such that `name_%04d` is not an index key.  Among
`fuel = |index| + 1` candidates one is free, so the fuel never runs out. -/
def freshSuffix (idx : List (String × Nat)) (name : String) : Nat → Nat → String
  | 0, k => name ++ "_" ++ fmt04 k
  | fuel + 1, k =>
    let cand := name ++ "_" ++ fmt04 k
    if (idxLookup cand idx).isSome then freshSuffix idx name fuel (k + 1) else cand

def freshName (idx : List (String × Nat)) (name : String) : String :=
  if (idxLookup name idx).isSome then freshSuffix idx name (idx.length + 1) 1 else name

/-- `s.SameSequence(sequence)` on the row the index points to -/
def sameSeqOpt (found : Option Row) (s : Seq) : Bool :=
  match found with
  | some r => r.seq == s
  | none => false

/-- `AddSequenceChar` of `seqbag` and of `align` (the latter checks the length *after* renaming).
Returns the new state and `true` when an error is returned. -/
def addSeqAs (asAlign : Bool) (b : Bag) (name : String) (s : Seq) : Bag × Bool :=
  let found := getByName b name
  let ok := (idxLookup name b.index).isSome
  if ok && b.policy == IGNORE_NAME then (b, false)
  else if ok && b.policy == IGNORE_SEQUENCE && sameSeqOpt found s then (b, false)
  else
    let nm := freshName b.index name
    if asAlign && b.length != -1 && b.length != (s.length : Int) then (b, true)
    else
      ({ b with rows := b.rows ++ [⟨b.next, nm, s⟩], index := idxInsert nm b.next b.index,
                next := b.next + 1, length := if asAlign then (s.length : Int) else b.length }, false)

/-- the method a caller reaches: `align.AddSequenceChar` for an alignment, else `seqbag`'s -/
def addSeq (b : Bag) (name : String) (s : Seq) : Bag × Bool := addSeqAs b.isAlign b name s

/-- `seqbag.AddSequenceChar` called from inside a `seqbag` method (Go embedding: the `align`
override is NOT used there, so the cached length is neither checked nor updated) -/
def addSeqBase (b : Bag) (name : String) (s : Seq) : Bag × Bool := addSeqAs false b name s

/-- add rows one after the other, stopping at the first error (the `IterateAll` callbacks that
`return err != nil`) -/
def addAllStop : Bag → List (String × Seq) → Bag × Bool
  | b, [] => (b, false)
  | b, (n, s) :: t =>
    let r := addSeq b n s
    if r.2 then r else addAllStop r.1 t

/-- add rows ignoring individual errors (callers that drop the error) -/
def addAllIgnore : Bag → List (String × Seq) → Bag
  | b, [] => b
  | b, (n, s) :: t => addAllIgnore (addSeq b n s).1 t

def clear (b : Bag) : Bag := { b with rows := [], index := [], length := if b.isAlign then -1 else b.length }

/-- `seqbag.Clear` called from inside a `seqbag` method: the cached length is untouched -/
def clearBase (b : Bag) : Bag := { b with rows := [], index := [] }

def addAllStopBase : Bag → List (String × Seq) → Bag × Bool
  | b, [] => (b, false)
  | b, (n, s) :: t =>
    let r := addSeqBase b n s
    if r.2 then r else addAllStopBase r.1 t

/-- an alignment whose rows are all gone reports the empty length -/
def resetLengthIfEmpty (b : Bag) : Bag := if b.isAlign && b.rows.isEmpty then { b with length := -1 } else b

def newBag (alphabet : Nat) : Bag := { alphabet := alphabet }
/-- `NewAlign` (BOTH becomes NUCLEOTIDS) -/
def newAlign (alphabet : Nat) : Bag :=
  { alphabet := if alphabet == BOTH then NUCLEOTIDS else alphabet, isAlign := true, length := -1 }

def pairs (b : Bag) : List (String × Seq) := b.rows.map fun r => (r.name, r.seq)

/-! ### operations (each mirrors the Go method) -/

/-- in-place change of sequences: ids and names untouched, index untouched -/
def mapSeqs (f : Seq → Seq) (b : Bag) : Bag := { b with rows := b.rows.map fun r => { r with seq := f r.seq } }

/-- in-place renaming followed by `rebuildIndex` -/
def renameWith (f : String → String) (b : Bag) : Bag :=
  let rows := b.rows.map fun r => { r with name := f r.name }
  { b with rows := rows, index := rebuildIndex rows }

def mapLookup (m : List (String × String)) (n : String) : String :=
  match m.find? (fun p => p.1 == n) with
  | some p => p.2
  | none => n

/-- `Rename(namemap)`; a Go map has one value per key: the wire format never repeats a key -/
def rename (m : List (String × String)) (b : Bag) : Bag := renameWith (mapLookup m) b

def appendIdentifier (id : String) (right : Bool) (b : Bag) : Bag :=
  if id.isEmpty then b else renameWith (fun n => if right then n ++ id else id ++ n) b

/-- `\s` of Go regexp (and `\t`) -/
def isSpaceC (c : Char) : Bool := c == ' ' || c == '\t' || c == '\n' || c == '\x0c' || c == '\r'
/-- the class `[\|\s\t,\[\]\(\),;\.:]` of `CleanNames` -/
def isSpecialC (c : Char) : Bool :=
  isSpaceC c || c == '|' || c == ',' || c == '[' || c == ']' || c == '(' || c == ')' || c == ';' || c == '.' || c == ':'

/-- every maximal run of special characters becomes one `-` (`inRun`: the previous character was
special) -/
def squeezeSpecial : Bool → List Char → List Char
  | _, [] => []
  | inRun, c :: t =>
    if isSpecialC c then (if inRun then squeezeSpecial true t else '-' :: squeezeSpecial true t)
    else c :: squeezeSpecial false t

/-- `CleanNames`: strip leading/trailing blanks, then every run of special characters ↦ `-` -/
def cleanName (n : String) : String :=
  let l := n.toList.dropWhile isSpaceC
  let l := (l.reverse.dropWhile isSpaceC).reverse
  String.ofList (squeezeSpecial false l)

def cleanNames (b : Bag) : Bag := renameWith cleanName b

/-- stable sort by name (Go: `sort.SliceStable` on `name <`, byte order = code-point order on ASCII) -/
def sortRows (b : Bag) : Bag := { b with rows := b.rows.mergeSort fun a c => decide (a.name ≤ c.name) }

/-- apply a permutation given as the list of source positions (out-of-range entries dropped) -/
def permuteRows (perm : List Nat) (b : Bag) : Bag := { b with rows := perm.filterMap fun i => b.rows[i]? }

/-- `FilterLength` -/
def filterLength (mn mx : Int) (b : Bag) : Bag × Bool :=
  let old := b.rows
  let keep := old.filter fun r => (mn < 0 || (r.seq.length : Int) ≥ mn) && (mx < 0 || (r.seq.length : Int) ≤ mx)
  let r := addAllStopBase (clearBase b) (keep.map fun r => (r.name, r.seq))
  (resetLengthIfEmpty r.1, r.2)

/-- compare key of `Deduplicate` -/
def dedupKey (alphabet : Nat) (nAsGap : Bool) (s : Seq) : Seq :=
  if nAsGap then
    if alphabet == AMINOACIDS then s.map fun c => if c == 88 then GAP else c
    else if alphabet == NUCLEOTIDS then s.map fun c => if c == 78 then GAP else c
    else s
  else s

def appendAt {α} (l : List (List α)) (i : Nat) (x : α) : List (List α) :=
  l.zipIdx.map fun (g, k) => if k == i then g ++ [x] else g

/-- `Deduplicate`: returns state, error flag, groups of identical names -/
def dedupLoop (alphabet : Nat) (nAsGap : Bool) :
    List Row → Bag → List (Seq × Nat) → List (List String) → Bag × Bool × List (List String)
  | [], b, _, groups => (b, false, groups)
  | r :: t, b, seen, groups =>
    let key := dedupKey alphabet nAsGap r.seq
    match seen.find? (fun p => p.1 == key) with
    | none =>
      let a := addSeqBase b r.name r.seq
      if a.2 then (a.1, true, groups)
      else dedupLoop alphabet nAsGap t a.1 (seen ++ [(key, groups.length)]) (groups ++ [[r.name]])
    | some p => dedupLoop alphabet nAsGap t b seen (appendAt groups p.2 r.name)

def deduplicate (nAsGap : Bool) (b : Bag) : Bag × Bool × List (List String) :=
  dedupLoop b.alphabet nAsGap b.rows (clearBase b) [] []

/-- `RemoveCharacterSeqs`; the threshold test `(cutoff>0 ∧ nb ≥ cutoff·total) ∨ (cutoff=0 ∧ nb>0)`
is a parameter (float arithmetic, see C12) -/
def removeCharacterSeqs (test : Nat → Nat → Bool) (c : Byte) (ignoreCase ignoreGaps ignoreNs : Bool) (b : Bag) : Option (Bag × Nat) :=
  let all : Byte := if b.alphabet == AMINOACIDS then 88 else 78
  let allc := toLower all
  let len := b.length.toNat
  -- `for site := 0; site < length; site++ { seq.sequence[site] … }`: a row shorter than the cached
  -- length (possible only after an operation that reported an error) is an index panic
  if b.rows.any (fun r => r.seq.length < len) then none else
  let removed (r : Row) : Bool :=
    let s := r.seq.take len
    let nb := (s.filter fun x => x == c || (ignoreCase && toLower x == toLower c)).length
    let total := (s.filter fun x => !(ignoreGaps && x == GAP) && !(ignoreNs && (x == all || x == allc))).length
    test nb total
  let keep := b.rows.filter fun r => !removed r
  some (addAllIgnore (clear b) (keep.map fun r => (r.name, r.seq)), b.rows.length - keep.length)

/-- `seqbag.Translate` + `align.Translate` (length refreshed from the first row, even on error) -/
def translateLoop1 (code : List (List Byte × Byte)) (phases : List Nat) (suffix : Bool) (r : Row) :
    List Nat → Bag → Bag × Bool
  | [], b => (b, false)
  | ph :: rest, b =>
    let name := if suffix then r.name ++ "_" ++ toString ph else r.name
    match bufferTranslate code ph r.seq with
    | none => (b, true)
    | some p =>
      let a := addSeqBase b name p
      if a.2 then a else translateLoop1 code phases suffix r rest a.1

def translateRows (code : List (List Byte × Byte)) (phases : List Nat) (suffix : Bool) : List Row → Bag → Bag × Bool
  | [], b => (b, false)
  | r :: t, b =>
    let a := translateLoop1 code phases suffix r phases b
    if a.2 then a else translateRows code phases suffix t a.1

def fixLength (b : Bag) : Bag :=
  if b.isAlign then
    { b with length := match b.rows with | r :: _ => (r.seq.length : Int) | [] => -1 }
  else b

def translateBag (phase : Int) (codeId : Int) (b : Bag) : Bag × Bool :=
  match geneticCode codeId with
  | none => (fixLength b, true)
  | some code =>
    if b.alphabet != NUCLEOTIDS then (fixLength b, true)
    else
      let phases : List Nat := if phase == -1 then [0, 1, 2] else [phase.toNat]
      let r := translateRows code phases (phase == -1) b.rows (clearBase b)
      if r.2 then (fixLength r.1, true)
      else (fixLength { r.1 with alphabet := autoAlphabet (r.1.rows.map (·.seq)) }, false)

/-- `Clone` / `CloneSeqBag`: a new object, same alphabet and policy, rows re-added -/
def clone (b : Bag) : Bag × Bool :=
  let c : Bag := if b.isAlign then newAlign b.alphabet else newBag b.alphabet
  addAllStop { c with policy := b.policy } (pairs b)

def firstLen (rows : List Row) : Int := match rows with | r :: _ => (r.seq.length : Int) | [] => -1

/-- `seqBagToAlignment`: an error if the rows do not all have the same length -/
def seqBagToAlignment (s : Bag) : Option Bag :=
  if s.rows.any (fun r => (r.seq.length : Int) != firstLen s.rows) then none
  else some { s with alphabet := (newAlign s.alphabet).alphabet, isAlign := true, length := firstLen s.rows }

/-- `Sample` with the drawn permutation supplied: new object holding the first `nb` rows of the
permutation (policy NONE); for an alignment the length is recomputed by `seqBagToAlignment` -/
def sample (nb : Int) (perm : List Nat) (b : Bag) : Option Bag :=
  if (b.rows.length : Int) < nb || nb < 1 then none
  else
    let chosen := (perm.take nb.toNat).filterMap fun i => b.rows[i]?
    let s := addAllIgnore (newBag b.alphabet) (chosen.map fun r => (r.name, r.seq))
    if b.isAlign then seqBagToAlignment s else some s

/-- `strings.Replace(s, old, new, -1)` on bytes (non-overlapping, left to right; `old = ""` is
excluded by the generators) -/
def replaceAll (old new : Seq) : Seq → Seq
  | [] => []
  | c :: t =>
    if !old.isEmpty && old.isPrefixOf (c :: t) then new ++ replaceAll old new ((c :: t).drop old.length)
    else c :: replaceAll old new t
termination_by s => s.length
decreasing_by
  all_goals simp_wf
  · cases old with
    | nil => simp_all
    | cons o os => simp; omega

/-- `align.Replace`: literal replacement, then an error if some row no longer has the cached length -/
def replaceBag (old new : Seq) (b : Bag) : Bag × Bool :=
  let b' := mapSeqs (replaceAll old new) b
  (b', b.isAlign && b'.rows.any fun r => (r.seq.length : Int) != b'.length)

/-- `align.Replace(old, new, true)` once the regular expression compiled, `f` = the value of
`r.ReplaceAllString(sequence, new)` (regexp is external): every sequence replaced, then an error if some row no
longer has the cached length -/
def replaceBagWith (f : Seq → Seq) (b : Bag) : Bag × Bool :=
  let b' := mapSeqs f b
  (b', b.isAlign && b'.rows.any fun r => (r.seq.length : Int) != b'.length)

def setAt (s : Seq) (i : Nat) (c : Byte) : Seq := s.set i c

def setSequenceChar (i j : Int) (c : Byte) (b : Bag) : Bag × Bool :=
  if i < 0 || i ≥ b.rows.length then (b, true)
  else match b.rows[i.toNat]? with
    | none => (b, true)
    | some r =>
      if j < 0 || j ≥ r.seq.length then (b, true)
      else ({ b with rows := b.rows.set i.toNat { r with seq := setAt r.seq j.toNat c } }, false)

/-- `TrimSequences`; `none` = slice-bounds panic (a row shorter than the trim size, possible only
after an operation that reported an error left the rows ragged) -/
def trimSequences (n : Int) (fromStart : Bool) (b : Bag) : Option (Bag × Bool) :=
  if n < 0 then some (b, true)
  else if n ≥ b.length then some (b, true)
  else if b.rows.any (fun r => r.seq.length < n.toNat) then none
  else
    let b' := mapSeqs (fun s => if fromStart then s.drop n.toNat else s.take (s.length - n.toNat)) b
    some ({ b' with length := b.length - n }, false)

/-- `Append(al)`: `al`'s rows added until the first error -/
def appendRows (other : List (String × Seq)) (b : Bag) : Bag × Bool := addAllStop b other

/-- `appendToSequence` through the index -/
def appendToSequence (name : String) (s : Seq) (b : Bag) : Bag × Bool :=
  match idxLookup name b.index with
  | none => (b, true)
  | some i => ({ b with rows := b.rows.map fun r => if r.id == i then { r with seq := r.seq ++ s } else r }, false)

/-- second loop of `Concat`: rows of `c`; a row absent from `a` is first added as `alen` gaps
(the error of that `AddSequence` is overwritten by the following `appendToSequence`) -/
def concatLoop2 (alen : Nat) : List (String × Seq) → Bag → Bag × Bool
  | [], b => (b, false)
  | (n, s) :: t, b =>
    let b1 := if (getByName b n).isSome then b
              else (addSeq b n (List.replicate alen GAP)).1
    let r := appendToSequence n s b1
    if r.2 then r else concatLoop2 alen t r.1

/-- `Concat(c)` where `c` is an alignment with rows `other`, cached length `clen`, alphabet `calpha`.
An empty alignment (length −1) contributes zero columns. -/
def concat (other : List (String × Seq)) (clen : Int) (calpha : Nat) (b : Bag) : Bag × Bool :=
  if b.alphabet != calpha then (b, true)
  else
    let alen := b.length.toNat
    let clen := clen.toNat
    -- rows of a absent from c get gaps appended
    let step1 := b.rows.foldl (fun (acc : Bag × Bool) r =>
      if acc.2 then acc
      else if (other.find? fun p => p.1 == r.name).isSome then acc
      else appendToSequence r.name (List.replicate clen GAP) acc.1) (b, false)
    if step1.2 then step1
    else
      let step2 := concatLoop2 alen other step1.1
      if step2.2 then step2
      else
        -- final length: first row's length; an error if some row differs
        let leng : Int := match step2.1.rows with | r :: _ => (r.seq.length : Int) | [] => -1
        let bad := step2.1.rows.any fun r => (r.seq.length : Int) != leng
        ({ step2.1 with length := leng }, bad)

/-! ### in-place operations whose row-level model lives elsewhere (C06, C12, C13)

Those models work on plain `(name, sequence)` rows; the container hands them `pairs b` and writes the
resulting sequences back into its rows, position by position (Go: `seq.sequence = …` through the
pointers of `sb.seqs`; ids, names and the name index are not touched). -/

def withSeqs (rows : List Row) (ps : List (String × Seq)) : List Row :=
  List.zipWith (fun r p => { r with seq := p.2 }) rows ps

/-- `seqbag.ReverseComplement`: an error (nothing touched) unless the alphabet is NUCLEOTIDS; then the
rows in order, each complemented in place and reversed; the first residue without a complement stops
everything with an error (rows before it done, that row complemented up to the residue, not reversed) -/
def reverseComplement (b : Bag) : Bag × Bool :=
  if b.alphabet != NUCLEOTIDS then (b, true)
  else
    let r := revcompRows (pairs b)
    ({ b with rows := withSeqs b.rows r.1 }, r.2)

/-- overwrite residue `j` of the row with pointer identity `i` -/
def setInRow (i j : Nat) (c : Byte) (rows : List Row) : List Row :=
  rows.map fun r => if r.id == i then { r with seq := setAt r.seq j c } else r

/-- `align.ReplaceChar(seqname, site, newchar)`: the site is checked against the cached length, then the
name is looked up in the index and the residue written through the pointer.  `none` = index panic (that
row is shorter than the cached length: possible only after an operation that reported an error). -/
def replaceChar (name : String) (site : Int) (c : Byte) (b : Bag) : Option (Bag × Bool) :=
  if site < 0 then some (b, true)
  else if site ≥ b.length then some (b, true)
  else match idxLookup name b.index with
    | none => some (b, true)
    | some i =>
      if b.rows.any (fun r => r.id == i && r.seq.length ≤ site.toNat) then none
      else some ({ b with rows := setInRow i site.toNat c b.rows }, false)

/-- `align.RemoveGapSites(cutoff, ends)` = `RemoveCharacterSites([GAP], cutoff, ends, false, false, false,
false)`: the C12 model on the rows as they are, the new sequences written back through the pointers and the
cached length reduced by the number of removed sites (an alignment of length −1 is returned untouched).
`none` = index panic: the counting loop reads every row at every site below the cached length, so a row
shorter than that (possible only after an operation that reported an error) cannot be read. -/
def removeGapSites (test : Nat → Nat → Bool) (ends : Bool) (b : Bag) : Option (Bag × CleanResult) :=
  if b.rows.any (fun r => r.seq.length < b.length.toNat) then none else
  let r := removeCharacterSites test (pairs b) b.length b.alphabet [GAP] ends false false false false
  some ({ b with rows := withSeqs b.rows r.rows, length := r.length }, r)

/-- the write-back shared by the site-cleaning methods: `f` is the C12 model function (given the plain rows, the cached
length and the alphabet); the new sequences are written through the pointers, the cached length becomes the length the
model reports.  `none` = index panic: the counting loop (`RemoveCharacterSites`) / `MaxCharStats`
(`RemoveMajorityCharacterSites`) reads every row at every site below the cached length BEFORE anything is written, so a row
shorter than that (possible only after an operation that reported an error) cannot be read. -/
def cleanSitesBag (f : CRows → Int → Nat → CleanResult) (b : Bag) : Option (Bag × CleanResult) :=
  if b.rows.any (fun r => r.seq.length < b.length.toNat) then none else
  let r := f (pairs b) b.length b.alphabet
  some ({ b with rows := withSeqs b.rows r.rows, length := r.length }, r)

/-- `align.RemoveCharacterSites(c, cutoff, ends, ignoreCase, ignoreGaps, ignoreNs, reverse)`, general form: the C12
model on the rows as they are (character set, case folding, the two ignore options with the wildcard of the alignment's
own alphabet, reversed selection, `ends` mode), written back in place -/
def removeCharSitesBag (test : Nat → Nat → Bool) (cs : List Byte) (ends ignoreCase ignoreGaps ignoreNs reverse : Bool)
    (b : Bag) : Option (Bag × CleanResult) :=
  cleanSitesBag (fun rows L a => removeCharacterSites test rows L a cs ends ignoreCase ignoreGaps ignoreNs reverse) b

/-- `align.RemoveMajorityCharacterSites(cutoff, ends, ignoreGaps, ignoreNs)`: the C12 model (counts of `MaxCharStats`)
written back in place -/
def removeMajoritySitesBag (test : Nat → Nat → Bool) (ends ignoreGaps ignoreNs : Bool) (b : Bag) :
    Option (Bag × CleanResult) :=
  cleanSitesBag (fun rows L a => removeMajoritySites test rows L a ends ignoreGaps ignoreNs) b

/-- `align.Compress()` through the C13 model: the distinct column patterns (in the order of the radix-tree
walk) overwrite the first residues of every row, the rows are cut there, the cached length becomes the number
of patterns — also for an alignment of length −1, whose cached length becomes 0; returns the weights.
`none` = index panic: every row is read at every site below the cached length. -/
def compressBag (b : Bag) : Option (Bag × List Nat) :=
  if b.rows.any (fun r => r.seq.length < b.length.toNat) then none else
  let r := compress (pairs b) b.length
  some ({ b with rows := withSeqs b.rows r.1, length := r.2.2 }, r.2.1)

/-! ### `Unalign` and `RenameRegexp` -/

/-- `strings.Replace(seq, "-", "", -1)`: the sequence without its gap characters -/
def degap (s : Seq) : Seq := s.filter fun c => c != GAP

/-- the alphabets `NewSeqBag` accepts (any other value ends the process: `io.ExitWithMessage`) -/
def seqBagAlphabetOK (a : Nat) : Bool := a == AMINOACIDS || a == NUCLEOTIDS || a == UNKNOWN

/-- `Unalign()`: a NEW plain sequence set (`NewSeqBag(sb.Alphabet())`: default duplicate-name policy, no cached
length) to which every row is added, in order, through `AddSequence` with its gap characters removed.  The
error of `AddSequence` is dropped (the `seqbag` method never returns one); a name that two rows share is renamed
by the insertion like any duplicate. -/
def unalign (b : Bag) : Bag := addAllIgnore (newBag b.alphabet) ((pairs b).map fun p => (p.1, degap p.2))

/-- the loop of `RenameRegexp` on the rows: row `i` gets the `i`-th of the new names (the values of
`r.ReplaceAllString(name, replace)`, computed outside the model) -/
def renameList : List Row → List String → List Row
  | [], _ => []
  | r :: t, [] => r :: t
  | r :: t, n :: ns => { r with name := n } :: renameList t ns

/-- `namemap[k] = v` on a map kept in order of first insertion -/
def mapSet (k v : String) : List (String × String) → List (String × String)
  | [] => [(k, v)]
  | (k', v') :: t => if k == k' then (k', v) :: t else (k', v') :: mapSet k v t

/-- the `namemap[oldname] = newname` assignments of the same loop, in row order (a later row of the same old
name overwrites the entry) -/
def renameMap : List String → List String → List (String × String) → List (String × String)
  | [], _, m => m
  | _ :: _, [], m => m
  | o :: t, n :: ns, m => renameMap t ns (mapSet o n m)

/-- `RenameRegexp(regex, replace, namemap)` once the regular expression compiled, with the new names supplied:
names overwritten in place, `namemap` filled, then `rebuildIndex` (two rows that get the same new name keep
it: the index points to the first of them).  Returns the state and the entries put into `namemap`. -/
def renameRegexp (names : List String) (b : Bag) : Bag × List (String × String) :=
  let rows := renameList b.rows names
  ({ b with rows := rows, index := rebuildIndex rows }, renameMap (b.rows.map (·.name)) names [])

/-! ### `Replace` with a regular expression -/

/-- row `i` takes the `i`-th of the new sequences (the values of `r.ReplaceAllString(sequence, new)`, computed outside
the model: Go's regexp is external); a row without a value keeps its sequence -/
def regexSeqs (ps : List (String × Seq)) (seqs : List Seq) : List (String × Seq) :=
  ps.zipIdx.map fun (p, i) => (p.1, seqs.getD i p.2)

/-- `Replace(old, new, true)` once the regular expression compiled, with the new sequences supplied: every row's
sequence is overwritten through its pointer (ids, names, index and cached length untouched); for an alignment an error
is then returned if some row no longer has the cached length (the rows stay as written) -/
def replaceRegexBag (seqs : List Seq) (b : Bag) : Bag × Bool :=
  let b' := { b with rows := withSeqs b.rows (regexSeqs (pairs b) seqs) }
  (b', b.isAlign && b'.rows.any fun r => (r.seq.length : Int) != b'.length)

/-! ### `SetAlphabet` -/

/-- the decision of `SetAlphabet(alphabet)` given the alphabet `DetectAlphabet()` found: the alphabet to set, or
`none` = an error (nothing detected; an alphabet other than the two; an alphabet the sequences do not fit) -/
def setAlphabetResult (alphabet : Int) (detected : Nat) : Option Nat :=
  if detected == UNKNOWN then none
  else if alphabet == (NUCLEOTIDS : Nat) then
    (if detected == NUCLEOTIDS || detected == BOTH then some NUCLEOTIDS else none)
  else if alphabet == (AMINOACIDS : Nat) then
    (if detected == AMINOACIDS || detected == BOTH then some AMINOACIDS else none)
  else none

/-- `SetAlphabet(alphabet)`: only the field `alphabet` can change; `true` = an error was returned -/
def setAlphabet (alphabet : Int) (b : Bag) : Bag × Bool :=
  match setAlphabetResult alphabet (detectAlphabetBag (b.rows.map (·.seq))) with
  | some a => ({ b with alphabet := a }, false)
  | none => (b, true)

/-! ### `ReverseComplementSequences` -/

/-- write the buffer `s` into the row with pointer identity `i` (Go: the in-place writes through `*seq`) -/
def setSeqById (i : Nat) (s : Seq) (rows : List Row) : List Row :=
  rows.map fun r => if r.id == i then { r with seq := s } else r

/-- the loop of `ReverseComplementSequences(names...)`: every name in order is looked up in the name index
(`SequenceByName`); a name that is not there is skipped; the row found is complemented in place and, only if that
succeeded, reversed (`revcompSeq` of the C06 model); the first residue without a complement ends the loop with an
error (that row is left complemented up to the residue) -/
def revcompNamedBag : List String → Bag → Bag × Bool
  | [], b => (b, false)
  | nm :: rest, b =>
    match getByName b nm with
    | none => revcompNamedBag rest b
    | some r =>
      let rc := revcompSeq r.seq
      let b' := { b with rows := setSeqById r.id rc.1 b.rows }
      if rc.2 then (b', true) else revcompNamedBag rest b'

/-- `seqbag.ReverseComplementSequences(names...)`: an error (nothing touched) unless the alphabet is NUCLEOTIDS -/
def reverseComplementSequences (names : List String) (b : Bag) : Bag × Bool :=
  if b.alphabet != NUCLEOTIDS then (b, true) else revcompNamedBag names b

/-! ### `DiffWithFirst` and `ReplaceMatchChars`: every row but the first rewritten against the first -/

/-- rewrite every row but the first by `g first row` (Go: loops over `a.seqs` in order, writing in place) -/
def againstFirst (g : Seq → Seq → Seq) : List (String × Seq) → List (String × Seq)
  | [] => []
  | r0 :: rest => r0 :: rest.map fun r => (r.1, g r0.2 r.2)

/-- one row of `DiffWithFirst`: `for l < len(first) { if first[l] == other[l] { other[l] = '.' } }` -/
def diffSeq (first other : Seq) : Seq :=
  other.mapIdx fun i c => if i < first.length && first.getD i 0 == c then POINT else c

/-- the loop reads `other[l]` for every `l < len(first)`: a row shorter than the first one is an index panic
(fewer than two rows: nothing is read) -/
def diffPanics : List (String × Seq) → Bool
  | [] => false
  | r0 :: rest => rest.any fun r => r.2.length < r0.2.length

/-- `align.DiffWithFirst()`; `none` = index panic -/
def diffWithFirstBag (b : Bag) : Option Bag :=
  if diffPanics (pairs b) then none
  else some { b with rows := withSeqs b.rows (againstFirst diffSeq (pairs b)) }

/-- one row of `ReplaceMatchChars` over the cached length `L`:
`if ref[site] != '.' && seq[site] == '.' { seq[site] = ref[site] }` -/
def matchSeq (L : Nat) (ref other : Seq) : Seq :=
  other.mapIdx fun i c => if i < L && ref.getD i 0 != POINT && c == POINT then ref.getD i 0 else c

/-- with at least two rows the loop reads the reference at every site below the cached length, and - the test is
`ref[site] != POINT && other[site] == POINT`, evaluated left to right - the other row only where the reference holds no
point: a row that is too short is an index panic exactly when the reference has a site without a point beyond its end -/
def matchPanics (L : Nat) : List (String × Seq) → Bool
  | [] => false
  | [_] => false
  | ref :: rest => decide (ref.2.length < L) ||
      rest.any fun o => (List.range L).any fun i => decide (o.2.length ≤ i) && ref.2.getD i 0 != POINT

/-- `align.ReplaceMatchChars()`; `none` = index panic -/
def replaceMatchCharsBag (b : Bag) : Option Bag :=
  if matchPanics b.length.toNat (pairs b) then none
  else some { b with rows := withSeqs b.rows (againstFirst (matchSeq b.length.toNat) (pairs b)) }

/-! ### `Mask`, `MaskOccurences` / `MaskUnique` through the C15 model -/

/-- `align.Mask(refseq, start, length, maskreplace, nogap, noref)`: the C15 model on the rows as they are, with the
reference sequence looked up in the name index (`GetSequenceByName`) and the cached length; the new residues are written
in place.  `(b, true)` = an error was returned (nothing touched).  `none` = index panic: every row is accessed at every
site of the window `[start, min(start+length, cached length))`. -/
def maskBag (refseq : String) (start len : Int) (mr : MaskRep) (nogap noref : Bool) (b : Bag) : Option (Bag × Bool) :=
  match maskWithRef (pairs b) b.length b.alphabet refseq start len mr nogap noref ((getByName b refseq).map (·.seq)) with
  | none => some (b, true)
  | some ps =>
    let hi := min (start + len) b.length
    if start < hi && b.rows.any (fun r => (r.seq.length : Int) < hi) then none
    else some ({ b with rows := withSeqs b.rows ps }, false)

/-- the C15 model of `MaskOccurences` returns the first `L` residues of every row; the Go loop writes in place, so what a
row holds beyond the cached length `L` stays -/
def keepTails (L : Nat) (rows : List Row) (ps : List (String × Seq)) : List (String × Seq) :=
  List.zipWith (fun r p => (p.1, p.2 ++ r.seq.drop L)) rows ps

/-- `align.MaskOccurences(refseq, maxOccurence, maskreplace)` (`MaskUnique` = `maxOccurence` 1) in the same way; every
row is read at every site below the cached length -/
def maskOccBag (refseq : String) (maxOcc : Int) (mr : MaskRep) (b : Bag) : Option (Bag × Bool) :=
  match maskOccWithRef (pairs b) b.length b.alphabet refseq maxOcc mr ((getByName b refseq).map (·.seq)) with
  | none => some (b, true)
  | some ps =>
    if b.rows.any (fun r => r.seq.length < b.length.toNat) then none
    else some ({ b with rows := withSeqs b.rows (keepTails b.length.toNat b.rows ps) }, false)

end Gv.Model
