import Gv.Model.Seq
/-!
Model of the cleaning functions of `align/align.go` (property C12): `RemoveCharacterSites`
(`RemoveGapSites`), `RemoveMajorityCharacterSites`, with the prefix/suffix trackers of the `ends`
mode, and `MaxCharStats` (shared with C14).  The float threshold test is a parameter
`test nb total`.  Mirrors the code after the `fix:` commits listed in known_findings.jsonl.
Core-only.
-/
namespace Gv.Model
open Gv

abbrev CRows := List (String × Seq)

/-- `gutils.ContainsRune(c, e, ignoreCase)` -/
def containsRune (cs : List Byte) (e : Byte) (ignoreCase : Bool) : Bool :=
  cs.any fun v => v == e || (ignoreCase && toLower v == toLower e)

/-- the N/X wildcard of the alignment's own alphabet and its lower-case form -/
def wildcard (alphabet : Nat) : Byte × Byte :=
  let all : Byte := if alphabet == AMINOACIDS then 88 else 78
  (all, toLower all)

/-- per-site counts of `RemoveCharacterSites`: (number of selected characters, rows taken into account) -/
def siteCounts (col : List Byte) (cs : List Byte) (alphabet : Nat) (ignoreCase ignoreGaps ignoreNs reverse : Bool) : Nat × Nat :=
  let (all, allc) := wildcard alphabet
  let nb := (col.filter fun x => (containsRune cs x ignoreCase) != reverse).length
  let total := (col.filter fun x => !((ignoreGaps && x == GAP) || (ignoreNs && (x == all || x == allc)))).length
  (nb, total)

def columnAt (rows : CRows) (j : Nat) : List Byte := rows.map fun r => r.2.getD j 0

/-- the tracker loop over the sites: state `(firstcontinuous + 1, lastcontinuous)`; `q` lists, site by
site, whether the site meets the cutoff -/
def trackLoop (L : Nat) : List Bool → Nat → Nat → Nat → Nat × Nat
  | [], _, fc1, lc => (fc1, lc)
  | b :: t, site, fc1, lc =>
    if b then trackLoop L t (site + 1) (if site == fc1 then fc1 + 1 else fc1) (if lc == L then site else lc)
    else trackLoop L t (site + 1) fc1 L

structure CleanResult where
  rows : CRows
  length : Int
  first : Nat
  last : Nat
  kept : List Nat
  removed : List Nat
deriving Repr

/-- the removal pass shared by both cleaning functions: given the qualification of every site -/
def removeSites (rows : CRows) (L : Nat) (q : List Bool) (ends : Bool) : CleanResult :=
  let (fc1, lc) := trackLoop L q 0 0 L
  -- `removed && (!ends || i >= lastcontinuous || i <= firstcontinuous)`
  let isRemoved (i : Nat) : Bool := q.getD i false && (!ends || i ≥ lc || i + 1 ≤ fc1)
  let removed := (List.range L).filter isRemoved
  let kept := (List.range L).filter fun i => !isRemoved i
  { rows := rows.map fun r => (r.1, kept.map fun j => r.2.getD j 0),
    length := if rows.isEmpty then (L : Int) else (L : Int) - removed.length,
    first := fc1, last := L - lc,
    -- Go fills `kept`/`rm` while rebuilding the first sequence only
    kept := if rows.isEmpty then [] else kept, removed := if rows.isEmpty then [] else removed }

/-- an empty alignment (length −1) is returned unchanged -/
def unchanged (rows : CRows) (L : Int) : CleanResult :=
  { rows := rows, length := L, first := 0, last := 0, kept := [], removed := [] }

/-- `RemoveCharacterSites(c, cutoff, ends, ignoreCase, ignoreGaps, ignoreNs, reverse)` -/
def removeCharacterSites (test : Nat → Nat → Bool) (rows : CRows) (L : Int) (alphabet : Nat) (cs : List Byte)
    (ends ignoreCase ignoreGaps ignoreNs reverse : Bool) : CleanResult :=
  if L < 0 then unchanged rows L else
  let q := (List.range L.toNat).map fun j =>
    let c := siteCounts (columnAt rows j) cs alphabet ignoreCase ignoreGaps ignoreNs reverse
    test c.1 c.2
  removeSites rows L.toNat q ends

/-! ### MaxCharStats (also C14) -/

/-- counts of the upper-cased characters of a column, in order of first appearance -/
def countUpper (col : List Byte) : List (Byte × Nat) :=
  col.foldl (fun acc c =>
    let u := toUpper c
    if acc.any (·.1 == u) then acc.map fun p => if p.1 == u then (p.1, p.2 + 1) else p else acc ++ [(u, 1)]) []

/-- the selection loop of `MaxCharStats` over the count entries **in the order `entries`** (Go: map
iteration order).  State `(out, occur, total, max)`.  After the `fix:` commit ties are broken by the
smallest byte, which makes the result independent of that order (theorem `C14.maxLoop_perm`). -/
def maxLoop (ignoreGaps ignoreNs : Bool) (all allc : Byte) :
    List (Byte × Nat) → Byte × Nat × Nat × Nat → Byte × Nat × Nat × Nat
  | [], st => st
  | (k, v) :: t, (out, occ, total, mx) =>
    if !(ignoreGaps && k == GAP) && !(ignoreNs && (k == all || k == allc)) then
      if v > mx || (v == mx && k < out) then maxLoop ignoreGaps ignoreNs all allc t (k, v, total + v, v)
      else maxLoop ignoreGaps ignoreNs all allc t (out, occ, total + v, mx)
    else maxLoop ignoreGaps ignoreNs all allc t (out, occ, total, mx)

/-- `MaxCharStats` at one site: `(out, occur, total)`; initial `out` = upper-cased first character,
`occur` = number of rows (kept when every character is excluded) -/
def maxCharSite (alphabet : Nat) (ignoreGaps ignoreNs : Bool) (col : List Byte) : Byte × Nat × Nat :=
  let all : Byte := if alphabet == AMINOACIDS then 88 else 78
  let allc := toLower all
  let init : Byte × Nat × Nat × Nat := (toUpper (col.headD 0), col.length, 0, 0)
  let r := maxLoop ignoreGaps ignoreNs all allc (countUpper col) init
  (r.1, r.2.1, r.2.2.1)

/-- `RemoveMajorityCharacterSites(cutoff, ends, ignoreGaps, ignoreNs)` -/
def removeMajoritySites (test : Nat → Nat → Bool) (rows : CRows) (L : Int) (alphabet : Nat)
    (ends ignoreGaps ignoreNs : Bool) : CleanResult :=
  if L < 0 then unchanged rows L else
  let q := (List.range L.toNat).map fun j =>
    let m := maxCharSite alphabet ignoreGaps ignoreNs (columnAt rows j)
    test m.2.1 m.2.2
  removeSites rows L.toNat q ends

end Gv.Model
