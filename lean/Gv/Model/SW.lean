import Gv.Basic
import Gv.Gen.Tables
import Gv.Model.Seq
/-!
Model of `align/aligner.go` (algorithm `ALIGN_ALGO_SW`): constructor, setters, `seqToindices`,
`matchScore`, `fillMatrix_SW`, `backTrack_SW` — **as the code is**, border quirks included.

Two variants are modelled, selected by `fixed : Bool`:

* `fixed = false` — the tree as shipped: special first-row / first-column loops whose gap state is
  read from the trace of the neighbour, `maxa` initialised from the first row with the *horizontal*
  gap state, running maximum updated in interior cells only, trace-back that stops only when both
  indices are positive;
* `fixed = true` — the tree after `proposed_fixes/c09-aligner.diff`: one uniform loop over all cells
  (cells outside the matrix count 0, gap states start at −∞), maximum tracked everywhere, trace-back
  stops at any non-positive cell, empty sequences rejected with an error.

Independently, `newPwAligner … (alphaFixed := true)` models the matrix choice after
`proposed_fixes/c09-aligner-alphabet.diff` (membership in the index maps instead of `DetectAlphabet`).

Scores.  Go computes in `float64`.  The model computes in `Int`, every score being expressed in
units of `1/den` (`den` a power of two, normally 2: `-0.5 ↦ -1`).  The two readings coincide under
`DyadicScheme` below: all configured scores are integer multiples of `1/den` and every intermediate
value stays below 2^52 in magnitude, so that no float operation (`+`, `*` by a small integer,
comparisons, `==`) rounds.

Core-only: the oracle executable links this file.
-/
namespace Gv.Model.SW
open Gv Gv.Model

/-- Go: `ALIGN_UP = 0`, `ALIGN_LEFT = 1`, `ALIGN_DIAG = 2` (`ALIGN_STOP = 3` is never stored) -/
inductive Dir | up | left | diag
  deriving DecidableEq, Repr, Inhabited

/-- a score or −∞ (`math.Inf(-1)` of the patched code; the shipped code never produces `none`) -/
abbrev NInf := Option Int

namespace NInf
/-- `x += d` -/
def add (a : NInf) (d : Int) : NInf := a.map (· + d)
/-- `a > x` -/
def gt (a : NInf) (x : Int) : Bool := match a with | none => false | some v => decide (v > x)
/-- `if x > a { a = x }` -/
def maxWith (a : NInf) (x : Int) : NInf :=
  match a with | none => some x | some v => if x > v then some x else some v
/-- one update of a running gap maximum: `x += gapextend; if i > 0 { fnew = v + gapopen; if fnew > x { x = fnew } }`
(`v = none` when the patched code skips the inner block) -/
def step (x : NInf) (gext : Int) (v : Option Int) (gopen : Int) : NInf :=
  match v with
  | some u => (x.add gext).maxWith (u + gopen)
  | none => x.add gext
end NInf

/-- the configuration part of `pwaligner`; scores in units of `1/den` -/
structure Aligner where
  den : Int
  gapopen : Int
  gapextend : Int
  matchS : Int
  mismatch : Int
  /-- `nil` after `SetScore`, or when the two alphabets are incompatible -/
  submatrix : Option (List (List Int))
  /-- `nil` (every lookup fails) when the two alphabets are incompatible; *kept* by `SetScore` -/
  chartopos : Option (List (Byte × Nat))

/-- `inAlphabet` of the alphabet repair: every upper-cased residue has an entry in the index map -/
def inMatrixAlphabet (tbl : List (Byte × Nat)) (s : Seq) : Bool :=
  s.all fun c => (lookup (toUpper c) tbl).isSome

/-- `NewPwAligner`: matrix and index map by the detected alphabets of the two sequences, default
scores `gapopen = -10`, `gapextend = -0.5`, `match = 1`, `mismatch = -1`.

`alphaFixed = false` — as shipped: DNAfull whenever `DetectAlphabet` finds both sequences
nucleotide-compatible (its character class includes `*`, `?`, `-`, `.`, `O`, none of which the DNA
index map knows: a protein pair made of letters that are also IUPAC codes plus a stop `*` is sent
to the DNA matrix and then rejected);
`alphaFixed = true` — with `proposed_fixes/c09-aligner-alphabet.diff`: DNAfull when every residue of
both sequences is in the DNA index map, else BLOSUM62 when every residue is in the protein map. -/
def newPwAligner (den : Int) (s1 s2 : Seq) (alphaFixed : Bool := false) : Aligner :=
  let a1 := detectAlphabetSeq s1
  let a2 := detectAlphabetSeq s2
  let nt (a : Nat) := a == NUCLEOTIDS || a == BOTH
  let aa (a : Nat) := a == AMINOACIDS || a == BOTH
  let isDna := if alphaFixed then inMatrixAlphabet Gen.dna_to_matrix_pos s1 && inMatrixAlphabet Gen.dna_to_matrix_pos s2
    else nt a1 && nt a2
  let isProt := if alphaFixed then inMatrixAlphabet Gen.prot_to_matrix_pos s1 && inMatrixAlphabet Gen.prot_to_matrix_pos s2
    else aa a1 && aa a2
  let (mat, pos) :=
    if isDna then (some Gen.dnafull_subst_matrix, some Gen.dna_to_matrix_pos)
    else if isProt then (some Gen.blosum62_subst_matrix, some Gen.prot_to_matrix_pos)
    else (none, none)
  { den := den, gapopen := -10 * den, gapextend := -(den / 2), matchS := den, mismatch := -den,
    submatrix := mat, chartopos := pos }

def Aligner.setGapOpenScore (a : Aligner) (g : Int) : Aligner := { a with gapopen := g }
def Aligner.setGapExtendScore (a : Aligner) (g : Int) : Aligner := { a with gapextend := g }
/-- `SetScore`: the substitution matrix is dropped, the index map is not -/
def Aligner.setScore (a : Aligner) (m mm : Int) : Aligner :=
  { a with matchS := m, mismatch := mm, submatrix := none }

/-- `seqToindices`: upper-cased residue ↦ matrix position; `none` = the Go error
"character not part of alphabet" -/
def seqToIndices (a : Aligner) (s : Seq) : Option (List Nat) :=
  s.mapM fun c => match a.chartopos with
    | none => none
    | some tbl => lookup (toUpper c) tbl

/-- residue with its matrix position -/
abbrev CI := Byte × Nat

/-- `matchScore`: matrix entry by position, or byte equality (case-sensitive) after `SetScore` -/
def matchScore (a : Aligner) (x y : CI) : Int :=
  match a.submatrix with
  | some m => a.den * ((m.getD x.2 []).getD y.2 0)
  | none => if x.1 != y.1 then a.mismatch else a.matchS

structure Cell where
  val : Int
  tr : Dir
  deriving Repr, Inhabited, DecidableEq

/-- `maxscore`, `maxi`, `maxj` -/
structure Best where
  score : Int
  i : Nat
  j : Nat
  deriving Repr, DecidableEq

/-! ### one cell of the main loop (`aligner.go:258-303`) -/

structure StepOut where
  val : Int      -- value stored in `matrix[i][j]` (clamped at 0)
  tr : Dir
  maxa : NInf    -- `maxa[j]` afterwards
  bx : NInf      -- `bx` afterwards
  mscore : Int   -- unclamped score, compared with the running maximum

/-- `mt` = substitution score, `diag` = `matrix[i-1][j-1]` (0 outside the matrix in the patched
code), `upv` = `matrix[i-1][j]` and `leftv` = `matrix[i][j-1]` when the patched code reads them
(`i > 0`, `j > 0`; the shipped interior loop always does). -/
def cellStep (gopen gext mt diag : Int) (upv leftv : Option Int) (maxa bx : NInf) : StepOut :=
  let m0 := diag + mt
  let maxa2 := maxa.step gext upv gopen
  let m1 : Int := if maxa2.gt m0 then maxa2.getD 0 else m0
  let t1 : Dir := if maxa2.gt m0 then Dir.up else Dir.diag
  let bx2 := bx.step gext leftv gopen
  let m2 : Int := if bx2.gt m1 then bx2.getD 0 else m1
  let t2 : Dir := if bx2.gt m1 then Dir.left else t1
  { val := if m2 < 0 then 0 else m2, tr := t2, maxa := maxa2, bx := bx2, mscore := m2 }

/-- the cells `j, j+1, …` of row `i`; each list element carries the residue of `seq2`, the value
above and `maxa[j]` -/
def rowScan (a : Aligner) (c1 : CI) (i : Nat) (hasUp : Bool) :
    Nat → Int → Option Int → NInf → Best → List (CI × Int × NInf) → List (Cell × NInf) × Best
  | _, _, _, _, best, [] => ([], best)
  | j, diag, leftv, bx, best, (c2, upv, maxa) :: t =>
    let o := cellStep a.gapopen a.gapextend (matchScore a c1 c2) diag
      (if hasUp then some upv else none) leftv maxa bx
    let best := if o.mscore > best.score then { score := o.mscore, i := i, j := j } else best
    let r := rowScan a c1 i hasUp (j + 1) upv (some o.val) o.bx best t
    ((⟨o.val, o.tr⟩, o.maxa) :: r.1, r.2)

/-! ### the shipped border loops (`aligner.go:186-248`) -/

def borderCell (mt fnew : Int) (gapDir : Dir) : Cell :=
  if mt > fnew && mt > 0 then ⟨mt, Dir.diag⟩
  else if fnew > 0 then ⟨fnew, gapDir⟩
  else ⟨0, Dir.diag⟩

/-- first row: `prev` = cell `(0, j-1)`; yields the cell and `maxa[j]` -/
def firstRowOrig (a : Aligner) (c1 : CI) : Option Cell → List CI → List (Cell × NInf)
  | _, [] => []
  | prev, c2 :: t =>
    let mt := matchScore a c1 c2
    let g : Int := match prev with
      | none => a.gapopen
      | some p => if p.tr == Dir.left then a.gapextend else a.gapopen
    let fnew : Int := match prev with
      | none => 0
      | some p => p.val + g
    let c := borderCell mt fnew Dir.left
    (c, some (c.val + g)) :: firstRowOrig a c1 (some c) t

/-- first column: `prev` = cell `(i-1, 0)` -/
def firstColOrig (a : Aligner) (c2 : CI) : Option Cell → List CI → List Cell
  | _, [] => []
  | prev, c1 :: t =>
    let mt := matchScore a c1 c2
    let fnew : Int := match prev with
      | none => 0
      | some p => p.val + (if p.tr == Dir.up then a.gapextend else a.gapopen)
    let c := borderCell mt fnew Dir.up
    c :: firstColOrig a c2 (some c) t

/-! ### the rows -/

def zip3 {α β γ} : List α → List β → List γ → List (α × β × γ)
  | a :: as, b :: bs, c :: cs => (a, b, c) :: zip3 as bs cs
  | _, _, _ => []

/-- rows `i, i+1, …`; `prev` = values of row `i-1`, `maxa` = the `maxa` slice, each element of the
list = residue of `seq1` and (shipped code only) the already computed first-column cell -/
def fillRows (a : Aligner) (fixed : Bool) (x2 : List CI) :
    Nat → List Int → List NInf → Best → List (CI × Cell) → List (List Cell) × Best
  | _, _, _, best, [] => ([], best)
  | i, prev, maxa, best, (c1, cell0) :: t =>
    let cur : List Cell × List NInf × Best :=
      if fixed then
        let r := rowScan a c1 i (decide (i > 0)) 0 0 none none best (zip3 x2 prev maxa)
        (r.1.map (·.1), r.1.map (·.2), r.2)
      else
        let r := rowScan a c1 i true 1 (prev.headD 0) (some cell0.val)
          (some (cell0.val + a.gapopen + a.gapextend)) best
          (zip3 (x2.drop 1) (prev.drop 1) (maxa.drop 1))
        (cell0 :: r.1.map (·.1), maxa.headD none :: r.1.map (·.2), r.2)
    let rest := fillRows a fixed x2 (i + 1) (cur.1.map (·.val)) cur.2.1 cur.2.2 t
    (cur.1 :: rest.1, rest.2)

structure Filled where
  rows : List (List Cell)
  best : Best
  deriving Repr

/-- `fillMatrix_SW` on non-empty index-annotated sequences -/
def fill (a : Aligner) (fixed : Bool) (x1 x2 : List CI) : Filled :=
  let best0 : Best := ⟨0, 0, 0⟩
  if fixed then
    let dummy : Cell := ⟨0, Dir.up⟩
    let r := fillRows a true x2 0 (x2.map fun _ => 0) (x2.map fun _ => none) best0
      (x1.map fun c => (c, dummy))
    ⟨r.1, r.2⟩
  else
    match x1, x2 with
    | c1 :: _, c2 :: _ =>
      let row0 := firstRowOrig a c1 none x2
      let col0 := firstColOrig a c2 none x1
      -- the first-column loop runs after the first-row loop and rewrites cell (0,0) with the same value
      let r := fillRows a false x2 1 (row0.map (·.1.val)) (row0.map (·.2)) best0
        ((x1.zip col0).drop 1)
      ⟨(row0.map (·.1)) :: r.1, r.2⟩
    | _, _ => ⟨[], best0⟩

def Filled.m (f : Filled) (i j : Nat) : Int := ((f.rows.getD i []).getD j default).val
def Filled.t (f : Filled) (i j : Nat) : Dir := ((f.rows.getD i []).getD j default).tr

/-! ### trace-back (`backTrack_SW`, `aligner.go:362-441`) -/

/-- the slices being built (Go appends and reverses at the end; the model conses) and the counters -/
structure BT where
  r1 : List Byte := []
  r2 : List Byte := []
  nm : Nat := 0
  nmm : Nat := 0
  ng : Nat := 0
  len : Nat := 0
  deriving Repr, DecidableEq

def BT.pushDiag (st : BT) (c1 c2 : Byte) : BT :=
  { st with r1 := c1 :: st.r1, r2 := c2 :: st.r2, len := st.len + 1,
            nm := if c2 == c1 then st.nm + 1 else st.nm,
            nmm := if c2 == c1 then st.nmm else st.nmm + 1 }

/-- `k` columns `seq1[i], seq1[i-1], …` over gaps -/
def BT.pushUp (s1 : Seq) : Nat → Nat → BT → BT
  | 0, _, st => st
  | k + 1, i, st =>
    BT.pushUp s1 k (i - 1)
      { st with r1 := s1.getD i 0 :: st.r1, r2 := GAP :: st.r2, len := st.len + 1, ng := st.ng + 1 }

/-- `k` columns of gaps over `seq2[j], seq2[j-1], …` -/
def BT.pushLeft (s2 : Seq) : Nat → Nat → BT → BT
  | 0, _, st => st
  | k + 1, j, st =>
    BT.pushLeft s2 k (j - 1)
      { st with r1 := GAP :: st.r1, r2 := s2.getD j 0 :: st.r2, len := st.len + 1, ng := st.ng + 1 }

/-- the `for { ngaps++ … }` loop: least `k ≥ 1` with
`val (i-k) + gapopen + (k-1)·gapextend == target` or `i - k == 0` (`1 ≤ i`) -/
def gapLen (val : Nat → Int) (target gopen gext : Int) (i : Nat) : Nat → Nat → Nat
  | 0, k => k
  | f + 1, k =>
    if val (i - k) + gopen + ((k : Int) - 1) * gext == target || i - k == 0 then k
    else gapLen val target gopen gext i f (k + 1)

/-- one pass of the `switch`; positions are `pi = i + 1`, `pj = j + 1` (so `0` is Go's `-1`).
`none`: Go indexes `matrix[-1]` and panics (an `UP` in row 0 or a `LEFT` in column 0). -/
def btStep (gopen gext : Int) (m : Nat → Nat → Int) (tr : Nat → Nat → Dir) (s1 s2 : Seq)
    (pi pj : Nat) (st : BT) : Option (Nat × Nat × BT) :=
  let i := pi - 1
  let j := pj - 1
  match tr i j with
  | Dir.diag => some (pi - 1, pj - 1, st.pushDiag (s1.getD i 0) (s2.getD j 0))
  | Dir.up =>
    if i = 0 then none else
    let k := gapLen (fun r => m r j) (m i j) gopen gext i i 1
    some (pi - k, pj, BT.pushUp s1 k i st)
  | Dir.left =>
    if j = 0 then none else
    let k := gapLen (fun c => m i c) (m i j) gopen gext j j 1
    some (pi, pj - k, BT.pushLeft s2 k j st)

/-- the test at the end of the loop body: shipped `i > 0 && j > 0 && matrix[i][j] <= 0`, patched
`i >= 0 && j >= 0 && matrix[i][j] <= 0` -/
def btStop (fixed : Bool) (m : Nat → Nat → Int) (pi pj : Nat) : Bool :=
  if fixed then decide (pi > 0) && decide (pj > 0) && decide (m (pi - 1) (pj - 1) ≤ 0)
  else decide (pi > 1) && decide (pj > 1) && decide (m (pi - 1) (pj - 1) ≤ 0)

/-- the `for i >= 0 && j >= 0` loop.  Every pass lowers `pi + pj`, so fuel `pi + pj` suffices. -/
def btLoop (fixed : Bool) (gopen gext : Int) (m : Nat → Nat → Int) (tr : Nat → Nat → Dir)
    (s1 s2 : Seq) : Nat → Nat → Nat → BT → Option (Nat × Nat × BT)
  | 0, pi, pj, st => some (pi, pj, st)
  | f + 1, pi, pj, st =>
    if pi = 0 ∨ pj = 0 then some (pi, pj, st) else
    match btStep gopen gext m tr s1 s2 pi pj st with
    | none => none
    | some (pi', pj', st') =>
      if btStop fixed m pi' pj' then some (pi', pj', st')
      else btLoop fixed gopen gext m tr s1 s2 f pi' pj' st'

/-- everything `cmd/sw.go` reads back from the aligner -/
structure Result where
  score : Int
  start1 : Nat
  start2 : Nat
  end1 : Nat
  end2 : Nat
  length : Nat
  nmatch : Nat
  nmismatch : Nat
  ngaps : Nat
  row1 : List Byte
  row2 : List Byte
  deriving Repr, DecidableEq

/-- `backTrack_SW` for an arbitrary score / trace matrix and end cell -/
def backTrack (fixed : Bool) (gopen gext : Int) (m : Nat → Nat → Int) (tr : Nat → Nat → Dir)
    (s1 s2 : Seq) (score : Int) (maxi maxj : Nat) : Option Result :=
  match btLoop fixed gopen gext m tr s1 s2 (maxi + maxj + 2) (maxi + 1) (maxj + 1) {} with
  | none => none
  | some (pi, pj, st) =>
    some { score := score, start1 := pi, start2 := pj, end1 := maxi, end2 := maxj,
           length := st.len, nmatch := st.nm, nmismatch := st.nmm, ngaps := st.ng,
           row1 := st.r1, row2 := st.r2 }

inductive Outcome
  | ok (r : Result)
  | err      -- `Alignment()` returned an error
  | panic    -- Go run-time panic (index out of range)
  deriving Repr, DecidableEq

/-- `aligner.Alignment()` followed by the getters, for a configured aligner -/
def align (a : Aligner) (fixed : Bool) (s1 s2 : Seq) : Outcome :=
  if fixed && (s1.isEmpty || s2.isEmpty) then Outcome.err else
  match seqToIndices a s1, seqToIndices a s2 with
  | some i1, some i2 =>
    if s1.isEmpty || s2.isEmpty then Outcome.panic else
    let f := fill a fixed (s1.zip i1) (s2.zip i2)
    match backTrack fixed a.gapopen a.gapextend f.m f.t s1 s2 f.best.score f.best.i f.best.j with
    | some r => Outcome.ok r
    | none => Outcome.panic
  | _, _ => Outcome.err

/-- how `cmd/sw.go` (and the harness) configure the aligner: gap setters when given, `SetScore`
when match/mismatch are given -/
def configure (den : Int) (s1 s2 : Seq) (gopen gext : Option Int) (mm : Option (Int × Int))
    (alphaFixed : Bool := false) : Aligner :=
  let a := newPwAligner den s1 s2 alphaFixed
  let a := match gopen with | some g => a.setGapOpenScore g | none => a
  let a := match gext with | some g => a.setGapExtendScore g | none => a
  match mm with
  | some (x, y) => a.setScore x y
  | none => a

/-- Hypothesis under which the `Int` reading of the `float64` code is exact: `den` is a power of
two, all configured scores are integers in units of `1/den` (true by construction here; the matrices
are integral), and `(|s1| + |s2| + 2) · max |score| < 2^52`, which bounds every sum formed by the
fill and by the gap-length test of the trace-back. -/
def DyadicScheme (a : Aligner) (l1 l2 : Nat) : Bool :=
  let isPow2 (n : Int) : Bool := n > 0 && (List.range 31).any fun k => n == (2 : Int) ^ k
  let big : Int := (([a.gapopen, a.gapextend, a.matchS, a.mismatch].map Int.natAbs).foldl max 0 : Nat) + 11 * a.den.natAbs
  isPow2 a.den && decide (((l1 + l2 + 2 : Nat) : Int) * big < (2 : Int) ^ 52)

end Gv.Model.SW
