import Gv.Basic
import Gv.Num
import Gv.Gen.Tables
import Gv.Gen.ProtDist
import Gv.Spec.SubstModels
/-!
# Model of `distance/protein` (property C17) as it is

`selectedSites`, `aaFrequency`, `isAmbigu`, `checkAmbiguities`, `check2SequencesDiff` (utils.go), `JC69Dist`,
`pMat` / `pMatEmpirical` (model.go), `MLDist`, `lk_Dist`, `partialLK`, `opt_Dist_F`, `dist_F_Brent` (lk.go).

Everything is generic in the numeric type `α` (`[RealLike α]`): the oracle runs it at `Float`, the
theorems of `Props/C17.lean` speak about every `α`, or about `ℝ`.  Constants, literals, the ambiguity
characters and the per-cell arithmetic of `JC69Dist`'s second loop are **not** written here: they are
`Gv.Gen.ProtDist.*`, regenerated from the Go source on every run (ties T1/T2).

The eigen-decomposition (gonum `mat.Eigen`, `Dense.Inverse`) is an external call: the model takes the
eigen-system `(val, left, right)` as data (the oracle passes the implementation's).

The code is mirrored as it is.  Three places where the unchanged tree violates C17 have a `Variant`
switch so that the model can also follow the repaired source (`proposed_fixes/c17-*.diff`); which variant
applies is *read from the source* (`sourceVariant`, regenerated facts `Gen.ProtDist.brentStopCond`, …; tie
T3).  `Variant.asIs` is the unchanged tree.  Core-only: the oracle executable links this file.
-/
namespace Gv.Model.ProtDist
open Gv Gv.Spec.Subst

/-- which of the repaired behaviours the source has (all `false`: the unchanged tree) -/
structure Variant where
  /-- `aaFrequency` *adds* `w/20` to every count for a character outside the alphabet (as is: it
  *overwrites* every count with `w/20`) -/
  freqAccumulates : Bool := false
  /-- `check2SequencesDiff` only looks at the selected sites -/
  diffHonoursSelection : Bool := false
  /-- `dist_F_Brent` stops when the bracketing interval is within tolerance of `x` (as is: when two
  successive trial points are closer than 1e-6) -/
  brentBracketStop : Bool := false
deriving BEq, Repr, DecidableEq

def Variant.asIs : Variant := {}
def Variant.repaired : Variant := ⟨true, true, true⟩

/-! ### the source shapes the model knows (tie T3) -/

def stopAsIs : String := "(iter > 1) && math.Abs(old_param-cur_param) < 1.E-06"
def stopRepaired : String := "math.Abs(x-xm) <= (tol2 - 0.5*(b-a))"
def unkAsIs : String := "{ for i = 0; i < ns; i++ { num[i] = w * freq[i] } }"
def unkRepaired : String := "{ for i = 0; i < ns; i++ { num[i] += w * freq[i] } }"
def diffAsIs : String × String :=
  ("(!pair.seq1Ambigu[i] && !pair.seq2Ambigu[i]) && (pair.seq1[i] != pair.seq2[i])", "check2SequencesDiff(&pair)")
def diffRepaired : String × String :=
  ("selected[i] && (!pair.seq1Ambigu[i] && !pair.seq2Ambigu[i]) && (pair.seq1[i] != pair.seq2[i])",
   "check2SequencesDiff(&pair, selected)")

def pick (s a b : String) : Option Bool := if s == a then some false else if s == b then some true else none

/-- the variant a source with these three statements has; `none`: a shape the model does not know -/
def variantOf (stop unk cond call : String) : Option Variant := do
  let b ← pick stop stopAsIs stopRepaired
  let f ← pick unk unkAsIs unkRepaired
  let d ← if (cond, call) == diffAsIs then some false else if (cond, call) == diffRepaired then some true else none
  pure ⟨f, d, b⟩

/-- the variant of the working tree the definitions of `Gv.Gen.ProtDist` were regenerated from -/
def sourceVariant : Option Variant :=
  variantOf Gen.ProtDist.brentStopCond Gen.ProtDist.aaFreqUnknownStmt Gen.ProtDist.diffCheckCond Gen.ProtDist.diffCheckCall

/-! ### characters (utils.go `isAmbigu`, align `AlphabetCharToIndex` of an amino-acid alignment) -/

def isAmbigu (c : Byte) : Bool := Gen.ProtDist.isAmbiguChars.contains c

/-- `a.AlphabetCharToIndex(c)`: `some idx` for idx ≥ 0, `none` for −1 (`AA2Index` of the upper-cased byte) -/
def aaIndex (c : Byte) : Option Nat := lookup (toUpper c) Gen.aa2index

def ns : Nat := Gen.ProtDist.NS

/-! ### selectedSites (utils.go:18) -/

/-- `al.AlphabetCharToIndex(seq[l]) == -1 || seq[l] == '*' || seq[l] == '?' || seq[l] == '-'` -/
def badForSelection (c : Byte) : Bool := (aaIndex c).isNone || c == 42 || c == 63 || c == 45

/-- alignment length: the length of the first row -/
def alLength (rows : List Seq) : Nat := (rows.headD []).length

/-- the `selectedSites` vector: with `removeGappedPositions` a site is kept iff every row holds one of the
20 amino acids (either case) there -/
def selectedSites (rows : List Seq) (rmGaps : Bool) : List Bool :=
  (List.range (alLength rows)).map fun l => !(rmGaps && rows.any fun s => badForSelection (s.getD l 0))

section
variable {α : Type} [RealLike α]

/-- `weights == nil` ↦ a vector of ones (MLDist:35, InitModel:56) -/
def defaultWeights (len : Nat) (ws : Option (List α)) : List α :=
  match ws with | some w => w | none => List.replicate len 1

/-! ### one pair of rows, site by site -/

/-- one alignment column as seen by the loops over a pair -/
structure PSite (α : Type) where
  a : Byte
  b : Byte
  sel : Bool
  w : α

/-- `for l = 0; l < a.Length(); l++ { … seq1[l] … seq2[l] … selected[l] … weights[l] }` -/
@[specialize] def psites (len : Nat) (s1 s2 : Seq) (sel : List Bool) (ws : List α) : List (PSite α) :=
  (List.range len).map fun l => ⟨s1.getD l 0, s2.getD l 0, sel.getD l false, ws.getD l 0⟩

/-! ### JC69Dist (model.go:69), `stepsize = 1` -/

/-- first loop nest, one pair: `(p(j,k), len(j,k))` — weighted number of differing / of comparable sites -/
@[specialize] def jcStep (st : α × α) (s : PSite α) : α × α :=
  if s.sel && !isAmbigu s.a && !isAmbigu s.b then
    (if s.a != s.b then st.1 + s.w else st.1, st.2 + s.w)
  else st

@[specialize] def jcCounts (l : List (PSite α)) : α × α := l.foldl jcStep (0, 0)

/-- `(p(j,k), dist(j,k))` of `JC69Dist` for j < k (second loop nest: regenerated, tie T2) -/
@[specialize] def jcPair (l : List (PSite α)) : α × α :=
  let c := jcCounts l
  Gen.ProtDist.jc69Cell c.1 c.2

/-- a symmetric matrix with zero diagonal from its upper triangle (`mat.NewDense` is zero-filled; every
cell (j,k), j<k, is written together with its mirror (k,j); the diagonal is never written) -/
@[specialize] def symMatrix (n : Nat) (upper : Nat → Nat → α) : List (List α) :=
  (List.range n).map fun i => (List.range n).map fun j =>
    if i = j then 0 else if i < j then upper i j else upper j i

/-- what `JC69Dist(a, weights, selected)` returns: `(p, dist)` (`q` stays zero) -/
@[specialize] def jc69Dist (rows : List Seq) (ws : List α) (sel : List Bool) : List (List α) × List (List α) :=
  let len := alLength rows
  let cell := fun i j => jcPair (psites len (rows.getD i []) (rows.getD j []) sel ws)
  (symMatrix rows.length fun i j => (cell i j).1, symMatrix rows.length fun i j => (cell i j).2)

/-! ### aaFrequency (utils.go:40) and the frequencies the substitution model ends up with -/

/-- `aaFrequency`: rows in the outer loop (`IterateChar`), sites in the inner loop -/
@[specialize] def aaFrequency (v : Variant) (rows : List Seq) (ws : List α) (sel : List Bool) : List α :=
  let freq0 : α := 1 / RealLike.ofNat ns
  let num := rows.foldl (fun num s =>
    (List.range s.length).foldl (fun (num : List α) j =>
      if sel.getD j false then
        let w := ws.getD j 0
        match aaIndex (s.getD j 0) with
        | some idx => num.modify idx (· + w)
        | none => if v.freqAccumulates then num.map (· + w * freq0) else num.map fun _ => w * freq0
      else num) num) (List.replicate ns (0 : α))
  let oneLess := num.any fun x => RealLike.ltb x (1 / RealLike.ofNat ns)
  let num := if oneLess then num.map (· + 1) else num
  let sum := num.foldl (· + ·) 0
  num.map (· / sum)

/-- `ProtModel.InitModel` first normalises the frequencies it is given (or its table's): `pi[i] / Σ pi`,
summed in index order (models/protein/model.go:117-125) -/
@[specialize] def normalisePi (pi0 : List α) : List α :=
  let tot := sumTo ns fun i => pi0.getD i 0
  (List.range ns).map fun i => pi0.getD i 0 / tot

/-- the frequencies of the substitution model after `ProtDistModel.InitModel(a, weights)`; `table`: the
model's own frequencies (regenerated table, `Gv.Gen.Protein`) -/
@[specialize] def modelPi (v : Variant) (modelFreqs rmGaps : Bool) (table : List α) (rows : List Seq) (ws : Option (List α)) : List α :=
  if modelFreqs then normalisePi table
  else
    let w := defaultWeights (alLength rows) ws
    normalisePi (aaFrequency v rows w (selectedSites rows rmGaps))

/-! ### the substitution model as `lk_Dist` sees it -/

/-- what `pMat` / `partialLK` read from `model.model` (matrices row-major, 20 × 20) -/
structure Subst (α : Type) where
  piA : Array α
  valA : Array α
  /-- `LeigenVects()` (inverse of the right eigen vectors) -/
  leftA : Array α
  /-- `ReigenVects()` -/
  rightA : Array α
  useGamma : Bool
  alpha : α

@[inline] def Subst.pi (m : Subst α) (i : Nat) : α := m.piA.getD i 0
@[inline] def Subst.val (m : Subst α) (k : Nat) : α := m.valA.getD k 0
@[inline] def Subst.left (m : Subst α) (i j : Nat) : α := m.leftA.getD (i * ns + j) 0
@[inline] def Subst.right (m : Subst α) (i j : Nat) : α := m.rightA.getD (i * ns + j) 0

/-- `acc + f k + f (k+1) + … + f (k+r-1)`, accumulated from the left -/
@[specialize] def sumFrom (f : Nat → α) : Nat → Nat → α → α
  | _, 0, acc => acc
  | k, r + 1, acc => sumFrom f (k + 1) r (acc + f k)

/-- `f 0 + f 1 + … + f (n-1)` accumulated from 0 (equal to `Spec.Subst.sumTo`, without building the index list) -/
@[specialize] def sumN (n : Nat) (f : Nat → α) : α := sumFrom f 0 n 0

/-- `DBL_MIN = 2^-1022` (the oracle checks the bit pattern of the regenerated constant) -/
def dblMin : α := 1 / RealLike.pow 2 1022
/-- `DBL_EPSILON = math.Nextafter(1, 2) - 1 = 2^-52` -/
def dblEps : α := 1 / RealLike.pow 2 52

/-- `expt[k]` of `pMatEmpirical` -/
@[specialize] def expt (m : Subst α) (len : α) (k : Nat) : α :=
  if m.useGamma && RealLike.ltb dblEps (RealLike.abs m.alpha) then
    RealLike.pow (m.alpha / (m.alpha - m.val k * len)) m.alpha
  else RealLike.exp (m.val k * len)

/-- a vector of `n` values computed once (the Go code stores `expt` in a slice) -/
@[specialize] def tabulate (n : Nat) (f : Nat → α) : Array α := ((List.range n).map f).toArray
/-- reading a tabulated vector -/
@[inline] def tabGet (t : Array α) (k : Nat) : α := t.getD k 0

/-- one entry of `model.pij` after `pMatEmpirical(len)`, given the slice `expt`:
`v = 0; v += (U[i][k]*expt[k]) * V[k][j]`, floored at `DBL_MIN` -/
@[specialize] def pEmpiricalOf (m : Subst α) (ex : Nat → α) (i j : Nat) : α :=
  let v := sumN ns fun k => (m.right i k * ex k) * m.left k j
  if RealLike.ltb v dblMin then dblMin else v

def pEmpirical (m : Subst α) (len : α) (i j : Nat) : α := pEmpiricalOf m (expt m len) i j

/-- `pMat(l)` given the slice `expt` for `l` -/
@[specialize] def pMatOf (m : Subst α) (l : α) (ex : Nat → α) (i j : Nat) : α :=
  if RealLike.ltb l Gen.ProtDist.BL_MIN then (if i = j then 1 else 0) else pEmpiricalOf m ex i j

/-- the branch length `lk_Dist` really uses -/
@[specialize] def clampBL (dist : α) : α :=
  if RealLike.ltb dist Gen.ProtDist.BL_MIN then Gen.ProtDist.BL_MIN
  else if RealLike.ltb Gen.ProtDist.BL_MAX dist then Gen.ProtDist.BL_MAX else dist

/-- log-likelihood of a 20×20 weight matrix given transition probabilities `P` (row-major accumulation);
`partialLK(i,j) = 0 + π_i · P_ij` -/
@[specialize] def lnLOf (pi : Nat → α) (F P : Nat → Nat → α) : α :=
  (List.range ns).foldl (fun acc i =>
    (List.range ns).foldl (fun acc j => acc + F i j * RealLike.log (0 + pi i * P i j)) acc) 0

/-- `lk_Dist(F, dist)` -/
@[specialize] def lkDist (m : Subst α) (F : Nat → Nat → α) (dist : α) : α :=
  let len := clampBL dist
  let ex := tabulate ns (expt m len)
  lnLOf m.pi F (pMatOf m len (tabGet ex))

/-! ### dist_F_Brent (lk.go:176), for an arbitrary objective -/

structure BState (α : Type) where
  a : α
  b : α
  d : α
  e : α
  v : α
  w : α
  x : α
  fv : α
  fw : α
  fx : α
  oldp : α
  curp : α

inductive BStatus
  /-- the stop test fired: `*param = x` -/
  | converged
  /-- `iter > n_iter_max` at an improving trial point: `*param = |u|` -/
  | iterCap
  /-- `BRENT_ITMAX` iterations: `panic("Too many iterations in BRENT.")` -/
  | tooMany
deriving BEq, Repr, DecidableEq

structure BResult (α : Type) where
  status : BStatus
  /-- `*param` when the function returns -/
  param : α
  /-- the returned float -/
  value : α
  /-- every abscissa the objective was evaluated at by the loop (`|bx|`, then every `|u|`), latest first -/
  evals : List α

/-- utils.go `sign` -/
@[specialize] def sign (a b : α) : α := if RealLike.ltb 0 b then RealLike.abs a else -(RealLike.abs a)

def half : α := (1 : α) / (2 : α)

@[specialize] def tol1Of (tol x : α) : α := tol * RealLike.abs x + Gen.ProtDist.BRENT_ZEPS

/-- `if u < BL_MIN { u = BL_MIN }` -/
@[specialize] def raiseToMin (u : α) : α := if RealLike.ltb u Gen.ProtDist.BL_MIN then Gen.ProtDist.BL_MIN else u

/-- the trial step of one iteration, before `u` is raised to `BL_MIN`: `(d, e, u)` -/
@[specialize] def brentTrial0 (tol : α) (s : BState α) : α × α × α :=
  let xm := half * (s.a + s.b)
  let tol1 := tol1Of tol s.x
  let tol2 := 2 * tol1
  let goldenE : α := if RealLike.leb xm s.x then s.a - s.x else s.b - s.x
  let golden : α × α := (Gen.ProtDist.BRENT_CGOLD * goldenE, goldenE)
  let de : α × α :=
    if RealLike.ltb tol1 (RealLike.abs s.e) then
      let r := (s.x - s.w) * (s.fx - s.fv)
      let q := (s.x - s.v) * (s.fx - s.fw)
      let p := (s.x - s.v) * q - (s.x - s.w) * r
      let q := 2 * (q - r)
      let p := if RealLike.ltb 0 q then -p else p
      let q := RealLike.abs q
      let etemp := s.e
      let e := s.d
      if RealLike.leb (RealLike.abs (half * q * etemp)) (RealLike.abs p) || RealLike.leb p (q * (s.a - s.x))
          || RealLike.leb (q * (s.b - s.x)) p then golden
      else
        let d := p / q
        let u := s.x + d
        let d := if RealLike.ltb (u - s.a) tol2 || RealLike.ltb (s.b - u) tol2 then sign tol1 (xm - s.x) else d
        (d, e)
    else golden
  let d := de.1
  let u := if RealLike.leb tol1 (RealLike.abs d) then s.x + d else s.x + sign tol1 d
  (d, de.2, u)

/-- the trial step of one iteration: `(d, e, u)` with `u` already raised to `BL_MIN` -/
@[specialize] def brentTrial (tol : α) (s : BState α) : α × α × α :=
  let t := brentTrial0 tol s
  (t.1, t.2.1, raiseToMin t.2.2)

/-- bookkeeping after the objective was evaluated at `|u|` (value `fu`) and the loop goes on -/
@[specialize] def brentUpdate (s : BState α) (d e u fu : α) : BState α :=
  let s := { s with d := d, e := e, oldp := s.curp, curp := RealLike.abs u }
  if RealLike.leb fu s.fx then
    let s := if RealLike.leb s.x u then { s with a := s.x } else { s with b := s.x }
    { s with v := s.w, w := s.x, x := u, fv := s.fw, fw := s.fx, fx := fu }
  else
    let s := if RealLike.ltb u s.x then { s with a := u } else { s with b := u }
    if RealLike.leb fu s.fw || RealLike.ltb (RealLike.abs (s.w - s.x)) dblEps then
      { s with v := s.w, w := u, fv := s.fw, fw := fu }
    else if RealLike.leb fu s.fv || RealLike.ltb (RealLike.abs (s.v - s.x)) dblEps
        || RealLike.ltb (RealLike.abs (s.v - s.w)) dblEps then
      { s with v := u, fv := fu }
    else s

/-- the stop test at the top of iteration `iter` -/
@[specialize] def brentStop (bracket : Bool) (tol : α) (iter : Nat) (s : BState α) : Bool :=
  if bracket then
    -- repaired: `math.Abs(x-xm) <= (tol2 - 0.5*(b-a))`
    RealLike.leb (RealLike.abs (s.x - half * (s.a + s.b))) (2 * tol1Of tol s.x - half * (s.b - s.a))
  else
    -- as is: `(iter > 1) && math.Abs(old_param-cur_param) < 1.E-06`
    decide (iter > 1) && RealLike.ltb (RealLike.abs (s.oldp - s.curp)) ((1 : α) / (1000000 : α))

/-- the `for iter = 1; iter <= BRENT_ITMAX; iter++` loop; `fuel` = iterations left -/
@[specialize] def brentLoop (f : α → α) (bracket : Bool) (tol : α) (nIterMax : Nat) :
    Nat → Nat → BState α → α → List α → BResult α
  | 0, _, _, param, evals => ⟨.tooMany, param, -(1 : α), evals⟩
  | fuel + 1, iter, s, _, evals =>
    if brentStop bracket tol iter s then
      -- `*param = x; curr_lnL = model.lk_Dist(F, *param); return -curr_lnL`
      ⟨.converged, s.x, f s.x, evals⟩
    else
      let t := brentTrial tol s
      let u := t.2.2
      let au := RealLike.abs u
      let fu := f au
      if RealLike.leb fu s.fx && decide (iter > nIterMax) then ⟨.iterCap, au, fu, au :: evals⟩
      else brentLoop f bracket tol nIterMax fuel (iter + 1) (brentUpdate s t.1 t.2.1 u fu) au (au :: evals)

/-- `dist_F_Brent(ax, bx, cx, tol, n_iter_max, &param, F)` for the objective `f = fun t => -lk_Dist(F, t)`;
`param0`: the value `*param` holds on entry -/
@[specialize] def brent (f : α → α) (bracket : Bool) (ax bx cx tol : α) (nIterMax : Nat) (param0 : α) : BResult α :=
  let ab : α × α := if RealLike.ltb ax cx then (ax, cx) else (cx, ax)
  let abx := RealLike.abs bx
  let fw := f abx
  brentLoop f bracket tol nIterMax Gen.ProtDist.BRENT_ITMAX 1
    ⟨ab.1, ab.2, 0, 0, bx, bx, bx, fw, fw, fw, abx, abx⟩ param0 [abx]

/-- `opt_Dist_F(dist, F)`: the whole Brent result (`.param` is the value the function returns) -/
@[specialize] def optDistF (f : α → α) (bracket : Bool) (dist : α) : BResult α :=
  let dist := if RealLike.ltb dist Gen.ProtDist.BL_MIN then Gen.ProtDist.BL_MIN else dist
  brent f bracket Gen.ProtDist.BL_MIN dist Gen.ProtDist.BL_MAX Gen.ProtDist.brentTol Gen.ProtDist.brentNIterMax dist

/-! ### MLDist (lk.go:24), one pair -/

/-- `checkAmbiguities` + the masking inside the `l` loop: `w = weights[l]`, set to 0 at an ambiguous site -/
def fWeight (s : PSite α) : α := if isAmbigu s.a || isAmbigu s.b then 0 else s.w

/-- `(state0, state1)` when both are > −1 -/
def fStates (s : PSite α) : Option (Nat × Nat) :=
  match aaIndex s.a, aaIndex s.b with
  | some x, some y => some (x, y)
  | _, _ => none

/-- what one iteration of the `l` loop does to `Fs[i][j]` -/
def fCellStep (i j : Nat) (acc : α) (s : PSite α) : α :=
  if s.sel then
    match fStates s with
    | some (x, y) => if x = i ∧ y = j then acc + fWeight s else acc
    | none => acc
  else acc

/-- `Fs[i][j]` after the `l` loop (before normalisation): the weights added to that cell, in site order -/
@[specialize] def fCell (l : List (PSite α)) (i j : Nat) : α := l.foldl (fCellStep i j) 0

/-- what one iteration of the `l` loop does to `len` -/
def fLenStep (acc : α) (s : PSite α) : α := if s.sel && (fStates s).isSome then acc + fWeight s else acc

/-- `len` after the `l` loop -/
@[specialize] def fLen (l : List (PSite α)) : α := l.foldl fLenStep 0

/-- `Fs` after `if len > .0 { Fs.Apply(v / len) }` -/
@[specialize] def fNorm (l : List (PSite α)) (i j : Nat) : α :=
  if RealLike.ltb 0 (fLen l) then fCell l i j / fLen l else fCell l i j

/-- `mat.Sum(Fs)`: row sums, added up (gonum's `floats.Sum` may associate differently inside a row; only
compared with the thresholds .001 and 1 ± .001) -/
@[specialize] def fSum (F : Nat → Nat → α) : α := sumTo ns fun i => sumTo ns fun j => F i j

/-- `check2SequencesDiff` (after `checkAmbiguities`): some site with two unambiguous, different residues;
in the repaired variant only selected sites count -/
def seqsDiffer (v : Variant) (l : List (PSite α)) : Bool :=
  l.any fun s => (!v.diffHonoursSelection || s.sel) && (!isAmbigu s.a && !isAmbigu s.b) && s.a != s.b

/-- the 400 cells of a matrix computed once, row-major (the Go code stores them in a `mat.Dense`) -/
@[specialize] def cellsOf (F : Nat → Nat → α) : Array α := tabulate (ns * ns) fun k => F (k / ns) (k % ns)
/-- reading the stored matrix -/
@[inline] def ofCells (cells : Array α) (i j : Nat) : α := tabGet cells (i * ns + j)

inductive PairOut (α : Type)
  /-- `dist.Set(j, k, d_max)` -/
  | ok (d : α)
  /-- `return nil, nil, nil, fmt.Errorf("Invalid value when computing distance. sum = %f.", sum)` -/
  | sumError
  /-- `panic("Too many iterations in BRENT.")` -/
  | brentPanic

/-- `init` as handed to `opt_Dist_F`: the JC69 distance, or 0.1 when that is saturated or negative -/
def mlInit (jc : α) : α :=
  if RealLike.eqb jc Gen.ProtDist.PROT_DIST_MAX || RealLike.ltb jc 0 then Gen.ProtDist.mlRestart else jc

/-- `if d_max >= PROT_DIST_MAX { d_max = PROT_DIST_MAX }` -/
def capDist (d : α) : α := if RealLike.leb Gen.ProtDist.PROT_DIST_MAX d then Gen.ProtDist.PROT_DIST_MAX else d

/-- the body of the `k` loop of `MLDist` for the pair whose site list is `l`; `jc`: `dist.At(j, k)` as left by
`JC69Dist`; `lk`: `lk_Dist` as a function of the frequency matrix and the distance -/
@[specialize] def pairDistWith (v : Variant) (lk : (Nat → Nat → α) → α → α) (l : List (PSite α)) (jc : α) : PairOut α :=
  if seqsDiffer v l then
    let cells := cellsOf (fNorm l)
    let F := ofCells cells
    let sum := fSum F
    if RealLike.ltb sum Gen.ProtDist.sumLow then .ok (capDist Gen.ProtDist.mlMissing)
    else if RealLike.ltb Gen.ProtDist.sumHi1 sum && RealLike.ltb sum Gen.ProtDist.sumHi2 then
      let r := optDistF (fun t => -(lk F t)) v.brentBracketStop (mlInit jc)
      match r.status with
      | .tooMany => .brentPanic
      | _ => .ok (capDist r.param)
    else .sumError
  else .ok 0

@[specialize] def pairDist (v : Variant) (m : Subst α) (l : List (PSite α)) (jc : α) : PairOut α :=
  pairDistWith v (lkDist m) l jc

inductive MLErr | sumInvalid | tooManyIterations
deriving BEq, Repr

/-- the pairs in the order of the `j`, `k` loops -/
def pairOrder (n : Nat) : List (Nat × Nat) :=
  (List.range n).flatMap fun j => ((List.range n).filter (j < ·)).map fun k => (j, k)

/-- run the pairs in order; the first failure ends the call -/
@[specialize] def collect (f : Nat × Nat → PairOut α) : List (Nat × Nat) → Except MLErr (List ((Nat × Nat) × α))
  | [] => .ok []
  | p :: ps =>
    match f p with
    | .ok d =>
      match collect f ps with
      | .ok r => .ok ((p, d) :: r)
      | .error e => .error e
    | .sumError => .error .sumInvalid
    | .brentPanic => .error .tooManyIterations

/-- the value stored for pair `(i, j)` (0 when the pair was never written) -/
def stored (ds : List ((Nat × Nat) × α)) (i j : Nat) : α :=
  match ds.find? (fun e => e.1 == (i, j)) with
  | some e => e.2
  | none => 0

/-- site list of the pair of rows `(i, j)` as `MLDist` / `JC69Dist` walk it -/
def pairSites (rmGaps : Bool) (rows : List Seq) (ws : Option (List α)) (i j : Nat) : List (PSite α) :=
  let len := alLength rows
  psites len (rows.getD i []) (rows.getD j []) (selectedSites rows rmGaps) (defaultWeights len ws)

/-- what `MLDist` computes for the pair of rows `(i, j)`, i < j -/
@[specialize] def pairOut (v : Variant) (m : Subst α) (rmGaps : Bool) (rows : List Seq) (ws : Option (List α)) (ij : Nat × Nat) : PairOut α :=
  let l := pairSites rmGaps rows ws ij.1 ij.2
  pairDist v m l (jcPair l).2

/-- the `dist` matrix `MLDist(a, weights)` returns (its `p` is `(jc69Dist …).1`) -/
@[specialize] def mlDist (v : Variant) (m : Subst α) (rmGaps : Bool) (rows : List Seq) (ws : Option (List α)) :
    Except MLErr (List (List α)) :=
  match collect (pairOut v m rmGaps rows ws) (pairOrder rows.length) with
  | .ok ds => .ok (symMatrix rows.length (stored ds))
  | .error e => .error e

end
end Gv.Model.ProtDist
