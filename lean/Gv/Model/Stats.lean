import Gv.Model.Clean
import Gv.Model.Translate
/-!
Model of the column statistics of `align/align.go`, `align/seqbag.go`, `align/sequence.go`
(property C14).  Counting functions are exact; the float-valued ones (`Entropy`, `AvgAllelesPerSite`)
are written over `Float` with the summation order of the code after the `fix:` commits (increasing
character order).  Core-only.
-/
namespace Gv.Model
open Gv

/-- sorted association list of counts: increment the entry of `k` -/
def bump (k : Byte) : List (Byte × Nat) → List (Byte × Nat)
  | [] => [(k, 1)]
  | (a, n) :: t => if k == a then (a, n + 1) :: t else if k < a then (k, 1) :: (a, n) :: t else (a, n) :: bump k t

/-- counts of `f c` over the characters, as a key-sorted list (a canonical rendering of a Go map) -/
def countsBy (f : Byte → Byte) (cs : List Byte) : List (Byte × Nat) := cs.foldl (fun acc c => bump (f c) acc) []

/-- `CharStats()`: counts of upper-cased characters over all rows (the `present[130]` array makes any
byte ≥ 130 an index panic: outside the ASCII quantifier) -/
def charStats (rows : CRows) : List (Byte × Nat) := countsBy toUpper (rows.flatMap Prod.snd)

/-- `UniqueCharacters()` -/
def uniqueCharacters (rows : CRows) : List Byte := (charStats rows).map Prod.fst

/-- `CharStatsSeq(idx)` -/
def charStatsSeq (rows : CRows) (idx : Int) : Option (List (Byte × Nat)) :=
  if idx < 0 || idx ≥ rows.length then none
  else (rows[idx.toNat]?).map fun r => countsBy toUpper r.2

/-- `CharStatsSite(site)` -/
def charStatsSite (rows : CRows) (L : Int) (site : Int) : Option (List (Byte × Nat)) :=
  if site < 0 || site ≥ L then none else some (countsBy toUpper (columnAt rows site.toNat))

/-- `Entropy(site, removegaps)`: `none` = error; counts of raw characters except `*`, `.` (and `-`) -/
def entropy (rows : CRows) (L : Int) (site : Int) (removegaps : Bool) : Option Float :=
  if site < 0 || site ≥ L then none else
  let col := (columnAt rows site.toNat).filter fun s => s != OTHER && s != POINT && (!removegaps || s != GAP)
  let occ := countsBy id col
  let total := col.length
  if total == 0 then some (0.0 / 0.0) else
  some (occ.foldl (fun e p =>
    let proba := Float.ofNat p.2 / Float.ofNat total
    e - proba * Float.log proba) 0.0)

/-- the loop of `NbVariableSites` over the rows of one column: `seen` is the key set of `charmap` (in
order of insertion); the loop stops as soon as `len(charmap) > 1` -/
def variableLoop : List Byte → List Byte → Bool
  | [], _ => false
  | s :: t, seen =>
    let seen' := if s != GAP && s != POINT && s != OTHER then (if seen.contains s then seen else seen ++ [s]) else seen
    if seen'.length > 1 then true else variableLoop t seen'

/-- `NbVariableSites()`: raw characters except `-`, `.`, `*`; variable = at least two distinct -/
def nbVariableSites (rows : CRows) (L : Int) : Nat :=
  ((List.range L.toNat).filter fun j => variableLoop (columnAt rows j) []).length

/-- the early-exit loop of `InformativeSites` on one column: number of upper-cased characters reaching
a count of 2, scanning the rows in order and stopping as soon as two did -/
def informativeLoop (all : Byte) : List Byte → List (Byte × Nat) → Nat → Bool
  | [], _, _ => false
  | s :: t, counts, nbinf =>
    if s != GAP && s != POINT && s != all then
      let counts' := bump (toUpper s) counts
      let c := ((counts'.find? fun p => p.1 == toUpper s).map Prod.snd).getD 0
      let nbinf' := if c == 2 then nbinf + 1 else nbinf
      if nbinf' ≥ 2 then true else informativeLoop all t counts' nbinf'
    else informativeLoop all t counts nbinf

/-- `InformativeSites()` -/
def informativeSites (rows : CRows) (L : Int) (alphabet : Nat) : List Nat :=
  let all : Byte := if alphabet == AMINOACIDS then 88 else if alphabet == NUCLEOTIDS then 78 else 46
  (List.range L.toNat).filter fun j => informativeLoop all (columnAt rows j) [] 0

/-- `AvgAllelesPerSite()`: (number of alleles summed over sites, number of sites that are not only
gaps/specials) — the Go function returns their float quotient -/
def avgAllelesCounts (rows : CRows) (L : Int) : Nat × Nat :=
  (List.range L.toNat).foldl (fun acc j =>
    let col := (columnAt rows j).filter fun s => s != GAP && s != POINT && s != OTHER
    (acc.1 + (countsBy id col).length, if col.isEmpty then acc.2 else acc.2 + 1)) (0, 0)

def avgAlleles (rows : CRows) (L : Int) : Float :=
  let c := avgAllelesCounts rows L
  Float.ofNat c.1 / Float.ofNat c.2

/-- `CountDifferences()` on an alignment with at least one row: (all differences in order of first
appearance, per-row maps `REFNEW ↦ count` as association lists in order of first appearance) -/
def countDifferences1 (f : String × Seq) (rest : CRows) : List (Byte × Byte) × List (List ((Byte × Byte) × Nat)) :=
  match rest with
  | [] => ([], [])
  | _ =>
    let perRow := rest.map fun r => (f.2.zip r.2).filter fun p => p.1 != p.2
    let all := perRow.flatten.foldl (fun acc p => if acc.contains p then acc else acc ++ [p]) []
    (all, perRow.map fun ds =>
      (ds.foldl (fun acc p => if acc.any (·.1 == p) then acc.map (fun q => if q.1 == p then (q.1, q.2 + 1) else q) else acc ++ [(p, 1)]) []))

/-- `CountDifferences()` (after the `fix:` commit: without any sequence both results are empty, as with a
single sequence) -/
def countDifferences (rows : CRows) : List (Byte × Byte) × List (List ((Byte × Byte) × Nat)) :=
  match rows with
  | [] => ([], [])
  | f :: rest => countDifferences1 f rest

/-- `numuniques[i]++` on a counter slice -/
def incrAt : List Nat → Nat → List Nat
  | [], _ => []
  | x :: t, 0 => (x + 1) :: t
  | x :: t, i + 1 => x :: incrAt t i

/-- the inner loop of `NumGapsUniquePerSequence(nil)` over the rows `j, j+1, …` of one column:
`(nbGapsColumn, uniqueIndex)`; without a profile the loop stops at the second gap.  (`uniqueIndex`
starts at −1 in Go; it is only read when exactly one gap was seen, hence after it was set: 0 here.) -/
def gapScan : List Byte → Nat → Nat → Nat → Nat × Nat
  | [], _, nb, idx => (nb, idx)
  | r :: t, j, nb, idx =>
    if r == GAP then (if nb + 1 > 1 then (nb + 1, j) else gapScan t (j + 1) (nb + 1) j)
    else gapScan t (j + 1) nb idx

/-- `NumGapsUniquePerSequence(nil)`: gaps unique in their column, per row (one counter per row,
incremented site after site) -/
def numGapsUnique (rows : CRows) (L : Int) : List Nat :=
  (List.range L.toNat).foldl (fun acc i =>
    let r := gapScan (columnAt rows i) 0 0 0
    if r.1 == 1 then incrAt acc r.2 else acc) (rows.map fun _ => 0)

/-- `indices[c]` after the first inner loop of `NumMutationsUniquePerSequence`: the last row holding `c`
(0 when there is none: the initial value of the slice) -/
def lastRowOf (c : Byte) : List Byte → Nat → Nat → Nat
  | [], _, idx => idx
  | r :: t, j, idx => lastRowOf c t (j + 1) (if r == c then j else idx)

/-- `NumMutationsUniquePerSequence(nil)`: characters (not `-`, not the N/X wildcard) unique in their
column, per row.  Per site, `occurences[c]` is the number of rows holding `c` and the second inner loop
visits `c = 0 … 129` in increasing order.  The two slices have 130 entries: a byte ≥ 130 in one of the
`L` columns is an index panic (`none`). -/
def numMutationsUnique (rows : CRows) (L : Int) (alphabet : Nat) : Option (List Nat) :=
  let all : Byte := if alphabet == AMINOACIDS then 88 else if alphabet == NUCLEOTIDS then 78 else 46
  if (List.range L.toNat).any (fun i => (columnAt rows i).any fun r => r ≥ 130) then none else
  some ((List.range L.toNat).foldl (fun acc i =>
    let col := columnAt rows i
    (List.range 130).foldl (fun acc c =>
      let ch := UInt8.ofNat c
      if col.count ch == 1 && ch != all && ch != GAP then incrAt acc (lastRowOf ch col 0 0) else acc) acc)
    (rows.map fun _ => 0))

/-! ### count profile (`align/profile.go`) -/

/-- one `p.counts[idx][i]++` of `NewCountProfileFromAlignment` (with the creation of the row of `L` zeros when
the character is new): the profile is the association list `character ↦ counts per site`, in `header` order
(first appearance) -/
def profStep (L : Nat) (acc : List (Byte × List Nat)) (x : Nat × Byte) : List (Byte × List Nat) :=
  if acc.any (·.1 == x.2) then acc.map fun q => if q.1 == x.2 then (q.1, incrAt q.2 x.1) else q
  else acc ++ [(x.2, incrAt (List.replicate L 0) x.1)]

/-- the (site, character) pairs in the order the constructor visits them: row after row, left to right -/
def profItems (rows : CRows) : List (Nat × Byte) := rows.flatMap fun r => r.2.zipIdx.map fun p => (p.2, p.1)

/-- `NewCountProfileFromAlignment(al)`; `none` = index panic: `names` has 130 entries -/
def countProfile (rows : CRows) (L : Int) : Option (List (Byte × List Nat)) :=
  if rows.any (fun r => r.2.any fun c => c ≥ 130) then none
  else some ((profItems rows).foldl (profStep L.toNat) [])

/-- `p.Count(r, site)`: outer `none` = index panic (`r ≥ 130`), inner `none` = error (unknown character, site
outside the profile) -/
def profileCount (prof : List (Byte × List Nat)) (r : Byte) (site : Int) : Option (Option Nat) :=
  if r ≥ 130 then none else
  match lookup r prof with
  | none => some none
  | some cs => if site < 0 || site ≥ cs.length then some none else some (some (cs.getD site.toNat 0))

/-- `p.CountsAt(i)`: the counters of the `i`-th character of the header; an error outside `[0, number of
characters)` (after the `fix:` commit: `i >= len(p.counts)`) -/
def profileCountsAt (prof : List (Byte × List Nat)) (i : Int) : Option (List Nat) :=
  if i ≥ prof.length || i < 0 then none else (prof[i.toNat]?).map Prod.snd

/-! ### unique gaps / mutations per sequence with a count profile -/

/-- `CheckLength(length)`: every character of the profile has `length` counters -/
def profileCheckLength (prof : List (Byte × List Nat)) (L : Int) : Bool := prof.all fun q => (q.2.length : Int) == L

/-- `c, _ = countProfile.Count(r, site)` for `r < 130`: the count, and 0 when `Count` reports an error (unknown
character, site outside the profile) -/
def profileCount0 (prof : List (Byte × List Nat)) (r : Byte) (site : Nat) : Nat :=
  ((profileCount prof r site).getD none).getD 0

/-- the inner loop of `NumGapsUniquePerSequence(profile)` over the rows `j, j+1, …` of one column: with a profile
there is no early exit; `isNew` = the profile has no gap at this site (`Count(GAP, i) == 0`, evaluated by the Go
code at every gap); state `(nbGapsColumn, uniqueIndex, numnew)` -/
def gapScanProf (isNew : Bool) : List Byte → Nat → Nat → Nat → List Nat → Nat × Nat × List Nat
  | [], _, nb, idx, nn => (nb, idx, nn)
  | r :: t, j, nb, idx, nn =>
    if r == GAP then gapScanProf isNew t (j + 1) (nb + 1) j (if isNew then incrAt nn j else nn)
    else gapScanProf isNew t (j + 1) nb idx nn

/-- `NumGapsUniquePerSequence(profile)`: `(numuniques, numnew, numboth)`; `none` = the error of the length check -/
def numGapsUniqueProf (rows : CRows) (L : Int) (prof : List (Byte × List Nat)) : Option (List Nat × List Nat × List Nat) :=
  if !profileCheckLength prof L then none else
  let zeros := rows.map fun _ => 0
  some ((List.range L.toNat).foldl (fun (acc : List Nat × List Nat × List Nat) i =>
    let isNew := profileCount0 prof GAP i == 0
    let r := gapScanProf isNew (columnAt rows i) 0 0 0 acc.2.1
    if r.1 == 1 then (incrAt acc.1 r.2.1, r.2.2, if isNew then incrAt acc.2.2 r.2.1 else acc.2.2)
    else (acc.1, r.2.2, acc.2.2)) (zeros, zeros, zeros))

/-- `NumMutationsUniquePerSequence(profile)`: `(numuniques, numnew, numboth)`.  Inner `none` = the error of the
length check (tested first); outer `none` = index panic of the 130-entry slices (a byte ≥ 130 in a column).
Per site, the first inner loop fills `occurences` / `indices` and increments `numnew[j]` for every character
(neither wildcard nor gap) that the profile does not have there; the second visits `c = 0 … 129`. -/
def numMutationsUniqueProf (rows : CRows) (L : Int) (alphabet : Nat) (prof : List (Byte × List Nat)) :
    Option (Option (List Nat × List Nat × List Nat)) :=
  let all : Byte := if alphabet == AMINOACIDS then 88 else if alphabet == NUCLEOTIDS then 78 else 46
  if !profileCheckLength prof L then some none else
  if (List.range L.toNat).any (fun i => (columnAt rows i).any fun r => r ≥ 130) then none else
  let zeros := rows.map fun _ => 0
  some (some ((List.range L.toNat).foldl (fun (acc : List Nat × List Nat × List Nat) i =>
    let col := columnAt rows i
    let nn := col.zipIdx.foldl (fun nn (p : Byte × Nat) =>
      if p.1 != all && p.1 != GAP && profileCount0 prof p.1 i == 0 then incrAt nn p.2 else nn) acc.2.1
    let ub := (List.range 130).foldl (fun (ub : List Nat × List Nat) c =>
      let ch := UInt8.ofNat c
      if col.count ch == 1 && ch != all && ch != GAP then
        let ind := lastRowOf ch col 0 0
        (incrAt ub.1 ind, if profileCount0 prof ch i == 0 then incrAt ub.2 ind else ub.2)
      else ub) (acc.1, acc.2.2)
    (ub.1, nn, ub.2)) (zeros, zeros, zeros)))

/-- `Nt2IndexIUPAC` -/
def nt2IndexIUPAC (c : Byte) : Option Byte := lookup (toUpper c) Gen.iupacToInt

/-- `EqualOrCompatible(nt1, nt2)` on IUPAC bit codes (`none` = error: code > NT_N) -/
def equalOrCompatible (a b : Byte) : Option Bool :=
  if a > 15 || b > 15 then none else some (a == b || (a &&& b) > 0)

/-- `NumMutationsComparedToReferenceSequence(alphabet, ref)` -/
def numMutationsVsRef (alphabet : Nat) (s ref : Seq) : Option Nat :=
  if s.length != ref.length then none else
  if alphabet == NUCLEOTIDS then
    match ref.mapM nt2IndexIUPAC, s.mapM nt2IndexIUPAC with
    | some rc, some sc =>
      some (((s.zip (sc.zip rc)).filter fun (c, a, b) =>
        c != GAP && c != 78 && !((equalOrCompatible a b).getD true)).length)
    | _, _ => none
  else some (((s.zip ref).filter fun (c, r) => c != GAP && c != 88 && c != r).length)

/-- the loop of `listMutationsComparedToReferenceSequence` over (query char, ref char, compatible?) -/
def listMutLoop (all : Byte) : List (Byte × Byte × Bool) → Nat → List Byte → List (Byte × Nat × List Byte)
  | [], refi, cur => if cur.isEmpty then [] else [(45, refi, cur)]
  | (c, r, eq) :: t, refi, cur =>
    if r == GAP then
      listMutLoop all t refi (if c != GAP then cur ++ [c] else cur)
    else
      let flush : List (Byte × Nat × List Byte) := if cur.isEmpty then [] else [(45, refi, cur)]
      let sub : List (Byte × Nat × List Byte) := if c != all && !eq then [(r, refi, [c])] else []
      flush ++ sub ++ listMutLoop all t (refi + 1) []

/-- `ListMutationsComparedToReferenceSequence(alphabet, ref, false)` -/
def listMutationsVsRef (alphabet : Nat) (s ref : Seq) : Option (List (Byte × Nat × List Byte)) :=
  if s.length != ref.length then none else
  if alphabet == NUCLEOTIDS then
    match ref.mapM nt2IndexIUPAC, s.mapM nt2IndexIUPAC with
    | some rc, some sc =>
      some (listMutLoop 78 ((s.zip (ref.zip (sc.zip rc))).map fun (c, r, a, b) => (c, r, (equalOrCompatible a b).getD true)) 0 [])
    | _, _ => none
  else some (listMutLoop 88 ((s.zip ref).map fun (c, r) => (c, r, c == r)) 0 [])

/-! ### the codon-wise mutation list (`listMutationsComparedToReferenceSequenceAA`) -/

/-- what the body of the outer loop appends for one reference segment: `refaa` the amino acid of the reference
codon (`-` for three reference gaps), `allgaps` the test on the three reference columns, `pos` the value of
`aaidx` when the entry is written, `chunk` the query columns `refcodonidx[0] … refcodonidx[2]`.  The alternative is
`-` (only gaps facing a reference codon: deletion), `/` (a number of residues that is not a multiple of 3) or the
translation of the residues codon by codon, reported when it holds more than one amino acid or differs. -/
def aaEntry (code : List (List Byte × Byte)) (refaa : Byte) (allgaps : Bool) (pos : Int) (chunk : Seq) :
    List (Byte × Int × List Byte) :=
  let tmp := chunk.filter (· != GAP)
  if tmp.length == 0 then (if allgaps then [] else [(refaa, pos, [GAP])])
  else if tmp.length % 3 != 0 then [(refaa, pos, [47])]
  else
    let cur := codonsFrom code tmp
    if cur.length > 1 || cur.any (· != refaa) then [(refaa, pos, cur)] else []

/-- the outer loop, segment after segment (`refSegs`: the same walk over the reference as `TranslateByReference`);
`q`, `r` are the columns of the query and of the reference from `refcodonidx[0]` (before the skip) on; `aaidx` is the
counter of the Go code at the top of the iteration: three reference gaps are reported at `aaidx - 1` and do not
advance it (`aaidx--` … `aaidx++`), so the first entry may carry the position −1 -/
def listMutAALoop (code : List (List Byte × Byte)) : List RefSeg → Seq → Seq → Int → List (Byte × Int × List Byte)
  | [], _, _, _ => []
  | sg :: ss, q, r, aaidx =>
    let q' := q.drop sg.skip
    let r' := r.drop sg.skip
    let allgaps := (r'.take sg.len).all (· == GAP)
    let pos := if allgaps then aaidx - 1 else aaidx
    aaEntry code sg.aa allgaps pos (q'.take sg.len) ++ listMutAALoop code ss (q'.drop sg.len) (r'.drop sg.len) (pos + 1)

/-- `ListMutationsComparedToReferenceSequence(alphabet, ref, true)`: `none` = error (different lengths, an alphabet
other than nucleotides); no character is rejected (what is not an IUPAC code translates to `X`) -/
def listMutationsVsRefAA (alphabet : Nat) (s ref : Seq) : Option (List (Byte × Int × List Byte)) :=
  if s.length != ref.length then none else
  if alphabet != NUCLEOTIDS then none else
  match geneticCode Gen.c_GENETIC_CODE_STANDARD with
  | none => none
  | some code => some (listMutAALoop code (refSegs code ref.length ref) s ref 0)

end Gv.Model
