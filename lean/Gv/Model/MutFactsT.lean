import Gv.Gen.MutFactsT
/-!
Purity / ownership checks over the TYPE-CHECKED mutation facts (tools/mutscan → `Gv.Gen.MutFactsT`; tie T3,
property C19).  Core-only.  Everything is `List` / `Nat` / `String ==`, so that the checks are evaluated by the kernel.

A node is a pair (function id, input index) encoded as `64 * id + index` (receiver = input 0 when there is one;
index 63 = "unknown memory").  An edge (F, i) → (G, j) exists when F calls G with an argument for input j that may
share memory with input i of F.  A query is pure when no node reachable from its inputs has a write to a
sequence-data location or hands sequence data to an external function that is not on the reviewed read-only list.
-/
namespace Gv.Model.MutT
open Gv.Gen.MutFactsT

/-- structs whose fields are sequence data (rows, their buffers, names, comments, alphabet, length, index) -/
def dataStructs : List String := ["align.seq", "align.seqbag", "align.align"]

/-- container types whose elements are sequence data -/
def dataContainers : List String :=
  ["[]uint8", "[]byte", "[][]uint8", "[][]byte", "[]*align.seq", "[]align.Sequence", "map[string]*align.seq",
   "[]align.Alignment", "[]align.SeqBag", "[]*align.align", "*[]uint8", "*align.seq", "*align.align", "*align.seqbag",
   "chan align.Sequence", "chan align.Alignment"]

/-- a write to a location that is part of an alignment / sequence set / sequence -/
def isSeqData (w : W) : Bool :=
  if w.lkind == "field" then dataStructs.contains w.ltyp else dataContainers.contains w.ltyp

/-- argument types through which an external function could write sequence data -/
def dataArgTypes : List String :=
  dataContainers ++ ["align.Alignment", "align.SeqBag", "align.Sequence", "any", "interface{}", "[]any", "[]interface{}"]

/-- external functions (standard library) reviewed as never writing through their arguments (the receiver of a
`bytes.Buffer` / `strings.Builder` / `io.Writer` is written, the byte slices handed to them are only read) -/
def roExternals : List String :=
  ["(*bytes.Buffer).Write", "(*bytes.Buffer).WriteString", "(*strings.Builder).Write", "io.Writer.Write",
   "(*bufio.Writer).Write", "bytes.Equal", "bytes.Compare", "bytes.IndexByte", "bytes.Index", "bytes.Contains",
   "bytes.Count", "bytes.ToUpper", "bytes.ToLower", "bytes.HasPrefix", "bytes.HasSuffix", "bytes.NewReader",
   "bytes.Repeat", "bytes.Join", "bytes.Split", "bytes.Fields",
   "fmt.Sprintf", "fmt.Sprint", "fmt.Sprintln", "fmt.Fprintf", "fmt.Fprint", "fmt.Fprintln", "fmt.Printf", "fmt.Println",
   "fmt.Print", "fmt.Errorf", "errors.New",
   "(*regexp.Regexp).Match", "(*regexp.Regexp).FindAllIndex", "(*regexp.Regexp).FindIndex", "(*regexp.Regexp).Find",
   "(*regexp.Regexp).FindAll", "(*regexp.Regexp).FindAllSubmatchIndex", "(*regexp.Regexp).FindSubmatchIndex",
   "(*regexp.Regexp).ReplaceAll", "(*regexp.Regexp).ReplaceAllFunc", "(*regexp.Regexp).ReplaceAllLiteral",
   "log.Print", "log.Printf", "log.Println", "log.Fatal", "log.Fatalf",
   "(*sync.WaitGroup).Add", "(*sync.WaitGroup).Done", "(*sync.WaitGroup).Wait",
   "(callback parameter)"]

def enc (id idx : Nat) : Nat := 64 * id + (if idx ≥ 63 then 63 else idx)

/-- successors of a node -/
def succ (fns : List Fn) (n : Nat) : List Nat :=
  match fns[n / 64]? with
  | none => []
  | some f =>
    f.calls.flatMap fun c =>
      (c.args.zipIdx).filterMap fun (roots, j) =>
        if roots.contains (n % 64) || roots.contains 99 || (n % 64 == 63 && !roots.isEmpty) then some (enc c.callee j) else none

/-- nodes reachable from `frontier` (`none`: the fuel ran out before the closure was complete) -/
def reach (fns : List Fn) : Nat → List Nat → List Nat → Option (List Nat)
  | 0, frontier, seen => if frontier.isEmpty then some seen else none
  | fuel + 1, frontier, seen =>
    let next := ((frontier.flatMap (succ fns)).filter fun n => !seen.contains n).eraseDups
    if next.isEmpty then some seen else reach fns fuel next (seen ++ next)

/-- the writes to sequence data (statement or external call) at a node -/
def nodeWrites (fns : List Fn) (n : Nat) : List (String × String) :=
  match fns[n / 64]? with
  | none => [("?", "unknown function")]
  | some f =>
    let i := n % 64
    ((f.writes.filter fun w => (w.root == i || w.root == 99 || i == 63) && isSeqData w).map fun w =>
        (f.recv ++ "." ++ f.name, w.lkind ++ " " ++ w.ltyp ++ " " ++ w.lfield ++ " @" ++ w.pos)) ++
    ((f.exts.filter fun e => (e.roots.contains i || e.roots.contains 99 || i == 63) && dataArgTypes.contains e.typ &&
        !roExternals.contains e.name).map fun e => (f.recv ++ "." ++ f.name, "ext " ++ e.name ++ " " ++ e.typ ++ " @" ++ e.pos))

/-- `"Name"` selects every function / method of that name in the analysed packages; `"R.Name"` the method of
receiver type `R`, or the function of package `R` -/
def selects (f : Fn) (recv name : String) : Bool :=
  f.name == name && (recv == "" || f.recv == recv || (f.recv == "" && f.pkg == recv))

/-- the nodes of every input of the selected functions -/
def startNodes (fns : List Fn) (recv name : String) : List Nat :=
  (fns.filter (selects · recv name)).flatMap fun f => (List.range f.inputs.length).map (enc f.id)

/-- writes to sequence data reachable from the inputs of the selected functions -/
def reachableWrites (fns : List Fn) (recv name : String) : List (String × String) :=
  match startNodes fns recv name with
  | [] => [("?", "unknown function " ++ recv ++ "." ++ name)]
  | st =>
    match reach fns 64 st st with
    | none => [("?", "closure incomplete")]
    | some ns => ns.flatMap (nodeWrites fns)

/-- the selected functions exist and reach no write to sequence data through any of their inputs -/
def pure (fns : List Fn) (q : String × String) : Bool := (reachableWrites fns q.1 q.2).isEmpty

/-- as `pure`, but only through the inputs other than the receiver (a stateful helper object may update itself) -/
def pureInArgs (fns : List Fn) (q : String × String) : Bool :=
  let fs := fns.filter (selects · q.1 q.2)
  let st := fs.flatMap fun f => ((List.range f.inputs.length).filter (· != 0)).map (enc f.id)
  !fs.isEmpty &&
  match reach fns 64 st st with
  | none => false
  | some ns => (ns.flatMap (nodeWrites fns)).isEmpty

/-- the results of the selected functions share no memory with any input (decided from the allocation sites), nor
with unknown memory -/
def ownsData (fns : List Fn) (recv name : String) : Bool :=
  (fns.any (selects · recv name)) &&
  (fns.filter (selects · recv name)).all fun f => f.ret.isEmpty && !f.retUnknown

/-- the results may share memory with an input -/
def sharesData (fns : List Fn) (recv name : String) : Bool :=
  (fns.filter (selects · recv name)).any fun f => !f.ret.isEmpty

/-- the ids are the positions in the table (what `succ` / `nodeWrites` rely on), and no function has 63 inputs or more -/
def wellFormed (fns : List Fn) : Bool :=
  (fns.zipIdx).all fun (f, i) => f.id == i && f.inputs.length < 63 &&
    f.calls.all fun c => c.callee < fns.length

/-- no function stores a reference-carrying value into a package-level variable: memory reachable from package-level
variables (`retGlobal`) is never memory of an input -/
def noGlobalStores (fns : List Fn) : Bool := fns.all fun f => f.gstores.isEmpty

end Gv.Model.MutT
