import Gv.Model.SW
import Gv.Model.Phase
/-!
# The aligner behind phasing (C16): `ALIGN_ALGO_ATG` and the hit selection of `alignAgainstRefsNT` / `alignAgainstRefsAA`

`align/aligner.go`, algorithm `ALIGN_ALGO_ATG` — **as the code is**:

* `fillMatrix`: both (cloned) sequences are reversed in place, then the ordinary `fillMatrix_SW` runs
  (`Gv.Model.SW.fill`, variant `fixed` as for C09);
* `backTrack`: the running maximum of the fill is discarded; the trace-back starts from the *first
  strictly greatest positive value of the last row* (the row of the first residue of `seq1`, i.e. of the
  `ATG` of the reference) — or from cell `(0, 0)` with score `0` when that row holds no positive value —
  and **never stops on a non-positive cell**: it runs until one index leaves the matrix;
* the rows are reversed back and the coordinates converted (`start = len - end - 1`, …).

`align/phaser.go` `alignAgainstRefsNT`: every reference × strand is aligned with that aligner, the first
strictly best score wins, and the result is sliced out of the winning strand.  With
`proposed_fixes/c16-phaser-no-positive-alignment.diff` and `c16-phaser-frame-shift-bounds.diff` (the code the
model mirrors): when no alignment scores above 0 (`bestseq == nil`) the sequence comes back as a *removed*
result carrying the untrimmed input (`NTOut.removed`), and the start of the codon sequence is clamped to the
end of the trimmed sequence (`beststart + phase > bestend` gives an empty codon sequence, whose translation is
then refused: the result carries an error).  Before these two repairs both situations were run-time panics of
the worker goroutine.  Core-only.
-/
namespace Gv.Model.PhaseAlign
open Gv Gv.Model Gv.Model.SW Gv.Model.Phase

/-- the loop of `backTrack` (ATG): `maxscore = 0, maxi = maxj = 0`, then every `j` of row `row` with
`matrix[row][j] > maxscore` replaces them -/
def lastRowBest (m : Nat → Nat → Int) (row l2 : Nat) : Best :=
  (List.range l2).foldl (fun b j => if m row j > b.score then ⟨m row j, row, j⟩ else b) ⟨0, 0, 0⟩

/-- the `for i >= 0 && j >= 0` loop of `backTrack_SW` when `a.algo == ALIGN_ALGO_ATG`: the stop test at
the end of the body is disabled.  Positions are `pi = i + 1`, `pj = j + 1`; `none` = Go panic. -/
def btLoopATG (gopen gext : Int) (m : Nat → Nat → Int) (tr : Nat → Nat → Dir) (s1 s2 : Seq) :
    Nat → Nat → Nat → BT → Option (Nat × Nat × BT)
  | 0, pi, pj, st => some (pi, pj, st)
  | f + 1, pi, pj, st =>
    if pi = 0 ∨ pj = 0 then some (pi, pj, st) else
    match btStep gopen gext m tr s1 s2 pi pj st with
    | none => none
    | some (pi', pj', st') => btLoopATG gopen gext m tr s1 s2 f pi' pj' st'

/-- what the phaser reads back; coordinates are Go `int`s (`end` can be `-1` when the trace-back never
consumed a residue of that sequence) -/
structure AtgResult where
  score : Int
  start1 : Int
  start2 : Int
  end1 : Int
  end2 : Int
  length : Nat
  nmatch : Nat
  nmismatch : Nat
  ngaps : Nat
  row1 : List Byte
  row2 : List Byte
  deriving Repr, DecidableEq

inductive AtgOutcome
  | ok (r : AtgResult)
  | err
  | panic
  deriving Repr, DecidableEq

/-- `NewPwAligner(s1, s2, ALIGN_ALGO_ATG)` configured as `a`, then `Alignment()` and the getters -/
def alignATG (a : Aligner) (fixed : Bool) (s1 s2 : Seq) : AtgOutcome :=
  if fixed && (s1.isEmpty || s2.isEmpty) then AtgOutcome.err else
  let r1 := s1.reverse
  let r2 := s2.reverse
  match seqToIndices a r1, seqToIndices a r2 with
  | some i1, some i2 =>
    if s1.isEmpty || s2.isEmpty then AtgOutcome.panic else
    let f := fill a fixed (r1.zip i1) (r2.zip i2)
    let b := lastRowBest f.m (r1.length - 1) r2.length
    match btLoopATG a.gapopen a.gapextend f.m f.t r1 r2 (b.i + b.j + 2) (b.i + 1) (b.j + 1) {} with
    | none => AtgOutcome.panic
    | some (pi, pj, st) =>
      -- reversed frame: end = (b.i, b.j), start = (pi, pj); converted back
      let l1 : Int := s1.length
      let l2 : Int := s2.length
      AtgOutcome.ok
        { score := b.score,
          start1 := l1 - b.i - 1, end1 := l1 - pi - 1,
          start2 := l2 - b.j - 1, end2 := l2 - pj - 1,
          length := st.len, nmatch := st.nm, nmismatch := st.nmm, ngaps := st.ng,
          row1 := st.r1.reverse, row2 := st.r2.reverse }
  | _, _ => AtgOutcome.err

/-! ## `alignAgainstRefsNT` -/

/-- the phaser's settings that reach the aligner; scores in units of `1/den` -/
structure NTCfg where
  den : Int := 2
  gapopen : Int := -20
  gapextend : Int := -1
  /-- `SetAlignScores(match, mismatch)` was called (`changedscores`) -/
  scores : Option (Int × Int) := none
  reverse : Bool := false
  cutend : Bool := false
  /-- variants of the aligner, as for C09 (`true` = the repairs now in the tree) -/
  fixed : Bool := true
  alphaFixed : Bool := true

def NTCfg.aligner (c : NTCfg) (orf tmp : Seq) : Aligner :=
  configure c.den orf tmp (some c.gapopen) (some c.gapextend) c.scores c.alphaFixed

/-- `bestscore`, and `bestseq` / `beststart` / `nbgapstart` / `seqend` (`none` = `bestseq == nil`) -/
structure NTBest where
  score : Int := 0
  hit : Option Hit := none
  deriving Repr, DecidableEq

inductive NTStep
  | go (b : NTBest)
  | err
  | panic

/-- one pass of the inner loop body (one reference, one strand) -/
def ntStep (c : NTCfg) (seq orf : Seq) (best : NTBest) (rev : Bool) : NTStep :=
  let tmp := if rev then revcompIgnoringError seq else seq
  match alignATG (c.aligner orf tmp) c.fixed orf tmp with
  | .err => NTStep.err
  | .panic => NTStep.panic
  | .ok r =>
    if r.score > best.score then
      -- `for i := 0; aligner.Seq2Ali()[i] == '-'; i++`: runs off the slice when every column is a gap
      if r.row2.all (· == GAP) then NTStep.panic
      else NTStep.go ⟨r.score, some ⟨rev, (r.row2.takeWhile (· == GAP)).length, r.start2.toNat, r.end2.toNat⟩⟩
    else NTStep.go best

inductive NTOut
  | ok (p : Phased) (h : Hit)
  /-- `Removed: true` because no alignment has a positive score (`noHitPhasedSequence`) -/
  | removed (p : Phased)
  | err      -- `PhasedSequence.Err` is set
  | panic    -- run-time panic in the worker goroutine: the process dies
  deriving Repr, DecidableEq

/-- `noHitPhasedSequence(seq)`: position 0, the untrimmed input as nucleotide and codon sequence, an empty
amino-acid sequence -/
def noHit (seq : Seq) : Phased := { position := 0, nt := seq, codon := seq, aa := some [] }

/-- the two nested loops: references, then strands (`phases = 1` or `2`) -/
def ntSelect (c : NTCfg) (seq : Seq) : List Seq → NTBest → NTStep
  | [], best => NTStep.go best
  | orf :: rest, best =>
    match ntStep c seq orf best false with
    | .go b1 =>
      if c.reverse then
        match ntStep c seq orf b1 true with
        | .go b2 => ntSelect c seq rest b2
        | o => o
      else ntSelect c seq rest b1
    | o => o

/-- `alignAgainstRefsNT(seq, orfs)` -/
def phaseNT (c : NTCfg) (code : List (List Byte × Byte)) (orfs : List Seq) (seq : Seq) : NTOut :=
  match ntSelect c seq orfs {} with
  | .err => NTOut.err
  | .panic => NTOut.panic
  | .go best =>
    match best.hit with
    | none => NTOut.removed (noHit seq)        -- `bestseq == nil`
    | some h =>
      let tmp := strandOf seq h
      let bestend := if c.cutend then h.seqend + 1 else tmp.length
      -- Go slice expression `[beststart:bestend]`; `[codonstart:bestend]` is clamped (`assembleNT`: `slice`
      -- of an inverted range is empty)
      if h.seqstart > bestend then NTOut.panic
      else NTOut.ok (assembleNT code tmp h c.cutend) h

/-! ## `alignAgainstRefsAA` (translate mode, the default of `goalign phase`)

For every reference protein and every reading frame of the sequence — forward frames 0, 1, 2, then (with
`reverse`) frames 0, 1, 2 of the reverse-complemented copy — the frame is translated (`Sequence.Translate`,
a frame that leaves fewer than 3 nucleotides is an error of the whole call), the reference is aligned against
the translation with the `ALIGN_ALGO_ATG` aligner (matrix chosen from the residues by `NewPwAligner`: BLOSUM62
in general, DNAfull when both proteins happen to be spelt with nucleotide codes), the first strictly best score
wins, and the amino-acid coordinates of that hit are converted to nucleotide coordinates
(`beststart = phase%3 + 3·seqstart`).  The length / match cut-offs are switched off (the harness sets them
to −1), as for `phaseNT`. -/

/-- what `Phase()` does with the reference bag before the workers start, in BOTH modes: a bag whose alphabet is
`NUCLEOTIDS` is cloned and translated in frame 0 (`SeqBag.Translate(0, code)`: a reference that is not
nucleotide-compatible on its own, or shorter than a codon, makes `Phase()` return an error — `none`); any other
bag is taken as it is.  The result is what `alignAgainstRefsAA` receives (`alignAgainstRefsNT` receives the
untranslated references). -/
def phaseRefsAA (code : List (List Byte × Byte)) (alphabet : Nat) (refs : List Seq) : Option (List Seq) :=
  if alphabet == NUCLEOTIDS then refs.mapM (bufferTranslate code 0) else some refs

/-- `bestscore`, `bestseq` / `bestseqaa` / `beststart(aa)` / `bestend(aa)` (`hit = none` is `bestseq == nil`).
The hit keeps `phase % 3` as its frame and the amino-acid positions `seqstart`, `seqend`. -/
structure AABest where
  score : Int := 0
  hit : Option Hit := none
  /-- Go's `seqend` of the kept hit is `-1` (the trace-back consumed no residue of the translated sequence), so
  that `seqend + 1 = 0`; `hit.seqend` is then meaningless -/
  noRes : Bool := false
  deriving Repr, DecidableEq

inductive AAStep
  | go (b : AABest)
  | err
  | panic
  deriving Repr, DecidableEq

/-- one pass of the inner loop body: reference `orfaa`, `phase` in `0..5` (`phase < 3`: the sequence, else its
reverse-complemented copy; reading frame `phase % 3`) -/
def aaStep (c : NTCfg) (code : List (List Byte × Byte)) (seq orfaa : Seq) (best : AABest) (phase : Nat) : AAStep :=
  let rev := decide (3 ≤ phase)
  let tmp := if rev then revcompIgnoringError seq else seq
  match bufferTranslate code (phase % 3) tmp with
  | none => AAStep.err                          -- "error while translating"
  | some seqaa =>
    match alignATG (c.aligner orfaa seqaa) c.fixed orfaa seqaa with
    | .err => AAStep.err                        -- "error while aligning"
    | .panic => AAStep.panic
    | .ok r =>
      if r.score > best.score then
        AAStep.go ⟨r.score, some ⟨rev, phase % 3, r.start2.toNat, r.end2.toNat⟩, decide (r.end2 < 0)⟩
      else AAStep.go best

/-- `for phase = 0; phase < phases; phase++` with `phases = 3` or `6` -/
def aaPhases (c : NTCfg) : List Nat := if c.reverse then [0, 1, 2, 3, 4, 5] else [0, 1, 2]

/-- the inner loop: the frames of one reference -/
def aaFrames (c : NTCfg) (code : List (List Byte × Byte)) (seq orfaa : Seq) : List Nat → AABest → AAStep
  | [], best => AAStep.go best
  | ph :: rest, best =>
    match aaStep c code seq orfaa best ph with
    | .go b => aaFrames c code seq orfaa rest b
    | o => o

/-- the outer loop: the references in order -/
def aaSelect (c : NTCfg) (code : List (List Byte × Byte)) (seq : Seq) : List Seq → AABest → AAStep
  | [], best => AAStep.go best
  | orfaa :: rest, best =>
    match aaFrames c code seq orfaa (aaPhases c) best with
    | .go b => aaSelect c code seq rest b
    | o => o

/-- `alignAgainstRefsAA(seq, orfsaa)`: `orfsaa` are the reference PROTEINS (`phaseRefsAA`).  `NTOut.panic` stands
for an out-of-range slice expression (`[beststart:bestend]` of the strand, `[beststartaa:bestendaa]` of its
translation): `Props.C16.phase_aa_never_panics` shows that the repaired aligner never leads there. -/
def phaseAA (c : NTCfg) (code : List (List Byte × Byte)) (orfsaa : List Seq) (seq : Seq) : NTOut :=
  match aaSelect c code seq orfsaa {} with
  | .err => NTOut.err
  | .panic => NTOut.panic
  | .go best =>
    match best.hit with
    | none => NTOut.removed (noHit seq)        -- `bestseq == nil`
    | some h =>
      let tmp := strandOf seq h
      let seqaa := codonsFrom code (tmp.drop h.frame)
      let endaa := if best.noRes then 0 else h.seqend + 1          -- Go `seqend + 1`
      let beststart := h.frame + h.seqstart * 3
      let bestend := if c.cutend then h.frame + endaa * 3 else tmp.length
      let bestendaa := if c.cutend then endaa else seqaa.length
      if beststart > bestend || bestend > tmp.length || h.seqstart > bestendaa || bestendaa > seqaa.length then
        NTOut.panic
      else if best.noRes && c.cutend then NTOut.ok ⟨beststart, [], [], some []⟩ h   -- `[frame:frame]`, `[0:0]`
      else NTOut.ok (assembleAA code tmp h c.cutend) h

/-- `Phase(orfs, {seq})` in translate mode, one sequence: `none` = `Phase()` itself returned an error (a reference
could not be translated) -/
def phaseAAOfRefs (c : NTCfg) (code : List (List Byte × Byte)) (alphabet : Nat) (refs : List Seq) (seq : Seq) :
    Option NTOut :=
  (phaseRefsAA code alphabet refs).map fun orfsaa => phaseAA c code orfsaa seq

end Gv.Model.PhaseAlign
