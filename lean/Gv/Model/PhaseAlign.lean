import Gv.Model.SW
import Gv.Model.Phase
/-!
# The aligner behind phasing (C16): `ALIGN_ALGO_ATG` and the hit selection of `alignAgainstRefsNT`

`align/aligner.go`, algorithm `ALIGN_ALGO_ATG` — **as the code is**:

* `fillMatrix`: both (cloned) sequences are reversed in place, then the ordinary `fillMatrix_SW` runs
  (`Gv.Model.SW.fill`, variant `fixed` as for C09);
* `backTrack`: the running maximum of the fill is discarded; the trace-back starts from the *first
  strictly greatest positive value of the last row* (the row of the first residue of `seq1`, i.e. of the
  `ATG` of the reference) — or from cell `(0, 0)` with score `0` when that row holds no positive value —
  and **never stops on a non-positive cell**: it runs until one index leaves the matrix;
* the rows are reversed back and the coordinates converted (`start = len - end - 1`, …).

`align/phaser.go` `alignAgainstRefsNT`: every reference × strand is aligned with that aligner, the first
strictly best score wins, and the result is sliced out of the winning strand.  With
`proposed_fixes/c16-phaser-no-positive-alignment.diff` and `c16-phaser-frame-shift-bounds.diff` (the code the
model mirrors): when no alignment scores above 0 (`bestseq == nil`) the sequence comes back as a *removed*
result carrying the untrimmed input (`NTOut.removed`), and the start of the codon sequence is clamped to the
end of the trimmed sequence (`beststart + phase > bestend` gives an empty codon sequence, whose translation is
then refused: the result carries an error).  Before these two repairs both situations were run-time panics of
the worker goroutine.  Core-only.
-/
namespace Gv.Model.PhaseAlign
open Gv Gv.Model Gv.Model.SW Gv.Model.Phase

/-- the loop of `backTrack` (ATG): `maxscore = 0, maxi = maxj = 0`, then every `j` of row `row` with
`matrix[row][j] > maxscore` replaces them -/
def lastRowBest (m : Nat → Nat → Int) (row l2 : Nat) : Best :=
  (List.range l2).foldl (fun b j => if m row j > b.score then ⟨m row j, row, j⟩ else b) ⟨0, 0, 0⟩

/-- the `for i >= 0 && j >= 0` loop of `backTrack_SW` when `a.algo == ALIGN_ALGO_ATG`: the stop test at
the end of the body is disabled.  Positions are `pi = i + 1`, `pj = j + 1`; `none` = Go panic. -/
def btLoopATG (gopen gext : Int) (m : Nat → Nat → Int) (tr : Nat → Nat → Dir) (s1 s2 : Seq) :
    Nat → Nat → Nat → BT → Option (Nat × Nat × BT)
  | 0, pi, pj, st => some (pi, pj, st)
  | f + 1, pi, pj, st =>
    if pi = 0 ∨ pj = 0 then some (pi, pj, st) else
    match btStep gopen gext m tr s1 s2 pi pj st with
    | none => none
    | some (pi', pj', st') => btLoopATG gopen gext m tr s1 s2 f pi' pj' st'

/-- what the phaser reads back; coordinates are Go `int`s (`end` can be `-1` when the trace-back never
consumed a residue of that sequence) -/
structure AtgResult where
  score : Int
  start1 : Int
  start2 : Int
  end1 : Int
  end2 : Int
  length : Nat
  nmatch : Nat
  nmismatch : Nat
  ngaps : Nat
  row1 : List Byte
  row2 : List Byte
  deriving Repr, DecidableEq

inductive AtgOutcome
  | ok (r : AtgResult)
  | err
  | panic
  deriving Repr, DecidableEq

/-- `NewPwAligner(s1, s2, ALIGN_ALGO_ATG)` configured as `a`, then `Alignment()` and the getters -/
def alignATG (a : Aligner) (fixed : Bool) (s1 s2 : Seq) : AtgOutcome :=
  if fixed && (s1.isEmpty || s2.isEmpty) then AtgOutcome.err else
  let r1 := s1.reverse
  let r2 := s2.reverse
  match seqToIndices a r1, seqToIndices a r2 with
  | some i1, some i2 =>
    if s1.isEmpty || s2.isEmpty then AtgOutcome.panic else
    let f := fill a fixed (r1.zip i1) (r2.zip i2)
    let b := lastRowBest f.m (r1.length - 1) r2.length
    match btLoopATG a.gapopen a.gapextend f.m f.t r1 r2 (b.i + b.j + 2) (b.i + 1) (b.j + 1) {} with
    | none => AtgOutcome.panic
    | some (pi, pj, st) =>
      -- reversed frame: end = (b.i, b.j), start = (pi, pj); converted back
      let l1 : Int := s1.length
      let l2 : Int := s2.length
      AtgOutcome.ok
        { score := b.score,
          start1 := l1 - b.i - 1, end1 := l1 - pi - 1,
          start2 := l2 - b.j - 1, end2 := l2 - pj - 1,
          length := st.len, nmatch := st.nm, nmismatch := st.nmm, ngaps := st.ng,
          row1 := st.r1.reverse, row2 := st.r2.reverse }
  | _, _ => AtgOutcome.err

/-! ## `alignAgainstRefsNT` -/

/-- the phaser's settings that reach the aligner; scores in units of `1/den` -/
structure NTCfg where
  den : Int := 2
  gapopen : Int := -20
  gapextend : Int := -1
  /-- `SetAlignScores(match, mismatch)` was called (`changedscores`) -/
  scores : Option (Int × Int) := none
  reverse : Bool := false
  cutend : Bool := false
  /-- variants of the aligner, as for C09 (`true` = the repairs now in the tree) -/
  fixed : Bool := true
  alphaFixed : Bool := true

def NTCfg.aligner (c : NTCfg) (orf tmp : Seq) : Aligner :=
  configure c.den orf tmp (some c.gapopen) (some c.gapextend) c.scores c.alphaFixed

/-- `bestscore`, and `bestseq` / `beststart` / `nbgapstart` / `seqend` (`none` = `bestseq == nil`) -/
structure NTBest where
  score : Int := 0
  hit : Option Hit := none
  deriving Repr, DecidableEq

inductive NTStep
  | go (b : NTBest)
  | err
  | panic

/-- one pass of the inner loop body (one reference, one strand) -/
def ntStep (c : NTCfg) (seq orf : Seq) (best : NTBest) (rev : Bool) : NTStep :=
  let tmp := if rev then revcompIgnoringError seq else seq
  match alignATG (c.aligner orf tmp) c.fixed orf tmp with
  | .err => NTStep.err
  | .panic => NTStep.panic
  | .ok r =>
    if r.score > best.score then
      -- `for i := 0; aligner.Seq2Ali()[i] == '-'; i++`: runs off the slice when every column is a gap
      if r.row2.all (· == GAP) then NTStep.panic
      else NTStep.go ⟨r.score, some ⟨rev, (r.row2.takeWhile (· == GAP)).length, r.start2.toNat, r.end2.toNat⟩⟩
    else NTStep.go best

inductive NTOut
  | ok (p : Phased) (h : Hit)
  /-- `Removed: true` because no alignment has a positive score (`noHitPhasedSequence`) -/
  | removed (p : Phased)
  | err      -- `PhasedSequence.Err` is set
  | panic    -- run-time panic in the worker goroutine: the process dies
  deriving Repr, DecidableEq

/-- `noHitPhasedSequence(seq)`: position 0, the untrimmed input as nucleotide and codon sequence, an empty
amino-acid sequence -/
def noHit (seq : Seq) : Phased := { position := 0, nt := seq, codon := seq, aa := some [] }

/-- the two nested loops: references, then strands (`phases = 1` or `2`) -/
def ntSelect (c : NTCfg) (seq : Seq) : List Seq → NTBest → NTStep
  | [], best => NTStep.go best
  | orf :: rest, best =>
    match ntStep c seq orf best false with
    | .go b1 =>
      if c.reverse then
        match ntStep c seq orf b1 true with
        | .go b2 => ntSelect c seq rest b2
        | o => o
      else ntSelect c seq rest b1
    | o => o

/-- `alignAgainstRefsNT(seq, orfs)` -/
def phaseNT (c : NTCfg) (code : List (List Byte × Byte)) (orfs : List Seq) (seq : Seq) : NTOut :=
  match ntSelect c seq orfs {} with
  | .err => NTOut.err
  | .panic => NTOut.panic
  | .go best =>
    match best.hit with
    | none => NTOut.removed (noHit seq)        -- `bestseq == nil`
    | some h =>
      let tmp := strandOf seq h
      let bestend := if c.cutend then h.seqend + 1 else tmp.length
      -- Go slice expression `[beststart:bestend]`; `[codonstart:bestend]` is clamped (`assembleNT`: `slice`
      -- of an inverted range is empty)
      if h.seqstart > bestend then NTOut.panic
      else NTOut.ok (assembleNT code tmp h c.cutend) h

end Gv.Model.PhaseAlign
