import Gv.Basic
import Gv.Num
import Gv.Gen.Tables
import Gv.Gen.NumericDist
/-!
Model of `distance/dna/distance.go` (property C07): the pair counters, `probaNt`, `selectedSites`,
`alignmentToCodes`, the IUPAC helpers of `align/sequence.go` / `align/const.go`, the per-model
dispatch of `Distance` / `InitModel`, and the matrix assembly of `DistMatrix` run sequentially
(one worker; thread behaviour is property C08).

Everything is generic in the weight / distance type `α` (`[RealLike α]`): the oracle runs it at
`Float`, the theorems of `Props/C07.lean` speak about every `α`, about `ℝ`, or about the IEEE-like
`FVal`.  The closed-form estimators are **not** written here: they are `Gv.Gen.*Distance` /
`Gv.Gen.*Init`, regenerated from the Go source on every run (tie T2), and the counter each
estimator is fed with is read from the regenerated `Gv.Gen.*Calls`.

The code is mirrored as it is.  Three places where the unchanged tree violates C07 have a
`Variant` switch so that the model can also follow the repaired source (the oracle reports which
variant the implementation corresponds to); `Variant.asIs` is the unchanged tree.
Core-only: the oracle executable links this file.
-/
namespace Gv.Model.Dist
open Gv

/-- IUPAC bit code (`NT_*` of align/const.go): A=1 C=2 G=4 T=8, ambiguity codes are unions, 0 = other -/
abbrev Code := UInt8

def ntOfInt (i : Int) : Code := UInt8.ofNat i.toNat

def NT_A : Code := ntOfInt Gen.c_NT_A
def NT_C : Code := ntOfInt Gen.c_NT_C
def NT_G : Code := ntOfInt Gen.c_NT_G
def NT_T : Code := ntOfInt Gen.c_NT_T
def NT_R : Code := ntOfInt Gen.c_NT_R
def NT_Y : Code := ntOfInt Gen.c_NT_Y
def NT_N : Code := ntOfInt Gen.c_NT_N

/-- which of the repaired behaviours the source has (all `false`: the unchanged tree) -/
structure Variant where
  /-- `countDiffsWithInternalGaps` tests `selectedSites[i]` -/
  internalHonoursSelection : Bool := false
  /-- `probaNt` divides by the weight of the nucleotide cells only (frequencies sum to 1) -/
  freqOverNucleotides : Bool := false
  /-- `DistMatrix` writes NaN instead of `2*max` when `max == 0` -/
  substituteNaNWhenNoMax : Bool := false
deriving BEq, Repr

def Variant.asIs : Variant := {}
def Variant.repaired : Variant := ⟨true, true, true⟩

/-! ### predicates on codes (distance.go:231-251, 553-565) -/

def isNuc (r : Code) : Bool := NT_A ≤ r && r ≤ NT_N
def isAmbiguous (r : Code) : Bool := r != 0 && (r &&& (r - 1)) != 0
def isTransition (a b : Code) : Bool :=
  (a == NT_A && b == NT_G) || (a == NT_G && b == NT_A) || (a == NT_T && b == NT_C) || (a == NT_C && b == NT_T)
def isAG (a b : Code) : Bool := (a == NT_A && b == NT_G) || (a == NT_G && b == NT_A)
def isCT (a b : Code) : Bool := (a == NT_T && b == NT_C) || (a == NT_C && b == NT_T)
def isTransversion (a b : Code) : Bool :=
  (a > 0 && (a ||| NT_R) == NT_R && b > 0 && (b ||| NT_Y) == NT_Y) ||
  (a > 0 && (a ||| NT_Y) == NT_Y && b > 0 && (b ||| NT_R) == NT_R)

/-- `align.NtIUPACDifference` (the error result is ignored by every caller): 1 when the two codes
share no base, else 0 -/
def ntIUPACDifference (a b : Code) : Bool :=
  if a > NT_N then false else if b > NT_N then false else if a == b then false else (a &&& b) == 0

section
variable {α : Type} [RealLike α]

def ofBool (b : Bool) : α := if b then 1 else 0

/-- Go `math.Max` on finite values (weights are finite and positive; the NaN / ±Inf / signed-zero
special cases of `math.Max` are not modelled) -/
def maxG (x y : α) : α := if RealLike.ltb y x then x else y

/-- one alignment column as seen by a pair counter -/
structure Site (α : Type) where
  a : Code
  b : Code
  sel : Bool
  w : α

/-- `w := 1.0; if weights != nil { w = weights[i] }` for every position of the pair -/
def sites : List Code → List Code → List Bool → Option (List α) → List (Site α)
  | a :: s1, b :: s2, s :: sel, none => ⟨a, b, s, 1⟩ :: sites s1 s2 sel none
  | a :: s1, b :: s2, s :: sel, some (w :: ws) => ⟨a, b, s, w⟩ :: sites s1 s2 sel (some ws)
  | _, _, _, _ => []

/-! ### countMutations (distance.go:254) -/

structure Mut (α : Type) where
  transitions : α
  transversions : α
  ag : α
  ct : α
  total : α

def mutStep (st : Mut α) (s : Site α) : Mut α :=
  if isNuc s.a && isNuc s.b && s.sel then
    let st :=
      if s.a != s.b then
        let st := if isTransversion s.a s.b then { st with transversions := st.transversions + s.w }
                  else if isTransition s.a s.b then { st with transitions := st.transitions + s.w } else st
        if isAG s.a s.b then { st with ag := st.ag + s.w }
        else if isCT s.a s.b then { st with ct := st.ct + s.w } else st
      else st
    { st with total := st.total + s.w }
  else st

def countMutations (l : List (Site α)) : Mut α := l.foldl mutStep ⟨0, 0, 0, 0, 0⟩

/-! ### countDiffs / countDiffsWithGaps (distance.go:288, 317) -/

/-- body shared by the three difference counters once the site is known to be counted:
`diff, _ = NtIUPACDifference; nbdiffs += diff*w; total += w; if diff == 0 && removeAmbiguous && … { total -= w }` -/
def diffUpdate (rmAmb : Bool) (nb tot : α) (s : Site α) : α × α × α :=
  let d := s.a != s.b && ntIUPACDifference s.a s.b
  let dw : α := if s.a != s.b then ofBool d * s.w else 0
  let nb := if s.a != s.b then nb + dw else nb
  let tot := tot + s.w
  let tot := if !d && rmAmb && (isAmbiguous s.a || isAmbiguous s.b) then tot - s.w else tot
  (nb, tot, dw)

def diffStep (withGaps rmAmb : Bool) (st : α × α) (s : Site α) : α × α :=
  let cond := if withGaps then (isNuc s.a || isNuc s.b) else (isNuc s.a && isNuc s.b)
  if cond && s.sel then
    let r := diffUpdate rmAmb st.1 st.2 s
    (r.1, r.2.1)
  else st

/-- `countDiffs` (`withGaps = false`) and `countDiffsWithGaps` (`withGaps = true`): (nbdiffs, total) -/
def countDiffsGen (withGaps rmAmb : Bool) (l : List (Site α)) : α × α := l.foldl (diffStep withGaps rmAmb) (0, 0)

def countDiffs (rmAmb : Bool) (l : List (Site α)) : α × α := countDiffsGen false rmAmb l
def countDiffsWithGaps (rmAmb : Bool) (l : List (Site α)) : α × α := countDiffsGen true rmAmb l

/-! ### countDiffsWithInternalGaps (distance.go:347) -/

structure IG (α : Type) where
  nb : α
  tot : α
  first1 : Bool
  first2 : Bool
  tmp1 : α
  tmp2 : α

/-- `honourSel = false` is the unchanged tree: `selectedSites[i]` is never read by this counter -/
def igStep (honourSel rmAmb : Bool) (st : IG α) (s : Site α) : IG α :=
  let f1 := st.first1 && !isNuc s.a
  let f2 := st.first2 && !isNuc s.b
  let st := { st with first1 := f1, first2 := f2 }
  if (isNuc s.a || isNuc s.b) && (!f1 && !f2) && (!honourSel || s.sel) then
    let r := diffUpdate rmAmb st.nb st.tot s
    let t1 := if s.a != s.b then st.tmp1 + r.2.2 else st.tmp1
    let t2 := if s.a != s.b then st.tmp2 + r.2.2 else st.tmp2
    let t1 := if isNuc s.a then 0 else t1
    let t2 := if isNuc s.b then 0 else t2
    { st with nb := r.1, tot := r.2.1, tmp1 := t1, tmp2 := t2 }
  else st

def countDiffsWithInternalGaps (honourSel rmAmb : Bool) (l : List (Site α)) : α × α :=
  let st := l.foldl (igStep honourSel rmAmb) ⟨0, 0, true, true, 0, 0⟩
  (st.nb - maxG st.tmp1 st.tmp2, st.tot - maxG st.tmp1 st.tmp2)

/-! ### probaNt (distance.go:403) -/

structure Freq (α : Type) where
  pa : α
  pc : α
  pg : α
  pt : α

def Freq.addAt (f : Freq α) (idx : Int) (x : α) : Freq α :=
  if idx == 0 then { f with pa := f.pa + x } else if idx == 1 then { f with pc := f.pc + x }
  else if idx == 2 then { f with pg := f.pg + x } else if idx == 3 then { f with pt := f.pt + x } else f

/-- `align.PossibleNtIUPAC` -/
def possibleNt (c : Code) : List Code := Gen.iupacCodeByte.getD c.toNat []

/-- one cell of the double loop of `probaNt` (only called for selected positions) -/
def freqCell (overNuc : Bool) (w : α) (st : Freq α × α) (c : Code) : Freq α × α :=
  if isNuc c then
    let ids := possibleNt c
    let f := ids.foldl (fun f n => f.addAt (Gen.ntByteToId.getD n.toNat (-1)) (w / RealLike.ofNat ids.length)) st.1
    (f, st.2 + w)
  else (st.1, if overNuc then st.2 else st.2 + w)

/-- `probaNt`: positions in the outer loop, rows in the inner loop; `overNuc = false` is the unchanged
tree, where `total` also counts the non-nucleotide cells of the selected positions -/
def probaNt (overNuc : Bool) (codes : List (List Code)) (sel : List Bool) (ws : Option (List α)) : Freq α :=
  let l := (codes.headD []).length
  let r := (List.range l).foldl (fun st pos =>
    let w : α := match ws with | none => 1 | some v => v.getD pos 1
    if sel.getD pos false then codes.foldl (fun st row => freqCell overNuc w st (row.getD pos 0)) st else st)
    ((⟨0, 0, 0, 0⟩ : Freq α), (0 : α))
  ⟨r.1.pa / r.2, r.1.pc / r.2, r.1.pg / r.2, r.1.pt / r.2⟩

end

/-! ### selectedSites, alignmentToCodes (distance.go:568, 591) -/

/-- `al.AlphabetCharToIndex(c) == -1 || c == '*' || c == '?' || c == '-'` for a nucleotide alignment -/
def badForSelection (c : Byte) : Bool :=
  (lookup (toUpper c) Gen.nt2index).isNone || c == 42 || c == 63 || c == 45

/-- the `selectedSites` vector: with `removeGappedPositions` a site is kept iff every row holds one of
A, C, G, T (either case) there -/
def selectedSites (rows : List Seq) (rmGaps : Bool) : List Bool :=
  (List.range (rows.headD []).length).map fun l =>
    !(rmGaps && rows.any fun s => badForSelection (s.getD l 0))

/-- `align.Nt2IndexIUPAC` -/
def nt2IndexIUPAC (c : Byte) : Option Code := lookup (toUpper c) Gen.iupacToInt

/-- `alignmentToCodes`: `none` = error (a residue without IUPAC code) -/
def alignmentToCodes (rows : List Seq) : Option (List (List Code)) := rows.mapM fun s => s.mapM nt2IndexIUPAC

/-! ### per-model `Distance` (dispatch read from the regenerated call data) -/

inductive DModel | raw | pdist | jc | k2p | f81 | f84 | tn93
deriving BEq, Repr, DecidableEq

def DModel.ofString : String → Option DModel
  | "rawdist" => some .raw | "pdist" => some .pdist | "jc" => some .jc | "k2p" => some .k2p
  | "f81" => some .f81 | "f84" => some .f84 | "tn93" => some .tn93 | _ => none

structure Cfg (α : Type) where
  model : DModel
  rmGaps : Bool
  /-- `countgapmut` (pdist / rawdist only) -/
  gapMode : Int
  /-- `removeAmbiguous` (pdist only) -/
  rmAmb : Bool
  gamma : Bool
  alpha : α
  weights : Option (List α)
  variant : Variant

section
variable {α : Type} [RealLike α]

/-- pick the clause of a `switch m.countgapmut` (or the single call) -/
def selectCall (calls : List (String × List String)) (switchOn : String) (gapMode : Int) : Option (List String) :=
  if switchOn == "" then
    match calls with | [("", w)] => some w | _ => none
  else if switchOn == "m.countgapmut" then
    match calls.find? (fun c => c.1 == toString gapMode) with
    | some c => some c.2
    | none => (calls.find? (fun c => c.1 == "default")).map (·.2)
  else none

/-- run the counter named by the source; all of its results, in Go's order -/
def runCounter (v : Variant) (fieldRmAmb : Bool) (words : List String) (l : List (Site α)) : Option (List α) :=
  let flag : String → Option Bool := fun s =>
    if s == "false" then some false else if s == "true" then some true
    else if s == "m.removeAmbiguous" then some fieldRmAmb else none
  match words with
  | ["countMutations", "seq1", "seq2", "m.selectedSites", "weights"] =>
    let m := countMutations l
    some [m.transitions, m.transversions, m.ag, m.ct, m.total]
  | ["countDiffs", "seq1", "seq2", "m.selectedSites", "weights", f] =>
    (flag f).map fun b => let r := countDiffs b l; [r.1, r.2]
  | ["countDiffsWithGaps", "seq1", "seq2", "m.selectedSites", "weights", f] =>
    (flag f).map fun b => let r := countDiffsWithGaps b l; [r.1, r.2]
  | ["countDiffsWithInternalGaps", "seq1", "seq2", "m.selectedSites", "weights", f] =>
    (flag f).map fun b => let r := countDiffsWithInternalGaps v.internalHonoursSelection b l; [r.1, r.2]
  | _ => none

/-- results bound to a name other than `_`, in order: the parameters of the generated estimator -/
def pick (lhs : List String) (res : List α) : List α :=
  ((lhs.zip res).filter fun p => p.1 != "_").map (·.2)

/-- state built by `InitModel` -/
structure Init (α : Type) where
  sel : List Bool
  codes : List (List Code)
  pi : Freq α

def initModel (c : Cfg α) (rows : List Seq) : Option (Init α) := do
  let sel := selectedSites rows c.rmGaps
  let codes ← alignmentToCodes rows
  let usesPi := c.model == .f81 || c.model == .f84 || c.model == .tn93
  let pi : Freq α := if usesPi then probaNt c.variant.freqOverNucleotides codes sel c.weights else ⟨0, 0, 0, 0⟩
  pure ⟨sel, codes, pi⟩

/-- `model.Distance(seq1, seq2, weights)`; `none`: the source has a shape the model does not know -/
def distance (c : Cfg α) (ini : Init α) (s1 s2 : List Code) : Option α :=
  let l := sites s1 s2 ini.sel c.weights
  let go := fun (calls : List (String × List String)) (sw : String) (lhs : List String) (fieldRmAmb : Bool) => do
    let words ← selectCall calls sw c.gapMode
    let res ← runCounter c.variant fieldRmAmb words l
    pure (pick lhs res)
  match c.model with
  | .raw => do
    match ← go Gen.rawdistCalls Gen.rawdistSwitchOn Gen.rawdistCounterResults false with
    | [d] => some (Gen.rawdistDistance d) | _ => none
  | .pdist => do
    match ← go Gen.pdistCalls Gen.pdistSwitchOn Gen.pdistCounterResults c.rmAmb with
    | [d, t] => some (Gen.pdistDistance d t) | _ => none
  | .jc => do
    match ← go Gen.jcCalls Gen.jcSwitchOn Gen.jcCounterResults false with
    | [d, t] => some (Gen.jcDistance c.gamma c.alpha d t) | _ => none
  | .k2p => do
    match ← go Gen.k2pCalls Gen.k2pSwitchOn Gen.k2pCounterResults false with
    | [p, q, t] => some (Gen.k2pDistance c.gamma c.alpha p q t) | _ => none
  | .f81 => do
    match ← go Gen.f81Calls Gen.f81SwitchOn Gen.f81CounterResults false with
    | [d, t] => some (Gen.f81Distance c.gamma c.alpha (Gen.f81Init ini.pi.pa ini.pi.pc ini.pi.pg ini.pi.pt) d t)
    | _ => none
  | .f84 => do
    match ← go Gen.f84Calls Gen.f84SwitchOn Gen.f84CounterResults false with
    | [p, q, t] =>
      let abc := Gen.f84Init ini.pi.pa ini.pi.pc ini.pi.pg ini.pi.pt
      some (Gen.f84Distance c.gamma c.alpha abc.1 abc.2.1 abc.2.2 p q t)
    | _ => none
  | .tn93 => do
    match ← go Gen.tn93Calls Gen.tn93SwitchOn Gen.tn93CounterResults false with
    | [p, q, p1, p2, t] =>
      some (Gen.tn93Distance c.gamma c.alpha ini.pi.pa ini.pi.pc ini.pi.pg ini.pi.pt p q p1 p2 t)
    | _ => none

/-! ### DistMatrix (distance.go:125-229), one worker -/

/-- the pairs sent on the channel, in order.  `none`: "range min is greater than range max" -/
def pairList (n : Nat) (r1min r1max r2min r2max : Int) : Option (List (Nat × Nat)) :=
  if r1min ≥ 0 && r1max ≥ 0 && r2min ≥ 0 && r2max ≥ 0 then
    let r1max := if r1max ≥ (n : Int) then (n : Int) - 1 else r1max
    if r1min > r1max then none else
    let r2max := if r2max ≥ (n : Int) then (n : Int) - 1 else r2max
    if r2min > r2max then none else
    let is := (List.range (r1max - r1min + 1).toNat).map (· + r1min.toNat)
    let js := (List.range (r2max - r2min + 1).toNat).map (· + r2min.toNat)
    some (is.flatMap fun i => (js.filter (· != i)).map fun j => (i, j))
  else
    some ((List.range n).flatMap fun i => ((List.range n).filter (· > i)).map fun j => (i, j))

def ntDistOver : α := RealLike.ofNat Gen.c_NT_DIST_OVER.toNat

/-- `d < 0 || d == math.Inf(1) || d > NT_DIST_OVER`: the pair goes to `uncompute` -/
def isUncomputable (d : α) : Bool :=
  RealLike.ltb d 0 || RealLike.eqb d ((1 : α) / (0 : α)) || RealLike.ltb ntDistOver d

/-- running maximum over the accepted entries -/
def maxAccepted (vals : List α) : α :=
  vals.foldl (fun mx d => if isUncomputable d then mx else if RealLike.ltb mx d then d else mx) 0

def samePair (p : Nat × Nat) (i j : Nat) : Bool := (p.1 == i && p.2 == j) || (p.1 == j && p.2 == i)

/-- what the final loop writes into the cells of the pairs in `uncompute`: `2 * max` (in the repaired
variant: NaN when no accepted entry is positive) -/
def substitute (v : Variant) (entries : List ((Nat × Nat) × α)) : α :=
  let mx := maxAccepted (entries.map (·.2))
  if v.substituteNaNWhenNoMax && RealLike.eqb mx 0 then (0 : α) / (0 : α) else 2 * mx

/-- value of cell (i, j) after the worker loop and the final substitution loop.  `entries`: the
processed pairs with their distances, in processing order.  A cell holds the last value written
to it (each pair writes both mirror cells); it is overwritten by the substitute when any
processing of the pair was flagged. -/
def cell (v : Variant) (entries : List ((Nat × Nat) × α)) (i j : Nat) : α :=
  let mine := entries.filter fun e => samePair e.1 i j
  if mine.any (fun e => isUncomputable e.2) then substitute v entries
  else match mine.getLast? with
    | some e => e.2
    | none => 0

/-- `DistMatrix(al, weights, model, r1min, r1max, r2min, r2max, gamma, alpha, 1)`; `none` = error -/
def distMatrix (c : Cfg α) (rows : List Seq) (r1min r1max r2min r2max : Int) : Option (List (List α)) := do
  let ini ← initModel c rows
  let n := rows.length
  let pairs ← pairList n r1min r1max r2min r2max
  let entries ← pairs.mapM fun p => do
    let d ← distance c ini (ini.codes.getD p.1 []) (ini.codes.getD p.2 [])
    pure (p, d)
  pure ((List.range n).map fun i => (List.range n).map fun j => cell c.variant entries i j)

end
end Gv.Model.Dist
