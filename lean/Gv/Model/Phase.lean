import Gv.Model.Seq
/-!
# Phasing (C16): the pure list part of `align/phaser.go`, `Sequence.LongestORF`, `SeqBag.LongestORF`

The Smith–Waterman aligner (property C09) is *not* modelled here: its outcome enters as a `Hit`
(strand, frame, first and last aligned position of the sequence).  What is modelled is everything
`alignAgainstRefsAA` / `alignAgainstRefsNT` build from a hit — the trimmed nucleotides, the codon
sequence, the amino acids, the reported position — and the open-reading-frame search with Go's
*non-overlapping* `FindAllStringIndex` semantics, exactly as the code has it.  Core-only.
-/
namespace Gv.Model.Phase
open Gv Gv.Model

/-- Go `s[a:b]` (for `a ≤ b ≤ len s`; Go panics otherwise, see `Props.C16.phase_cutend_bounds`) -/
def slice (s : Seq) (a b : Nat) : Seq := (s.drop a).take (b - a)

/-- `rev := seq.Clone(); rev.Reverse(); rev.Complement()` — the error of `Complement` is ignored by both
callers: a copy whose alphabet is not nucleotide-compatible stays merely reversed, and a residue without
complement leaves the rest of the reversed copy un-complemented -/
def revcompIgnoringError (s : Seq) : Seq :=
  let r := s.reverse
  let a := detectAlphabetSeq r
  if a != NUCLEOTIDS && a != BOTH then r else (complementSeq r).1

/-- outcome of the pairwise alignment of one sequence against the references (C09's part) -/
structure Hit where
  /-- the best hit is on the reverse-complemented copy -/
  rev : Bool
  /-- AA mode: reading frame 0..2 (`phase % 3`); NT mode: number of leading gaps of the aligned sequence -/
  frame : Nat
  /-- `AlignStarts().seq`: first aligned residue of the (translated) sequence -/
  seqstart : Nat
  /-- `AlignEnds().seq`: last aligned residue -/
  seqend : Nat
  deriving Repr, DecidableEq

structure Phased where
  position : Nat
  nt : Seq
  codon : Seq
  /-- `none` = the final `Translate` of NT mode failed -/
  aa : Option Seq
  deriving Repr, DecidableEq

/-- `alignAgainstRefsAA`: `tmp` is the sequence or its reverse complement, as chosen by the hit -/
def assembleAA (code : List (List Byte × Byte)) (tmp : Seq) (h : Hit) (cutend : Bool) : Phased :=
  let seqaa := codonsFrom code (tmp.drop h.frame)
  let beststart := h.frame + h.seqstart * 3
  let bestend := if cutend then h.frame + (h.seqend + 1) * 3 else tmp.length
  let bestendaa := if cutend then h.seqend + 1 else seqaa.length
  { position := beststart,
    nt := slice tmp beststart bestend,
    codon := slice tmp beststart bestend,
    aa := some (slice seqaa h.seqstart bestendaa) }

/-- `alignAgainstRefsNT` -/
def assembleNT (code : List (List Byte × Byte)) (tmp : Seq) (h : Hit) (cutend : Bool) : Phased :=
  let beststart := h.seqstart
  let bestend := if cutend then h.seqend + 1 else tmp.length
  let ph := (3 - h.frame % 3) % 3
  let codon := slice tmp (beststart + ph) bestend
  { position := beststart,
    nt := slice tmp beststart bestend,
    codon := codon,
    aa := bufferTranslate code 0 codon }

/-- the strand the hit refers to -/
def strandOf (s : Seq) (h : Hit) : Seq := if h.rev then revcompIgnoringError s else s

/-! ## open reading frames -/

/-- `strings.Replace(strings.ToUpper(s), "U", "T", -1)` on ASCII -/
def orfText (s : Seq) : Seq := s.map fixNt

def isStop (a b c : Byte) : Bool :=
  a == 84 && ((b == 65 && c == 65) || (b == 71 && c == 65) || (b == 65 && c == 71))

/-- the text after an `ATG`: length up to and including the first in-frame stop codon
(`(.{3})*?(TAA|TGA|TAG)`, lazy; `.` does not match a line feed) -/
def firstStop : Seq → Option Nat
  | a :: b :: c :: t =>
    if isStop a b c then some 3
    else if a == 10 || b == 10 || c == 10 then none
    else (firstStop t).map (· + 3)
  | _ => none

/-- length of the match of `(ATG)(.{3})*?(TAA|TGA|TAG)` anchored at the head -/
def matchAt : Seq → Option Nat
  | 65 :: 84 :: 71 :: t => (firstStop t).map (· + 3)
  | _ => none

/-- `FindAllStringIndex(text, -1)`: leftmost matches, the search resumes at the *end* of a match -/
def allMatches : Nat → Nat → Seq → List (Nat × Nat)
  | 0, _, _ => []
  | _ + 1, _, [] => []
  | fuel + 1, pos, a :: t =>
    match matchAt (a :: t) with
    | some len => (pos, pos + len) :: allMatches fuel (pos + len) ((a :: t).drop len)
    | none => allMatches fuel (pos + 1) t

/-- every `ATG` followed by an in-frame stop, overlapping or not -/
def allOrfs : Nat → Seq → List (Nat × Nat)
  | _, [] => []
  | pos, a :: t =>
    match matchAt (a :: t) with
    | some len => (pos, pos + len) :: allOrfs (pos + 1) t
    | none => allOrfs (pos + 1) t

/-- one iteration of the loop `if pos[1]-pos[0] > end-start { … }` (`none` = `(-1, -1)`) -/
def pickStep (best : Option (Nat × Nat)) (m : Nat × Nat) : Option (Nat × Nat) :=
  match best with
  | none => some m
  | some b => if m.2 - m.1 > b.2 - b.1 then some m else some b

/-- the selection loop: first longest -/
def pickLongest (ms : List (Nat × Nat)) : Option (Nat × Nat) := ms.foldl pickStep none

/-- how `Sequence.LongestORF` searches: `some re` = `regexp.Compile(re)` + `FindAllStringIndex`
(non-overlapping matches); `none` = a scan of every `ATG` -/
abbrev OrfSearch := Option String

def theRegex : String := "(ATG)(.{3})*?(TAA|TGA|TAG)"

/-- `Sequence.LongestORF()`; `none` = `(-1, -1)`.  The search mode is regenerated from the source
(`Gen.Facts.longestOrfRegex`); a regular expression other than `theRegex` is not modelled (`none` of the
outer option). -/
def longestORFSeq (mode : OrfSearch) (s : Seq) : Option (Option (Nat × Nat)) :=
  let t := orfText s
  match mode with
  | some re => if re == theRegex then some (pickLongest (allMatches (t.length + 1) 0 t)) else none
  | none => some (pickLongest (allOrfs 0 t))

/-- the meaning: a longest ATG-to-first-in-frame-stop frame over all start positions -/
def specLongestLen (s : Seq) : Nat :=
  (allOrfs 0 (orfText s)).foldl (fun m o => max m (o.2 - o.1)) 0

/-- `SeqBag.LongestORF(reverse)`: (name, orf residues), `none` = error "no ORF" -/
def longestORFBag (mode : OrfSearch) (reverse : Bool) (rows : List (String × Seq)) :
    Option (Option (String × Seq)) :=
  let step (acc : Option (Option (Nat × Nat × String × Seq))) (row : String × Seq) :=
    match acc with
    | none => none
    | some best =>
      let consider (best : Option (Nat × Nat × String × Seq)) (strand : Seq) :
          Option (Option (Nat × Nat × String × Seq)) :=
        match longestORFSeq mode strand with
        | none => none
        | some none => some best
        | some (some (st, en)) =>
          let cur := match best with | none => 0 | some b => b.2.1 - b.1
          if en - st > cur then some (some (st, en, row.1, strand)) else some best
      match consider best row.2 with
      | none => none
      | some b1 => if reverse then consider b1 (revcompIgnoringError row.2) else some b1
  match rows.foldl step (some none) with
  | none => none
  | some none => some none
  | some (some (st, en, name, strand)) => some (some (name, slice strand st en))

/-- spec: the longest ORF length over all sequences (and both strands when allowed) -/
def specLongestLenBag (reverse : Bool) (rows : List (String × Seq)) : Nat :=
  rows.foldl (fun m r =>
    let m1 := max m (specLongestLen r.2)
    if reverse then max m1 (specLongestLen (revcompIgnoringError r.2)) else m1) 0

/-! ## the executable C16 predicate on one implementation result -/

/-- `xs` occurs in `s` at offset `pos` -/
def occursAt (xs s : Seq) (pos : Nat) : Bool := pos + xs.length ≤ s.length && slice s pos (pos + xs.length) == xs

/-- offsets at which `xs` occurs in `s` -/
def occurrences (xs s : Seq) : List Nat :=
  (List.range (s.length + 1)).filter fun p => occursAt xs s p

end Gv.Model.Phase
