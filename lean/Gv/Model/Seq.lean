import Gv.Basic
import Gv.Gen.Tables
/-!
Model of `align/sequence.go` + the sequence-level parts of `align/seqbag.go`:
alphabet detection, complement / reverse, case, un-align, codon translation.
Every definition mirrors the Go code as it is (tables come from `Gv.Gen`, regenerated
from `align/const.go` on every run).
-/
namespace Gv.Model
open Gv

/-- alphabets (values are checked against `Gen.c_*` in `Props/Consts`) -/
def AMINOACIDS : Nat := 0
def NUCLEOTIDS : Nat := 1
def BOTH : Nat := 2
def UNKNOWN : Nat := 3

/-- `seq.DetectAlphabet` / `seqbag.DetectAlphabet`: fold of (isaa, isnt) over residues. -/
def alphaStep (both nt aa : List Byte) (st : Bool × Bool) (c : Byte) : Bool × Bool :=
  let u := toUpper c
  let couldbent := both.contains u || nt.contains u
  let couldbeaa := both.contains u || aa.contains u
  (st.1 && couldbeaa, st.2 && couldbent)

def alphaOfFlags (st : Bool × Bool) : Nat :=
  if st.2 && st.1 then BOTH else if st.2 then NUCLEOTIDS else if st.1 then AMINOACIDS else UNKNOWN

def detectAlphabetSeq (s : Seq) : Nat :=
  alphaOfFlags (s.foldl (alphaStep Gen.alpha_seq_both Gen.alpha_seq_nt Gen.alpha_seq_aa) (true, true))

def detectAlphabetBag (rows : List Seq) : Nat :=
  alphaOfFlags (rows.foldl (fun st s =>
    s.foldl (alphaStep Gen.alpha_bag_both Gen.alpha_bag_nt Gen.alpha_bag_aa) st) (true, true))

/-- `AutoAlphabet` -/
def autoAlphabet (rows : List Seq) : Nat :=
  let a := detectAlphabetBag rows
  if a == BOTH || a == NUCLEOTIDS then NUCLEOTIDS else if a == AMINOACIDS then AMINOACIDS else UNKNOWN

/-! ### complement / reverse (C06) -/

def complementByte (c : Byte) : Option Byte := lookup c Gen.complement_nuc_mapping

/-- Go `Complement(seq)`: in place, stops at the first residue without a complement, leaving the
prefix complemented.  Returns the resulting buffer and whether an error occurred. -/
def complementSeq : Seq → Seq × Bool
  | [] => ([], false)
  | c :: t =>
    match complementByte c with
    | none => (c :: t, true)
    | some d => let r := complementSeq t; (d :: r.1, r.2)

/-- one row of `ReverseComplement`: complement, and only if that succeeded, reverse -/
def revcompSeq (s : Seq) : Seq × Bool :=
  let r := complementSeq s
  if r.2 then r else (r.1.reverse, false)

/-- `seqbag.ReverseComplement` on the rows in order; stops at the first failing row. -/
def revcompRows : List (String × Seq) → List (String × Seq) × Bool
  | [] => ([], false)
  | (n, s) :: t =>
    let r := revcompSeq s
    if r.2 then ((n, r.1) :: t, true)
    else let rt := revcompRows t; ((n, r.1) :: rt.1, rt.2)

def revcompBag (alphabet : Nat) (rows : List (String × Seq)) : List (String × Seq) × Bool :=
  if alphabet != NUCLEOTIDS then (rows, true) else revcompRows rows

/-- update the first row carrying `name` (Go: the row the name index points to; equal to the first
row of that name whenever the container invariant of C01 holds) -/
def updateFirst (name : String) (f : Seq → Seq) : List (String × Seq) → List (String × Seq)
  | [] => []
  | (n, s) :: t => if n == name then (n, f s) :: t else (n, s) :: updateFirst name f t

def findRow (name : String) : List (String × Seq) → Option Seq
  | [] => none
  | (n, s) :: t => if n == name then some s else findRow name t

/-- `ReverseComplementSequences(names...)`: for each name in order, if found, revcomp that row;
first failure stops the loop. -/
def revcompNamed : List String → List (String × Seq) → List (String × Seq) × Bool
  | [], rows => (rows, false)
  | nm :: rest, rows =>
    match findRow nm rows with
    | none => revcompNamed rest rows
    | some s =>
      let r := revcompSeq s
      let rows' := updateFirst nm (fun _ => r.1) rows
      if r.2 then (rows', true) else revcompNamed rest rows'

def revcompSub (alphabet : Nat) (names : List String) (rows : List (String × Seq)) :=
  if alphabet != NUCLEOTIDS then (rows, true) else revcompNamed names rows

def toUpperRows (rows : List (String × Seq)) := rows.map fun r => (r.1, r.2.map toUpper)
def toLowerRows (rows : List (String × Seq)) := rows.map fun r => (r.1, r.2.map toLower)

/-- `strings.Replace(seq, "-", "", -1)` -/
def ungap (s : Seq) : Seq := s.filter (· != GAP)

/-! ### codon translation (C05) -/

def fixNt (c : Byte) : Byte := let u := toUpper c; if u == 85 then 84 else u

/-- `GenAllPossibleCodons`, in Go's enumeration order -/
def genAllPossibleCodons (a b c : Byte) : List (List Byte) :=
  match lookup (fixNt a) Gen.IupacCode, lookup (fixNt b) Gen.IupacCode, lookup (fixNt c) Gen.IupacCode with
  | some x, some y, some z =>
    let c1 := x.map fun n => [n]
    let c2 := y.flatMap fun n => c1.map fun s => s ++ [n]
    z.flatMap fun n => c2.map fun s => s ++ [n]
  | _, _, _ => []

/-- the loop of `translateCodon`; `aa = 32` (space) is "nothing yet" -/
def translateLoop (code : List (List Byte × Byte)) : List (List Byte) → Byte → Byte
  | [], aa => aa
  | cd :: rest, aa =>
    match lookup cd code with
    | none => 88
    | some t => if aa != 32 && t != aa then 88 else translateLoop code rest t

def translateCodon (code : List (List Byte × Byte)) (a b c : Byte) : Byte :=
  let cs := genAllPossibleCodons a b c
  if cs.isEmpty then 88 else translateLoop code cs 32

def geneticCode (code : Int) : Option (List (List Byte × Byte)) :=
  if code == Gen.c_GENETIC_CODE_STANDARD then some Gen.standardcode
  else if code == Gen.c_GENETIC_CODE_VETEBRATE_MITO then some Gen.vertebratemitocode
  else if code == Gen.c_GENETIC_CODE_INVETEBRATE_MITO then some Gen.invertebratemitocode
  else none

/-- codons of `s` read from the start: `for i := 0; i < len-2; i += 3` -/
def codonsFrom (code : List (List Byte × Byte)) : Seq → Seq
  | a :: b :: c :: t => translateCodon code a b c :: codonsFrom code t
  | _ => []

/-- `bufferTranslate` (phase ≥ 0): alphabet check, length check, loop -/
def bufferTranslate (code : List (List Byte × Byte)) (phase : Nat) (s : Seq) : Option Seq :=
  let a := detectAlphabetSeq s
  if a != NUCLEOTIDS && a != BOTH then none
  else if s.length < 3 + phase then none
  else some (codonsFrom code (s.drop phase))

/-- `Sequence.Translate(phase, code)`.  A negative phase is not modelled here: Go indexes the
slice with it and panics; the callers in `cmd/` never pass one (−1 is handled by the bag). -/
def translateSeq (phase : Nat) (codeId : Int) (s : Seq) : Option Seq :=
  match geneticCode codeId with
  | none => none
  | some code => bufferTranslate code phase s

end Gv.Model
