import Gv.Model.Clean
/-!
Model of `Mask` and `MaskOccurences` (`MaskUnique`) of `align/align.go` (property C15), on plain rows
with cached length `L` and alphabet.  Core-only.
-/
namespace Gv.Model
open Gv

/-- replacement mode: the `maskreplace` string -/
inductive MaskRep where
  | ambig              -- "" or "AMBIG"
  | gap                -- "GAP"
  | maj                -- "MAJ"
  | char (c : Byte)    -- any single character
  | bad                -- any other string
deriving DecidableEq, Repr

/-- the fixed replacement character (`'.'` placeholder for MAJ); `none` = error -/
def repChar (alphabet : Nat) : MaskRep → Option Byte
  | .ambig => if alphabet == AMINOACIDS then some 88 else if alphabet == NUCLEOTIDS then some 78 else none
  | .gap => some GAP
  | .maj => some POINT
  | .char c => some c
  | .bad => none

/-- most frequent raw character of a column: lowest byte among the most frequent (`num > max` scan
over `occurences[0..129]`); `dflt` when the column is empty -/
def majorityChar (col : List Byte) (dflt : Byte) : Byte :=
  let cands := (List.range 130).map fun (k : Nat) => (UInt8.ofNat k, col.count (UInt8.ofNat k))
  (cands.foldl (fun (best : Byte × Nat) p => if p.2 > best.2 then p else best) (dflt, 0)).1

/-- position `i` lies in the (truncated) window -/
def inWindow (L start len : Int) (i : Nat) : Bool := (start ≤ (i : Int)) && ((i : Int) < start + len) && ((i : Int) < L)

/-- a residue is protected: a gap when gaps are protected, or equal to the reference residue when a
reference is given and protected -/
def protectedCell (nogap useRef : Bool) (refs : Seq) (i : Nat) (c : Byte) : Bool :=
  (nogap && c == GAP) || (useRef && c == refs.getD i 0)

/-- replacement character at column `i` -/
def repAt (rows : CRows) (mr : MaskRep) (rep0 : Byte) (i : Nat) : Byte :=
  if mr == .maj then majorityChar (columnAt rows i) rep0 else rep0

/-- one residue of `Mask` -/
def maskCell (rows : CRows) (L start len : Int) (mr : MaskRep) (rep0 : Byte) (nogap useRef : Bool) (refs : Seq)
    (i : Nat) (c : Byte) : Byte :=
  if inWindow L start len i && !protectedCell nogap useRef refs i c then repAt rows mr rep0 i else c

/-- `Mask(refseq, start, length, maskreplace, nogap, noref)` with the outcome `found` of the lookup of the reference
sequence (`GetSequenceByName`) supplied; `none` = error -/
def maskWithRef (rows : CRows) (L : Int) (alphabet : Nat) (refseq : String) (start len : Int) (mr : MaskRep)
    (nogap noref : Bool) (found : Option Seq) : Option CRows :=
  if start < 0 then none
  else if start > L then none
  else match repChar alphabet mr with
    | none => none
    | some rep0 =>
      let useRef := refseq != "" && noref
      let ref : Option Seq := if useRef then found else some []
      match ref with
      | none => none
      | some refs => some (rows.map fun r => (r.1, r.2.mapIdx fun i c => maskCell rows L start len mr rep0 nogap useRef refs i c))

/-- `Mask(refseq, start, length, maskreplace, nogap, noref)`; `none` = error -/
def mask (rows : CRows) (L : Int) (alphabet : Nat) (refseq : String) (start len : Int) (mr : MaskRep)
    (nogap noref : Bool) : Option CRows :=
  maskWithRef rows L alphabet refseq start len mr nogap noref ((rows.find? fun r => r.1 == refseq).map Prod.snd)

/-- column entries counted by `MaskOccurences`: `(row index, char)` of rows that are not the reference
and differ from it (or face a gap in the reference) -/
def occCounted (rows : CRows) (refseq : String) (refs : Seq) (i : Nat) : List (Nat × Byte) :=
  (rows.zipIdx.filterMap fun (r, j) =>
    let c := r.2.getD i 0
    if refseq == "" || (r.1 != refseq && (c != refs.getD i 0 || refs.getD i 0 == GAP)) then some (j, c) else none)

/-- one column of `MaskOccurences`; `repIn` is the replacement carried over from the previous column
(only relevant for MAJ when nothing is counted); returns the new column and the replacement used -/
def maskOccColumn (rows : CRows) (refseq : String) (refs : Seq) (maxOcc : Int) (isMaj : Bool) (repIn : Byte) (i : Nat) :
    List Byte × Byte :=
  let counted := occCounted rows refseq refs i
  let chars := counted.map Prod.snd
  let rep := if isMaj then majorityChar chars repIn else repIn
  let col := rows.zipIdx.map fun (r, j) =>
    let c := r.2.getD i 0
    let num := chars.count c
    if counted.any (fun p => p.1 == j) && (num : Int) ≤ maxOcc && num > 0 && c != rep && c != GAP then rep else c
  (col, rep)

def maskOccLoop (rows : CRows) (refseq : String) (refs : Seq) (maxOcc : Int) (isMaj : Bool) :
    List Nat → Byte → List (List Byte)
  | [], _ => []
  | i :: t, rep =>
    let r := maskOccColumn rows refseq refs maxOcc isMaj rep i
    r.1 :: maskOccLoop rows refseq refs maxOcc isMaj t r.2

/-- `MaskOccurences(refseq, maxOccurence, maskreplace)` with the outcome `found` of the lookup of the reference
sequence supplied; `none` = error -/
def maskOccWithRef (rows : CRows) (L : Int) (alphabet : Nat) (refseq : String) (maxOcc : Int) (mr : MaskRep)
    (found : Option Seq) : Option CRows :=
  match repChar alphabet mr with
  | none => none
  | some rep0 =>
    let ref : Option Seq := if refseq != "" then found else some []
    match ref with
    | none => none
    | some refs =>
      let cols := maskOccLoop rows refseq refs maxOcc (mr == .maj) (List.range L.toNat) rep0
      some (rows.zipIdx.map fun (r, j) => (r.1, cols.map fun col => col.getD j 0))

/-- `MaskOccurences(refseq, maxOccurence, maskreplace)`; `none` = error -/
def maskOccurences (rows : CRows) (L : Int) (alphabet : Nat) (refseq : String) (maxOcc : Int) (mr : MaskRep) : Option CRows :=
  maskOccWithRef rows L alphabet refseq maxOcc mr ((rows.find? fun r => r.1 == refseq).map Prod.snd)

/-- `MaskUnique(refseq, maskreplace)` is `MaskOccurences(refseq, 1, maskreplace)` -/
def maskUnique (rows : CRows) (L : Int) (alphabet : Nat) (refseq : String) (mr : MaskRep) : Option CRows :=
  maskOccurences rows L alphabet refseq 1 mr

end Gv.Model
