/-!
# Producer / bounded channel / `n` workers / wait-group / closer  (DESIGN §4.4)

One transition system shared by C08 (`dna.DistMatrix`) and C16 (`phaser.Phase`).  Core-only: the oracle
links this file and *runs* it (`step?`, `run`, `enabled`), the theorems of `Props/C08.lean` and
`Props/C16.lean` quantify over every schedule.

What is modelled

* the producer goroutine: a list of jobs still to send (`todo`), a FIFO channel of capacity `cap`
  (`chan`), `close` of the job channel when the list is exhausted (`closed`);
* `n` worker goroutines, each `idle` (at the head of `for j := range jobs`), `holding j` (received, about
  to compute), `post j` (result stored, about to take the mutex for the shared accumulator) or `exited`;
* the result store (`store`: cells of the matrix, or everything ever sent on the result channel), the
  accumulator updated under the mutex (`acc`: the jobs whose locked update has run), the error slot
  (`err`), the wait-group counter (`wg`), main's / the closer's `Wait` (`waited`), the number of times
  the result channel was closed (`resClosed`), the jobs drained after `Wait` (`dropped`), the jobs whose
  evaluation failed (`failed`);
* two switches describing what the *source* does on the error path (they are computed from the T3 facts,
  `Facts.disciplineOf`): `doneOnFail` — `wg.Done` is reached when a worker returns because of an error
  (deferred `Done`); `errSticky` — a successful evaluation never overwrites the error slot.

What is not modelled: the Go memory model (race freedom is a separate lock-set / happens-before check
over the T3 facts), pre-emption inside a step (each step is atomic: channel operations and
mutex-protected sections are atomic in Go, the store of a result goes to a cell no other job owns),
an unbuffered channel (`cap = 0` is a rendez-vous; the theorems ask `0 < cap`), a consumer of the result
channel that stops reading (the store is unbounded).
-/
namespace Gv.Model.Pool

/-- state of one worker goroutine -/
inductive W (J : Type) where
  | idle
  | holding (j : J)
  | post (j : J)
  | exited
  deriving DecidableEq, Repr

/-- what the source does on the error path (from the T3 facts) -/
structure Discipline where
  doneOnFail : Bool
  errSticky : Bool
  deriving DecidableEq, Repr

/-- the discipline `Facts.instanceOfPool` asks for -/
def Discipline.sound : Discipline := ⟨true, true⟩

structure Params (J V : Type) where
  f : J → V
  fails : J → Bool
  cap : Nat
  d : Discipline

structure Cfg (J V : Type) where
  todo : List J
  chan : List J
  closed : Bool
  workers : List (W J)
  store : List (J × V)
  acc : List J
  failed : List J
  dropped : List J
  err : Option J
  wg : Nat
  waited : Bool
  resClosed : Nat
  deriving DecidableEq, Repr

/-- `wg.Add(1)` once per worker before it starts: the counter is `n` when the first worker runs -/
def init {J V : Type} (jobs : List J) (n : Nat) : Cfg J V :=
  { todo := jobs, chan := [], closed := false, workers := List.replicate n W.idle, store := [],
    acc := [], failed := [], dropped := [], err := none, wg := n, waited := false, resClosed := 0 }

inductive Label where
  | produce
  | close
  | recv (w : Nat)
  | work (w : Nat)        -- compute-and-store
  | lock (w : Nat)        -- lock-update
  | fail (w : Nat)
  | exit (w : Nat)
  | abort (w : Nat)       -- `if err != nil { return }` of `Phase`'s workers: the job just computed is dropped
  | wait                  -- wait-return
  | closeRes              -- close-results
  | drain                 -- `for range jobs {}` after `Wait`
  deriving DecidableEq, Repr

variable {J V : Type}

/-- the step relation as a partial function of the label (a label that is not enabled gives `none`) -/
def step? (P : Params J V) (c : Cfg J V) : Label → Option (Cfg J V)
  | .produce =>
    match c.todo with
    | j :: t => if c.chan.length < P.cap then some { c with todo := t, chan := c.chan ++ [j] } else none
    | [] => none
  | .close =>
    match c.todo with
    | [] => if c.closed then none else some { c with closed := true }
    | _ :: _ => none
  | .recv w =>
    match c.chan, c.workers[w]? with
    | j :: r, some .idle => some { c with chan := r, workers := c.workers.set w (.holding j) }
    | _, _ => none
  | .work w =>
    match c.workers[w]? with
    | some (.holding j) =>
      if P.fails j then none else
      some { c with workers := c.workers.set w (.post j), store := (j, P.f j) :: c.store,
                    err := if P.d.errSticky then c.err else none }
    | _ => none
  | .lock w =>
    match c.workers[w]? with
    | some (.post j) => some { c with workers := c.workers.set w .idle, acc := j :: c.acc }
    | _ => none
  | .fail w =>
    match c.workers[w]? with
    | some (.holding j) =>
      if P.fails j then
        some { c with workers := c.workers.set w .exited, failed := j :: c.failed,
                      err := if P.d.errSticky && c.err.isSome then c.err else some j,
                      wg := if P.d.doneOnFail then c.wg - 1 else c.wg }
      else none
    | _ => none
  | .exit w =>
    match c.chan, c.workers[w]? with
    | [], some .idle =>
      if c.closed then some { c with workers := c.workers.set w .exited, wg := c.wg - 1 } else none
    | _, _ => none
  | .abort w =>
    match c.workers[w]? with
    | some (.holding j) =>
      if c.err.isSome then
        some { c with workers := c.workers.set w .exited, dropped := j :: c.dropped, wg := c.wg - 1 }
      else none
    | _ => none
  | .wait => if c.wg = 0 ∧ c.waited = false then some { c with waited := true } else none
  | .closeRes => if c.waited = true ∧ c.resClosed = 0 then some { c with resClosed := 1 } else none
  | .drain =>
    match c.chan with
    | j :: r => if c.waited then some { c with chan := r, dropped := j :: c.dropped } else none
    | [] => none

/-- reachability by any schedule -/
inductive Reach (P : Params J V) (c0 : Cfg J V) : Cfg J V → Prop
  | refl : Reach P c0 c0
  | step {c c' l} : Reach P c0 c → step? P c l = some c' → Reach P c0 c'

/-- no step is enabled -/
def Terminal (P : Params J V) (c : Cfg J V) : Prop := ∀ l, step? P c l = none

/-- lenient execution of a schedule (labels that are not enabled are skipped) -/
def run (P : Params J V) (c : Cfg J V) : List Label → Cfg J V
  | [] => c
  | l :: ls => match step? P c l with
    | some c' => run P c' ls
    | none => run P c ls

theorem run_reach (P : Params J V) (c0 c : Cfg J V) (h : Reach P c0 c) (ls : List Label) :
    Reach P c0 (run P c ls) := by
  induction ls generalizing c with
  | nil => exact h
  | cons l ls ih =>
    simp only [run]
    cases hs : step? P c l with
    | none => exact ih c h
    | some c' => exact ih c' (Reach.step h hs)

/-- all labels that mention a worker index below `n` -/
def labels (n : Nat) : List Label :=
  [.produce, .close, .wait, .closeRes, .drain] ++
  (List.range n).flatMap fun w => [.recv w, .work w, .lock w, .fail w, .exit w, .abort w]

def enabled (P : Params J V) (c : Cfg J V) : List Label :=
  (labels c.workers.length).filter fun l => (step? P c l).isSome

/-- the termination measure: strictly decreases with every step -/
def wWeight : W J → Nat
  | .idle => 1
  | .holding _ => 3
  | .post _ => 2
  | .exited => 0

def wSum : List (W J) → Nat
  | [] => 0
  | w :: t => wWeight w + wSum t

def mu (c : Cfg J V) : Nat :=
  4 * c.todo.length + 3 * c.chan.length + wSum c.workers + (if c.closed then 0 else 1) +
  (if c.waited then 0 else 1) + (if c.resClosed = 0 then 1 else 0)

/-- a deterministic fair scheduler used by the oracle: repeatedly take the `k`-th enabled label, `k`
drawn from a linear congruential stream; stops at a terminal state or when the fuel is spent -/
def runRandom (P : Params J V) : Nat → Nat → Cfg J V → Cfg J V
  | 0, _, c => c
  | fuel + 1, seed, c =>
    match enabled P c with
    | [] => c
    | e :: es =>
      let seed' := (seed * 1103515245 + 12345) % 2147483648
      let l := (e :: es).getD ((seed' / 65536) % (es.length + 1)) e
      match step? P c l with
      | some c' => runRandom P fuel seed' c'
      | none => c

/-- jobs a worker still holds un-evaluated -/
def holdingOf : W J → Option J
  | .holding j => some j
  | _ => none

/-- jobs stored but whose locked update is still to come -/
def postOf : W J → Option J
  | .post j => some j
  | _ => none

/-- `some ()` for a worker that has not returned -/
def liveOf : W J → Option Unit
  | .exited => none
  | _ => some ()

/-! ### the job lists of `DistMatrix`'s producer and the cells a job owns -/

/-- half-matrix mode: `for i := 0; i < n; i++ { for j := i+1; j < n; j++ { … } }` -/
def halfJobs (n : Nat) : List (Nat × Nat) :=
  (List.range n).flatMap fun i => ((List.range n).filter (i < ·)).map fun j => (i, j)

/-- range mode: `for i := r1min; i <= r1max; i++ { for j := r2min; j <= r2max; j++ { if j != i { … } } }` -/
def rangeJobs (r1min r1max r2min r2max : Nat) : List (Nat × Nat) :=
  (List.range' r1min (r1max + 1 - r1min)).flatMap fun i =>
    ((List.range' r2min (r2max + 1 - r2min)).filter (· != i)).map fun j => (i, j)

/-- range mode where a pair whose mirror image is also in the ranges is sent only once (`i < j`): the guard
`!(j == i || (j < i && j >= r1min && j <= r1max && i >= r2min && i <= r2max))` of the proposed repair -/
def rangeJobsDedup (r1min r1max r2min r2max : Nat) : List (Nat × Nat) :=
  (List.range' r1min (r1max + 1 - r1min)).flatMap fun i =>
    ((List.range' r2min (r2max + 1 - r2min)).filter fun j =>
      !(j == i || (decide (j < i) && decide (r1min ≤ j) && decide (j ≤ r1max) && decide (r2min ≤ i) && decide (i ≤ r2max)))).map
      fun j => (i, j)

def guardPlain : String := "j != i"
def guardDedup : String :=
  "!(j == i || (j < i && j >= range1Min && j <= range1Max && i >= range2Min && i <= range2Max))"

/-- the range-mode job list for the send guard found in the source (`Gen.Facts.rangeSendGuard`); `none` = a guard
this model does not know -/
def rangeJobsFor (guard : String) (a b c d : Nat) : Option (List (Nat × Nat)) :=
  if guard == guardPlain then some (rangeJobs a b c d)
  else if guard == guardDedup then some (rangeJobsDedup a b c d)
  else none

/-- the worker for pair `(i, j)` writes `outmatrix[i][j]` and `outmatrix[j][i]` -/
def cellsOf (p : Nat × Nat) : List (Nat × Nat) := [(p.1, p.2), (p.2, p.1)]

/-- the sequential result -/
def seqStore (f : J → V) (jobs : List J) : List (J × V) := jobs.map fun j => (j, f j)

end Gv.Model.Pool
