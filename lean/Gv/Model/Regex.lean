import Gv.Basic
/-!
A SMALL, clearly delimited subset of Go's `regexp` (RE2 syntax, leftmost-first semantics), modelled by hand so that
the command-line expectations of `rename -e`, `replace -e` and `subset -e` can be computed.  Go's `regexp` package is
an external of the model: this file is validated against it on generated (pattern, template, input) triples by the
harness op `regexsub` (`tools/harness/ops_regex.go`, `lean/Gv/Oracle/Regex.lean`); nothing is proved about it.

The subset (ASCII only; everything else is answered `unknown`, and the expectation that needed it `unmodelled`):

* pattern  = `^`? piece* `$`?            (the anchors only there)
* piece    = atom (`*` | `+` | `?`)?      (greedy; no second quantifier, no `{n,m}`)
           | `(` … `)`                    (ONE capture group, not nested, not quantified, no alternation, no `(?`)
* atom     = a literal character (not one of `\ . [ ] ( ) * + ? ^ $ | { }`) | `.` (any character but newline)
           | `\d` | `\` + one of `. [ ] ( ) * + ? ^ $ | \`
           | `[…]` / `[^…]` with literal members (not `\ [ ] ^ -`; a `-` as the first or the last member) and ranges `a-z`
* four ways of not compiling are recognised (`bad`): a pattern that starts with a quantifier, an unmatched `)`,
  a missing `)`, a missing `]`.

Matching is the backtracking search (first alternative first, greedy loops give back one character at a time) from
the leftmost start - the match Go's engines are specified to return.  `replaceAll` mirrors `Regexp.replaceAll`
(non-overlapping matches, an empty match directly behind a match is not replaced, the search always advances) and
`expand` mirrors `Regexp.expand` (`$1`, `${1}`, `$0`, `$$`, `$name` = the longest run of letters, digits and `_`,
a name that is no group stands for nothing, a malformed reference leaves the `$`).
-/
namespace Gv.Model.Regex

inductive Atom where
  | ch (c : Char)
  | any
  | cls (neg : Bool) (ranges : List (Char × Char))
deriving Repr, BEq

inductive Quant where
  | one | star | plus | opt
deriving Repr, BEq

inductive Piece where
  | item (a : Atom) (q : Quant)
  | gopen
  | gclose
deriving Repr, BEq

structure Re where
  bol : Bool
  pieces : List Piece
  eol : Bool
  /-- number of capture groups (0 or 1) -/
  groups : Nat
deriving Repr

inductive Parsed where
  | ok (re : Re)
  /-- `regexp.Compile` returns an error -/
  | bad
  /-- outside the subset -/
  | unknown
deriving Repr

def metaChars : List Char := ['\\', '.', '[', ']', '(', ')', '*', '+', '?', '^', '$', '|', '{', '}']
def escapable : List Char := ['\\', '.', '[', ']', '(', ')', '*', '+', '?', '^', '$', '|']
def isPlain (c : Char) : Bool := c.toNat ≥ 32 && c.toNat < 127 && !metaChars.contains c
def isClassPlain (c : Char) : Bool := c.toNat ≥ 32 && c.toNat < 127 && !['\\', '[', ']', '^', '-'].contains c
def isQuantChar (c : Char) : Bool := c == '*' || c == '+' || c == '?' || c == '{'

/-- the members of a character class up to its `]`: `none` = outside the subset, `some none` = no `]` (does not
compile), else the ranges and what follows the `]` -/
def parseClass : Nat → List Char → List (Char × Char) → Option (Option (List (Char × Char) × List Char))
  | 0, _, _ => none
  | _ + 1, [], _ => some none
  | _ + 1, ']' :: rest, acc => if acc.isEmpty then none else some (some (acc.reverse, rest))
  -- a `-` in front of the `]` is a literal
  | _ + 1, '-' :: ']' :: rest, acc => some (some ((('-', '-') :: acc).reverse, rest))
  | fuel + 1, a :: '-' :: b :: rest, acc =>
    if isClassPlain a && isClassPlain b then (if a ≤ b then parseClass fuel rest ((a, b) :: acc) else none)
    else if isClassPlain a && b == ']' then parseClass fuel ('-' :: ']' :: rest) ((a, a) :: acc)
    else none
  | fuel + 1, a :: rest, acc => if isClassPlain a then parseClass fuel rest ((a, a) :: acc) else none

/-- one atom at the head of the pattern -/
def parseAtom : List Char → Option (Option (Atom × List Char))
  | '.' :: rest => some (some (.any, rest))
  | '\\' :: 'd' :: rest => some (some (.cls false [('0', '9')], rest))
  | '\\' :: c :: rest => if escapable.contains c then some (some (.ch c, rest)) else none
  -- a `-` as the first member is a literal
  | '[' :: '^' :: '-' :: rest =>
    if rest.head? == some '-' then none else
    (parseClass (rest.length + 1) rest [('-', '-')]).map fun r => r.map fun (rs, t) => (.cls true rs, t)
  | '[' :: '-' :: rest =>
    if rest.head? == some '-' then none else
    (parseClass (rest.length + 1) rest [('-', '-')]).map fun r => r.map fun (rs, t) => (.cls false rs, t)
  | '[' :: '^' :: rest => (parseClass (rest.length + 1) rest []).map fun r => r.map fun (rs, t) => (.cls true rs, t)
  | '[' :: rest => (parseClass (rest.length + 1) rest []).map fun r => r.map fun (rs, t) => (.cls false rs, t)
  | c :: rest => if isPlain c then some (some (.ch c, rest)) else none
  | [] => none

def parseQuant : List Char → Option (Quant × List Char)
  | '*' :: rest => if (rest.head?.map isQuantChar).getD false then none else some (.star, rest)
  | '+' :: rest => if (rest.head?.map isQuantChar).getD false then none else some (.plus, rest)
  | '?' :: rest => if (rest.head?.map isQuantChar).getD false then none else some (.opt, rest)
  | '{' :: _ => none
  | rest => some (.one, rest)

/-- the pieces behind the optional `^`; `inG` = inside the group, `seenG` = a group was already opened -/
def parsePieces : Nat → List Char → Bool → Bool → List Piece → Option (Option (List Piece × Bool × Bool))
  | 0, _, _, _, _ => none
  | _ + 1, [], inG, seenG, acc => if inG then some none else some (some (acc.reverse, false, seenG))
  | _ + 1, ['$'], inG, seenG, acc => if inG then some none else some (some (acc.reverse, true, seenG))
  | fuel + 1, '(' :: rest, inG, seenG, acc =>
    if inG || seenG || rest.head? == some '?' then none else parsePieces fuel rest true true (.gopen :: acc)
  | fuel + 1, ')' :: rest, inG, seenG, acc =>
    if !inG then (if seenG then none else some none) else
    if (rest.head?.map isQuantChar).getD false then none else parsePieces fuel rest false seenG (.gclose :: acc)
  | fuel + 1, c :: rest, inG, seenG, acc =>
    if c == '$' || c == '^' || c == '|' || c == '{' || c == '}' || c == ']' then none else
    if c == '*' || c == '+' || c == '?' then none else
    match parseAtom (c :: rest) with
    | none => none
    | some none => if inG then none else some none
    | some (some (a, rest')) =>
      match parseQuant rest' with
      | none => none
      | some (q, rest'') => parsePieces fuel rest'' inG seenG (.item a q :: acc)

def parse (pat : String) : Parsed :=
  let cs := pat.toList
  if cs.any fun c => c.toNat ≥ 127 || c.toNat < 32 then .unknown else
  -- a quantifier with nothing in front of it: `missing argument to repetition operator`
  match cs with
  | '*' :: _ => .bad
  | '+' :: _ => .bad
  | '?' :: _ => .bad
  | _ =>
  let (bol, body) := match cs with | '^' :: t => (true, t) | _ => (false, cs)
  match body with
  | '*' :: _ => .unknown       -- `^*` compiles in Go (a repeated empty-width assertion): not in the subset
  | '+' :: _ => .unknown
  | '?' :: _ => .unknown
  | _ =>
  match parsePieces (body.length + 1) body false false [] with
  | none => .unknown
  | some none => .bad
  | some (some (ps, eol, seenG)) => .ok ⟨bol, ps, eol, if seenG then 1 else 0⟩

/-! ### matching -/

def atomOk : Atom → Char → Bool
  | .ch c, x => c == x
  | .any, x => x != '\n'
  | .cls neg rs, x => (rs.any fun r => r.1 ≤ x && x ≤ r.2) != neg

/-- a position of the search: what is left of the text, how much was consumed, the borders of the group -/
structure St where
  rest : List Char
  pos : Nat
  gs : Option Nat := none
  ge : Option Nat := none

/-- greedy loop over one-character atoms: as many as possible first, then one fewer, … -/
def starK (p : Char → Bool) (k : St → Option St) (st : St) : List Char → Nat → Option St
  | [], pos => k { st with rest := [], pos := pos }
  | c :: t, pos =>
    if p c then (starK p k st t (pos + 1)).orElse fun _ => k { st with rest := c :: t, pos := pos }
    else k { st with rest := c :: t, pos := pos }

def run : List Piece → (St → Option St) → St → Option St
  | [], k, st => k st
  | .gopen :: ps, k, st => run ps k { st with gs := some st.pos }
  | .gclose :: ps, k, st => run ps k { st with ge := some st.pos }
  | .item a q :: ps, k, st =>
    let p := atomOk a
    let next := run ps k
    match q with
    | .one =>
      (match st.rest with
       | c :: t => if p c then next { st with rest := t, pos := st.pos + 1 } else none
       | [] => none)
    | .opt =>
      (match st.rest with
       | c :: t => if p c then (next { st with rest := t, pos := st.pos + 1 }).orElse fun _ => next st else next st
       | [] => next st)
    | .star => starK p next st st.rest st.pos
    | .plus =>
      (match st.rest with
       | c :: t => if p c then starK p next st t (st.pos + 1) else none
       | [] => none)

/-- a match: start, end, borders of the group -/
structure M where
  s : Nat
  e : Nat
  g : Option (Nat × Nat)

def matchAt (re : Re) (suffix : List Char) (pos : Nat) : Option M :=
  (run re.pieces (fun st => if re.eol && !st.rest.isEmpty then none else some st) { rest := suffix, pos := pos }).map fun st =>
    ⟨pos, st.pos, match st.gs, st.ge with | some a, some b => some (a, b) | _, _ => none⟩

def findGo (re : Re) : List Char → Nat → Option M
  | [], pos => matchAt re [] pos
  | c :: t, pos => (matchAt re (c :: t) pos).orElse fun _ => findGo re t (pos + 1)

/-- the leftmost match that starts at or behind `start` (`^` only matches at the beginning of the text) -/
def findFrom (re : Re) (text : List Char) (start : Nat) : Option M :=
  if re.bol then (if start == 0 then matchAt re text 0 else none) else findGo re (text.drop start) start

/-- `Regexp.MatchString` -/
def matchString (re : Re) (text : String) : Bool := (findFrom re text.toList 0).isSome

/-! ### `Regexp.expand` -/

def isWord (c : Char) : Bool := c.isAlphanum || c == '_'

/-- `extract`: the reference at the head of the template (behind the `$`): the name, its number (`none` = a name
that is no number), what follows; `none` = malformed -/
def extractRef (t : List Char) : Option (List Char × Option Nat × List Char) :=
  let (brace, t') := match t with | '{' :: r => (true, r) | _ => (false, t)
  let name := t'.takeWhile isWord
  let rest := t'.dropWhile isWord
  if name.isEmpty then none else
  let num : Option Nat :=
    if name.all Char.isDigit && !(name.head? == some '0' && name.length > 1) && name.length ≤ 8 then (String.ofList name).toNat? else none
  if brace then (match rest with | '}' :: r => some (name, num, r) | _ => none) else some (name, num, rest)

def expandGo (groups : Nat) (src : List Char) (m : M) : Nat → List Char → List Char → List Char
  | 0, _, acc => acc
  | _ + 1, [], acc => acc
  | fuel + 1, '$' :: '$' :: t, acc => expandGo groups src m fuel t (acc ++ ['$'])
  | fuel + 1, '$' :: t, acc =>
    (match extractRef t with
     | none => expandGo groups src m fuel t (acc ++ ['$'])
     | some (_, num, rest) =>
       let piece : List Char := match num with
         | some 0 => (src.drop m.s).take (m.e - m.s)
         | some 1 => if groups ≥ 1 then (match m.g with | some (a, b) => (src.drop a).take (b - a) | none => []) else []
         | _ => []
       expandGo groups src m fuel rest (acc ++ piece))
  | fuel + 1, c :: t, acc => expandGo groups src m fuel t (acc ++ [c])

def expand (groups : Nat) (tmpl src : List Char) (m : M) : List Char := expandGo groups src m (tmpl.length + 1) tmpl []

/-! ### `Regexp.ReplaceAllString` -/

def replaceAllChars (re : Re) (tmpl src : List Char) : List Char :=
  let n := src.length
  let rec go (fuel searchPos lastEnd : Nat) (buf : List Char) : List Char :=
    match fuel with
    | 0 => buf ++ src.drop lastEnd
    | fuel + 1 =>
      if searchPos > n then buf ++ src.drop lastEnd else
      match findFrom re src searchPos with
      | none => buf ++ src.drop lastEnd
      | some m =>
        let buf := buf ++ (src.drop lastEnd).take (m.s - lastEnd)
        let buf := if m.e > lastEnd || m.s == 0 then buf ++ expand re.groups tmpl src m else buf
        let width := if searchPos < n then 1 else 0
        let sp := if searchPos + width > m.e then searchPos + width else if searchPos + 1 > m.e then searchPos + 1 else m.e
        go fuel sp m.e buf
  go (n + 2) 0 0 []

def asciiOnly (s : String) : Bool := s.toList.all fun c => c.toNat < 128

/-- `re.ReplaceAllString(src, tmpl)`; `none` = a character outside ASCII (not modelled) -/
def replaceAll (re : Re) (tmpl src : String) : Option String :=
  if asciiOnly tmpl && asciiOnly src then some (String.ofList (replaceAllChars re tmpl.toList src.toList)) else none

end Gv.Model.Regex
