import Gv.Model.Seq
import Gv.Model.Clean
/-!
Model of `Alignment.Frameshifts(startingGapsAsIncomplete)` and `Alignment.Stops(startingGapsAsIncomplete,
geneticcode)` of `align/align.go` (properties C14 / C16): the statistics `goalign phasent` prints about the pairwise
alignment of a phased sequence (second row) with its reference ORF (first row).  The loops are mirrored as they are:
one state per column, the "longest so far" record of `Frameshifts`; `Stops` as repaired in /repo (every column read, `phase` / `started` per row:
before the repair the column loop stopped at `Length()-2` and the two variables were carried from one row to
the next).  Core-only.
-/
namespace Gv.Model
open Gv

/-- `phase--; if phase < 0 { phase = 2 }` on a phase in `{0, 1, 2}` -/
def decPhase (p : Nat) : Nat := if p == 0 then 2 else p - 1

/-- the variables of the column loop of `Frameshifts` for one row: `phase`, `start`, `pos`, `started`, and the record
`fs[s]` -/
structure FsState where
  phase : Nat
  start : Nat
  pos : Nat
  started : Bool
  bS : Nat
  bE : Nat
deriving Repr, DecidableEq

/-- what one column does to `phase`, `started`, `pos` (shared by the two functions): the reference character `r`, the
character `c` of the row -/
def phaseStep (flag : Bool) (phase : Nat) (started : Bool) (r c : Byte) : Nat × Bool × Bool :=
  let phase := if r == GAP then (phase + 1) % 3 else phase
  if c == GAP then (decPhase phase, started, false)
  else if !started && flag && phase != 0 then (decPhase phase, started, false)
  else (phase, true, true)

/-- one iteration of the column loop (`last`: `i == a.Length()-1`).  The Go comparisons `pos-start > 1` and
`pos-start > fs[s].End-fs[s].Start` are written without subtraction (they are comparisons of Go `int`s). -/
def fsStep (flag : Bool) (st : FsState) (r c : Byte) (last : Bool) : FsState :=
  let p := phaseStep flag st.phase st.started r c
  let phase := p.1
  let pos := if p.2.2 then st.pos + 1 else st.pos
  let upd := (phase == 0 || last) && pos > st.start + 1 && pos + st.bS > st.bE + st.start
  let bS := if upd then st.start else st.bS
  let bE := if upd then pos else st.bE
  ⟨phase, if phase == 0 then pos else st.start, pos, p.2.1, bS, bE⟩

def fsLoop (flag : Bool) : List (Byte × Byte) → FsState → FsState
  | [], st => st
  | (r, c) :: t, st => fsLoop flag t (fsStep flag st r c t.isEmpty)

/-- `fs[s]` for the row `seq` against the reference `ref` -/
def frameshiftsRow (flag : Bool) (ref seq : Seq) : Nat × Nat :=
  let st := fsLoop flag (ref.zip seq) ⟨0, 0, 0, false, 0, 0⟩
  (st.bS, st.bE)

/-- `Frameshifts(flag)`: `none` = index panic (`a.seqs[0]` without any sequence); entry 0 is the zero value -/
def frameshifts (rows : CRows) (flag : Bool) : Option (List (Nat × Nat)) :=
  match rows with
  | [] => none
  | ref :: rest => some ((0, 0) :: rest.map fun r => frameshiftsRow flag ref.2 r.2)

/-- `code[strings.Replace(strings.ToUpper(codon), "U", "T", -1)]`, `X` when the map has no such key: an exact
lookup (no IUPAC expansion) -/
def stopAA (code : List (List Byte × Byte)) (codon : List Byte) : Byte := (lookup (codon.map fixNt) code).getD 88

/-- the column loop of `Stops` for one row, over the columns it is given; the result is `stops[s]` (−1: no
`break`) and the values `phase`, `started` have when the loop ends -/
def stopsLoop (code : List (List Byte × Byte)) (flag : Bool) : List (Byte × Byte) → Nat → Bool → Nat → List Byte → Int × Nat × Bool
  | [], phase, started, _, _ => (-1, phase, started)
  | (r, c) :: t, phase, started, pos, codon =>
    let p := phaseStep flag phase started r c
    let take := c != GAP && (!flag || p.2.1)
    let codon := if take then codon ++ [c] else codon
    let pos := if take then pos + 1 else pos
    if codon.length == 3 then
      if stopAA code codon == 42 then ((pos : Int), p.1, p.2.1)
      else stopsLoop code flag t p.1 p.2.1 pos []
    else stopsLoop code flag t p.1 p.2.1 pos codon

/-- the loop over the rows `s = 1 …`.  Since the repair of /repo ("fix: Stops reads every column and starts each
sequence afresh") every column is read and `phase` / `started` are declared inside the loop over the rows; the two extra
arguments are kept (and ignored) so that callers and proofs keep their shape.  Before the repair the column loop stopped
at `Length()-2` and the two variables were carried from row to row. -/
def stopsRows (code : List (List Byte × Byte)) (flag : Bool) (ref : Seq) : List Seq → Nat → Bool → List Int
  | [], _, _ => []
  | s :: t, phase, started =>
    let r := stopsLoop code flag (ref.zip s) 0 false 0 []
    r.1 :: stopsRows code flag ref t phase started

inductive StopsRes where
  | err | panic | ok (l : List Int)
deriving Repr, DecidableEq

/-- `Stops(flag, geneticcode)`: the genetic code is looked up first (error), then `a.seqs[0]` (index panic without
sequences); entry 0 is the zero value -/
def stops (rows : CRows) (flag : Bool) (codeId : Int) : StopsRes :=
  match geneticCode codeId with
  | none => .err
  | some code =>
    match rows with
    | [] => .panic
    | ref :: rest => .ok (0 :: stopsRows code flag ref.2 (rest.map Prod.snd) 0 false)

end Gv.Model
