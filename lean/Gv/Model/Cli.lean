import Gv.Model.RProg
import Gv.Model.Rand
/-!
The command-line layer (property C11), as far as it is logic:

* `effectiveSeed`: `cmd/root.go` `PersistentPreRun` — the only place where the clock can enter;
* `replM`: the `for i := 0; i < n; i++ { … }` replicate loops of `build seqboot`, `build distboot`,
  `sample seqs`, `sample sites`, drawing from the one global stream in the main goroutine;
* `seqboot` / `distboot`: the two commands of the last clause of the property;
* `Fmt`, `reformat`, `chain`: reformatting an alignment file through a list of formats.
-/
namespace Gv.Model.Cli
open Gv Gv.Model

/-- `if seed == -1 { seed = time.Now().UTC().UnixNano() }; rand.Seed(seed)` -/
def effectiveSeed (flag clock : Int) : Int := if flag == -1 then clock else flag

/-- a command that draws: its bytes are a function of the input and of the effective seed only -/
def runCmd {α} (p : RProg α) (flag clock : Int) : α := runSeed p (effectiveSeed flag clock)

/-- `n` replicates, in order, from the same stream -/
def replM {α} : Nat → RProg α → RProg (List α)
  | 0, _ => .pure []
  | n + 1, p => RProg.bind p fun a => RProg.bind (replM n p) fun r => .pure (a :: r)

def mapP {α β} (f : α → β) (p : RProg α) : RProg β := RProg.bind p fun a => .pure (f a)

/-- `goalign build seqboot -n n -f frac` (no partition, no `-S`): `n` bootstrap alignments -/
def seqboot (n k L : Nat) (rows : Rows) : RProg (List Rows) := replM n (bootstrap k L rows)

/-- `goalign build distboot -n n -f frac -m model` (not `--continuous`): the distance matrix of each
bootstrap alignment, computed as soon as the alignment is drawn -/
def distboot {M} (dist : Rows → M) (n k L : Nat) (rows : Rows) : RProg (List M) :=
  replM n (mapP dist (bootstrap k L rows))

/-- a file format: writer and parser over some representation `A` of alignments -/
structure Fmt (A B : Type) where
  write : A → B
  parse : B → Option A

/-- `goalign reformat <dst>` reading format `src` -/
def reformat {A B} (src dst : Fmt A B) (b : B) : Option B := (src.parse b).map dst.write

/-- the bytes `b` are in format `cur`; reformat through `fs` in order -/
def chain {A B} : Fmt A B → List (Fmt A B) → B → Option B
  | _, [], b => some b
  | cur, nxt :: rest, b => (reformat cur nxt b).bind (chain nxt rest)

/-- `cmd/phase.go`: the workers' results (arrival order) are put back in the order of the input names -/
def inInputOrder {V} (inputs : List String) (results : List (String × V)) : List (String × V) :=
  inputs.filterMap fun n => results.find? (fun r => r.1 == n)

/-- `align.RandomAlignment(alphabet, length, nbseq)` as `goalign random` calls it: `nbseq` rows named `Seq%04d`, every
residue `chars[rand.Intn(len(chars))]`, row after row, site after site (`RandomSequence`) -/
def randomAlignment (chars : List Byte) (length : Nat) : Nat → Nat → RProg Rows
  | 0, _ => .pure []
  | n + 1, i =>
    RProg.bind (drawIdx chars.length length) fun idx =>
      RProg.bind (randomAlignment chars length n (i + 1)) fun rest =>
        let num := toString i
        .pure (("Seq" ++ String.ofList (List.replicate (4 - num.length) '0') ++ num, idx.map fun k => chars.getD k 0) :: rest)

end Gv.Model.Cli
