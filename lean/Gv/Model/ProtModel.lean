import Gv.Num
import Gv.Spec.SubstModels
/-!
# Model of `ProtModel.InitModel` (models/protein/model.go:100-134) as it is

Hand-written (the loops over a 20×20 dense matrix are outside the T2 subset); the rate matrix is an
unexported field, so the C18 correspondence validates this model through the implementation's
eigen-system (`R·D·L` against `q`).  The exchangeabilities and frequencies come from the tables
regenerated from `models/protein/matrices.go` (`Gv.Gen.Protein`).  Generic in the numeric type.
Core only.
-/
namespace Gv.Model.ProtModel
open Gv Gv.Spec.Subst

variable {α : Type} [RealLike α]

/-- a table entry `(numerator, denominator)` in the numeric type -/
def ofRat (r : Nat × Nat) : α := (RealLike.ofNat r.1 : α) / (RealLike.ofNat r.2 : α)

/-- state after `InitModel`, before the eigen-decomposition -/
structure Init (α : Type) where
  /-- `model.pi` (the user's frequencies when given, else the table's) -/
  pi : Nat → α
  /-- `model.mr` -/
  mr : α
  /-- `model.mat` -/
  q : Nat → Nat → α

/-- `mat.Apply(v * pi[j] / 100)`, then per row `sum = Σ_j mat[i][j]` (the old diagonal included),
`mat[i][i] = -sum`, `mr += pi[i] * sum`; finally `mat.Apply(v / mr)` -/
def initModel (ns : Nat) (s : Nat → Nat → α) (tablePi : Nat → α) (aafreqs : Option (Nat → α)) : Init α :=
  let pi : Nat → α := match aafreqs with | some f => f | none => tablePi
  let m1 : Nat → Nat → α := fun i j => s i j * pi j / 100
  let sum : Nat → α := fun i => sumTo ns (m1 i)
  let mr : α := sumTo ns fun i => pi i * sum i
  ⟨pi, mr, fun i j => (if i = j then -(sum i) else m1 i j) / mr⟩

/-- `InitModel` after the `fix:` commit: the frequencies (user given or the table's) are first
normalised to sum to 1 — `pi[i] = pi[i] / Σ pi`, summed in index order — then used as before.  All
theorems about `initModel` hold for arbitrary frequencies, hence for the normalised ones. -/
def initModelN (ns : Nat) (s : Nat → Nat → α) (tablePi : Nat → α) (aafreqs : Option (Nat → α)) : Init α :=
  let pi0 : Nat → α := match aafreqs with | some f => f | none => tablePi
  let tot : α := sumTo ns pi0
  initModel ns s (fun i => pi0 i / tot) (some fun i => pi0 i / tot)

end Gv.Model.ProtModel
