import Gv.Model.Clean
/-!
Model of `Compress()` (`align/align.go`, property C13): the distinct column patterns with their
multiplicities, in the order in which `go-radix`'s `Walk` visits its keys — increasing byte-wise
lexicographic order (an external assumption validated by the correspondence check).  Core-only.
-/
namespace Gv.Model
open Gv

/-- byte-wise lexicographic `<` on patterns -/
def patLt : List Byte → List Byte → Bool
  | [], [] => false
  | [], _ :: _ => true
  | _ :: _, [] => false
  | a :: s, b :: t => if a < b then true else if b < a then false else patLt s t

/-- insert a pattern into the sorted table of (pattern, count) -/
def bumpPat (p : List Byte) : List (List Byte × Nat) → List (List Byte × Nat)
  | [] => [(p, 1)]
  | (q, n) :: t => if p == q then (q, n + 1) :: t else if patLt p q then (p, 1) :: (q, n) :: t else (q, n) :: bumpPat p t

def patternTable (cols : List (List Byte)) : List (List Byte × Nat) := cols.foldl (fun acc c => bumpPat c acc) []

/-- `Compress()`: new rows (row `i` = the `i`-th residue of every pattern, in table order), weights,
new length -/
def compress (rows : CRows) (L : Int) : CRows × List Nat × Int :=
  let cols := (List.range L.toNat).map (columnAt rows)
  let tbl := patternTable cols
  (rows.zipIdx.map fun (r, i) => (r.1, tbl.map fun p => p.1.getD i 0), tbl.map Prod.snd, (tbl.length : Int))

end Gv.Model
