import Gv.Model.Stats
import Gv.Num
/-!
Model of `Pssm(log, pseudocount, normalization)` of `align/align.go` (property C14), generic in the numeric
type: evaluated at `Float` by the oracle, reasoned about at `ℝ` by `Gv.Props.C14Pssm`.  Core-only.

The Go function works on a map `character ↦ []float64` whose keys are the characters of the alphabet
(`AlphabetCharacters()`: the 20 amino acids for an amino-acid alignment, `A C G T` otherwise) and goes
through five stages; every stage is modelled as it is written, cell by cell:

1. normalisation factor of every alphabet character (`normfactors`; five normalisations, anything else is an
   error; `PSSM_NORM_DATA` needs every alphabet character to occur in the alignment, else an error);
2. counts: `pssm[s][site] += 1.0` for every row whose upper-cased character `s` at `site` is an alphabet
   character — for one cell this is a run of `+ 1` over the rows, in row order;
3. `+ pseudocount` in every cell when `pseudocount > 0`;
4. `v[i] = v[i] * normfactors[k]` and, for `PSSM_NORM_LOGO`, the entropy of every site accumulated over the
   alphabet characters in alphabet order: `entropy[i] += -v[i] * math.Log(v[i]) / math.Log(2)`;
5. logo: `v[i] * (math.Log(len(alphabet))/math.Log(2) - entropy[i])`; otherwise, with `log`,
   `math.Log(v[i]) / math.Log(2)`.

An alignment without sequences (cached length −1) is an error (guard at the top of the function, `fix:` commit;
before it `make([]float64, a.Length())` was a run-time panic `makeslice: len out of range`).  The outcome type keeps
the constructor `panic` so that "never a panic" is a statement (`Gv.Props.C14Pssm.pssm_no_panic`).
-/
namespace Gv.Model
open Gv

/-- outcome of `Pssm`: the table in alphabet order, an error, or a run-time panic -/
inductive PssmRes (α : Type) where
  | ok (table : List (Byte × List α))
  | err
  | panic

def PSSM_NORM_NONE : Int := 0
def PSSM_NORM_FREQ : Int := 1
def PSSM_NORM_DATA : Int := 2
def PSSM_NORM_UNIF : Int := 3
def PSSM_NORM_LOGO : Int := 4

/-- `AlphabetCharacters()` -/
def pssmAlphabet (alphabet : Nat) : List Byte :=
  if alphabet == AMINOACIDS then Gen.stdaminoacid else Gen.stdnucleotides

section
variable {α : Type} [RealLike α]

/-- `float64(n)` of a count -/
def ofCount (n : Nat) : α := RealLike.ofNat n

/-- `stats[c]` of `CharStats()` (0 when absent) -/
def statOf (rows : CRows) (c : Byte) : Nat := (lookup c (charStats rows)).getD 0

/-- the `total += float64(s)` loop of `PSSM_NORM_DATA` over the alphabet, in alphabet order -/
def pssmDataTotal (rows : CRows) (alpha : List Byte) : α :=
  alpha.foldl (fun (t : α) c => t + ofCount (statOf rows c)) (0 : α)

/-- `1.0 / (float64(a.NbSequences()) + (float64(len(pssm)) * pseudocount))` -/
def pssmFreqFactor (nseq nalpha : Nat) (pseudo : α) : α :=
  (1 : α) / (ofCount nseq + ofCount nalpha * pseudo)

/-- stage 1: `normfactors[c]`; `none` = error -/
def pssmNormFactor (rows : CRows) (alpha : List Byte) (pseudo : α) (norm : Int) : Option (Byte → α) :=
  let n := rows.length
  let k := alpha.length
  if norm == PSSM_NORM_NONE then some fun _ => (1 : α)
  else if norm == PSSM_NORM_UNIF then some fun _ => pssmFreqFactor n k pseudo / ((1 : α) / ofCount k)
  else if norm == PSSM_NORM_FREQ then some fun _ => pssmFreqFactor n k pseudo
  else if norm == PSSM_NORM_LOGO then some fun _ => (1 : α) / ofCount n
  else if norm == PSSM_NORM_DATA then
    if alpha.all fun c => (lookup c (charStats rows)).isSome then
      let total : α := pssmDataTotal rows alpha
      some fun c => pssmFreqFactor n k pseudo / (ofCount (statOf rows c) / total)
    else none
  else none

/-- stage 2 for one cell: `pssm[c][site] += 1.0` for every row (in order) whose upper-cased character is `c` -/
def pssmCount (col : List Byte) (c : Byte) : α :=
  col.foldl (fun (x : α) s => if toUpper s == c then x + 1 else x) (0 : α)

/-- stage 3 for one cell -/
def pssmPseudo (pseudo x : α) : α := if RealLike.ltb (0 : α) pseudo then x + pseudo else x

/-- stages 2–4 for one cell: the normalised value -/
def pssmCell (nf : Byte → α) (pseudo : α) (col : List Byte) (c : Byte) : α :=
  pssmPseudo pseudo (pssmCount col c) * nf c

/-- `entropy[i]` of `PSSM_NORM_LOGO`: accumulated over the alphabet characters in alphabet order -/
def pssmEntropy (nf : Byte → α) (pseudo : α) (alpha : List Byte) (col : List Byte) : α :=
  alpha.foldl (fun (e : α) k =>
    let v := pssmCell nf pseudo col k
    e + -v * RealLike.log v / RealLike.log (2 : α)) (0 : α)

/-- stage 5 for one cell -/
def pssmFinal (nf : Byte → α) (log : Bool) (pseudo : α) (norm : Int) (alpha : List Byte) (col : List Byte) (c : Byte) : α :=
  let v := pssmCell nf pseudo col c
  if norm == PSSM_NORM_LOGO then
    v * (RealLike.log (ofCount alpha.length : α) / RealLike.log (2 : α) - pssmEntropy nf pseudo alpha col)
  else if log then RealLike.log v / RealLike.log (2 : α)
  else v

/-- `Pssm(log, pseudocount, normalization)` on an alignment of cached length `L` -/
def pssm (rows : CRows) (L : Int) (alphabet : Nat) (log : Bool) (pseudo : α) (norm : Int) : PssmRes α :=
  if rows.isEmpty || L < 0 then .err else
  let alpha := pssmAlphabet alphabet
  match pssmNormFactor rows alpha pseudo norm with
  | none => .err
  | some nf =>
    .ok (alpha.map fun c => (c, (List.range L.toNat).map fun j => pssmFinal nf log pseudo norm alpha (columnAt rows j) c))

end
end Gv.Model
