/-!
Programs over random draws (DESIGN §4.3).  A randomised goalign operation is written once as an
`RProg`; `runTape` answers the draws from an arbitrary tape (used by the theorems: they hold for every
admissible tape, hence for every seed), `runGen` answers them from a concrete generator (the Go
replica in the oracle).
-/
namespace Gv.Model

inductive RProg (α : Type) where
  | pure (a : α)
  | intn (n : Nat) (k : Nat → RProg α)        -- rand.Intn(n), n > 0
  | unit (k : Float → RProg α)                 -- rand.Float64()

namespace RProg

def bind {α β} : RProg α → (α → RProg β) → RProg β
  | .pure a, f => f a
  | .intn n k, f => .intn n (fun v => bind (k v) f)
  | .unit k, f => .unit (fun x => bind (k x) f)

instance : Monad RProg where
  pure := RProg.pure
  bind := RProg.bind

inductive Ans | nat (v : Nat) | flt (f : Float)

/-- tape semantics: any answers, as long as `intn n` is answered below `n`; returns the unread tape -/
def runTape {α} : RProg α → List Ans → Option (α × List Ans)
  | .pure a, t => some (a, t)
  | .intn n k, .nat v :: t => if v < n then runTape (k v) t else none
  | .unit k, .flt f :: t => runTape (k f) t
  | _, _ => none

theorem runTape_bind {α β} (p : RProg α) (f : α → RProg β) : ∀ t,
    runTape (bind p f) t = (runTape p t).bind (fun r => runTape (f r.1) r.2) := by
  induction p with
  | pure a => intro t; simp [bind, runTape]
  | intn n k ih =>
    intro t
    cases t with
    | nil => simp [bind, runTape]
    | cons a t =>
      cases a with
      | nat v => by_cases h : v < n <;> simp [bind, runTape, h, ih]
      | flt x => simp [bind, runTape]
  | unit k ih =>
    intro t
    cases t with
    | nil => simp [bind, runTape]
    | cons a t =>
      cases a with
      | nat v => simp [bind, runTape]
      | flt x => simp [bind, runTape, ih]

/-- a concrete generator: answers `intn n` below `n` -/
structure Gen (σ : Type) where
  intn : Nat → σ → Nat × σ
  unit : σ → Float × σ

def runGen {α σ} (g : Gen σ) : RProg α → σ → α × σ
  | .pure a, s => (a, s)
  | .intn n k, s => let r := g.intn n s; runGen g (k r.1) r.2
  | .unit k, s => let r := g.unit s; runGen g (k r.1) r.2

/-- the draws a generator run makes, as a tape -/
def trace {α σ} (g : Gen σ) : RProg α → σ → List Ans
  | .pure _, _ => []
  | .intn n k, s => let r := g.intn n s; .nat r.1 :: trace g (k r.1) r.2
  | .unit k, s => let r := g.unit s; .flt r.1 :: trace g (k r.1) r.2

/-- every `intn n` in the program (along every path) has `n > 0` -/
inductive WF {α} : RProg α → Prop
  | pure (a) : WF (.pure a)
  | intn (n k) : 0 < n → (∀ v, v < n → WF (k v)) → WF (.intn n k)
  | unit (k) : (∀ f, WF (k f)) → WF (.unit k)

/-- **Every run with a concrete generator whose `intn n` answers below `n` is a tape run on its own
trace** — so whatever is proved for all admissible tapes holds for every seed of the Go generator. -/
theorem runGen_is_runTape {α σ} (g : Gen σ) (hg : ∀ n s, 0 < n → (g.intn n s).1 < n)
    (p : RProg α) (h : WF p) (s : σ) :
    runTape p (trace g p s) = some ((runGen g p s).1, []) := by
  induction h generalizing s with
  | pure a => simp [runTape, trace, runGen]
  | intn n k hn _ ih =>
    simp only [trace, runTape, runGen]
    have := hg n s hn
    simp [this, ih _ this]
  | unit k _ ih =>
    simp only [trace, runTape, runGen]
    exact ih _ _

end RProg
end Gv.Model
