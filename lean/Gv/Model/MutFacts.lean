import Gv.Gen.MutFacts
/-!
Purity / ownership checks over the regenerated mutation facts (tie T3, property C19).  Core-only.
Function names are compared by id (`Gen.MutFacts.names`), types by string equality, so that the
checks are evaluated by the kernel.
-/
namespace Gv.Model.Mut
open Gv.Gen.MutFacts

/-- receiver types whose fields are sequence data -/
def dataRecv : List String := ["align", "seqbag", "seq"]

/-- parameter / callback-parameter types through which sequence data can be written -/
def dataTypes : List String :=
  ["Alignment", "SeqBag", "Sequence", "align.Alignment", "align.SeqBag", "align.Sequence", "[]uint8", "[]byte",
   "*seq", "[]*seq", "*align", "*seqbag", "[]Sequence", "[]align.Sequence", "[][]uint8", "...string", "chan Sequence"]

/-- a write is a write to sequence data when it goes through the receiver of an `align` / `seqbag` / `seq`
method, or through a parameter / callback parameter whose type can carry sequence data -/
def isSeqData (w : W) : Bool :=
  (w.root == "recv" && dataRecv.contains w.typ) || ((w.root == "param" || w.root == "cb") && dataTypes.contains w.typ)

def dataWrites (f : Fn) : List W := f.writes.filter isSeqData

/-- ids reachable from `ids` through calls on input-derived objects, `fuel` rounds -/
def reach (fns : List Fn) : Nat → List Nat → List Nat
  | 0, ids => ids
  | fuel + 1, ids =>
    let next := (fns.filter fun f => ids.contains f.id).flatMap (·.calls)
    let new := (next.filter fun n => !ids.contains n).eraseDups
    if new.isEmpty then ids else reach fns fuel (ids ++ new)

def idOf (name : String) : Option Nat := names.findIdx? (· == name)

/-- the data writes reachable from a function name -/
def reachableWrites (fns : List Fn) (name : String) : List (String × String) :=
  match idOf name with
  | none => [("?", "unknown function")]
  | some i =>
    let ids := reach fns 40 [i]
    (fns.filter fun f => ids.contains f.id).flatMap fun f => (dataWrites f).map fun w => (f.recv ++ "." ++ f.name, w.what)

/-- the function exists in the facts and reaches no write to sequence data -/
def pure (fns : List Fn) (name : String) : Bool := (reachableWrites fns name).isEmpty

/-- every `AddSequence*` call on the new object inside the copy-producing method `recv.name` passes a
freshly allocated buffer (and there is at least one such call) -/
def ownsData (fns : List Fn) (recv name : String) : Bool :=
  (fns.any fun f => f.recv == recv && f.name == name) &&
  (fns.filter fun f => f.recv == recv && f.name == name).all fun f => !f.addArgs.isEmpty && f.addArgs.all (· == "fresh")

/-- the method hands (part of) an existing buffer to the new object -/
def sharesData (fns : List Fn) (recv name : String) : Bool :=
  (fns.filter fun f => f.recv == recv && f.name == name).any fun f => f.addArgs.any (· != "fresh")

end Gv.Model.Mut
