import Gv.Basic
/-!
Model of the site-extraction / coordinate functions of `align/align.go` and `align/partition.go`
(property C04), on plain rows with the cached alignment length `L` (`-1` for an empty alignment).
`Out.panic` is where Go indexes without a guard.  Mirrors the code after the `fix:` commits listed
in known_findings.jsonl.  Core-only.
-/
namespace Gv.Model
open Gv

abbrev SRows := List (String × Seq)

inductive Out (α : Type) where
  | ok (a : α)
  | err
  | panic
deriving Repr, DecidableEq

/-- `SubAlign(start, length)` -/
def subAlign (rows : SRows) (L : Int) (start len : Int) : Out SRows :=
  if start < 0 || start > L then .err
  else if len < 0 then .err
  else if start + len < 0 || start + len > L then .err
  else .ok (rows.map fun r => (r.1, (r.2.drop start.toNat).take len.toNat))

/-- `SelectSites(sites)`; a site that passes the range test but lies beyond a row is an index panic -/
def selectSites (rows : SRows) (L : Int) (sites : List Int) : Out SRows :=
  if sites.any (fun s => s < 0 || s ≥ L) then .err
  else if rows.any (fun r => sites.any fun s => s.toNat ≥ r.2.length) then .panic
  else .ok (rows.map fun r => (r.1, sites.map fun s => r.2.getD s.toNat 0))

/-- `InverseCoordinates(start, length)`: (starts, lengths) of what lies outside the window -/
def inverseCoordinates (L : Int) (start len : Int) : Out (List Int × List Int) :=
  if start < 0 || start > L then .err
  else if len < 0 then .err
  else if start + len < 0 || start + len > L then .err
  else
    let a : List Int × List Int := if start > 0 then ([0], [start]) else ([], [])
    let b : List Int × List Int := if start + len < L then ([start + len], [L - (start + len)]) else ([], [])
    .ok (a.1 ++ b.1, a.2 ++ b.2)

/-- `InversePositions(sites)` -/
def inversePositions (L : Int) (sites : List Int) : Out (List Int) :=
  if sites.any (fun s => s < 0 || s ≥ L) then .err
  else .ok (((List.range L.toNat).filter fun (i : Nat) => !sites.contains (Int.ofNat i)).map fun (i : Nat) => Int.ofNat i)

/-- the scanning loop of `RefCoordinates`: state (tmpi+1, ngaps, alistart, alilen), stops at `break` -/
def refLoop (refstart reflen : Nat) : Seq → Nat → Nat → Nat → Nat → Nat × Nat × Nat
  | [], _, ngaps, as, al => (ngaps, as, al)
  | c :: t, seen, ngaps, as, al =>
    -- `seen` = tmpi + 1 (number of residues met so far)
    let seen' := if c != GAP then seen + 1 else seen
    let ngaps' := if c != GAP then ngaps else ngaps + 1
    -- tmpi < refstart  ⟺  seen' ≤ refstart
    if seen' ≤ refstart then refLoop refstart reflen t seen' ngaps' (as + 1) al
    else if seen' ≥ refstart + reflen then (ngaps', as, al + 1)   -- tmpi ≥ refstart+reflen-1: break
    else refLoop refstart reflen t seen' ngaps' as (al + 1)

/-- `RefCoordinates(name, refstart, reflen)`: (alistart, alilen) and whether an error is returned
(Go returns the computed values together with the error) -/
def refCoordinates (rows : SRows) (name : String) (refstart reflen : Int) : Out (Int × Int × Bool) :=
  match rows.find? (fun r => r.1 == name) with
  | none => .err
  | some r =>
    if refstart < 0 then .err
    else if reflen ≤ 0 then .err
    else
      let (ngaps, as, al) := refLoop refstart.toNat reflen.toNat r.2 0 0 0 0
      .ok ((as : Int), (al : Int), refstart + reflen > (r.2.length : Int) - (ngaps : Int))

/-- `RefSites(name, sites)` -/
def refSitesLoop (wanted : List Int) : Seq → Nat → Nat → List Int
  | [], _, _ => []
  | c :: t, pos, seen =>
    if c != GAP then
      (if wanted.contains (seen : Int) then [(pos : Int)] else []) ++ refSitesLoop wanted t (pos + 1) (seen + 1)
    else refSitesLoop wanted t (pos + 1) seen

def refSites (rows : SRows) (L : Int) (name : String) (sites : List Int) : Out (List Int) :=
  match rows.find? (fun r => r.1 == name) with
  | none => .err
  | some r =>
    if sites.any (fun s => s < 0 || s ≥ L) then .err
    else
      -- after the scan `tmpi` is the index of the last residue: later sites are an error
      let nres := (r.2.filter (· != GAP)).length
      if sites.any (fun s => s > (nres : Int) - 1) then .err
      else .ok (refSitesLoop sites r.2 0 0)

/-- `Transpose()`: one row per site, named by the site index -/
def transpose (rows : SRows) (L : Int) : SRows :=
  (List.range L.toNat).map fun j => (toString j, rows.map fun r => r.2.getD j 0)

/-- `DiffWithFirst()` -/
def diffWithFirst (rows : SRows) : SRows :=
  match rows with
  | [] => []
  | [r] => [r]
  | f :: rest => f :: rest.map fun r => (r.1, (f.2.zip r.2).map (fun p => if p.1 == p.2 then POINT else p.2) ++ r.2.drop f.2.length)

/-- `ReplaceMatchChars()` -/
def replaceMatchChars (rows : SRows) : SRows :=
  match rows with
  | [] => []
  | [r] => [r]
  | f :: rest => f :: rest.map fun r => (r.1, (f.2.zip r.2).map (fun p => if p.1 != POINT && p.2 == POINT then p.1 else p.2) ++ r.2.drop f.2.length)

/-! ### partitions -/

structure PartSet where
  names : List String := []
  parts : List Int := []      -- partition index of each site, `-1` = none
  length : Int := 0
deriving Repr

def newPartSet (L : Int) : PartSet := { parts := List.replicate L.toNat (-1), length := L }

/-- the loop of `AddRange`: `for i := start; i <= end; i += modulo { if parts[i] != -1 → error;
parts[i] = idx; if modulo > end-i { break } }` (the last test is the overflow guard of the fix) -/
def addRangeLoop (idx stop modulo : Int) : Nat → Int → List Int → List Int × Out Unit
  | 0, _, parts => (parts, .ok ())
  | fuel + 1, i, parts =>
    if i > stop then (parts, .ok ())
    else match parts[i.toNat]? with
      | none => (parts, .panic)
      | some p =>
        if p != -1 then (parts, .err)
        else if modulo > stop - i then (parts.set i.toNat idx, .ok ())
        else addRangeLoop idx stop modulo fuel (i + modulo) (parts.set i.toNat idx)

/-- `AddRange(partName, _, start, end, modulo)`; on the duplicate-site error the sites written so far
stay written (and the name stays registered) -/
def addRange (ps : PartSet) (name : String) (start stop modulo : Int) : PartSet × Out Unit :=
  if start < 0 then (ps, .err)
  else if stop ≥ ps.length then (ps, .err)
  else if modulo ≤ 0 then (ps, .err)
  else if start > stop then (ps, .err)
  else
    let (names, idx) := match ps.names.findIdx? (· == name) with
      | some i => (ps.names, (i : Int))
      | none => (ps.names ++ [name], (ps.names.length : Int))
    let r := addRangeLoop idx stop modulo (ps.parts.length + 1) start ps.parts
    ({ ps with names := names, parts := r.1 }, r.2)

/-- `Split(part)`: one alignment per partition, sites in order -/
def split (rows : SRows) (L : Int) (ps : PartSet) : Out (List SRows) :=
  if ps.names.length ≤ 1 then .err
  else if ps.length != L then .err
  else .ok ((List.range ps.names.length).map fun (pi : Nat) =>
    let cols := (List.range ps.parts.length).filter fun (pos : Nat) => ps.parts.getD pos (-1) == Int.ofNat pi
    if cols.isEmpty then [] else rows.map fun r => (r.1, cols.map fun j => r.2.getD j 0))

end Gv.Model
