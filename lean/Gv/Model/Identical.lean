import Gv.Model.Bag
/-!
Model of `seqbag.Identical(comp)` (align/seqbag.go; `goalign identical -c <file>`), as the code is:

```go
if sb.NbSequences() != comp.NbSequences() { return false }
for _, seq := range sb.seqs {
    seq2, ok := comp.GetSequence(seq.name)     // comp.seqmap[name]
    if !ok { return false }
    if string(seq.sequence) != seq2 { return false }
}
return true
```

as many rows, and every row of the receiver finds — through the name index of `comp` — a row of the same name whose
sequence has the same bytes (case included; comments are not looked at).  The order of the rows plays no role.  Nothing
is checked from `comp`'s side: with names occurring twice in the receiver (possible only after caller-made renames) the
answer is not symmetric (`Props/C01`: `identical_not_symmetric_with_repeated_names`).  Core-only.
-/
namespace Gv.Model
open Gv

/-- `sb.Identical(comp)` on the implementation-shaped container (lookup through `comp`'s name index) -/
def identical (a comp : Bag) : Bool :=
  a.rows.length == comp.rows.length &&
    a.rows.all fun r => match getByName comp r.name with | some q => q.seq == r.seq | none => false

/-- the same on plain rows (first row of the name), as the command-line oracle uses it on parsed files -/
def identicalRows (a comp : List (String × Seq)) : Bool :=
  a.length == comp.length && a.all fun r => match findRow r.1 comp with | some s => s == r.2 | none => false

end Gv.Model
