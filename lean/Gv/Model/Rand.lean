import Gv.Model.RProg
import Gv.Model.Rng
import Gv.Model.Seq
/-!
The randomised operations of `align/align.go` / `align/seqbag.go` as programs over random draws
(property C10).  Rows are plain `(name, sequence)` pairs; every program mirrors the order in which
the Go code draws (`rand.Perm`, `rand.Intn`, `rand.Float64`).  Integer parameters that Go derives
with float arithmetic (`int(rate * float64(n))`) are computed by `fracOf` in the same way and passed
in, so the theorems can quantify over them.
-/
namespace Gv.Model
open Gv

abbrev Rows := List (String × Seq)

/-- `int(x * float64(n))` for `x ≥ 0` -/
def fracOf (x : Float) (n : Nat) : Nat := (x * Float.ofNat n).floor.toUInt64.toNat

def swapAt {α} (l : List α) (i j : Nat) : List α :=
  match l[i]?, l[j]? with
  | some a, some b => (l.set i b).set j a
  | _, _ => l

/-- `rand.Perm(n)`: `for i in 0..n { j := Intn(i+1); m[i] = m[j]; m[j] = i }` -/
def permAux : Nat → Nat → List Nat → RProg (List Nat)
  | 0, _, m => .pure m
  | k + 1, i, m => .intn (i + 1) fun j => permAux k (i + 1) ((m.set i (m.getD j 0)).set j i)

def permProg (n : Nat) : RProg (List Nat) := permAux n 0 (List.replicate n 0)

/-- `ShuffleSequences`: `for n > 1 { r := Intn(n); n--; swap(n, r) }` -/
def shuffleAux {α} : Nat → List α → RProg (List α)
  | 0, l => .pure l
  | 1, l => .pure l
  | n + 2, l => .intn (n + 2) fun r => shuffleAux (n + 1) (swapAt l (n + 1) r)

def shuffleSequences (rows : Rows) : RProg Rows := shuffleAux rows.length rows

/-- draw `n` site indices below `L` (`BuildBootstrap`) -/
def drawIdx (L : Nat) : Nat → RProg (List Nat)
  | 0 => .pure []
  | n + 1 => .intn L fun v => RProg.bind (drawIdx L n) fun rest => .pure (v :: rest)

def selectCols (idx : List Nat) (rows : Rows) : Rows := rows.map fun r => (r.1, idx.map fun i => r.2.getD i 0)

/-- `BuildBootstrap`: `n` columns drawn with replacement, taken for all rows at once -/
def bootstrap (n : Nat) (L : Nat) (rows : Rows) : RProg Rows :=
  RProg.bind (drawIdx L n) fun idx => .pure (selectCols idx rows)

/-- `Sample(nb)` / `SampleSeqBag(nb)`: first `nb` rows of a random permutation -/
def sampleRows (nb : Nat) (rows : Rows) : RProg Rows :=
  RProg.bind (permProg rows.length) fun p => .pure ((p.take nb).filterMap fun i => rows[i]?)

/-- `RandSubAlign(length, consecutive)` -/
def randSubAlign (len L : Nat) (consecutive : Bool) (rows : Rows) : RProg Rows :=
  if consecutive then
    .intn (L - len + 1) fun start => .pure (rows.map fun r => (r.1, (r.2.drop start).take len))
  else
    RProg.bind (permProg L) fun p => .pure (selectCols (p.take len) rows)

/-- one residue of `Mutate` -/
def mutateSeq (rate : Float) (alphabet : List Byte) : Seq → RProg Seq
  | [] => .pure []
  | c :: t => .unit fun r =>
    if r ≤ rate && c != GAP && c != POINT && c != OTHER then
      .intn alphabet.length fun k => RProg.bind (mutateSeq rate alphabet t) fun t' => .pure (alphabet.getD k 0 :: t')
    else RProg.bind (mutateSeq rate alphabet t) fun t' => .pure (c :: t')

def mutateRows (rate : Float) (alphabet : List Byte) : Rows → RProg Rows
  | [] => .pure []
  | r :: t => RProg.bind (mutateSeq rate alphabet r.2) fun s => RProg.bind (mutateRows rate alphabet t) fun t' => .pure ((r.1, s) :: t')

/-- `Mutate(rate)`: nothing when `rate ≤ 0`, `rate` capped at 1 -/
def mutate (rate : Float) (alphabet : List Byte) (rows : Rows) : RProg Rows :=
  if rate ≤ 0 then .pure rows else mutateRows (if rate > 1 then 1 else rate) alphabet rows

def setCols (s : Seq) (cols : List Nat) (c : Byte) : Seq := cols.foldl (fun acc j => acc.set j c) s

def updateRow (rows : Rows) (i : Nat) (f : Seq → Seq) : Rows :=
  match rows[i]? with
  | some r => rows.set i (r.1, f r.2)
  | none => rows

/-- `AddGaps`: for the first `nb` rows of a permutation, gaps at the first `nbgaps` sites of a fresh
site permutation -/
def addGapsLoop (L nbgaps : Nat) : List Nat → Rows → RProg Rows
  | [], rows => .pure rows
  | i :: rest, rows => RProg.bind (permProg L) fun ps => addGapsLoop L nbgaps rest (updateRow rows i fun s => setCols s (ps.take nbgaps) GAP)

def addGaps (nb nbgaps L : Nat) (rows : Rows) : RProg Rows :=
  RProg.bind (permProg rows.length) fun p => addGapsLoop L nbgaps (p.take nb) rows

/-- exchange the tails of rows `i` and `j` from `pos` -/
def swapTails (rows : Rows) (i j pos : Nat) : Rows :=
  match rows[i]?, rows[j]? with
  | some a, some b =>
    (rows.set i (a.1, a.2.take pos ++ b.2.drop pos)).set j (b.1, b.2.take pos ++ a.2.drop pos)
  | _, _ => rows

/-- `Swap(rate, pos)`: `half = nb/2` pairs; position random (`fixedPos = none`) or given -/
def swapLoop (L half : Nat) (fixedPos : Option Nat) (p : List Nat) : Nat → Nat → Rows → RProg Rows
  | 0, _, rows => .pure rows
  | k + 1, i, rows =>
    let go (pos : Nat) := swapLoop L half fixedPos p k (i + 1) (swapTails rows (p.getD i 0) (p.getD (i + half) 0) pos)
    match fixedPos with
    | none => .intn L go
    | some pos => go pos

def swapRows (nb L : Nat) (fixedPos : Option Nat) (rows : Rows) : RProg Rows :=
  RProg.bind (permProg rows.length) fun p => swapLoop L (nb / 2) fixedPos p (nb / 2) 0 rows

/-- `Recombine`: copy `[pos, pos+len)` of row `p[i+nb]` into row `p[i]` (and back when `swap`) -/
def recombOne (rows : Rows) (i j pos len : Nat) (swap : Bool) : Rows :=
  match rows[i]?, rows[j]? with
  | some a, some b =>
    let a' := a.2.take pos ++ (b.2.drop pos).take len ++ a.2.drop (pos + len)
    let b' := b.2.take pos ++ (a.2.drop pos).take len ++ b.2.drop (pos + len)
    let r1 := rows.set i (a.1, a')
    if swap then r1.set j (b.1, b') else r1
  | _, _ => rows

def recombLoop (L len nb : Nat) (swap : Bool) (p : List Nat) : Nat → Nat → Rows → RProg Rows
  | 0, _, rows => .pure rows
  | k + 1, i, rows => .intn (L - len + 1) fun pos =>
    recombLoop L len nb swap p k (i + 1) (recombOne rows (p.getD i 0) (p.getD (i + nb) 0) pos len swap)

def recombine (nb len L : Nat) (swap : Bool) (rows : Rows) : RProg Rows :=
  RProg.bind (permProg rows.length) fun p => recombLoop L len nb swap p nb 0 rows

/-- the Fisher–Yates pass of `SimulateRogue` over the chosen sites of one row -/
def rogueShuffle (sites : List Nat) : Nat → Seq → RProg Seq
  | 0, s => .pure s
  | k + 1, s =>
    let i := sites.length - (k + 1)
    .intn (i + 1) fun j => rogueShuffle sites k (swapAt s (sites.getD i 0) (sites.getD j 0))

def rogueLoop (L len : Nat) : List Nat → Rows → RProg Rows
  | [], rows => .pure rows
  | r :: rest, rows =>
    RProg.bind (permProg L) fun ps =>
      let sites := ps.take len
      match rows[r]? with
      | none => rogueLoop L len rest rows
      | some row => RProg.bind (rogueShuffle sites sites.length row.2) fun s => rogueLoop L len rest (rows.set r (row.1, s))

/-- `SimulateRogue`: returns rows, rogue names, intact names -/
def simulateRogue (nb len L : Nat) (rows : Rows) : RProg (Rows × List String × List String) :=
  RProg.bind (permProg rows.length) fun p =>
    RProg.bind (rogueLoop L len (p.take nb) rows) fun rows' =>
      .pure (rows', (p.take nb).filterMap (fun i => (rows[i]?).map Prod.fst),
                    (p.drop nb).filterMap (fun i => (rows[i]?).map Prod.fst))

/-- exchange the residues of rows `i` and `j` at column `site` -/
def swapCell (rows : Rows) (i j site : Nat) : Rows :=
  match rows[i]?, rows[j]? with
  | some a, some b =>
    if i == j then rows
    else (rows.set i (a.1, a.2.set site (b.2.getD site 0))).set j (b.1, b.2.set site (a.2.getD site 0))
  | _, _ => rows

/-- Fisher–Yates down one column: `for n > 1 { r := Intn(n); n--; swap(rows[n], rows[r]) at site }` -/
def shuffleColumn (site : Nat) : Nat → Rows → RProg Rows
  | 0, rows => .pure rows
  | 1, rows => .pure rows
  | n + 2, rows => .intn (n + 2) fun r => shuffleColumn site (n + 1) (swapCell rows (n + 1) r site)

def shuffleColumns : List Nat → Rows → RProg Rows
  | [], rows => .pure rows
  | site :: rest, rows => RProg.bind (shuffleColumn site rows.length rows) fun rows' => shuffleColumns rest rows'

/-- the extra pass over the "rogue" rows: `for r < nbRogueSeq { j := Intn(r+1); swap(tax[r], tax[j]) at site }` -/
def rogueColumn (tax : List Nat) (site : Nat) : Nat → Nat → Rows → RProg Rows
  | 0, _, rows => .pure rows
  | k + 1, r, rows => .intn (r + 1) fun j => rogueColumn tax site k (r + 1) (swapCell rows (tax.getD r 0) (tax.getD j 0) site)

def rogueColumns (tax : List Nat) (nbRogueSeq : Nat) : List Nat → Rows → RProg Rows
  | [], rows => .pure rows
  | site :: rest, rows => RProg.bind (rogueColumn tax site nbRogueSeq 0 rows) fun rows' => rogueColumns tax nbRogueSeq rest rows'

/-- `ShuffleSites(rate, roguerate, randroguefirst)` with the three counts the Go code derives from the
rates; returns the rows and the reported rogue names (empty strings when no extra site is shuffled) -/
def shuffleSites (nbSites nbRogueSites nbRogueSeq : Nat) (rogueFirst : Bool) (rows : Rows) : RProg (Rows × List String) :=
  let L := match rows with | r :: _ => r.2.length | [] => 0
  let perms : RProg (List Nat × List Nat) :=
    if rogueFirst then RProg.bind (permProg rows.length) fun tax => RProg.bind (permProg L) fun sp => .pure (sp, tax)
    else RProg.bind (permProg L) fun sp => RProg.bind (permProg rows.length) fun tax => .pure (sp, tax)
  RProg.bind perms fun (sp, tax) =>
    RProg.bind (shuffleColumns (sp.take nbSites) rows) fun r1 =>
      RProg.bind (rogueColumns tax nbRogueSeq ((sp.drop nbSites).take nbRogueSites) r1) fun r2 =>
        .pure (r2, (List.range nbRogueSeq).map fun r =>
          if nbRogueSites == 0 then "" else ((rows[tax.getD r 0]?).map Prod.fst).getD "")

/-- one draw of `rarefySeqBag`: scan the (sorted) names, accumulating `count/total`, and take the first
name whose cumulated probability exceeds the draw; its count is decremented, a name that reaches 0 is
removed.  `none`: the draw is not below the final cumulated value (rounding), nothing is selected. -/
def rarefyPick (unif : Float) (total : Nat) : List (String × Nat) → Float → List (String × Nat) →
    Option (String × List (String × Nat))
  | [], _, _ => none
  | (k, v) :: rest, proba, done =>
    let proba := proba + Float.ofNat v / Float.ofNat total
    if unif < proba then
      some (k, if v - 1 == 0 then done.reverse ++ rest else done.reverse ++ (k, v - 1) :: rest)
    else rarefyPick unif total rest proba ((k, v) :: done)

def rarefyLoop : Nat → Nat → List (String × Nat) → List String → RProg (List String)
  | 0, _, _, sel => .pure sel
  | n + 1, total, cs, sel => .unit fun u =>
    match rarefyPick u total cs 0.0 [] with
    | some (k, cs') => rarefyLoop n (total - 1) cs' (k :: sel)
    | none => rarefyLoop n (total - 1) cs sel

/-- `Rarefy(nb, counts)`: `counts` sorted by name (the code sorts the keys).  `none` = error (a count
≤ 0 is not representable here: the caller filters; unknown name; `nb ≥ Σ counts`). -/
def rarefy (nb : Nat) (counts : List (String × Nat)) (rows : Rows) : Option (RProg Rows) :=
  if counts.any (fun c => c.2 == 0 || !(rows.any fun r => r.1 == c.1)) then none
  else
    let total := (counts.map Prod.snd).foldl (· + ·) 0
    if nb ≥ total then none
    else some (RProg.bind (rarefyLoop nb total counts []) fun sel => .pure (rows.filter fun r => sel.contains r.1))

/-- the Go generator as an `RProg.Gen` -/
def goGen : RProg.Gen GoRng.St := { intn := GoRng.intn, unit := GoRng.float64 }

def runSeed {α} (p : RProg α) (seed : Int) : α := (RProg.runGen goGen p (GoRng.seed seed)).1

end Gv.Model
