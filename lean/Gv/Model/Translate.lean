import Gv.Model.Seq
/-!
Model of the container-level translation functions of `align/align.go` and `align/seqbag.go`
(property C05): `SeqBag.Translate` / `Alignment.Translate` (one frame or the three frames),
`CodonAlign` and `TranslateByReference`.  The index walks of the Go code are written as list
consumption (the columns from `refcodonidx[0]` on are the remaining list); quirks are kept:
`TranslateByReference` silently drops the columns facing reference gaps in front of a codon and stops at the
first incomplete codon (an alignment shorter than `3 + phase` and a negative phase are errors since the `fix:`
commits).
Core-only.
-/
namespace Gv.Model
open Gv

/-! ### SeqBag.Translate / Alignment.Translate -/

/-- frames translated for a `phase` argument: −1 ↦ 0, 1, 2 (names get the suffix `_<frame>`) -/
def framesOf (phase : Int) : List Nat := if phase == -1 then [0, 1, 2] else [phase.toNat]

def frameName (phase : Int) (name : String) (f : Nat) : String :=
  if phase == -1 then name ++ "_" ++ toString f else name

/-- rows of `SeqBag.Translate(phase, code)` (`phase ≥ −1`): every row in order, every frame in order; the
first failing translation is an error (what it leaves behind is not modelled) -/
def translateFrames (alphabet : Nat) (phase : Int) (codeId : Int) (rows : List (String × Seq)) :
    Option (List (String × Seq)) :=
  match geneticCode codeId with
  | none => none
  | some _ =>
    if alphabet != NUCLEOTIDS then none else
    (rows.flatMap fun r => (framesOf phase).map fun f => (frameName phase r.1 f, f, r.2)).mapM fun x =>
      (translateSeq x.2.1 codeId x.2.2).map fun p => (x.1, p)

/-- `Alignment.Translate`: the rows and the cached length (length of the first row, −1 without rows) -/
def alignTranslate (alphabet : Nat) (phase : Int) (codeId : Int) (rows : List (String × Seq)) :
    Option (List (String × Seq) × Int) :=
  (translateFrames alphabet phase codeId rows).map fun out =>
    (out, match out with | [] => -1 | r :: _ => (r.2.length : Int))

/-! ### CodonAlign -/

/-- the loop of `CodonAlign` over one protein row: the buffer and the nucleotides not consumed;
`none` = "nucleotidic sequence is shorter than its aa counterpart" -/
def codonThread : Seq → Seq → Option (Seq × Seq)
  | [], nt => some ([], nt)
  | a :: p, nt =>
    if a == GAP then (codonThread p nt).map fun r => (GAP :: GAP :: GAP :: r.1, r.2)
    else match nt with
      | x :: y :: z :: nt' => (codonThread p nt').map fun r => (x :: y :: z :: r.1, r.2)
      | _ => none

/-- one row: at most two nucleotides may remain (they are dropped), more is an error -/
def codonAlignRow (p nt : Seq) : Option Seq :=
  match codonThread p nt with
  | none => none
  | some r => if r.2.length ≤ 2 then some r.1 else none

/-- `a.CodonAlign(ntseqs)`: `a` must be amino acids, `ntseqs` nucleotides; every row of `a` in order, its
nucleotide sequence looked up by name (missing: error) -/
def codonAlign (alphaP alphaN : Nat) (prot nts : List (String × Seq)) : Option (List (String × Seq)) :=
  if alphaP != AMINOACIDS then none
  else if alphaN != NUCLEOTIDS then none
  else prot.mapM fun r =>
    match findRow r.1 nts with
    | none => none
    | some nt => (codonAlignRow r.2 nt).map fun b => (r.1, b)

/-! ### TranslateByReference -/

/-- `for refcodonidx[2] < alen && ref[idx] == GAP { … ++ }` on the list of remaining reference characters:
leading gaps are dropped while at least `m` characters remain; returns how many were dropped -/
def skipGaps (m : Nat) : Seq → Nat × Seq
  | [] => (0, [])
  | c :: t =>
    if (c :: t).length ≥ m && c == GAP then let r := skipGaps m t; (r.1 + 1, r.2) else (0, c :: t)

/-- one iteration of the outer loop, seen from the reference row: `skip` columns dropped in front (reference
gaps before the first codon position), `len` columns `refcodonidx[0] … refcodonidx[2]`, and the character
written first to the reference buffer (`-` for a codon of three gaps) -/
structure RefSeg where
  skip : Nat
  len : Nat
  aa : Byte
deriving Repr, DecidableEq

/-- the outer loop over the remaining reference characters (`fuel` ≥ their number: every iteration
consumes at least three) -/
def refSegs (code : List (List Byte × Byte)) : Nat → Seq → List RefSeg
  | 0, _ => []
  | fuel + 1, a :: b :: c :: t =>
    if a == GAP && b == GAP && c == GAP then ⟨0, 3, GAP⟩ :: refSegs code fuel t
    else
      let r0 := skipGaps 3 (a :: b :: c :: t)
      match r0.2 with
      | x :: rest =>
        if rest.length < 2 then [] else
        let r1 := skipGaps 2 rest
        match r1.2 with
        | y :: rest2 =>
          if rest2.length < 1 then [] else
          let r2 := skipGaps 1 rest2
          match r2.2 with
          | z :: t' => ⟨r0.1, r1.1 + r2.1 + 3, translateCodon code x y z⟩ :: refSegs code fuel t'
          | [] => []
        | [] => []
      | [] => []
  | _ + 1, _ => []

/-- number of potential amino acids of a segment -/
def RefSeg.naa (s : RefSeg) : Nat := s.len / 3

/-- what the reference buffer receives for one segment -/
def refChunk (s : RefSeg) : Seq := s.aa :: List.replicate (s.naa - 1) GAP

/-- what another row receives for the columns of one segment -/
def compChunk (code : List (List Byte × Byte)) (naa : Nat) (chunk : Seq) : Seq :=
  let tmp := chunk.filter (· != GAP)
  if tmp.length == 0 then List.replicate naa GAP
  else if tmp.length % 3 != 0 then List.replicate naa 88
  else
    let tr := codonsFrom code tmp
    tr ++ List.replicate (naa - tr.length) GAP

/-- a row other than the reference, cut along the segments -/
def compRow (code : List (List Byte × Byte)) : List RefSeg → Seq → Seq
  | [], _ => []
  | s :: ss, row =>
    let r := row.drop s.skip
    compChunk code s.naa (r.take s.len) ++ compRow code ss (r.drop s.len)

def findRowIdx (name : String) : List (String × Seq) → Nat → Option Nat
  | [], _ => none
  | (n, _) :: t, i => if n == name then some i else findRowIdx name t (i + 1)

/-- `a.TranslateByReference(phase, code, refseq)` for `phase ≥ 0`; `none` = error (empty or unknown
reference name, wrong alphabet, unknown code, alignment shorter than `3 + phase`).  The alignment length is the length of the reference row. -/
def translateByReference (alphabet : Nat) (phase : Nat) (codeId : Int) (refName : String)
    (rows : List (String × Seq)) : Option (List (String × Seq)) :=
  if refName == "" then none else
  match findRowIdx refName rows 0 with
  | none => none
  | some refId =>
    if alphabet != NUCLEOTIDS && alphabet != BOTH then none else
    match geneticCode codeId with
    | none => none
    | some code =>
      let ref := (rows.getD refId ("", [])).2
      -- as for `Translate`: at least one codon must start at `phase` (after the `fix:` commit)
      if ref.length < 3 + phase then none else
      let segs := refSegs code ref.length (ref.drop phase)
      some (rows.zipIdx.map fun x =>
        (x.1.1, if x.2 == refId then segs.flatMap refChunk else compRow code segs (x.1.2.drop phase)))

/-- `a.TranslateByReference(phase, code, refseq)` with the `int` phase of the Go signature: a negative phase
(in particular the "three frames" value −1 of the command line) is an error (after the `fix:` commit) -/
def translateByReferenceZ (alphabet : Nat) (phase : Int) (codeId : Int) (refName : String)
    (rows : List (String × Seq)) : Option (List (String × Seq)) :=
  if phase < 0 then none else translateByReference alphabet phase.toNat codeId refName rows

end Gv.Model
