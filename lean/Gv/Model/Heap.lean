/-!
Ownership model for property C19: rows reference buffers of a heap, so that two containers *can* share
a backing array (as Go slices do).  Core-only.
-/
namespace Gv.Model.HeapM

abbrev Seq := List UInt8

structure HRow where
  name : String
  buf : Nat
deriving DecidableEq, Repr

structure Heap where
  cells : List (Nat × Seq) := []
  next : Nat := 0
deriving Repr

def Heap.read (h : Heap) (b : Nat) : Seq :=
  match h.cells.find? (fun c => c.1 == b) with
  | some c => c.2
  | none => []

/-- allocate a new buffer holding `s` -/
def Heap.alloc (h : Heap) (s : Seq) : Heap × Nat :=
  ({ cells := h.cells ++ [(h.next, s)], next := h.next + 1 }, h.next)

/-- in-place write of one residue of buffer `b` -/
def Heap.write (h : Heap) (b i : Nat) (c : UInt8) : Heap :=
  { h with cells := h.cells.map fun cell => if cell.1 == b then (cell.1, cell.2.set i c) else cell }

/-- what a caller observes of a container -/
def obs (h : Heap) (a : List HRow) : List (String × Seq) := a.map fun r => (r.name, h.read r.buf)

def bufs (a : List HRow) : List Nat := a.map (·.buf)

/-- well-formed: all cell ids and all referenced buffers are below the allocation counter -/
def WF (h : Heap) (a : List HRow) : Prop := (∀ c ∈ h.cells, c.1 < h.next) ∧ (∀ r ∈ a, r.buf < h.next)

/-- build a new container whose rows are *freshly allocated* copies of the given (name, sequence)
pairs — the shape of `Clone`, `SubAlign`, `SelectSites`, `Transpose`, `BuildBootstrap`, `Split`,
`Unalign`, `CodonAlign` according to the regenerated mutation facts (`ownsData`) -/
def allocRows : Heap → List (String × Seq) → Heap × List HRow
  | h, [] => (h, [])
  | h, (n, s) :: t =>
    let (h1, b) := h.alloc s
    let (h2, rest) := allocRows h1 t
    (h2, ⟨n, b⟩ :: rest)

end Gv.Model.HeapM
