import Gv.Model.Fmt.Common
import Gv.Model.Fmt.Utf8
/-!
Model of `io/stockholm/{stockholm_lexer,stockholm_parser,writer}.go` as the code is.

* lexer: white space, `\n` / `\r\n`; a lone `\r` prints a warning and the byte after it starts an
  identifier unconditionally (at the very end of the input: the identifier "\0"); `#` is MARKUP;
  identifiers stop at `[ ] ; =`, line ends and white space; NUMERIC / STOCKHOLM / `//` classification;
* parser: header `# STOCKHOLM 1.0`, rows `name sequence`, markup lines skipped by a loop that waits
  for ENDOFLINE (and, unless `markupStopsAtEof`, spins for ever at EOF: outcome `hang`), `.` → `-`,
  the final "no sequence" test on `Length() == 0` (which an empty alignment, length −1, passes unless
  `rejectsEmpty`);
* writer.
ASCII input assumed.
-/
namespace Gv.Model.Fmt.Stockholm
open Gv Gv.Model Gv.Model.Fmt

inductive Tok
  | ident (s : Seq) | num (s : Seq) | stockholm (s : Seq) | endTok (s : Seq) | markup | ws (s : Seq) | eol | eof
deriving DecidableEq, Repr, Inhabited

def isWS (b : Byte) : Bool := b == SP || b == TAB
def identChar (b : Byte) : Bool :=
  b != 91 && b != 93 && b != 59 && b != 61 && b != CR && b != NL && !isWS b && b != 0

def afterRun : Seq → Seq
  | b :: r => if b == 0 then r else b :: r
  | [] => []

def isDigit (b : Byte) : Bool := 48 ≤ b && b ≤ 57
def decVal (ds : Seq) : Nat := ds.foldl (fun a d => a * 10 + (d.toNat - 48)) 0

/-- `strconv.ParseInt(s, 10, 64)` succeeds -/
def isInt64 (s : Seq) : Bool :=
  let (neg, ds) := match s with
    | 45 :: t => (true, t)
    | 43 :: t => (false, t)
    | _ => (false, s)
  !ds.isEmpty && ds.all isDigit &&
    (if neg then decVal ds ≤ 9223372036854775808 else decVal ds ≤ 9223372036854775807)

def upper (b : Byte) : Byte := if 97 ≤ b && b ≤ 122 then b - 32 else b

def classify (lit : Seq) : Tok :=
  if isInt64 lit then .num lit
  -- `switch strings.ToUpper(lit)`: rune-wise (U+017F folds into `S`); on an ASCII literal it is `lit.map upper`
  else if Utf8.upperLit lit == [83, 84, 79, 67, 75, 72, 79, 76, 77] then .stockholm lit
  else if lit == [47, 47] then .endTok lit
  else .ident lit

/-- `scanIdent` after the first byte `c` was (unconditionally) taken -/
def identFrom (c : Byte) (cs : Seq) : Tok × Seq :=
  (classify (c :: cs.takeWhile identChar), afterRun (cs.dropWhile identChar))

def scan : Seq → Tok × Seq
  | [] => (.eof, [])
  | c :: cs =>
    if isWS c then (.ws (c :: cs.takeWhile isWS), afterRun (cs.dropWhile isWS))
    else if c == NL then (.eol, cs)
    else if c == CR then
      match cs with
      | 10 :: r => (.eol, r)
      | x :: r => identFrom x r          -- warning printed; the next byte starts an identifier
      | [] => (classify [0], [])          -- read() returned eof, which scanIdent writes as a NUL
    else if c == 0 then (.eof, cs)
    else if c == 35 then (.markup, cs)
    else identFrom c cs

/-- `scanIgnoreWhitespace` -/
def scanIW (inp : Seq) : Tok × Seq :=
  match scan inp with
  | (.ws _, r) => scan r
  | x => x

def lit : Tok → Seq
  | .ident s | .num s | .stockholm s | .endTok s | .ws s => s
  | .markup => [35]
  | .eol | .eof => []

/-- the markup-skipping loop `for tok != ENDOFLINE { tok = scanIgnoreWhitespace() }`; `none` = hang -/
def skipMarkup (stopsAtEof : Bool) : Nat → Seq → Option Seq
  | 0, _ => none
  | fuel + 1, inp =>
    match scanIW inp with
    | (.eol, r) => some r
    | (.eof, r) => if stopsAtEof then some r else (if r.isEmpty then none else skipMarkup stopsAtEof fuel r)
    | (_, r) => skipMarkup stopsAtEof fuel r

/-- `strings.Replace(sequence, ".", "-", -1)` -/
def dotsToGaps (s : Seq) : Seq := s.map fun b => if b == 46 then 45 else b

/-- the main loop; result: the container, or a stop kind -/
def loop (stopsAtEof : Bool) : Nat → Seq → Bag → Outcome Bag
  | 0, _, _ => .hang
  | fuel + 1, inp, bag =>
    match scanIW inp with
    | (.eof, _) => .ok bag
    | (.eol, r) => loop stopsAtEof fuel r bag
    | (.markup, r) =>
      match skipMarkup stopsAtEof (r.length + 2) r with
      | none => .hang
      | some r' => loop stopsAtEof fuel r' bag
    | (.endTok _, _) => .ok bag
    | (.ident name, r) | (.num name, r) =>
      match scanIW r with
      | (.ident q, r') =>
        match bag.add name (dotsToGaps q) with
        | none => .error
        | some b => loop stopsAtEof fuel r' b
      | _ => .error
    | (_, r) => loop stopsAtEof fuel r bag

/-- `stockholm.NewParser(r).IgnoreIdentical(i).Alphabet(a).Parse()` -/
def parse (stopsAtEof rejectsEmpty : Bool) (o : POpts) (bs : Seq) : Outcome Aln :=
  match scanIW bs with
  | (.markup, r1) =>
    match scanIW r1 with
    | (.stockholm _, r2) =>
      let (t3, r3) := scanIW r2
      if lit t3 != [49, 46, 48] then .error else
      match loop stopsAtEof (r3.length + 2) r3 { ignore := normIgnore o.ignore } with
      | .ok bag =>
        if (rejectsEmpty && bag.rows.isEmpty) || bag.length == 0 then .error
        else match bag.finish (normAlphabet o.alphabet) with
          | none => .error
          | some a => .ok a
      | .error => .error
      | .exit => .exit
      | .panic => .panic
      | .hang => .hang
    | _ => .error
  | _ => .error

/-- `Parse()` on the raw input, ALL byte strings (the keyword test of `classify` upper-cases rune-wise, so U+017F is
covered: `# ſTOCKHOLM 1.0` is the header) -/
def parseBytes (stopsAtEof rejectsEmpty : Bool) (o : POpts) (bs : Seq) : Outcome Aln :=
  parse stopsAtEof rejectsEmpty o (Utf8.norm bs)

/-! ### writer -/

def header : Seq := ([35, 32, 83, 84, 79, 67, 75, 72, 79, 76, 77, 32, 49, 46, 48, 10, 35, 61, 71, 70, 32, 73, 68, 32, 32, 32, 71, 111, 97, 108, 105, 103, 110, 32, 103, 101, 110, 101, 114, 97, 116, 101, 100, 32, 97, 108, 105, 103, 110, 109, 101, 110, 116, 10] : Seq)

def write (rows : List XRow) : Seq :=
  header ++ rows.flatMap (fun r => r.1 ++ [TAB] ++ r.2 ++ [NL]) ++ [47, 47]

end Gv.Model.Fmt.Stockholm
