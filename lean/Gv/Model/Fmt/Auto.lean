import Gv.Model.Fmt.Fasta
import Gv.Model.Fmt.Phylip
import Gv.Model.Fmt.Nexus
import Gv.Model.Fmt.Clustal
/-!
Model of the first-byte dispatch of `utils.ParseAlignmentAuto` / `ParseMultiAlignmentsAuto`
(`io/utils/readaligns.go`): `>` FASTA, `#` Nexus, `C` Clustal, anything else Phylip; an empty input is
an error (`ReadByte` fails).
-/
namespace Gv.Model.Fmt.Auto
open Gv Gv.Model Gv.Model.Fmt

inductive Format | fasta | nexus | clustal | phylip
deriving DecidableEq, Repr

def Format.name : Format → String
  | .fasta => "fasta" | .nexus => "nexus" | .clustal => "clustal" | .phylip => "phylip"

/-- `none` = the reader is empty -/
def detect : Seq → Option Format
  | [] => none
  | c :: _ => some (if c == 62 then .fasta else if c == 35 then .nexus else if c == 67 then .clustal else .phylip)

end Gv.Model.Fmt.Auto
