import Gv.Model.Fmt.Common
import Gv.Model.Fmt.Utf8
import Gv.Model.Fmt.Phylip
/-!
Model of `io/partition/{lexer,parser}.go` and `align/partition.go` (`NewPartitionSet`, `AddRange`)
as the code is.  Go's `int` arithmetic is modelled over `Int` with explicit 64-bit wrap-around
(`wrap64`), so that the overflow of `i += modulo` is visible: the wrapped index is negative and the
unguarded `ps.partitions[i]` panics.
-/
namespace Gv.Model.Fmt.Partition
open Gv Gv.Model Gv.Model.Fmt
open Gv.Model.Fmt.Phylip (parseInt64 afterRun)

inductive Tok
  | ident (s : Seq) | dec (s : Seq) | sep | equal | range | modulo | eol | eof
deriving DecidableEq, Repr, Inhabited

/-- `isIdent` (and not the in-band EOF byte) -/
def identChar (b : Byte) : Bool :=
  b != NL && b != CR && b != 44 && b != 45 && b != 47 && b != 61 && b != SP && b != 0

def scan : Seq → Tok × Seq
  | [] => (.eof, [])
  | c :: cs =>
    if c == NL then (.eol, cs)
    else if c == CR then (match cs with | 10 :: r => (.eol, r) | r => (.eol, r))
    else
      -- `for isWhiteSpace(ch) { ch = s.read() }`
      match (c :: cs).dropWhile (· == SP) with
      | [] => (.eof, [])
      | d :: ds =>
        if d == 0 then (.eof, ds)
        else if d == 44 then (.sep, ds)
        else if d == 61 then (.equal, ds)
        else if d == 45 then (.range, ds)
        else if d == 47 then (.modulo, ds)
        else
          -- scanIdent: the first byte unconditionally (it may be a line end met after spaces)
          let lit := d :: ds.takeWhile identChar
          ((if (parseInt64 lit).isSome then .dec lit else .ident lit), afterRun (ds.dropWhile identChar))

/-- two's-complement wrap of a Go `int` (64 bit) -/
def wrap64 (x : Int) : Int := (x + 9223372036854775808) % 18446744073709551616 - 9223372036854775808

structure PSet where
  length : Nat
  names : List (Name × Name) := []       -- (partition name, model name)
  parts : List Int                        -- partition index of every site, −1 = none
deriving DecidableEq, Repr

def newPSet (len : Nat) : PSet := { length := len, parts := List.replicate len (-1) }

/-- the loop `for i := start; i <= end; i += modulo` of `AddRange` -/
def rangeLoop (guardsOverflow : Bool) (idx : Int) (endI modulo : Int) : Nat → Int → List Int → Outcome (List Int)
  | 0, _, _ => .hang
  | fuel + 1, i, parts =>
    if i ≤ endI then
      if i < 0 || i ≥ parts.length then .panic
      else if parts.getD i.toNat 0 != -1 then .error
      else
        let parts' := parts.set i.toNat idx
        if guardsOverflow && modulo > endI - i then .ok parts'
        else rangeLoop guardsOverflow idx endI modulo fuel (wrap64 (i + modulo)) parts'
    else .ok parts

/-- `PartitionSet.AddRange(partName, modelName, start, end, modulo)` -/
def addRange (rejectsStartAfterEnd guardsOverflow : Bool) (ps : PSet) (part model : Name)
    (start endI modulo : Int) : Outcome PSet :=
  if start < 0 then .error
  else if endI ≥ ps.length then .error
  else if modulo ≤ 0 then .error
  else if rejectsStartAfterEnd && start > endI then .error
  else
    let (idx, names) := match ps.names.findIdx? (·.1 == part) with
      | some i => (i, ps.names)
      | none => (ps.names.length, ps.names ++ [(part, model)])
    match rangeLoop guardsOverflow idx endI modulo (ps.length + 2) start ps.parts with
    | .ok parts => .ok { ps with names := names, parts := parts }
    | .error => .error
    | .exit => .exit
    | .panic => .panic
    | .hang => .hang

structure Facts where
  rejectsStartAfterEnd : Bool
  guardsOverflow : Bool

def intOf (s : Seq) : Int := (parseInt64 s).getD 0

/-- optional `- end` after the start of an interval: `(end, next token, rest)`; `none` = error -/
def optRange (start : Int) (tok : Tok) (inp : Seq) : Option (Int × Tok × Seq) :=
  match tok with
  | .range =>
    match scan inp with
    | (.dec l2, inp2) => let r := scan inp2; some (intOf l2, r.1, r.2)
    | _ => none
  | _ => some (start, tok, inp)

/-- optional `/ modulo`: `(modulo, next token, rest)`; `none` = error -/
def optModulo (tok : Tok) (inp : Seq) : Option (Int × Tok × Seq) :=
  match tok with
  | .modulo =>
    match scan inp with
    | (.dec l3, inp3) => let r := scan inp3; some (intOf l3, r.1, r.2)
    | _ => none
  | _ => some (1, tok, inp)

/-- the interval loop `for tok != ENDOFLINE && tok != EOF { … }` -/
def intervals (f : Facts) (part model : Name) : Nat → Tok → Seq → PSet → Outcome (Tok × Seq × PSet)
  | 0, _, _, _ => .hang
  | fuel + 1, tok, inp, ps =>
    if tok == .eol || tok == .eof then .ok (tok, inp, ps) else
    match tok with
    | .dec l =>
      let r1 := scan inp
      match optRange (intOf l) r1.1 r1.2 with
      | none => .error
      | some (endV, tok2, inp2) =>
        match optModulo tok2 inp2 with
        | none => .error
        | some (modulo, tok3, inp3) =>
          match addRange f.rejectsStartAfterEnd f.guardsOverflow ps part model
              (wrap64 (intOf l - 1)) (wrap64 (endV - 1)) modulo with
          | .ok ps' =>
            if tok3 == .sep then
              let r := scan inp3
              intervals f part model fuel r.1 r.2 ps'
            else if tok3 != .eol && tok3 != .eof then .error
            else intervals f part model fuel tok3 inp3 ps'
          | .error => .error
          | .exit => .exit
          | .panic => .panic
          | .hang => .hang
    | _ => .error

/-- the main loop `for tok != EOF { tok = scan(); switch tok { case IDENTIFIER: … } }` -/
def loop (f : Facts) : Nat → Tok → Seq → PSet → Outcome PSet
  | 0, _, _, _ => .hang
  | fuel + 1, tok, inp, ps =>
    if tok == .eof then .ok ps else
    let (tok, inp) := scan inp
    match tok with
    | .ident model =>
      match scan inp with
      | (.sep, inp) =>
        match scan inp with
        | (.ident part, inp) =>
          match scan inp with
          | (.equal, inp) =>
            let (t, inp) := scan inp
            match intervals f part model (inp.length + 3) t inp ps with
            | .ok (t, inp, ps') => loop f fuel t inp ps'
            | .error => .error
            | .exit => .exit
            | .panic => .panic
            | .hang => .hang
          | _ => .error
        | _ => .error
      | _ => .error
    | _ => loop f fuel tok inp ps

/-- `partition.NewParser(r).Parse(alignmentLength)` -/
def parse (f : Facts) (len : Nat) (bs : Seq) : Outcome PSet :=
  match scan bs with
  | (.ident l, _) =>
    -- `p.unscan()`: the first token is read again by the loop
    loop f (bs.length + 3) (.ident l) bs (newPSet len)
  | _ => .error

/-- `Parse(alignmentLength)` on the raw input, ALL byte strings: the lexer reads runes, compares them with ASCII constants
only and writes them back (`Utf8.norm`); names are the written bytes, numbers go through `strconv.ParseInt` -/
def parseBytes (f : Facts) (len : Nat) (bs : Seq) : Outcome PSet := parse f len (Utf8.norm bs)

end Gv.Model.Fmt.Partition
