import Gv.Model.Fmt.Common
import Gv.Model.Fmt.Utf8
/-!
Model of `io/phylip/{lexer,parser,writer}.go` as the code is.

* lexer `Scan`: white-space runs, `\n` / `\r\n` (a lone `\r` calls `io.ExitWithMessage`: outcome
  `exit`), NUL-as-EOF, identifiers (everything but `\n`, `\r`, space — a TAB is an identifier byte),
  NUMERIC = identifier accepted by `strconv.ParseInt(…, 10, 64)`;
* parser: the one-token push-back buffer (which survives from one `Parse` call to the next, so
  `ParseMultiple` is a fold over one state), `scanWithEOL`, the header, the first block with names
  (strict: `Scanner.Read(10)` reads 10 runes *past* the push-back buffer), the following blocks,
  the final length check, `AddSequence` (its error is ignored), alphabet step;
  `make([]string, nbseq)` from the unchecked header count is modelled by `AllocOutcome`;
* writer `WriteAlignment` with the strict / one-line / no-block options.

Loops are written with explicit fuel (the number of remaining input bytes bounds every loop of the Go
code that consumes a token per iteration); running out of fuel is reported as `hang`.
The state's `inp` is the byte string the lexer holds after `ReadRune` / `WriteRune` (`Utf8.norm` of the raw input, see
`Utf8.lean`); `parseBytes` / `parseMultiBytes` are the entry points on the RAW input, defined on ALL byte strings.  The
lexer compares runes with ASCII constants only; `strconv.ParseInt`, `strings.Replace`, `len(seq)`, `[]uint8(sequence)`
work on the written bytes; the two places that look at runes again are `Read(10)` (ten runes: `readName10`) and
`[]rune(name)[len-1] == eof` (the last rune is NUL iff the last written byte is NUL).
-/
namespace Gv.Model.Fmt.Phylip
open Gv Gv.Model Gv.Model.Fmt

inductive Tok
  | ident (s : Seq) | num (s : Seq) | eol | eof | ws
deriving DecidableEq, Repr, Inhabited

def isWS (b : Byte) : Bool := b == SP || b == TAB
/-- `isIdent` of tokens.go (and not the in-band EOF byte) -/
def identChar (b : Byte) : Bool := b != NL && b != SP && b != CR && b != 0

def afterRun : Seq → Seq
  | b :: r => if b == 0 then r else b :: r
  | [] => []

def isDigit (b : Byte) : Bool := 48 ≤ b && b ≤ 57

def decVal (ds : Seq) : Nat := ds.foldl (fun a d => a * 10 + (d.toNat - 48)) 0

/-- `strconv.ParseInt(s, 10, 64)`: optional sign, at least one digit, digits only, value in the
int64 range; `none` = error (the token is then an IDENTIFIER) -/
def parseInt64 (s : Seq) : Option Int :=
  let (neg, ds) := match s with
    | 45 :: t => (true, t)
    | 43 :: t => (false, t)
    | _ => (false, s)
  if ds.isEmpty || !ds.all isDigit then none
  else
    let v := decVal ds
    if neg then (if v ≤ 9223372036854775808 then some (-(v : Int)) else none)
    else (if v ≤ 9223372036854775807 then some (v : Int) else none)

/-- one `Scan`; `none` = `io.ExitWithMessage` (lone `\r`) -/
def scan : Seq → Option (Tok × Seq)
  | [] => some (.eof, [])
  | c :: cs =>
    if isWS c then some (.ws, afterRun (cs.dropWhile isWS))
    else if c == NL then some (.eol, cs)
    else if c == CR then
      match cs with
      | 10 :: r => some (.eol, r)
      | _ => none
    else if c == 0 then some (.eof, cs)
    else
      let lit := c :: cs.takeWhile identChar
      some ((if (parseInt64 lit).isSome then .num lit else .ident lit), afterRun (cs.dropWhile identChar))

/-- lexer + push-back buffer (`Parser.buf`) -/
structure St where
  inp : Seq
  last : Tok := .eof
  pushed : Bool := false
deriving Repr

/-- abnormal ends of a parse -/
inductive Stop | error | exit | panic | hang
deriving DecidableEq, Repr

abbrev R (α : Type) := Except Stop α

def St.scan (s : St) : R (Tok × St) :=
  if s.pushed then .ok (s.last, { s with pushed := false })
  else match Phylip.scan s.inp with
    | none => .error .exit
    | some (t, r) => .ok (t, { inp := r, last := t, pushed := false })

def St.unscan (s : St) : St := { s with pushed := true }

/-- the `for ; tok == ENDOFLINE; tok, lit = p.scan()` loop of `scanWithEOL` -/
def skipEols : Nat → St → R St
  | 0, _ => .error .hang
  | fuel + 1, s => do
    let (t, s') ← s.scan
    if t == .eol then skipEols fuel s' else pure s'

/-- `scanWithEOL`: a run of end-of-line tokens is one ENDOFLINE, the token after it is pushed back -/
def scanWithEOL (s : St) : R (Tok × St) := do
  let (t, s1) ← s.scan
  if t != .eol then pure (t, s1)
  else
    let s2 ← skipEols (s1.inp.length + 2) s1
    pure (.eol, s2.unscan)

/-- how `make([]string, nbseq)` / `make([]*bytes.Buffer, nbseq)` end for a header count -/
inductive AllocOutcome | fine | slow | panic
deriving DecidableEq, Repr

/-- Go (linux/amd64): `makeslice` panics when `nbseq * 16` exceeds `maxAlloc = 2^48`; below that
the request is granted lazily, but from about 2^27 entries on the parse is no longer prompt (the
outcome then depends on the machine: the oracle does not compare it) -/
def alloc (fromHeader : Bool) (nbseq : Int) : AllocOutcome :=
  if !fromHeader then .fine
  else if nbseq > 17592186044416 then .panic
  else if nbseq ≥ 134217728 then .slow
  else .fine

/-- the token loop of one sequence line: `for tok != ENDOFLINE { IDENTIFIER: append; WS: skip; default: error }` -/
def seqLine : Nat → Tok → St → Seq → R (Seq × St)
  | 0, _, _, _ => .error .hang
  | fuel + 1, tok, s, acc =>
    match tok with
    | .eol => pure (acc, s)
    | .ident l => do let (t, s') ← s.scan; seqLine fuel t s' (acc ++ l)
    | .ws => do let (t, s') ← s.scan; seqLine fuel t s' acc
    | _ => .error .error

/-- `Scanner.Read(10)` + the EOF test + removal of spaces (strict names).  Reads ten RUNES (`ReadRune` ten times,
each written back with `WriteRune`) from the reader, not through the push-back buffer: a name field of ten
two-byte runes is twenty bytes wide.  Fewer than ten runes left: `"\0\0"` is appended and the last rune is `eof`. -/
def readName10 (s : St) : R (Seq × St) :=
  let t := Utf8.takeRunes 10 s.inp
  if t.2.2 < 10 then .error .error
  else
    let nm := t.1
    if nm.getLast? == some 0 then .error .error
    else pure (nm.filter (· != SP), { s with inp := t.2.1 })

/-- the first block: `for i := 0; i < nbseq; i++ { name; sequence tokens up to ENDOFLINE }` -/
def firstBlock (strict : Bool) : Nat → Nat → St → List XRow → R (List XRow × St)
  | _, 0, s, acc => pure (acc, s)
  | 0, _ + 1, _, _ => .error .hang
  | fuel + 1, n + 1, s, acc => do
    let (name, s1) ←
      if strict then readName10 s
      else do
        let (t, s') ← s.scan
        match t with
        | .eof => .error .error
        | .ident l => pure (l, s')
        | .num l => pure (l, s')
        | _ => .error .error
    let (t, s2) ← s1.scan
    let (q, s3) ← seqLine (s2.inp.length + 3) t s2 []
    firstBlock strict fuel n s3 (acc ++ [(name, q)])

/-- one following block: for every row `scan; skip one WS; must be IDENTIFIER; tokens up to ENDOFLINE` -/
def nextBlock : List XRow → St → List XRow → R (List XRow × St)
  | [], s, acc => pure (acc, s)
  | (nm, q) :: rest, s, acc => do
    let (t, s1) ← s.scan
    let (t, s1) ← if t == .ws then s1.scan else pure (t, s1)
    match t with
    | .ident _ =>
      let (q', s2) ← seqLine (s1.inp.length + 3) t s1 q
      nextBlock rest s2 (acc ++ [(nm, q')])
    | _ => .error .error

def firstLen (rows : List XRow) : Int := match rows with | r :: _ => r.2.length | [] => 0

/-- after a block: `scanWithEOL`; ENDOFLINE ⇒ peek the next token (scan + unscan); otherwise the
sequences must be complete -/
def afterBlock (lenseq : Int) (rows : List XRow) (s : St) : R (Tok × St) := do
  let (t, s1) ← scanWithEOL s
  if t == .eol then
    let (t2, s2) ← s1.scan
    pure (t2, s2.unscan)
  else if lenseq != firstLen rows then .error .error
  else pure (t, s1)

/-- `for tok != EOF && int(lenseq) != seqs[0].Len() { block; afterBlock }` -/
def blocks (lenseq : Int) : Nat → Tok → St → List XRow → R (List XRow × St)
  | 0, _, _, _ => .error .hang
  | fuel + 1, tok, s, rows =>
    if tok != .eof && lenseq != firstLen rows then do
      let (rows', s1) ← nextBlock rows s []
      let (t, s2) ← afterBlock lenseq rows' s1
      blocks lenseq fuel t s2 rows'
    else pure (rows, s)

/-- skip WS / ENDOFLINE at the beginning -/
def skipLeading : Nat → St → R (Tok × St)
  | 0, _ => .error .hang
  | fuel + 1, s => do
    let (t, s1) ← scanWithEOL s
    if t == .ws || t == .eol then skipLeading fuel s1 else pure (t, s1)

/-- result of one `Parse` call: `none` = the end-of-stream marker `(nil, nil)`; `slow` = the
environment-dependent band of `alloc` -/
inductive Res | aln (a : Aln) | eos | slow
deriving Repr

/-- what the header line yields -/
inductive Header
  | eos                                  -- nothing but blanks up to EOF: `(nil, nil)`
  | slow                                 -- allocation band whose outcome depends on the machine
  | counts (nbseq lenseq : Int)

/-- leading blanks, `nbseq WS lenseq EOL`, the allocation of the row tables -/
def header (allocFromHeader : Bool) (s : St) : R (Header × St) := do
  let (tok, s) ← skipLeading (s.inp.length + 3) s
  if tok == .eof then return (.eos, s)
  let nbseq ← match tok with
    | .num l => match parseInt64 l with
      | some v => pure v
      | none => .error .error
    | _ => .error .error
  if nbseq == 0 then .error .error
  if nbseq < 0 then .error .error
  match alloc allocFromHeader nbseq with
  | .panic => .error .panic
  | .slow => return (.slow, s)
  | .fine => pure ()
  let (t, s) ← s.scan
  if t != .ws then .error .error
  let (t, s) ← s.scan
  let lenseq ← match t with
    | .num l => match parseInt64 l with
      | some v => pure v
      | none => .error .error
    | _ => .error .error
  if lenseq == 0 then .error .error
  let (t, s) ← s.scan
  if t != .eol then .error .error
  return (.counts nbseq lenseq, s)

/-- the final loop of `Parse`: every sequence must have the declared length; `AddSequence` (its error is
ignored); alphabet step -/
def build (o : POpts) (lenseq : Int) (rows : List XRow) : R Aln :=
  if !(rows.all fun r => (r.2.length : Int) == lenseq) then .error .error
  else
    let bag := rows.foldl (fun (b : Bag) r => match b.add r.1 r.2 with | some b' => b' | none => b)
      { ignore := normIgnore o.ignore }
    match bag.finish (normAlphabet o.alphabet) with
    | none => .error .error
    | some a => pure a

/-- the blocks after the header -/
def body (o : POpts) (nbseq lenseq : Int) (s : St) : R (Aln × St) := do
  let (rows, s) ← firstBlock o.strict (s.inp.length + 3) nbseq.toNat s []
  let (t, s) ← afterBlock lenseq rows s
  let s := if lenseq == firstLen rows then s.unscan else s
  let (rows, s) ← blocks lenseq (s.inp.length + 3) t s rows
  let a ← build o lenseq rows
  return (a, s)

/-- one `Parser.Parse()` call on the parser state; returns the state for the next call -/
def parseOne (allocFromHeader : Bool) (o : POpts) (s : St) : R (Res × St) := do
  let (h, s) ← header allocFromHeader s
  match h with
  | .eos => return (.eos, s)
  | .slow => return (.slow, s)
  | .counts nbseq lenseq =>
    let (a, s) ← body o nbseq lenseq s
    return (.aln a, s)

def toOutcome : R (Res × St) → Outcome (Option Aln)
  | .ok (.aln a, _) => .ok (some a)
  | .ok (.eos, _) => .ok none
  | .ok (.slow, _) => .hang
  | .error .error => .error
  | .error .exit => .exit
  | .error .panic => .panic
  | .error .hang => .hang

/-- `phylip.NewParser(r, strict).IgnoreIdentical(i).Alphabet(a).Parse()` -/
def parse (allocFromHeader : Bool) (o : POpts) (bs : Seq) : Outcome (Option Aln) :=
  toOutcome (parseOne allocFromHeader o { inp := bs })

/-- `Parse()` on the raw input, ALL byte strings -/
def parseBytes (allocFromHeader : Bool) (o : POpts) (bs : Seq) : Outcome (Option Aln) :=
  parse allocFromHeader o (Utf8.norm bs)

inductive MultiRes
  | done (als : List Aln) (ok : Bool)   -- the alignments sent to the channel, and `aligns.Err == nil`
  | slow                                -- environment-dependent allocation band
  | stop (s : Stop)                     -- exit / panic / hang
deriving Repr

/-- `ParseMultiple`: alignments until an error or the end-of-stream marker -/
def parseMulti (allocFromHeader : Bool) (o : POpts) : Nat → St → List Aln → MultiRes
  | 0, _, _ => .stop .hang
  | fuel + 1, s, acc =>
    match parseOne allocFromHeader o s with
    | .ok (.aln a, s') => parseMulti allocFromHeader o fuel s' (acc ++ [a])
    | .ok (.eos, _) => .done acc true
    | .ok (.slow, _) => .slow
    | .error .error => .done acc false
    | .error st => .stop st

/-- `ParseMultiple` on the raw input, ALL byte strings -/
def parseMultiBytes (allocFromHeader : Bool) (o : POpts) (bs : Seq) : MultiRes :=
  parseMulti allocFromHeader o ((Utf8.norm bs).length + 2) { inp := Utf8.norm bs } []

/-! ### writer -/

def chunksOf (w : Nat) : Nat → Seq → List Seq
  | 0, _ => []
  | fuel + 1, s => if w == 0 || s.isEmpty then [] else s.take w :: chunksOf w fuel (s.drop w)

def joinSp : List Seq → Seq
  | [] => []
  | [c] => c
  | c :: cs => c ++ SP :: joinSp cs

/-- `fmt.Sprintf("%-10s", name[:min(10, len(name))])` -/
def pad10 (n : Name) : Seq := let t := n.take 10; t ++ List.replicate (10 - t.length) SP

/-- one row of one block: optional name column, the residues `[cur, cur+line)` in groups of `block` -/
def rowLine (strict header : Bool) (line block cur : Nat) (r : XRow) : Seq :=
  let pre := if header then (if strict then pad10 r.1 else r.1 ++ [SP, SP])
             else (if cur < r.2.length then (if strict then List.replicate 10 SP else [SP, SP, SP]) else [])
  let seg := (r.2.drop cur).take line
  pre ++ joinSp (chunksOf block (seg.length + 1) seg) ++ [NL]

def blocksW (strict : Bool) (line block len : Nat) (rows : List XRow) : Nat → Nat → Seq
  | 0, _ => []
  | fuel + 1, cur =>
    if cur < len then
      (if cur > 0 then [NL] else []) ++ rows.flatMap (rowLine strict (cur == 0) line block cur) ++
        blocksW strict line block len rows fuel (cur + line)
    else []

/-- `WriteAlignment(al, strict, oneline, noblock)`; `len` is `al.Length()` -/
def write (strict oneline noblock : Bool) (rows : List XRow) : Seq :=
  let len : Nat := match rows with | r :: _ => r.2.length | [] => 0
  let lenI : Int := if rows.isEmpty then -1 else len
  let line : Nat := if oneline then len else Gen.c_PHYLIP_LINE.toNat
  let block : Nat := if noblock then line else Gen.c_PHYLIP_BLOCK.toNat
  [SP, SP, SP] ++ natDec rows.length ++ [SP, SP, SP] ++ intDec lenI ++ [NL] ++
    blocksW strict line block len rows (len + 1) 0

end Gv.Model.Fmt.Phylip
