import Gv.Model.Fmt.Common
import Gv.Model.Fmt.Utf8
import Gv.Model.Fmt.Phylip
/-!
Model of `io/clustal/{lexer,parser,writer}.go` as the code is.

* lexer: the Phylip lexer plus the keyword CLUSTAL / CLUSTALW (any case); a lone `\r` exits;
* parser: header line, blocks of `name WS sequence [WS count] EOL` rows ended by a conservation
  line that starts with white space; rows of later blocks are appended by position
  (`names[currentnbseqs]`, unguarded: a later block with more rows than the first panics unless
  `checksRowIndex`); a file can only end after a conservation line;
* writer: blocks of `CLUSTAL_LINE` residues with cumulative counts and the conservation line
  (`SiteConservation`: identical `*`, strong group `:`, weak group `.`; groups only for proteins).
ASCII input assumed.
-/
namespace Gv.Model.Fmt.Clustal
open Gv Gv.Model Gv.Model.Fmt
open Gv.Model.Fmt.Phylip (isWS identChar afterRun parseInt64 Stop R)

inductive Tok
  | ident (s : Seq) | num (s : Seq) | clustal | eol | eof | ws
deriving DecidableEq, Repr, Inhabited

def upper (b : Byte) : Byte := if 97 ≤ b && b ≤ 122 then b - 32 else b

def scan : Seq → Option (Tok × Seq)
  | [] => some (.eof, [])
  | c :: cs =>
    if isWS c then some (.ws, afterRun (cs.dropWhile isWS))
    else if c == NL then some (.eol, cs)
    else if c == CR then
      match cs with
      | 10 :: r => some (.eol, r)
      | _ => none
    else if c == 0 then some (.eof, cs)
    else
      let lit := c :: cs.takeWhile identChar
      let rest := afterRun (cs.dropWhile identChar)
      -- `switch strings.ToUpper(lit)`: rune-wise (U+0131 / U+017F fold into `I` / `S`); on ASCII it is `lit.map upper`
      let u := Utf8.upperLit lit
      let t := if (parseInt64 lit).isSome then Tok.num lit
        else if u == [67, 76, 85, 83, 84, 65, 76] || u == [67, 76, 85, 83, 84, 65, 76, 87] then .clustal
        else .ident lit
      some (t, rest)

structure St where
  inp : Seq
  last : Tok := .eof
  pushed : Bool := false
deriving Repr

def St.scan (s : St) : R (Tok × St) :=
  if s.pushed then .ok (s.last, { s with pushed := false })
  else match Clustal.scan s.inp with
    | none => .error .exit
    | some (t, r) => .ok (t, { inp := r, last := t, pushed := false })

def St.unscan (s : St) : St := { s with pushed := true }

def skipEols : Nat → St → R St
  | 0, _ => .error .hang
  | fuel + 1, s => do
    let (t, s') ← s.scan
    if t == .eol then skipEols fuel s' else pure s'

def scanWithEOL (s : St) : R (Tok × St) := do
  let (t, s1) ← s.scan
  if t != .eol then pure (t, s1)
  else
    let s2 ← skipEols (s1.inp.length + 2) s1
    pure (.eol, s2.unscan)

/-- header: `for tok != ENDOFLINE && tok != EOF { tok = scanWithEOL() }` -/
def skipHeader : Nat → Tok → St → R (Tok × St)
  | 0, _, _ => .error .hang
  | fuel + 1, tok, s =>
    if tok != .eol && tok != .eof then do
      let (t, s') ← scanWithEOL s
      skipHeader fuel t s'
    else pure (tok, s)

/-- conservation line: `for tok != ENDOFLINE && tok != EOF { tok = scan() }` -/
def skipLine : Nat → Tok → St → R (Tok × St)
  | 0, _, _ => .error .hang
  | fuel + 1, tok, s =>
    if tok != .eol && tok != .eof then do
      let (t, s') ← s.scan
      skipLine fuel t s'
    else pure (tok, s)

/-- loop state of `Parse` -/
structure LS where
  nbseq : Nat := 0
  cur : Nat := 0
  nblocks : Nat := 0
  rows : List XRow := []

def setRow (rows : List XRow) (i : Nat) (q : Seq) : List XRow :=
  rows.mapIdx fun j r => if j == i then (r.1, r.2 ++ q) else r

/-- the conservation line that ends a block (the token just read is white space), the blank lines after
it and the first token of the next block; `none` = end of the file -/
def blockEnd (tok : Tok) (s : St) (ls : LS) : R (Option (Tok × St × LS)) := do
  if ls.cur == 0 then .error .error
  if ls.nbseq != 0 && ls.cur != ls.nbseq then .error .error
  let (t, s) ← skipLine (s.inp.length + 3) tok s
  if t != .eol then .error .error
  let (t, s) ← scanWithEOL s
  if t == .eof then return none
  if t != .eol then .error .error
  let (t, s) ← s.scan
  if t == .eof then return none
  return some (t, s, { ls with nbseq := ls.cur, nblocks := ls.nblocks + 1, cur := 0 })

/-- one sequence row whose first token is `tok`: `name WS sequence [WS count] EOL` -/
def row (tok : Tok) (s : St) : R (Name × Seq × Tok × St) := do
  let name ← match tok with
    | .ident l => pure l
    | .num l => pure l
    | _ => .error .error
  let (t, s) ← s.scan
  if t != .ws then .error .error
  let (t, s) ← s.scan
  let seq ← match t with
    | .ident l => pure l
    | _ => .error .error
  let (t, s) ← s.scan
  let (t, s) ← if t == .ws then do
      let (t, s) ← s.scan
      match t with
      | .num _ => s.scan
      | _ => .error .error
    else pure (t, s)
  if t != .eol then .error .error
  return (name, seq, t, s)

/-- first block: append; later blocks: the row at the same position must carry the same name -/
def place (checksRowIndex : Bool) (ls : LS) (name : Name) (seq : Seq) : R LS :=
  if ls.nblocks == 0 then pure { ls with rows := ls.rows ++ [(name, seq)], cur := ls.cur + 1 }
  else
    match ls.rows[ls.cur]? with
    | none => if checksRowIndex then .error .error else .error .panic
    | some r =>
      if r.1 != name then .error .error
      else pure { ls with rows := setRow ls.rows ls.cur seq, cur := ls.cur + 1 }

/-- `for tok != EOF { … }` -/
def loop (checksRowIndex : Bool) : Nat → Tok → St → LS → R LS
  | 0, _, _, _ => .error .hang
  | fuel + 1, tok, s, ls =>
    if tok == .eof then pure ls else do
    let (tok, s) ← s.scan
    let st ← if tok == .ws then blockEnd tok s ls else pure (some (tok, s, ls))
    match st with
    | none => pure ls
    | some (tok, s, ls) =>
      let (name, seq, t, s) ← row tok s
      let ls ← place checksRowIndex ls name seq
      loop checksRowIndex fuel t s ls

def toOutcome {α} : R α → Outcome α
  | .ok a => .ok a
  | .error .error => .error
  | .error .exit => .exit
  | .error .panic => .panic
  | .error .hang => .hang

/-- the end of `Parse`: at least one row, `AddSequence` for each (its error ends the parse), alphabet step -/
def build (o : POpts) (rows : List XRow) : R Aln :=
  if rows.isEmpty then .error .error
  else match rows.foldlM (fun (b : Bag) r => b.add r.1 r.2) { ignore := normIgnore o.ignore } with
    | none => .error .error
    | some bag =>
      match bag.finish (normAlphabet o.alphabet) with
      | none => .error .error
      | some a => pure a

def parseR (checksRowIndex : Bool) (o : POpts) (bs : Seq) : R Aln := do
  let (t, s) ← ({ inp := bs } : St).scan
  if t != .clustal then .error .error
  let (t, s) ← skipHeader (s.inp.length + 3) t s
  let ls ← loop checksRowIndex (s.inp.length + 3) t s {}
  build o ls.rows

/-- `clustal.NewParser(r).IgnoreIdentical(i).Alphabet(a).Parse()` -/
def parse (checksRowIndex : Bool) (o : POpts) (bs : Seq) : Outcome Aln :=
  toOutcome (parseR checksRowIndex o bs)

/-- `Parse()` on the raw input, ALL byte strings (the keyword test of `scan` upper-cases rune-wise, so U+0131 / U+017F
are covered: `cluſtal` is the keyword) -/
def parseBytes (checksRowIndex : Bool) (o : POpts) (bs : Seq) : Outcome Aln :=
  parse checksRowIndex o (Utf8.norm bs)

/-! ### writer -/

/-- `SiteConservation(pos)` rendered as the conservation character -/
def conservation (alphabet : Nat) (rows : List XRow) (pos : Nat) : Byte :=
  let col := rows.map fun r => r.2.getD pos 0
  let same := match col with
    | [] => true
    | c :: t => t.all (· == c) && col.all (· != GAP)
  if same then 42 else
  let inAll (g : List Byte) : Bool := !rows.isEmpty && col.all fun c => g.contains (upper c)
  if alphabet == AMINOACIDS && Gen.strongGroups.any inAll then 58
  else if alphabet == AMINOACIDS && Gen.weakGroups.any inAll then 46
  else SP

def blocksW (version : Seq) (alphabet maxname len : Nat) (rows : List XRow) : Nat → Nat → Seq
  | 0, _ => []
  | fuel + 1, cur =>
    if cur < len then
      let w := Gen.c_CLUSTAL_LINE.toNat
      let e := min (cur + w) len
      (if cur > 0 then [NL] else []) ++
      rows.flatMap (fun r =>
        r.1 ++ List.replicate (maxname + 3 - r.1.length) SP ++ (r.2.drop cur).take (e - cur) ++ [SP] ++ natDec e ++ [NL]) ++
      List.replicate (maxname + 3) SP ++ (List.range (e - cur)).map (fun k => conservation alphabet rows (cur + k)) ++ [NL] ++
      blocksW version alphabet maxname len rows fuel (cur + w)
    else []

/-- `WriteAlignment(al)`; `version` is `version.Version` of the build -/
def write (version : Seq) (alphabet : Nat) (rows : List XRow) : Seq :=
  let len := match rows with | r :: _ => r.2.length | [] => 0
  let maxname := rows.foldl (fun m r => max m r.1.length) 0
  ([67, 76, 85, 83, 84, 65, 76, 32, 87, 32, 40, 103, 111, 97, 108, 105, 103, 110, 32, 118, 101, 114, 115, 105, 111, 110, 32] : Seq) ++ version ++ ([41, 10, 10] : Seq) ++
    blocksW version alphabet maxname len rows (len + 1) 0

end Gv.Model.Fmt.Clustal
