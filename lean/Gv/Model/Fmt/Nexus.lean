import Gv.Model.Fmt.Common
import Gv.Model.Fmt.Utf8
import Gv.Model.Fmt.Phylip
/-!
Model of `io/nexus/{nexus_lexer,nexus_parser,writer}.go` as the code is.

* lexer: white space, `\n` / `\r\n` (a lone `\r` prints a warning and the byte after it starts an
  identifier unconditionally), `[ ] ; =`, identifiers, NUMERIC, the reserved words (any case);
* parser: `#NEXUS`, blocks (`TAXA`, `DATA` / `CHARACTERS`, anything else skipped), the `DIMENSIONS`,
  `FORMAT`, `TAXLABELS`, `MATRIX` commands with their quirks (an error recorded for a missing `=` is
  overwritten by the result of `strconv.ParseInt`; −1 means "not declared"; rows of the same name are
  concatenated), `consumeComment` (which, unless `commentStopsAtEof`, spins for ever at EOF: outcome
  `hang`), the final consistency checks, gap / missing / match-character translation,
  `ReplaceMatchChars`, alphabet from `datatype`;
* writer.
ASCII input assumed.  Loops carry explicit fuel (every iteration of the Go loops consumes a token).
-/
namespace Gv.Model.Fmt.Nexus
open Gv Gv.Model Gv.Model.Fmt
open Gv.Model.Fmt.Phylip (Stop R parseInt64 afterRun)

inductive Kind
  | eof | ws | ident | numeric | openbrack | closebrack | endofcommand | endofline
  | nexus | equal | begin | data | taxa | taxlabels | trees | tree | dimensions | ntax | nchar
  | format | datatype | missing | gap | matchchar | matrix | end_
deriving DecidableEq, Repr, Inhabited

structure Tok where
  kind : Kind
  lit : Seq := []
deriving DecidableEq, Repr, Inhabited

def isWS (b : Byte) : Bool := b == SP || b == TAB
def identChar (b : Byte) : Bool :=
  b != 91 && b != 93 && b != 59 && b != 61 && b != CR && b != NL && !isWS b && b != 0

def upper (b : Byte) : Byte := if 97 ≤ b && b ≤ 122 then b - 32 else b
def str (s : String) : Seq := s.toUTF8.toList

/-- #NEXUS BEGIN DATA CHARACTERS TAXA TAXLABELS TREES TREE DIMENSIONS NTAX NCHAR FORMAT DATATYPE MISSING
MATCHCHAR GAP MATRIX END ENDBLOCK (byte literals so that the kernel can evaluate the table) -/
def keywords : List (Seq × Kind) := [
  (([35, 78, 69, 88, 85, 83] : Seq), .nexus), (([66, 69, 71, 73, 78] : Seq), .begin), (([68, 65, 84, 65] : Seq), .data), (([67, 72, 65, 82, 65, 67, 84, 69, 82, 83] : Seq), .data),
  (([84, 65, 88, 65] : Seq), .taxa), (([84, 65, 88, 76, 65, 66, 69, 76, 83] : Seq), .taxlabels), (([84, 82, 69, 69, 83] : Seq), .trees), (([84, 82, 69, 69] : Seq), .tree),
  (([68, 73, 77, 69, 78, 83, 73, 79, 78, 83] : Seq), .dimensions), (([78, 84, 65, 88] : Seq), .ntax), (([78, 67, 72, 65, 82] : Seq), .nchar), (([70, 79, 82, 77, 65, 84] : Seq), .format),
  (([68, 65, 84, 65, 84, 89, 80, 69] : Seq), .datatype), (([77, 73, 83, 83, 73, 78, 71] : Seq), .missing), (([77, 65, 84, 67, 72, 67, 72, 65, 82] : Seq), .matchchar), (([71, 65, 80] : Seq), .gap),
  (([77, 65, 84, 82, 73, 88] : Seq), .matrix), (([69, 78, 68] : Seq), .end_),
  -- ENDBLOCK: the standard synonym of END (lexer, `case "END", "ENDBLOCK"`)
  (([69, 78, 68, 66, 76, 79, 67, 75] : Seq), .end_)]

def classify (lit : Seq) : Tok :=
  if (parseInt64 lit).isSome then ⟨.numeric, lit⟩
  -- `switch strings.ToUpper(lit)`: rune-wise (U+0131 / U+017F fold into `I` / `S`: `matrıx` is MATRIX); on an ASCII
  -- literal it is `lit.map upper`
  else match lookup (Utf8.upperLit lit) keywords with
    | some k => ⟨k, lit⟩
    | none => ⟨.ident, lit⟩

def identFrom (c : Byte) (cs : Seq) : Tok × Seq :=
  (classify (c :: cs.takeWhile identChar), afterRun (cs.dropWhile identChar))

def scan : Seq → Tok × Seq
  | [] => (⟨.eof, []⟩, [])
  | c :: cs =>
    if isWS c then (⟨.ws, c :: cs.takeWhile isWS⟩, afterRun (cs.dropWhile isWS))
    else if c == NL then (⟨.endofline, []⟩, cs)
    else if c == CR then
      match cs with
      | 10 :: r => (⟨.endofline, []⟩, r)
      | x :: r => identFrom x r
      | [] => (classify [0], [])
    else if c == 0 then (⟨.eof, []⟩, cs)
    else if c == 91 then (⟨.openbrack, [c]⟩, cs)
    else if c == 93 then (⟨.closebrack, [c]⟩, cs)
    else if c == 59 then (⟨.endofcommand, [c]⟩, cs)
    else if c == 61 then (⟨.equal, [c]⟩, cs)
    else identFrom c cs

/-- `scanIgnoreWhitespace` -/
def sIW (inp : Seq) : Tok × Seq :=
  let r := scan inp
  if r.1.kind == .ws then scan r.2 else r

structure Facts where
  commentStopsAtEof : Bool
  rejectsNegativeCounts : Bool
  rejectsEmptyRows : Bool
  keywordRowsAreResidues : Bool := false
  /-- `case BEGIN:` of `parseTaxa` / `parseData` is an error (blocks do not nest); without it a `BEGIN` inside a block is
  skipped as an unsupported command and the block stays open -/
  rejectsNestedBegin : Bool := false
  /-- `case ENDOFCOMMAND:` of `parseTaxa` / `parseData` does nothing (an empty command `;;`); without it the `;` starts
  an "unsupported command" that swallows the next command - e.g. `DIMENSIONS` - up to its `;` -/
  emptyCommandIsNoOp : Bool := false
  /-- a second `BEGIN DATA` / `BEGIN CHARACTERS` block is an error; without it the second block silently replaces the
  rows and the declared counts of the first -/
  rejectsSecondDataBlock : Bool := false

/-- `consumeComment` after a `[`: scan up to `]`.  `err` = an EOF was met on the way (the Go code
records "unmatched bracket" and, unless repaired, keeps looping). -/
def consumeComment (f : Facts) : Nat → Seq → Bool → R Seq
  | 0, _, _ => .error .hang
  | fuel + 1, inp, err =>
    let (t, r) := sIW inp
    if t.kind == .closebrack then (if err then .error .error else pure r)
    else if t.kind == .eof then
      if f.commentStopsAtEof then .error .error
      else if r.isEmpty then .error .hang
      else consumeComment f fuel r true
    else consumeComment f fuel r err

/-- `parseUnsupportedCommand`: skip to `;` -/
def skipCommand : Nat → Seq → R Seq
  | 0, _ => .error .hang
  | fuel + 1, inp =>
    let (t, r) := sIW inp
    if t.kind == .eof then .error .error
    else if t.kind == .endofcommand then pure r
    else skipCommand fuel r

/-- `parseUnsupportedKey`: `= value` -/
def skipKey (inp : Seq) : R Seq :=
  let (t, r) := sIW inp
  if t.kind != .equal then .error .error
  else
    let (t2, r2) := sIW r
    if t2.kind != .ident && t2.kind != .numeric then .error .error else pure r2

/-- `parseUnsupportedBlock`: skip to `END ;` -/
def skipBlock : Nat → Seq → R Seq
  | 0, _ => .error .hang
  | fuel + 1, inp =>
    let (t, r) := sIW inp
    if t.kind == .eof then .error .error
    else if t.kind == .end_ then
      let (t2, r2) := sIW r
      if t2.kind != .endofcommand then .error .error else pure r2
    else skipBlock fuel r

/-- `KEY = <integer>` inside DIMENSIONS, with the overwritten-error quirk: result
`(value, stop, err, rest)` -/
def dimValue (f : Facts) (inp : Seq) : Int × Bool × Bool × Seq :=
  let (t3, r3) := sIW inp
  let stop1 := t3.kind != .equal
  let (t4, r4) := sIW r3
  let stop2 := t4.kind != .numeric
  -- `v, err = strconv.ParseInt(lit4, 10, 64)`: a syntax error gives 0; a range error the nearest bound
  match parseInt64 t4.lit with
  | some v =>
    if f.rejectsNegativeCounts && v < 0 then (v, true, true, r4)
    else (v, stop1 || stop2, false, r4)
  | none =>
    let ds := match t4.lit with | 45 :: t | 43 :: t => t | t => t
    let isRange := !ds.isEmpty && ds.all Phylip.isDigit
    let v : Int := if isRange then (if t4.lit.head? == some 45 then -9223372036854775808 else 9223372036854775807) else 0
    (v, true, true, r4)

/-- the `DIMENSIONS` command loop; `withNchar` in a DATA block.  Returns `(ntax, nchar, rest)` -/
def dimensions (f : Facts) (withNchar : Bool) : Nat → Seq → Int → Int → R (Int × Int × Seq)
  | 0, _, _, _ => .error .hang
  | fuel + 1, inp, ntax, nchar =>
    let (t2, r2) := sIW inp
    if t2.kind == .endofcommand then pure (ntax, nchar, r2)
    else if t2.kind == .ntax then
      let (v, stop, err, r) := dimValue f r2
      if err then .error .error
      else if stop then pure (v, nchar, r)
      else dimensions f withNchar fuel r v nchar
    else if withNchar && t2.kind == .nchar then
      let (v, stop, err, r) := dimValue f r2
      if err then .error .error
      else if stop then pure (ntax, v, r)
      else dimensions f withNchar fuel r ntax v
    else do
      let r ← skipKey r2
      dimensions f withNchar fuel r ntax nchar

def insertLabel (l : List Name) (n : Name) : List Name := if l.contains n then l else l ++ [n]

/-- the `TAXLABELS` loop -/
def taxlabelsLoop : Nat → Seq → List Name → R (List Name × Seq)
  | 0, _, _ => .error .hang
  | fuel + 1, inp, acc =>
    let (t, r) := sIW inp
    if t.kind == .endofcommand then pure (acc, r)
    else if t.kind == .ident then taxlabelsLoop fuel r (insertLabel acc t.lit)
    else if t.kind == .endofline then taxlabelsLoop fuel r acc
    else .error .error

/-- `parseTaxa` -/
def parseTaxa (f : Facts) : Nat → Seq → Int → List Name → R (Int × List Name × Seq)
  | 0, _, _, _ => .error .hang
  | fuel + 1, inp, ntax, labels =>
    let (t, r) := sIW inp
    match t.kind with
    | .endofline => parseTaxa f fuel r ntax labels
    | .eof => .error .error
    | .end_ =>
      let (t2, r2) := sIW r
      if t2.kind != .endofcommand then .error .error else pure (ntax, labels, r2)
    | .dimensions => do
      let (nt, _, r') ← dimensions f false (r.length + 3) r ntax 0
      parseTaxa f fuel r' nt labels
    | .taxlabels => do
      let (ls, r') ← taxlabelsLoop (r.length + 3) r labels
      parseTaxa f fuel r' ntax ls
    | .openbrack => do
      let r' ← consumeComment f (r.length + 3) r false
      parseTaxa f fuel r' ntax labels
    | .begin =>
      if f.rejectsNestedBegin then .error .error
      else do
        let r' ← skipCommand (r.length + 3) r
        parseTaxa f fuel r' ntax labels
    | .endofcommand =>
      if f.emptyCommandIsNoOp then parseTaxa f fuel r ntax labels
      else do
        let r' ← skipCommand (r.length + 3) r
        parseTaxa f fuel r' ntax labels
    | _ => do
      let r' ← skipCommand (r.length + 3) r
      parseTaxa f fuel r' ntax labels

/-- result of `parseData` -/
structure Data where
  rows : List XRow := []        -- names in order of first appearance with their (concatenated) sequences
  nchar : Int := -1
  ntax : Int := -1
  datatype : Seq := ([100, 110, 97] : Seq)
  missing : Byte := 42
  gap : Byte := 45
  matchchar : Byte := 46
deriving Repr

/-- `KEY = <single character>` of the FORMAT command (MISSING / GAP / MATCHCHAR) -/
def formatChar (inp : Seq) : R (Byte × Seq) :=
  let (t3, r3) := sIW inp
  if t3.kind != .equal then .error .error
  else
    let (t4, r4) := sIW r3
    if t4.kind != .ident then .error .error
    else match t4.lit with
      | [c] => pure (c, r4)
      | _ => .error .error

/-- the `FORMAT` command loop -/
def formatLoop : Nat → Seq → Data → R (Data × Seq)
  | 0, _, _ => .error .hang
  | fuel + 1, inp, d =>
    let (t2, r2) := sIW inp
    match t2.kind with
    | .endofcommand => pure (d, r2)
    | .datatype =>
      let (t3, r3) := sIW r2
      if t3.kind != .equal then .error .error
      else
        let (t4, r4) := sIW r3
        if t4.kind == .ident then formatLoop fuel r4 { d with datatype := t4.lit } else .error .error
    | .missing => do let (c, r) ← formatChar r2; formatLoop fuel r { d with missing := c }
    | .gap => do let (c, r) ← formatChar r2; formatLoop fuel r { d with gap := c }
    | .matchchar => do let (c, r) ← formatChar r2; formatLoop fuel r { d with matchchar := c }
    | _ => do let r ← skipKey r2; formatLoop fuel r d

/-- the tokens of one matrix row after the name: identifiers are concatenated up to the line end -/
def isKeyword (k : Kind) : Bool :=
  match k with
  | .nexus | .begin | .data | .taxa | .taxlabels | .trees | .tree | .dimensions | .ntax | .nchar
  | .format | .datatype | .missing | .gap | .matchchar | .matrix | .end_ => true
  | _ => false

def rowLoop (f : Facts) : Nat → Seq → Seq → R (Seq × Seq)
  | 0, _, _ => .error .hang
  | fuel + 1, inp, acc =>
    let (t, r) := sIW inp
    if t.kind == .ident || (f.keywordRowsAreResidues && isKeyword t.kind) then rowLoop f fuel r (acc ++ t.lit)
    else if t.kind == .endofline then pure (acc, r)
    else .error .error

/-- `addseq` -/
def addseq (rows : List XRow) (name : Name) (q : Seq) : List XRow :=
  if rows.any (·.1 == name) then rows.map fun r => if r.1 == name then (r.1, r.2 ++ q) else r
  else rows ++ [(name, q)]

/-- the `MATRIX` command loop -/
def matrixLoop (f : Facts) : Nat → Seq → List XRow → R (List XRow × Seq)
  | 0, _, _ => .error .hang
  | fuel + 1, inp, rows =>
    let (t, r) := sIW inp
    match t.kind with
    | .openbrack => do
      let r' ← consumeComment f (r.length + 3) r false
      matrixLoop f fuel r' rows
    | .ident | .numeric => do
      let (q, r') ← rowLoop f (r.length + 3) r []
      matrixLoop f fuel r' (addseq rows t.lit q)
    | .endofline => matrixLoop f fuel r rows
    | .endofcommand => pure (rows, r)
    | _ => .error .error

/-- `parseData` -/
def parseData (f : Facts) : Nat → Seq → Data → R (Data × Seq)
  | 0, _, _ => .error .hang
  | fuel + 1, inp, d =>
    let (t, r) := sIW inp
    match t.kind with
    | .endofline => parseData f fuel r d
    | .eof => .error .error
    | .end_ =>
      let (t2, r2) := sIW r
      if t2.kind != .endofcommand then .error .error else pure (d, r2)
    | .dimensions => do
      let (nt, nc, r') ← dimensions f true (r.length + 3) r d.ntax d.nchar
      parseData f fuel r' { d with ntax := nt, nchar := nc }
    | .format => do
      let (d', r') ← formatLoop (r.length + 3) r d
      parseData f fuel r' d'
    | .matrix => do
      let (rows, r') ← matrixLoop f (r.length + 3) r d.rows
      parseData f fuel r' { d with rows := rows }
    | .openbrack => do
      let r' ← consumeComment f (r.length + 3) r false
      parseData f fuel r' d
    | .begin =>
      if f.rejectsNestedBegin then .error .error
      else do
        let r' ← skipCommand (r.length + 3) r
        parseData f fuel r' d
    | .endofcommand =>
      if f.emptyCommandIsNoOp then parseData f fuel r d
      else do
        let r' ← skipCommand (r.length + 3) r
        parseData f fuel r' d
    | _ => do
      let r' ← skipCommand (r.length + 3) r
      parseData f fuel r' d

/-- what the top-level loop accumulates -/
structure Top where
  taxantax : Int := 0
  taxlabels : Option (List Name) := none
  data : Option Data := none

/-- what the top-level loop does with a token that is not EOF / ENDOFLINE / `[`: a `BEGIN <name> ;` block is
parsed (TAXA, DATA / CHARACTERS) or skipped, anything else is ignored; `k` continues the loop -/
def topStep (f : Facts) (k : Seq → Top → R Top) (top : Top) (t : Tok) (r : Seq) : R Top :=
  if t.kind == .begin then
    let (t2, r2) := sIW r
    let (t3, r3) := sIW r2
    if t3.kind != .endofcommand then .error .error
    else match t2.kind with
      | .taxa => do
        let (nt, ls, r') ← parseTaxa f (r3.length + 3) r3 (-1) []
        k r' { top with taxantax := nt, taxlabels := some ls }
      | .data =>
        if f.rejectsSecondDataBlock && top.data.isSome then .error .error
        else do
          let (d, r') ← parseData f (r3.length + 3) r3 {}
          k r' { top with data := some d }
      | _ => do
        let r' ← skipBlock (r3.length + 3) r3
        k r' top
  else k r top

/-- the top-level loop of `Parse` -/
def topLoop (f : Facts) : Nat → Seq → Top → R Top
  | 0, _, _ => .error .hang
  | fuel + 1, inp, top =>
    let (t, r) := sIW inp
    if t.kind == .eof then pure top
    else if t.kind == .endofline then topLoop f fuel r top
    else if t.kind == .openbrack then do
      let r' ← consumeComment f (r.length + 3) r false
      topStep f (topLoop f fuel) top (sIW r').1 (sIW r').2
    else topStep f (topLoop f fuel) top t r

/-- `strings.Replace(seq, string(a), string(b), -1)` -/
def repl (a b : Byte) (s : Seq) : Seq := s.map fun c => if c == a then b else c

/-- `ReplaceMatchChars` -/
def replaceMatchChars : List XRow → List XRow
  | [] => []
  | ref :: rest => ref :: rest.map fun r =>
      (r.1, (r.2.zipIdx).map fun (c, i) =>
        let rc := ref.2.getD i POINT
        if rc != POINT && c == POINT then rc else c)

/-- `AlphabetFromString` -/
def alphabetFromString (s : Seq) : Nat :=
  let l := s.map fun b => if 65 ≤ b && b ≤ 90 then b + 32 else b
  if l == ([100, 110, 97] : Seq) || l == ([114, 110, 97] : Seq) || l == ([110, 117, 99, 108, 101, 111, 116, 105, 100, 101] : Seq) || l == ([110, 116] : Seq) then NUCLEOTIDS
  else if l == ([112, 114, 111, 116, 101, 105, 110] : Seq) || l == ([97, 97] : Seq) then AMINOACIDS
  else UNKNOWN

/-- one step of the loop that fills the alignment: emptiness (if repaired) and `nchar` tests, character
translation, `AddSequence` -/
def addRow (f : Facts) (d : Data) (b : Bag) (r : XRow) : R Bag :=
  if f.rejectsEmptyRows && r.2.isEmpty then .error .error
  else if (r.2.length : Int) != d.nchar && d.nchar != -1 then .error .error
  else
    match b.add r.1 (repl d.matchchar POINT (repl d.missing OTHER (repl d.gap GAP r.2))) with
    | none => .error .error
    | some b' => pure b'

/-- the end of `Parse`, after the top-level loop -/
def build (f : Facts) (o : POpts) (top : Top) : R Aln := do
  let nlabels : Int := match top.taxlabels with | some l => l.length | none => 0
  if top.taxantax != -1 && top.taxantax != nlabels then .error .error
  let d ← match top.data with
    | some d => pure d
    | none => .error .error
  if d.rows.isEmpty then .error .error
  if (d.rows.length : Int) != d.ntax && d.ntax != -1 then .error .error
  -- rows are added one by one; the first failing test of the loop ends the parse
  let bag ← d.rows.foldlM (addRow f d) ({ ignore := normIgnore o.ignore } : Bag)
  match top.taxlabels with
  | some ls =>
    if !(bag.rows.all fun r => ls.contains r.1) then .error .error
    if bag.rows.length != ls.length then .error .error
  | none => pure ()
  let bag := { bag with rows := replaceMatchChars bag.rows }
  let pa := normAlphabet o.alphabet
  let alp := if pa == BOTH then alphabetFromString d.datatype else pa
  match bag.finish alp with
  | none => .error .error
  | some a => pure a

def parseR (f : Facts) (o : POpts) (bs : Seq) : R Aln := do
  let (t, r) := sIW bs
  if t.kind != .nexus then .error .error
  let top ← topLoop f (r.length + 3) r {}
  build f o top

def toOutcome {α} : R α → Outcome α
  | .ok a => .ok a
  | .error .error => .error
  | .error .exit => .exit
  | .error .panic => .panic
  | .error .hang => .hang

/-- `nexus.NewParser(r).IgnoreIdentical(i).Alphabet(a).Parse()` -/
def parse (f : Facts) (o : POpts) (bs : Seq) : Outcome Aln := toOutcome (parseR f o bs)

/-- `Parse()` on the raw input, ALL byte strings (the keyword test of `classify` upper-cases rune-wise, so U+0131 /
U+017F are covered).  `len(lit) != 1` for the GAP / MISSING / MATCHCHAR characters is a
BYTE length of the written literal: only an ASCII character passes, so `[]rune(lit)[0]` is that byte. -/
def parseBytes (f : Facts) (o : POpts) (bs : Seq) : Outcome Aln :=
  parse f o (Utf8.norm bs)

/-! ### writer -/

/-- `WriteAlignment(al)`; `len` is `al.Length()` -/
def write (alphabet : Nat) (rows : List XRow) : Seq :=
  let len : Int := match rows with | r :: _ => r.2.length | [] => -1
  ([35, 78, 69, 88, 85, 83, 10, 98, 101, 103, 105, 110, 32, 100, 97, 116, 97, 59, 10, 100, 105, 109, 101, 110, 115, 105, 111, 110, 115, 32, 110, 116, 97, 120, 61] : Seq) ++ natDec rows.length ++ ([32, 110, 99, 104, 97, 114, 61] : Seq) ++ intDec len ++
  ([59, 10, 102, 111, 114, 109, 97, 116, 32, 100, 97, 116, 97, 116, 121, 112, 101, 61] : Seq) ++ (if alphabet == AMINOACIDS then ([112, 114, 111, 116, 101, 105, 110] : Seq) else ([100, 110, 97] : Seq)) ++ ([59, 10, 109, 97, 116, 114, 105, 120, 10] : Seq) ++
  rows.flatMap (fun r => r.1 ++ [SP] ++ r.2 ++ [NL]) ++ ([59, 10, 101, 110, 100, 59, 10] : Seq)

end Gv.Model.Fmt.Nexus
