import Gv.Model.Fmt.Phylip
/-!
Model of `io/paml.WriteAlignment` (`goalign reformat paml`; a write-only format, no parser):

```
"  <n> <L>  I\n"            n = NbSequences(), L = Length()
<name>\n   (every row)
"\n"
for cursize = 0, 60, 120, … while cursize < L:
    "<cursize+1>\n"         (not before the first block)
    per row: the residues [cursize, min(cursize+60, len)) in groups of 10 separated by one space, "\n"
```

`PAML_LINE = 60`, `PAML_BLOCK = 10` (constants of io/paml/paml.go, written here as literals; the `write paml` cases
of C02 and the `cli_lib … reformat paml` cases of C11 compare the bytes with the real writer at all boundary lengths).
Core-only.
-/
namespace Gv.Model.Fmt.Paml
open Gv Gv.Model.Fmt

def LINE : Nat := 60
def BLOCK : Nat := 10

/-- one row of the block starting at `cur` -/
def rowLine (cur : Nat) (r : XRow) : Seq :=
  let seg := (r.2.drop cur).take LINE
  Phylip.joinSp (Phylip.chunksOf BLOCK (seg.length + 1) seg) ++ [NL]

/-- `paml.WriteAlignment(al)`; the length of an alignment is the length of its first row -/
def write (rows : List XRow) : Seq :=
  let len := match rows with | r :: _ => r.2.length | [] => 0
  [SP, SP] ++ natDec rows.length ++ [SP] ++ (match rows with | _ :: _ => natDec len | [] => [45, 49]) ++ [SP, SP, 73, NL] ++
  rows.flatMap (fun r => r.1 ++ [NL]) ++ [NL] ++
  (List.range ((len + LINE - 1) / LINE)).flatMap fun k =>
    (if k > 0 then natDec (k * LINE + 1) ++ [NL] else []) ++ rows.flatMap (rowLine (k * LINE))

end Gv.Model.Fmt.Paml
