import Gv.Model.Fmt.Common
/-!
Model of how the format lexers see their input: `bufio.Reader.ReadRune` (= `utf8.DecodeRune` on the
bytes that remain) and the way back `bytes.Buffer.WriteRune` / `string(rune)` (= `utf8.EncodeRune`).
Core-only, total, structural recursion only (so that the kernel can evaluate it).

* `decodeRune s` = `(rune, width)` of `utf8.DecodeRune(s)` for a non-empty `s`: ASCII bytes are runes of
  width 1; a lead byte `C2..DF / E0..EF / F0..F4` followed by the continuation bytes of Go's accept
  ranges (`E0: A0..BF`, `ED: 80..9F`, `F0: 90..BF`, `F4: 80..8F`, otherwise `80..BF`) is a rune of width
  2 / 3 / 4; anything else - a lone continuation byte, `C0`, `C1`, `F5..FF`, an over-long form, a surrogate,
  a sequence cut by the end of input - is `U+FFFD` of width **1** (only the offending byte is consumed).
* `encodeRune r` = the bytes `WriteRune(r)` appends (`U+FFFD` = `EF BF BD` for surrogates and values
  above `U+10FFFF`).
* `runes s` = the runes the lexer reads one after the other until the reader reports `io.EOF`;
  `norm s` = what it has written when every rune goes back through `WriteRune`: the input with every
  offending byte replaced by `EF BF BD`, everything else unchanged.

Every class test of the six lexers (`isEndOfLine`, `isWhitespace`, `isIdent`, the `switch ch` of `Scan`) compares the
rune with ASCII constants only, every literal is assembled with `WriteRune` / `string(ch)`, and
`UnreadRune` puts back exactly the rune that was read.  A rune ≥ 0x80 is encoded by bytes ≥ 0x80 only, so it falls
into the same class ("none of the constants") as each of its bytes: the rune lexer on `s` therefore is the byte
lexer of the ASCII models on `norm s`.  The places where the parsers count or inspect RUNES again
(`Scanner.Read(10)` of strict Phylip, `strings.ToUpper` of the keyword tables) are modelled where they occur,
with `takeRunes` / `upperLit`.
-/
namespace Gv.Model.Fmt.Utf8
open Gv Gv.Model Gv.Model.Fmt

/-- runes are code points, as natural numbers -/
abbrev Rune := Nat

/-- `utf8.RuneError` -/
def runeError : Nat := 0xFFFD

def inRange (lo hi b : Byte) : Bool := lo ≤ b && b ≤ hi

/-- `utf8.DecodeRune` (`first` / `acceptRanges` tables written out); `([], _)` is not used by the callers -/
def decodeRune : List Byte → Nat × Nat
  | [] => (runeError, 0)
  | b0 :: rest =>
    if b0 < 0x80 then (b0.toNat, 1)
    else if b0 < 0xC2 then (runeError, 1)
    else if b0 < 0xE0 then
      match rest with
      | b1 :: _ =>
        if inRange 0x80 0xBF b1 then ((b0.toNat % 32) * 64 + b1.toNat % 64, 2) else (runeError, 1)
      | _ => (runeError, 1)
    else if b0 < 0xF0 then
      let lo : Byte := if b0 == 0xE0 then 0xA0 else 0x80
      let hi : Byte := if b0 == 0xED then 0x9F else 0xBF
      match rest with
      | b1 :: b2 :: _ =>
        if inRange lo hi b1 && inRange 0x80 0xBF b2 then
          ((b0.toNat % 16) * 4096 + (b1.toNat % 64) * 64 + b2.toNat % 64, 3)
        else (runeError, 1)
      | _ => (runeError, 1)
    else if b0 < 0xF5 then
      let lo : Byte := if b0 == 0xF0 then 0x90 else 0x80
      let hi : Byte := if b0 == 0xF4 then 0x8F else 0xBF
      match rest with
      | b1 :: b2 :: b3 :: _ =>
        if inRange lo hi b1 && inRange 0x80 0xBF b2 && inRange 0x80 0xBF b3 then
          ((b0.toNat % 8) * 262144 + (b1.toNat % 64) * 4096 + (b2.toNat % 64) * 64 + b3.toNat % 64, 4)
        else (runeError, 1)
      | _ => (runeError, 1)
    else (runeError, 1)

/-- `bufio.Reader.ReadRune`: `none` = `io.EOF`, else the rune and the input that remains -/
def readRune (s : List Byte) : Option (Nat × List Byte) :=
  match s with
  | [] => none
  | _ => some ((decodeRune s).1, s.drop (decodeRune s).2)

/-- `utf8.EncodeRune` / `bytes.Buffer.WriteRune` / `string(rune)` -/
def encodeRune (r : Nat) : List Byte :=
  if r < 0x80 then [UInt8.ofNat r]
  else if r < 0x800 then [UInt8.ofNat (0xC0 + r / 64), UInt8.ofNat (0x80 + r % 64)]
  else if (0xD800 ≤ r && r < 0xE000) || 0x10FFFF < r then [0xEF, 0xBF, 0xBD]
  else if r < 0x10000 then
    [UInt8.ofNat (0xE0 + r / 4096), UInt8.ofNat (0x80 + r / 64 % 64), UInt8.ofNat (0x80 + r % 64)]
  else
    [UInt8.ofNat (0xF0 + r / 262144), UInt8.ofNat (0x80 + r / 4096 % 64), UInt8.ofNat (0x80 + r / 64 % 64),
     UInt8.ofNat (0x80 + r % 64)]

/-- the runes read until `io.EOF` (`fuel` = number of bytes: every rune consumes at least one) -/
def runesAux : Nat → List Byte → List Nat
  | 0, _ => []
  | _, [] => []
  | fuel + 1, b :: bs =>
    let d := decodeRune (b :: bs)
    d.1 :: runesAux fuel ((b :: bs).drop d.2)

def runes (s : List Byte) : List Nat := runesAux s.length s

/-- read every rune, write every rune: the byte string the byte-level lexers work on -/
def norm (s : List Byte) : List Byte := (runes s).flatMap encodeRune

/-- the first `n` runes as `WriteRune` writes them, and the input after them; fewer than `n` runes
available: everything, nothing left (the callers test the count) -/
def takeRunesAux : Nat → Nat → List Byte → List Byte → List Byte × List Byte × Nat
  | 0, _, s, acc => (acc, s, 0)
  | _, 0, s, acc => (acc, s, 0)
  | _, _ + 1, [], acc => (acc, [], 0)
  | fuel + 1, n + 1, b :: bs, acc =>
    let d := decodeRune (b :: bs)
    let r := takeRunesAux fuel n ((b :: bs).drop d.2) (acc ++ encodeRune d.1)
    (r.1, r.2.1, r.2.2 + 1)

/-- `(bytes written, rest, number of runes read)` -/
def takeRunes (n : Nat) (s : List Byte) : List Byte × List Byte × Nat := takeRunesAux s.length n s []

/-- `unicode.ToUpper` restricted to what can reach an ASCII keyword: the two non-ASCII runes whose
upper case is an ASCII letter (`ı` U+0131 ↦ `I`, `ſ` U+017F ↦ `S`); ASCII letters as usual; every
other rune ≥ 0x80 has an upper case ≥ 0x80 (it can never complete a keyword), represented by itself -/
def upperRune (r : Nat) : Nat :=
  if 97 ≤ r && r ≤ 122 then r - 32
  else if r == 0x131 then 73
  else if r == 0x17F then 83
  else r

/-- the input holds one of the two runes whose upper case is an ASCII letter (the keyword tests of the Clustal, Stockholm
and Nexus lexer models use `upperLit` below, which folds them; kept for the facts of `Proofs/Utf8Norm.lean`) -/
def hasFoldRune (s : List Byte) : Bool := (runes s).any fun r => r == 0x131 || r == 0x17F

/-- `strings.ToUpper` of a literal, as far as the comparison with ASCII keywords can tell -/
def upperLit (s : List Byte) : List Byte := ((runes s).map upperRune).flatMap encodeRune

end Gv.Model.Fmt.Utf8
