import Gv.Basic
import Gv.Gen.Tables
import Gv.Model.Seq
/-!
Shared pieces of the alignment-format models (C02 / C03): parser outcomes, the alignment container as
the parsers use it (`align.AddSequenceChar` with the three duplicate-name policies, the cached length,
`AutoAlphabet` / `SetAlphabet`), decimal printing.  Core-only.

Names are byte lists here (the wire format of these properties is hex), not `String`.
-/
namespace Gv.Model.Fmt
open Gv Gv.Model

/-- Outcome of a parser run (DESIGN §4.1).  `exit` = `io.ExitWithMessage` (message + status 1),
`panic` = unguarded index / allocation, `hang` = a loop that the Go code leaves only on a token that
never comes. -/
inductive Outcome (α : Type) where
  | ok (a : α)
  | error
  | exit
  | panic
  | hang
deriving DecidableEq, Repr

abbrev Name := List Byte
abbrev XRow := Name × Seq

/-- The alignment object a parser hands back: alphabet code, cached length (`-1` when no row was ever
added), rows in order. -/
structure Aln where
  alphabet : Nat
  length : Int
  rows : List XRow
deriving DecidableEq, Repr

/-- parser options: `strict` (Phylip only), duplicate-name policy (0 none / 1 name / 2 sequence),
alphabet (0 amino acids / 1 nucleotides / 2 = auto-detect) -/
structure POpts where
  strict : Bool := false
  ignore : Nat := 0
  alphabet : Nat := 2
deriving DecidableEq, Repr

/-- `IgnoreIdentical`: anything but the three policies is IGNORE_NONE -/
def normIgnore (i : Nat) : Nat := if i == 1 || i == 2 then i else 0
/-- `Parser.Alphabet`: anything but BOTH / NUCLEOTIDS / AMINOACIDS is BOTH -/
def normAlphabet (a : Nat) : Nat := if a == 0 || a == 1 then a else 2

/-! ### decimal printing (`%d`, `%04d`) -/

def digitsAux : Nat → Nat → List Byte → List Byte
  | 0, _, acc => acc
  | fuel + 1, n, acc =>
    let acc' := (48 + UInt8.ofNat (n % 10)) :: acc
    if n < 10 then acc' else digitsAux fuel (n / 10) acc'

/-- `fmt.Sprintf("%d", n)` for a natural number -/
def natDec (n : Nat) : List Byte := digitsAux (n + 1) n []

/-- `fmt.Sprintf("%04d", n)` -/
def natDec4 (n : Nat) : List Byte :=
  let d := natDec n
  List.replicate (4 - d.length) 48 ++ d

/-- `fmt.Sprintf("%d", i)` for an `int` -/
def intDec (i : Int) : List Byte :=
  if i < 0 then 45 :: natDec i.natAbs else natDec i.toNat

/-! ### the container during parsing -/

structure Bag where
  ignore : Nat := 0
  length : Int := -1
  rows : List XRow := []
deriving DecidableEq, Repr

def Bag.hasName (b : Bag) (n : Name) : Bool := b.rows.any (·.1 == n)
def Bag.find (b : Bag) (n : Name) : Option Seq := (b.rows.find? (·.1 == n)).map (·.2)

/-- the renaming loop `for ok { idx++; tmpname = name_%04d; _, ok = seqmap[tmpname] }`.
`fuel` bounds the search; `rows.length + 1` candidates always contain a free one (pigeonhole), the
model returns `none` if it were exhausted. -/
def freshName (b : Bag) (name : Name) : Nat → Nat → Option Name
  | 0, _ => none
  | fuel + 1, idx =>
    let cand := name ++ 95 :: natDec4 idx
    if b.hasName cand then freshName b name fuel (idx + 1) else some cand

/-- `align.AddSequenceChar`.  `none` = the error "does not have same length as other sequences"
(or the impossible exhaustion of the renaming search). -/
def Bag.add (b : Bag) (name : Name) (s : Seq) : Option Bag :=
  match b.find name with
  | some old =>
    if b.ignore == 1 then some b
    else if b.ignore == 2 && old == s then some b
    else
      match freshName b name (b.rows.length + 1) 1 with
      | none => none
      | some nm =>
        if b.length != -1 && b.length != s.length then none
        else some { b with length := s.length, rows := b.rows ++ [(nm, s)] }
  | none =>
    if b.length != -1 && b.length != s.length then none
    else some { b with length := s.length, rows := b.rows ++ [(name, s)] }

/-- `seqbag.DetectAlphabet` over the rows (tables regenerated from the source) -/
def Bag.detect (b : Bag) : Nat := detectAlphabetBag (b.rows.map (·.2))

/-- the common tail of every parser: `AutoAlphabet()` when the option is BOTH, else `SetAlphabet`
(error when the rows are of unknown alphabet or incompatible with the requested one) -/
def Bag.finish (b : Bag) (alphabet : Nat) : Option Aln :=
  let d := b.detect
  if alphabet == BOTH then
    some ⟨if d == BOTH || d == NUCLEOTIDS then NUCLEOTIDS else if d == AMINOACIDS then AMINOACIDS else UNKNOWN,
      b.length, b.rows⟩
  else if d == UNKNOWN then none
  else if alphabet == NUCLEOTIDS then
    if d == NUCLEOTIDS || d == BOTH then some ⟨NUCLEOTIDS, b.length, b.rows⟩ else none
  else if alphabet == AMINOACIDS then
    if d == AMINOACIDS || d == BOTH then some ⟨AMINOACIDS, b.length, b.rows⟩ else none
  else none

/-- bytes are ASCII: the lexers decode UTF-8 runes, which the models do not (trusted external) -/
def allAscii (s : List Byte) : Bool := s.all (· < 128)

def NL : Byte := 10
def CR : Byte := 13
def SP : Byte := 32
def TAB : Byte := 9

end Gv.Model.Fmt
