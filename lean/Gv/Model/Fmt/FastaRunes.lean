import Gv.Model.Fmt.Fasta
/-!
Rune-level model of `io/fasta/lexer.go`, mirroring the Go code on the runes that `bufio.Reader.ReadRune` hands out
(`Utf8.runes`), with the literals assembled by `bytes.Buffer.WriteRune` (`Utf8.encodeRune`).

* `read()` = the next rune, or rune 0 (`eof`) when the reader is exhausted; a NUL in the input is the same rune;
* `Scan`: `isEndOfLine(ch)` → `scanEndOfLine`; `eof` → EOF; `'>'` → STARTIDENT; otherwise `scanIdent`;
* `scanEndOfLine` / `scanIdent`: the first rune unconditionally, then every rune of the class; a rune 0 that ends the
  run is consumed (no `unread`), any other rune is pushed back (`UnreadRune`).

`Proofs/FastaRunes.lean` proves that this lexer on the runes of the input IS the byte lexer `Fasta.scan` / `Fasta.lex`
on `Utf8.norm` of the input (token by token, literals encoded with `WriteRune`).
-/
namespace Gv.Model.Fmt.FastaRunes
open Gv Gv.Model Gv.Model.Fmt
open Gv.Model.Fmt.Utf8 (Rune encodeRune)

/-- `isEndOfLine(ch)` -/
def isEOL (r : Rune) : Bool := r == 10 || r == 13
/-- the loop condition of `scanIdent`: `ch != eof && isIdent(ch)` -/
def identRune (r : Rune) : Bool := !isEOL r && r != 0

inductive Tok | start | ident (rs : List Rune) | eol | eof
deriving DecidableEq, Repr

/-- a rune 0 ending a run is consumed (no `unread`), anything else is pushed back -/
def afterRun : List Rune → List Rune
  | r :: t => if r == 0 then t else r :: t
  | [] => []

/-- one `Scan` on the runes that remain -/
def scanRunes : List Rune → Tok × List Rune
  | [] => (.eof, [])
  | c :: cs =>
    if isEOL c then (.eol, afterRun (cs.dropWhile isEOL))
    else if c == 0 then (.eof, cs)
    else if c == 62 then (.start, cs)
    else (.ident (c :: cs.takeWhile identRune), afterRun (cs.dropWhile identRune))

/-- `buf.String()`: the runes written with `WriteRune` -/
def enc (rs : List Rune) : Seq := rs.flatMap encodeRune

/-- the token as the parser receives it (`lit` = the bytes written) -/
def Tok.bytes : Tok → Fasta.Tok
  | .start => .start
  | .ident rs => .ident (enc rs)
  | .eol => .eol
  | .eof => .eof

/-- all tokens up to and including the first EOF; `fuel` = number of runes + 1 (every `Scan` that does not return EOF
consumes a rune) -/
def lexRunes : Nat → List Rune → List Tok
  | 0, _ => [.eof]
  | fuel + 1, rs =>
    match scanRunes rs with
    | (.eof, _) => [.eof]
    | (t, r) => t :: lexRunes fuel r

end Gv.Model.Fmt.FastaRunes
