import Gv.Model.Fmt.Common
import Gv.Model.Fmt.Utf8
/-!
Model of `io/fasta/{lexer,parser,writer}.go` as the code is.

* lexer: `Scan` with the NUL-as-EOF convention (`read()` returns rune 0 on any error, so a NUL byte
  in the input is indistinguishable from end of input *for that one read*), the run-consuming
  `scanEndOfLine` / `scanIdent` which swallow a NUL that ends the run and push back anything else;
* parser: `parseGeneric` with its one-token push-back, `scanIgnoreEndOfLine` (skips ONE end-of-line
  token), the `curname` / `curseq` state, `AddSequence` with the duplicate policy and the length check;
  the quirk that a file whose records have no sequence line succeeds with zero rows (`">a\n"`) is
  modelled as it is; `fix = true` models the proposed patch (error when no sequence was read);
* writer: `WriteAlignment` with the index based wrap `i % w == 0 && i > 0`.

`parse` is the parser on the byte string that the lexer has after reading every rune with `ReadRune` and
writing it back with `WriteRune` (`Utf8.norm`); `parseBytes` is the parser on the RAW input, defined on ALL byte
strings: the FASTA lexer compares runes with `\n`, `\r`, `>`, NUL only and builds every literal with `WriteRune`
(see `Utf8.lean`), the parser works on the literals byte-wise (`strings.Replace`, `^( +)`, `[]uint8(sequence)`), so
nothing else depends on rune boundaries.  A byte that is not part of a well-formed UTF-8 sequence reaches the names
and the residues as `EF BF BD` (three bytes: lengths are byte lengths of what was WRITTEN, not of the input).
-/
namespace Gv.Model.Fmt.Fasta
open Gv Gv.Model Gv.Model.Fmt

def GT : Byte := 62

def isEOL (c : Byte) : Bool := c == NL || c == CR

inductive Tok | start | ident (s : Seq) | eol | eof
deriving DecidableEq, Repr

/-- a NUL ending a run is consumed (no unread), anything else is pushed back -/
def afterRun : Seq → Seq
  | b :: r => if b == 0 then r else b :: r
  | [] => []

theorem afterRun_le (l : Seq) : (afterRun l).length ≤ l.length := by
  unfold afterRun; split
  · split <;> simp
  · simp

def identChar (b : Byte) : Bool := !isEOL b && b != 0

/-- One `Scan` of io/fasta/lexer.go on the remaining input. -/
def scan : Seq → Tok × Seq
  | [] => (.eof, [])
  | c :: cs =>
    if isEOL c then (.eol, afterRun (cs.dropWhile isEOL))
    else if c == 0 then (.eof, cs)
    else if c == GT then (.start, cs)
    else (.ident (c :: cs.takeWhile identChar), afterRun (cs.dropWhile identChar))

theorem length_dropWhile_le {α} (p : α → Bool) : ∀ l : List α, (l.dropWhile p).length ≤ l.length
  | [] => by simp
  | x :: xs => by
    simp only [List.dropWhile]
    split
    · exact Nat.le_succ_of_le (length_dropWhile_le p xs)
    · simp

theorem scan_shorter (c : Byte) (cs : Seq) : (scan (c :: cs)).2.length < (c :: cs).length := by
  have h1 := length_dropWhile_le isEOL cs
  have h2 := length_dropWhile_le identChar cs
  have h3 := afterRun_le (cs.dropWhile identChar)
  have h4 := afterRun_le (cs.dropWhile isEOL)
  simp only [scan, List.length_cons]
  split
  · simp only []; omega
  · split
    · simp only []; omega
    · split <;> simp only [] <;> omega

/-- all tokens up to and including the first EOF (the parser never scans past it) -/
def lex (s : Seq) : List Tok :=
  match s with
  | [] => [.eof]
  | c :: cs =>
    let r := scan (c :: cs)
    match r.1 with
    | .eof => [.eof]
    | t => t :: lex r.2
termination_by s.length
decreasing_by exact scan_shorter c cs

/-! ### writer -/

/-- the residue loop of `WriteAlignment` at line width `w` (Go: `FASTA_LINE`) starting at index `i` -/
def wrap (w : Nat) : Nat → Seq → Seq
  | _, [] => []
  | i, b :: bs => (if i % w == 0 && i > 0 then [NL] else []) ++ b :: wrap w (i+1) bs

def writeRow (w : Nat) (r : XRow) : Seq := GT :: r.1 ++ [NL] ++ wrap w 0 r.2 ++ [NL]
def write (w : Nat) (rows : List XRow) : Seq := rows.flatMap (writeRow w)

/-! ### parser -/

/-- state of `parseGeneric`: current name, current sequence buffer, the container -/
structure PS where
  curname : Seq := []
  curseq : Seq := []
  bag : Bag := {}

/-- `regexp "^( +)"` replaced by "" -/
def stripSpaces (s : Seq) : Seq := s.dropWhile (· == SP)
/-- `strings.Replace(lit, " ", "", -1)` -/
def noSpaces (s : Seq) : Seq := s.filter (· != SP)

mutual
/-- top of the `for tok != EOF` loop: `scanIgnoreEndOfLine` skips ONE eol token.  `none` = error. -/
def loop (st : PS) : List Tok → Option Bag
  | .eol :: ts => body st ts
  | ts => body st ts
termination_by ts => (ts.length, 1)
decreasing_by all_goals simp_wf <;> omega
/-- the switch on the token -/
def body (st : PS) : List Tok → Option Bag
  | [] => some st.bag
  | .start :: .ident nm :: rest =>
      if st.curseq ≠ [] then
        match st.bag.add st.curname st.curseq with
        | none => none
        | some b => loop { curname := stripSpaces nm, curseq := [], bag := b } rest
      else if st.curname ≠ [] then none
      else loop { st with curname := stripSpaces nm } rest
  | .start :: _ => none
  | .ident s :: rest => loop { st with curseq := st.curseq ++ noSpaces s } rest
  | .eof :: _ => if st.curseq ≠ [] then st.bag.add st.curname st.curseq else some st.bag
  | .eol :: rest => loop st rest
termination_by ts => (ts.length, 0)
decreasing_by all_goals simp_wf <;> omega
end

def skipEol : List Tok → List Tok
  | .eol :: ts => ts
  | ts => ts

/-- `Parser.Parse` up to (not including) the alphabet step: the container after the loop -/
def parseBag (ignore : Nat) (s : Seq) : Option Bag :=
  match skipEol (lex s) with
  | .start :: _ => loop { bag := { ignore := normIgnore ignore } } (lex s)
  | _ => none

/-- `fasta.NewParser(r).IgnoreIdentical(o.ignore).Alphabet(o.alphabet).Parse()`.
`fix = false` is the code as it is; `fix = true` adds the proposed check "no sequence read ⇒ error". -/
def parse (fix : Bool) (o : POpts) (s : Seq) : Outcome Aln :=
  match parseBag o.ignore s with
  | none => .error
  | some b =>
    if fix && b.rows.isEmpty then .error
    else match b.finish (normAlphabet o.alphabet) with
      | none => .error
      | some a => .ok a

/-- the parser on the raw input, ALL byte strings: `ReadRune` / `WriteRune` in front of the byte-level parser -/
def parseBytes (fix : Bool) (o : POpts) (s : Seq) : Outcome Aln := parse fix o (Utf8.norm s)

end Gv.Model.Fmt.Fasta
