import Gv.Num
import Gv.Model.RProg
import Gv.Model.Rand
/-!
Property C20 — models of the code **as it is**, generic in the numeric type (`[RealLike φ]`): the same
text is executed at `Float` by the oracle (exact replay of `rand.Seed(s)` + the Go call through the
`math/rand` replica) and reasoned about at `ℝ` by `Gv/Props/C20.lean`.

* `stats/gamma.go`      : `gammaCheng` (alpha > 1), `gammaOne` (alpha == 1), `gammaKG` (alpha < 1), `gammaS`
                          (= unexported `gamma`), `gammaExported` (= `Gamma`, exits on invalid parameters)
* `stats/dirichlet.go`  : `dirichlet`, `dirichlet1`
* `distance/dna/distance.go:85-119` : `buildWeightsGamma`, `buildWeightsDirichlet`
* `models/gamma.go`     : `incompleteGamma` (series branch, continued-fraction branch with its goto
                          structure), `discreteGamma` (gonum's `distuv.Gamma.Quantile` and
                          `math.Log(math.Gamma(alpha+1))` are EXTERNAL: passed in)

Unbounded Go loops (`for { … }` rejection loops, `goto l20` / `goto l32`) carry a fuel argument; a run
that exhausts it returns `Res.fuel` / `none` — an artefact of the model that the correspondence run
never meets (fuel 10 000) and that every theorem mentions explicitly.

Trusted externals: float64 rounding, `math.Log/Exp/Pow/Sqrt/Gamma/Lgamma`, gonum `distuv`.
Core only.
-/
namespace Gv.Model

/-- programs over `rand.Float64()` draws, generic in the numeric type of the draws -/
inductive FProg (φ : Type) (α : Type) where
  | pure (a : α)
  | unit (k : φ → FProg φ α)

namespace FProg
variable {φ : Type}

def bind {α β} : FProg φ α → (α → FProg φ β) → FProg φ β
  | .pure a, f => f a
  | .unit k, f => .unit (fun x => bind (k x) f)

/-- tape semantics: the draws are answered from an arbitrary list; returns the unread tape -/
def runTape {α} : FProg φ α → List φ → Option (α × List φ)
  | .pure a, t => some (a, t)
  | .unit k, u :: t => runTape (k u) t
  | .unit _, [] => none

theorem runTape_bind {α β} (p : FProg φ α) (f : α → FProg φ β) : ∀ t,
    runTape (bind p f) t = (runTape p t).bind (fun r => runTape (f r.1) r.2) := by
  induction p with
  | pure a => intro t; simp [bind, runTape]
  | unit k ih =>
    intro t
    cases t with
    | nil => simp [bind, runTape]
    | cons u t => simp [bind, runTape, ih]

/-- a concrete source of draws -/
def runGen {α σ} (g : σ → φ × σ) : FProg φ α → σ → α × σ
  | .pure a, s => (a, s)
  | .unit k, s => let r := g s; runGen g (k r.1) r.2

/-- the draws a generator run makes -/
def trace {α σ} (g : σ → φ × σ) : FProg φ α → σ → List φ
  | .pure _, _ => []
  | .unit k, s => let r := g s; r.1 :: trace g (k r.1) r.2

/-- every run with a concrete source is a tape run on its own trace -/
theorem runGen_is_runTape {α σ} (g : σ → φ × σ) (p : FProg φ α) : ∀ s,
    runTape p (trace g p s) = some ((runGen g p s).1, []) := by
  induction p with
  | pure a => intro s; simp [runTape, trace, runGen]
  | unit k ih => intro s; simp only [trace, runTape, runGen]; exact ih _ _

/-- at `Float` an `FProg` is an `RProg` that only draws `rand.Float64()` -/
def toRProg {α} : FProg Float α → RProg α
  | .pure a => .pure a
  | .unit k => .unit (fun x => toRProg (k x))

end FProg

/-- outcome of a modelled call: a value, a returned `error`, `os.Exit` (`io.ExitWithMessage`), or the
fuel of a modelled loop ran out (model artefact) -/
inductive Res (α : Type) where
  | ok (a : α)
  | err
  | exit
  | fuel
  deriving Repr

namespace Weights
open RealLike
variable {φ : Type} [RealLike φ]

/-! ## constants (bit-identical at `Float` to the Go literals: correctly rounded quotients of exact values;
checked on every run by the `c20consts` operation) -/

/-- `1e-7` -/
def c1em7 : φ := 1 / 10000000
/-- `.9999999` -/
def c9999999 : φ := 9999999 / 10000000
/-- `MAGIC_CONST = 4 * math.Exp(-0.5) / math.Sqrt(2.0)` -/
def magicConst : φ := 4 * exp (-(1 / 2)) / sqrt 2
/-- `math.E` (at `Float`: `exp 1` has the bit pattern of Go's constant) -/
def cE : φ := exp 1
/-- `accurate := 1.0e-8` -/
def accurate : φ := 1 / 100000000
/-- `overflow := 1.0e30` -/
def overflowC : φ := RealLike.ofNat (10 ^ 30)
/-- `DBL_MIN = 2.2250738585072014e-308 = 2^-1022` -/
def dblMin : φ := 1 / pow 2 1022
/-- `math.MaxFloat64 = (2 - 2^-52)·2^1023`; `math.IsInf(a, 1)` is `a > MaxFloat64` -/
def maxFloat : φ := (2 - 1 / pow 2 52) * pow 2 1023

/-! ## `stats/gamma.go` -/

/-- `alpha > 1.0`: Cheng (1977).  One round: `u1`; if `!(1e-7 < u1 && u1 < .9999999)` retry (the second
draw is NOT made); `u2 := 1 - Float64()`; accept iff `r+MAGIC-4.5z >= 0 || r >= log z`. -/
def gammaCheng (alpha beta : φ) : Nat → FProg φ (Option φ)
  | 0 => .pure none
  | fuel + 1 =>
    .unit fun u1 =>
      if !(ltb c1em7 u1 && ltb u1 c9999999) then gammaCheng alpha beta fuel
      else .unit fun d2 =>
        let ainv := sqrt (2 * alpha - 1)
        let bbb := alpha - log 4
        let ccc := alpha + ainv
        let u2 := 1 - d2
        let v := log (u1 / (1 - u1)) / ainv
        let x := alpha * exp v
        let z := u1 * u1 * u2
        let r := bbb + ccc * v - x
        if leb 0 (r + magicConst - 9 / 2 * z) || leb (log z) r then .pure (some (x * beta))
        else gammaCheng alpha beta fuel

/-- `alpha == 1.0`: `u := Float64(); for u <= 1e-7 { u = Float64() }; return -log(u) * beta` -/
def gammaOne (beta : φ) : Nat → FProg φ (Option φ)
  | 0 => .pure none
  | fuel + 1 =>
    .unit fun u => if leb u c1em7 then gammaOne beta fuel else .pure (some (-(log u) * beta))

/-- the candidate of the `alpha < 1` branch (Kennedy & Gentle): `b`, `p`, and the two-piece inverse -/
def kgB (alpha : φ) : φ := (cE + alpha) / cE
def kgX (alpha u : φ) : φ :=
  let b := kgB alpha
  let p := b * u
  if leb p 1 then pow p (1 / alpha) else -(log ((b - p) / alpha))

/-- `0 < alpha < 1` -/
def gammaKG (alpha beta : φ) : Nat → FProg φ (Option φ)
  | 0 => .pure none
  | fuel + 1 =>
    .unit fun u =>
      let p := kgB alpha * u
      let x := kgX alpha u
      .unit fun u1 =>
        if ltb 1 p then
          (if leb u1 (pow x (alpha - 1)) then .pure (some (x * beta)) else gammaKG alpha beta fuel)
        else if leb u1 (exp (-x)) then .pure (some (x * beta))
        else gammaKG alpha beta fuel

/-- the unexported `gamma(alpha, beta)` -/
def gammaS (alpha beta : φ) (fuel : Nat) : FProg φ (Option φ) :=
  if ltb 1 alpha then gammaCheng alpha beta fuel
  else if eqb alpha 1 then gammaOne beta fuel
  else gammaKG alpha beta fuel

/-- the exported `Gamma(alpha, beta)`: `io.ExitWithMessage` when `!(alpha > 0) || !(beta > 0)` -/
def gammaExported (alpha beta : φ) (fuel : Nat) : FProg φ (Res φ) :=
  if !(ltb 0 alpha) || !(ltb 0 beta) then .pure .exit
  else FProg.bind (gammaS alpha beta fuel) fun
    | none => .pure .fuel
    | some x => .pure (.ok x)

/-- `n` successive calls of `Gamma(alpha, beta)` (used by the exact-replay correspondence) -/
def gammaDraws (alpha beta : φ) (fuel : Nat) : Nat → FProg φ (Res (List φ))
  | 0 => .pure (.ok [])
  | n + 1 => FProg.bind (gammaExported alpha beta fuel) fun
    | .ok x => FProg.bind (gammaDraws alpha beta fuel n) fun
      | .ok xs => .pure (.ok (x :: xs))
      | .err => .pure .err
      | .exit => .pure .exit
      | .fuel => .pure .fuel
    | .err => .pure .err
    | .exit => .pure .exit
    | .fuel => .pure .fuel

/-! ## `stats/dirichlet.go` -/

/-- the first loop of `Dirichlet`: `if !(a > 0.0) || math.IsInf(a, 1) → error` (the draws already made stay consumed),
`sample[i] = gamma(a, 1); sum += sample[i]`.  `acc` is the reversed sample so far. -/
def dirichletLoop (fuel : Nat) : List φ → List φ → φ → FProg φ (Res (List φ × φ))
  | [], acc, sum => .pure (.ok (acc.reverse, sum))
  | a :: rest, acc, sum =>
    if !(ltb 0 a) || ltb maxFloat a then .pure .err
    else FProg.bind (gammaS a 1 fuel) fun
      | none => .pure .fuel
      | some g => dirichletLoop fuel rest (g :: acc) (sum + g)

/-- `Dirichlet(factor, alpha...)`: error iff `len(alpha) <= 2` (sic) or some `alpha_i` is not a positive finite number;
`sample[i] = factor * sample[i] / sum` -/
def dirichlet (factor : φ) (alphas : List φ) (fuel : Nat) : FProg φ (Res (List φ)) :=
  if alphas.length ≤ 2 then .pure .err
  else FProg.bind (dirichletLoop fuel alphas [] 0) fun
    | .ok (s, sum) => .pure (.ok (s.map fun x => factor * x / sum))
    | .err => .pure .err
    | .exit => .pure .exit
    | .fuel => .pure .fuel

/-- ascending insertion (`slices.Sort` on values without NaN: any correct sort gives the same slice) -/
def insertAsc (a : φ) : List φ → List φ
  | [] => [a]
  | b :: l => if leb a b then a :: b :: l else b :: insertAsc a l

def sortAsc : List φ → List φ
  | [] => []
  | a :: l => insertAsc a (sortAsc l)

/-- `n` draws, in order -/
def drawN : Nat → FProg φ (List φ)
  | 0 => .pure []
  | n + 1 => .unit fun u => FProg.bind (drawN n) fun l => .pure (u :: l)

/-- consecutive differences times `factor`: `sample[i-1] = factor * (iv[i] - iv[i-1])` -/
def scaledDiffs (factor : φ) : List φ → List φ
  | a :: b :: l => factor * (b - a) :: scaledDiffs factor (b :: l)
  | _ => []

/-- `Dirichlet1(factor, nvalues)`: error iff `nvalues <= 2`; intervals `0, 1, nvalues-1` uniform draws, sorted -/
def dirichlet1 (factor : φ) (n : Nat) : FProg φ (Res (List φ)) :=
  if n ≤ 2 then .pure .err
  else FProg.bind (drawN (n - 1)) fun us => .pure (.ok (scaledDiffs factor (sortAsc (0 :: 1 :: us))))

/-! ## `distance/dna/distance.go` weight builders -/

/-- the `total`-accumulating loop of `BuildWeightsGamma` -/
def weightsGammaLoop (alpha beta : φ) (fuel : Nat) : Nat → List φ → φ → FProg φ (Res (List φ × φ))
  | 0, acc, total => .pure (.ok (acc.reverse, total))
  | n + 1, acc, total => FProg.bind (gammaExported alpha beta fuel) fun
    | .ok g => weightsGammaLoop alpha beta fuel n (g :: acc) (total + g)
    | .err => .pure .err
    | .exit => .pure .exit
    | .fuel => .pure .fuel

/-- the gamma parameters `BuildWeightsGamma` derives from the alignment length:
`n := float64(L); p := 1/n; alpha := n*p/(1-p); beta := 1-p` -/
def wgAlpha (L : Nat) : φ := let n : φ := RealLike.ofNat L; let p := 1 / n; n * p / (1 - p)
def wgBeta (L : Nat) : φ := let n : φ := RealLike.ofNat L; let p := 1 / n; 1 - p

/-- `BuildWeightsGamma(al)` for an alignment of length `L`: `w[i] = w[i] * float64(L) / total` -/
def buildWeightsGamma (L : Nat) (fuel : Nat) : FProg φ (Res (List φ)) :=
  FProg.bind (weightsGammaLoop (wgAlpha L) (wgBeta L) fuel L [] 0) fun
    | .ok (w, total) => .pure (.ok (w.map fun x => x * RealLike.ofNat L / total))
    | .err => .pure .err
    | .exit => .pure .exit
    | .fuel => .pure .fuel

/-- `BuildWeightsDirichlet(al)`: `Dirichlet(float64(L), 1, …, 1)`; the error is dropped
(`outweights, _ :=`), so a length `<= 2` yields a nil slice -/
def buildWeightsDirichlet (L : Nat) (fuel : Nat) : FProg φ (Res (List φ)) :=
  FProg.bind (dirichlet (RealLike.ofNat L) (List.replicate L 1) fuel) fun
    | .ok w => .pure (.ok w)
    | .err => .pure (.ok [])
    | .exit => .pure .exit
    | .fuel => .pure .fuel

/-! ## `models/gamma.go` -/

/-- the series loop `l20: rn++; term *= x / rn; gin += term; if term > accurate goto l20` -/
def igSeries (x : φ) : Nat → φ → φ → φ → Option φ
  | 0, _, _, _ => none
  | fuel + 1, rn, term, gin =>
    let rn := rn + 1
    let term := term * (x / rn)
    let gin := gin + term
    if ltb accurate term then igSeries x fuel rn term gin else some gin

/-- state of the continued-fraction branch -/
structure CF (φ : Type) where
  a : φ
  b : φ
  term : φ
  gin : φ
  pn0 : φ
  pn1 : φ
  pn2 : φ
  pn3 : φ

/-- one pass from label `l32` (the labels `l34`, `l35` and the jump back to `l32` included);
`Sum.inr g` = reached `l42` with `gin = g`.  Note `math.Abs(pn[5]) < .0` can never hold, so the
direct jump to `l35` is dead code: kept, as it is in the source. -/
def cfStep (s : CF φ) : CF φ ⊕ φ :=
  let a := s.a + 1
  let b := s.b + 2
  let term := s.term + 1
  let an := a * term
  let pn4 := b * s.pn2 - an * s.pn0
  let pn5 := b * s.pn3 - an * s.pn1
  -- l35: shift, rescale when |pn4| ≥ overflow
  let l35 (gin : φ) : CF φ ⊕ φ :=
    if ltb (abs pn4) overflowC then .inl ⟨a, b, term, gin, s.pn2, s.pn3, pn4, pn5⟩
    else .inl ⟨a, b, term, gin, s.pn2 / overflowC, s.pn3 / overflowC, pn4 / overflowC, pn5 / overflowC⟩
  if ltb (abs pn5) 0 then l35 s.gin
  else
    let rn := pn4 / pn5
    let dif := abs (s.gin - rn)
    if ltb accurate dif then l35 rn            -- goto l34
    else if leb dif (accurate * rn) then .inr s.gin   -- goto l42
    else l35 rn                                  -- l34

def cfLoop : Nat → CF φ → Option φ
  | 0, _ => none
  | fuel + 1, s =>
    match cfStep s with
    | .inl s' => cfLoop fuel s'
    | .inr g => some g

/-- `IncompleteGamma(x, alpha, ln_gamma_alpha)`; `none` = loop fuel exhausted (the Go code would still be
looping) -/
def incompleteGamma (x alpha lnGammaAlpha : φ) (fuel : Nat) : Option φ :=
  let p := alpha
  let g := lnGammaAlpha
  if ltb (abs x) dblMin then some 0
  else if ltb x 0 || leb p 0 then some (-1)
  else
    let factor := exp (p * log x - x - g)
    if ltb 1 x && leb p x then
      -- l30: continued fraction
      let a := 1 - p
      let b := a + x + 1
      let pn2 := x + 1
      let pn3 := x * b
      -- `if factor == 0 { return 1.0 }` (prefactor underflow far in the upper tail)
      if eqb factor 0 then some 1
      else (cfLoop fuel ⟨a, b, 0, pn2 / pn3, 1, x, pn2, pn3⟩).map fun gin => 1 - factor * gin
    else
      (igSeries x fuel p 1 1).map fun gin => gin * (factor / p)

/-- the assembly of `DiscreteGamma` for ANY primitive `ig` (the value stored in `freq[i]` for the `i`-th
quantile) — `freq` has `ncat-1` entries:
`r[0] = freq[0]*factor; r[ncat-1] = (1-freq[ncat-2])*factor; r[i] = (freq[i]-freq[i-1])*factor`. -/
def categoriesOf (factor : φ) : φ → List φ → List φ
  | prev, [] => [(1 - prev) * factor]
  | prev, f :: rest => (f - prev) * factor :: categoriesOf factor f rest

/-- `r` from the list `freq` (length `ncat-1 ≥ 1`) -/
def assemble (factor : φ) : List φ → Option (List φ)
  | [] => none                       -- ncat = 1: `freq[ncat-2]` panics
  | f0 :: rest => some (f0 * factor :: categoriesOf factor f0 rest)

/-- `List.map` through a partial function (`none` as soon as one value is missing) -/
def mapOpt {α β : Type} (f : α → Option β) : List α → Option (List β)
  | [] => some []
  | a :: l =>
    match f a, mapOpt f l with
    | some b, some bs => some (b :: bs)
    | _, _ => none

/-- `DiscreteGamma(alpha, ncat)` given the external quantiles `q_i = Quantile((i+1)/ncat)` (`i < ncat-1`)
and `lngamma = log(Gamma(alpha+1))`; `beta := alpha; factor := alpha/beta*ncat` -/
def discreteGammaWith (ig : φ → Option φ) (alpha : φ) (ncat : Nat) (quantiles : List φ) : Option (List φ) :=
  let beta := alpha
  let factor := alpha / beta * RealLike.ofNat ncat
  (mapOpt (fun q => ig (q * beta)) quantiles).bind (assemble factor)

def discreteGamma (alpha : φ) (ncat : Nat) (quantiles : List φ) (lngamma : φ) (fuel : Nat) : Option (List φ) :=
  discreteGammaWith (fun x => incompleteGamma x (alpha + 1) lngamma fuel) alpha ncat quantiles

end Weights

/-- exact replay from a Go seed -/
def runSeedF {α} (p : FProg Float α) (seed : Int) : α := runSeed p.toRProg seed

end Gv.Model
