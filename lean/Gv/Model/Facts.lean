import Gv.Model.Pool
/-!
# T3 concurrency facts (DESIGN §2.2) and the decidable checks over them

`tools/extract/facts.go` regenerates `Gv/Gen/Facts.lean` (values of type `Facts`) from the working tree
on every run: for `dna.DistMatrix` and `phaser.Phase`, every read / write of a variable captured by a
`go func` literal with the goroutine role performing it and the mutexes held, and the shape of every
goroutine (spawn order, `wg.Add` / `wg.Done` / `wg.Wait` placement, channel ranges, sends, closes).

This file holds the *rules*:

* `raceFree` — lock-set + happens-before: two accesses of the same variable, one of them a write, by
  goroutines that may run in parallel, must hold a common mutex, be ordered by `go` (everything main did
  before a `go` statement happens before the goroutine), by `Done → Wait` (only if `Done` is reached on
  every path), by `close → end of range → Done → Wait` for the producer (only if the workers leave their
  loop solely because the channel was closed), or touch the cell owned by the job the worker received.
* `instanceOfPool` — the function has the shape of `Model.Pool` with the sound discipline.
* `disciplineOf` — the two switches of `Model.Pool.Discipline` as the source has them.

What these rules do not see: the Go memory model itself, accesses performed *inside* called functions
(e.g. a caller-supplied `DistModel` must itself be safe for concurrent `Distance` calls), aliasing of
distinct variables.  Core-only.
-/
namespace Gv.Model.Facts
open Gv.Model.Pool

inductive Role where
  | mainBeforeSpawn   -- main, before the first `go` statement
  | mainBetween       -- main, after some `go` statement and before `Wait` (or main has no `Wait`)
  | mainAfterWait     -- main, after `wg.Wait()`
  | producer
  | worker
  | closer
  deriving DecidableEq, Repr, BEq

inductive Kind where
  | read
  | write
  deriving DecidableEq, Repr, BEq

structure Access where
  role : Role
  /-- for main: the number of `go` statements that textually precede the access (a `go` inside a loop
  counts once, and an access inside that loop counts as after it) -/
  phase : Nat
  var : String
  kind : Kind
  locks : List String
  /-- element access `v[…]…` -/
  indexed : Bool
  /-- every index expression is a field of the job received from the job channel -/
  ownCell : Bool
  /-- lexically inside the body of an `if … != nil` -/
  errGuard : Bool
  /-- for `closer` / main: textually after `wg.Wait()` -/
  afterWait : Bool
  line : Nat
  deriving DecidableEq, Repr

structure Goroutine where
  role : Role
  /-- function containing the `go` statement -/
  fn : String
  line : Nat
  /-- spawned inside a `for` loop -/
  many : Bool
  /-- position among main's `go` statements (0-based) -/
  spawnIndex : Nat
  /-- `wg.Add(1)` is the statement just before the `go` statement, in the same block -/
  addBefore : Bool
  doneDeferred : Bool
  /-- non-deferred `wg.Done()` statements -/
  doneStmts : Nat
  /-- a non-deferred `wg.Done()` is the last statement of the body -/
  doneLast : Bool
  /-- `return` statements in the body -/
  returns : Nat
  /-- channels the goroutine ranges over, in order -/
  ranges : List String
  /-- receive operations other than `range` -/
  otherRecvs : Nat
  sends : List String
  /-- (channel, deferred, last statement of the body) -/
  closes : List (String × Bool × Bool)
  hasWait : Bool
  /-- channels closed textually after `wg.Wait()` -/
  closesAfterWait : List String
  /-- channels ranged over textually after `wg.Wait()` -/
  rangesAfterWait : List String
  deriving DecidableEq, Repr

structure Facts where
  func : String
  file : String
  jobChan : String
  jobChanCap : Nat
  /-- result channel, "" when results go to cells -/
  resChan : String
  resChanCap : Nat
  waitGroup : String
  mutexes : List String
  /-- captured variables of type `error` -/
  errVars : List String
  /-- main calls `wg.Wait()` -/
  mainWaits : Bool
  /-- main ranges over these channels after `Wait` -/
  mainDrains : List String
  goroutines : List Goroutine
  accesses : List Access
  deriving Repr

/-- a call of a mutating method (or an element write through an accessor) in the phasing functions -/
structure MutCall where
  fn : String
  recv : String
  method : String
  /-- the receiver variable was last assigned from `….Clone()` -/
  fresh : Bool
  line : Nat
  deriving DecidableEq, Repr

/-- **inputs are not modified**: every mutating call in the phasing functions acts on a fresh clone -/
def inputsUnmodified (calls : List MutCall) : Bool := calls.all (·.fresh)

/-! ## happens-before between roles -/

def Facts.workers (F : Facts) : List Goroutine := F.goroutines.filter (·.role == .worker)
def Facts.producers (F : Facts) : List Goroutine := F.goroutines.filter (·.role == .producer)
def Facts.closers (F : Facts) : List Goroutine := F.goroutines.filter (·.role == .closer)

/-- `Done` is reached on every path of the goroutine: deferred, or last statement with no `return` -/
def Goroutine.doneOnAllPaths (g : Goroutine) : Bool :=
  g.doneDeferred || (g.doneLast && g.returns == 0)

/-- the channel is closed on every path of the goroutine -/
def Goroutine.closesOnAllPaths (g : Goroutine) (ch : String) : Bool :=
  g.closes.any fun c => c.1 == ch && (c.2.1 || (c.2.2 && g.returns == 0))

def Facts.workersDone (F : Facts) : Bool := F.workers.all (·.doneOnAllPaths)

/-- every access of the goroutine precedes its `Done` (deferred, or the single `Done` is the last
statement): whenever `Wait` returns, all of the goroutine's accesses happened before.  A path that skips
`Done` is a liveness defect (`Wait` never returns), not a race. -/
def Goroutine.doneAfterAccesses (g : Goroutine) : Bool :=
  (g.doneDeferred && g.doneStmts == 0) || (!g.doneDeferred && g.doneLast && g.doneStmts == 1)

def Facts.workersDoneLast (F : Facts) : Bool := F.workers.all (·.doneAfterAccesses)

/-- workers leave their loop only because the job channel was closed -/
def Facts.workersExitOnClose (F : Facts) : Bool :=
  F.workers.all fun g => g.returns == 0 && g.ranges == [F.jobChan]

def spawnIndexOf (F : Facts) (r : Role) : Nat :=
  match F.goroutines.find? (·.role == r) with
  | some g => g.spawnIndex
  | none => 0

def isMain : Role → Bool
  | .mainBeforeSpawn | .mainBetween | .mainAfterWait => true
  | _ => false

/-- every execution of access `a` happens before every execution of access `b` -/
def hb (F : Facts) (a b : Access) : Bool :=
  if isMain a.role && isMain b.role then true            -- same goroutine (program order; symmetric use)
  else if isMain a.role && !a.afterWait then
    -- `go` rule: main's access precedes the `go` statement that starts b's goroutine
    decide (a.phase ≤ spawnIndexOf F b.role)
  else if a.role == .worker && b.afterWait && (b.role == .mainAfterWait || b.role == .closer) then
    F.workersDoneLast                                      -- Done → Wait
  else if a.role == .producer && b.afterWait && (b.role == .mainAfterWait || b.role == .closer) then
    -- close(jobs) → the workers' ranges end → Done → Wait
    F.workersDoneLast && F.workersExitOnClose &&
      F.producers.all (·.closesOnAllPaths F.jobChan)
  else false

def commonLock (a b : Access) : Bool := a.locks.any (b.locks.contains ·)

/-- two accesses by (instances of) goroutines that may run in parallel -/
def parallel (F : Facts) (a b : Access) : Bool :=
  if a.role == b.role then
    !(isMain a.role) &&
      ((F.goroutines.filter (·.role == a.role)).any (·.many) || (F.goroutines.filter (·.role == a.role)).length > 1)
  else !(hb F a b) && !(hb F b a)

def conflicting (a b : Access) : Bool :=
  a.var == b.var && (a.kind == .write || b.kind == .write)

/-- both accesses go to the cell(s) owned by the received job (distinct jobs own distinct cells) -/
def ownCells (a b : Access) : Bool :=
  a.role == .worker && b.role == .worker && a.indexed && b.indexed && a.ownCell && b.ownCell

def racy (F : Facts) (a b : Access) : Bool :=
  conflicting a b && parallel F a b && !(commonLock a b) && !(ownCells a b)

def racePairs (F : Facts) : List (Access × Access) :=
  F.accesses.flatMap fun a => (F.accesses.filter fun b => racy F a b).map fun b => (a, b)

/-- **lock-set + happens-before race freedom over the extracted facts** -/
def raceFree (F : Facts) : Bool := F.accesses.all fun a => F.accesses.all fun b => !(racy F a b)

/-! ## the function is an instance of `Model.Pool` -/

/-- named rules, so that the driver can say which one fails -/
def poolRules (F : Facts) : List (String × Bool) :=
  let ws := F.workers
  let ps := F.producers
  let cs := F.closers
  [ ("one-producer", ps.length == 1),
    ("producer-sends-only-on-job-channel", ps.all fun g => g.sends.all (· == F.jobChan)),
    ("producer-closes-job-channel-on-every-path", ps.all (·.closesOnAllPaths F.jobChan)),
    ("job-channel-closed-only-by-producer",
      F.goroutines.all fun g => g.role == .producer || !(g.closes.any (·.1 == F.jobChan))),
    ("workers-exist", !ws.isEmpty),
    ("workers-only-range-over-job-channel", ws.all fun g => g.ranges == [F.jobChan] && g.otherRecvs == 0),
    ("one-Add-per-worker-before-start", ws.all (·.addBefore)),
    ("Done-on-every-path", ws.all (·.doneOnAllPaths)),
    ("exactly-one-Done-per-worker",
      ws.all fun g => (g.doneDeferred && g.doneStmts == 0) || (!g.doneDeferred && g.doneStmts == 1)),
    ("results-only-to-own-cell-or-result-channel",
      F.accesses.all fun a =>
        !(a.role == .worker && a.kind == .write && a.locks.isEmpty && !(F.errVars.contains a.var)) ||
          (a.indexed && a.ownCell)),
    ("workers-send-only-on-result-channel", ws.all fun g => g.sends.all (· == F.resChan)),
    ("error-slot-sticky",
      F.accesses.all fun a =>
        !(a.role == .worker && a.kind == .write && F.errVars.contains a.var) || a.errGuard),
    ("Wait-before-results-are-read",
      if F.resChan == "" then
        F.mainWaits &&
          F.accesses.all fun a => !(a.role == .mainBetween && a.phase > spawnIndexOf F .worker) ||
            !(F.accesses.any fun b => b.role == .worker && b.kind == .write && b.var == a.var)
      else
        cs.length == 1 && cs.all fun g => g.hasWait && g.closesAfterWait == [F.resChan]),
    ("result-channel-closed-only-after-Wait",
      F.resChan == "" ||
        F.goroutines.all fun g => g.role == .closer || !(g.closes.any (·.1 == F.resChan))),
    ("job-channel-drained-after-Wait-when-workers-may-return-early",
      F.workersExitOnClose || F.mainDrains.contains F.jobChan ||
        cs.any fun g => g.rangesAfterWait.contains F.jobChan) ]

def failingPoolRules (F : Facts) : List String := (poolRules F).filterMap fun r => if r.2 then none else some r.1

/-- **the function has the shape of the worker pool with the sound discipline** -/
def instanceOfPool (F : Facts) : Bool := (poolRules F).all (·.2)

/-- the error-path discipline as the source has it -/
def disciplineOf (F : Facts) : Discipline :=
  { doneOnFail := F.workersDone,
    errSticky := F.accesses.all fun a =>
      !(a.role == .worker && a.kind == .write && F.errVars.contains a.var) || a.errGuard }

/-! ## text rendering for the oracle -/

def roleStr : Role → String
  | .mainBeforeSpawn => "main-before-spawn"
  | .mainBetween => "main-between"
  | .mainAfterWait => "main-after-wait"
  | .producer => "producer"
  | .worker => "worker"
  | .closer => "closer"

def accessStr (a : Access) : String :=
  roleStr a.role ++ ":" ++ (if a.kind == .write then "write" else "read") ++ ":" ++ a.var ++ "@" ++ toString a.line ++
    (if a.locks.isEmpty then "" else "[" ++ ",".intercalate a.locks ++ "]")

def accessStrShort (a : Access) : String :=
  roleStr a.role ++ ":" ++ (if a.kind == .write then "write" else "read") ++ ":" ++ a.var ++
    (if a.locks.isEmpty then "" else "[" ++ ",".intercalate a.locks ++ "]")

/-- the racy pairs with line numbers (diagnostics) -/
def raceReportLines (F : Facts) : String :=
  let ps := racePairs F
  -- unordered pairs once
  let ps := ps.filter fun p => p.1.line < p.2.line || (p.1.line == p.2.line && p.1.role == p.2.role)
  ";".intercalate (ps.map fun p => accessStr p.1 ++ "~" ++ accessStr p.2)

/-- the racy pairs without line numbers, each once (stable under edits that only move lines) -/
def raceReport (F : Facts) : String :=
  let ps := (racePairs F).filter fun p => p.1.line < p.2.line || (p.1.line == p.2.line && p.1.role == p.2.role)
  let strs := ps.map fun p => accessStrShort p.1 ++ "~" ++ accessStrShort p.2
  ";".intercalate (strs.foldl (fun acc s => if acc.contains s then acc else acc ++ [s]) [])

/-- the variables involved in some racy pair -/
def raceVars (F : Facts) : List String :=
  (racePairs F).foldl (fun acc p => if acc.contains p.1.var then acc else acc ++ [p.1.var]) []

end Gv.Model.Facts
