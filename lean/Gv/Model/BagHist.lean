import Gv.Model.Bag
/-!
Histories of container operations (C01): the operation type, one-step semantics, and the
observation vector through every access path (mirror of `observe` in tools/harness/ops_bag.go).
-/
namespace Gv.Model
open Gv

/-- `%0<w>d` -/
def fmtPad (w n : Nat) : String :=
  let s := toString n
  String.ofList (List.replicate (w - s.length) '0') ++ s

/-- least `d` with `10^d ≥ k` (`ceil(log10 k)` for `k ≥ 1`) -/
def ceilLog10Aux (k : Nat) : Nat → Nat → Nat
  | 0, d => d
  | fuel + 1, d => if 10 ^ d ≥ k then d else ceilLog10Aux k fuel (d + 1)
def ceilLog10 (k : Nat) : Nat := ceilLog10Aux k k 0

/-- `TrimNamesAuto(namemap = {}, &curid)`; returns the state and the final `curid` -/
def trimAutoLoop : List Row → List (String × String) → Nat → Nat → List Row → List Row × Nat
  | [], _, cur, _, acc => (acc.reverse, cur)
  | r :: t, nm, cur, len, acc =>
    match nm.find? (fun p => p.1 == r.name) with
    | some p => trimAutoLoop t nm cur len ({ r with name := p.2 } :: acc)
    | none =>
      let nn := "S" ++ fmtPad len cur
      trimAutoLoop t (nm ++ [(r.name, nn)]) (cur + 1) (ceilLog10 (cur + 1 + 1)) ({ r with name := nn } :: acc)

def trimNamesAuto (cur : Nat) (b : Bag) : Bag × Nat :=
  let r := trimAutoLoop b.rows [] cur (ceilLog10 (b.rows.length + 1)) []
  ({ b with rows := r.1, index := rebuildIndex r.1 }, r.2)

/-- first `id ≥ 1` (at most 99) such that `base ++ %02d` is unused; `none` = more than 99 -/
def shortId (short : List String) (base : String) : Nat → Nat → Option Nat
  | 0, _ => none
  | fuel + 1, id =>
    if id > 99 then none
    else if short.contains (base ++ fmtPad 2 id) then shortId short base fuel (id + 1) else some id

/-- the padding loop of `TrimNames` (see the comment at its use) -/
def padX (w : Nat) (name : List Char) (m : Nat) : Nat → List Char
  | 0 => name
  | fuel + 1 => if m + name.length < w then padX w (name ++ ['x']) (m + 1) fuel else name

def trimNamesLoop (size : Int) : List Row → List (String × String) → List String → List Row → List Row × Bool
  | [], _, _, acc => (acc.reverse, false)
  | r :: t, nm, short, acc =>
    match nm.find? (fun p => p.1 == r.name) with
    | some p => trimNamesLoop size t nm short ({ r with name := p.2 } :: acc)
    | none =>
      let w := (size - 2).toNat
      let base0 := r.name.toList.filter fun c => c != ':' && c != '_'
      -- Go pads with `for m := 0; m < size-2-len(newname); m++ { newname += "x" }`: the bound shrinks
      -- while the name grows, so only about half of the missing characters are added
      let base := if base0.length ≥ w then base0.take w else padX w base0 0 w
      let base := String.ofList base
      match shortId short base 100 1 with
      | none => (acc.reverse ++ (r :: t), true)
      | some id =>
        let nn := base ++ fmtPad 2 id
        trimNamesLoop size t (nm ++ [(r.name, nn)]) (short ++ [nn]) ({ r with name := nn } :: acc)

/-- `TrimNames(namemap = {}, size)` -/
def trimNames (size : Int) (b : Bag) : Bag × Bool :=
  let n := b.rows.length
  -- math.Pow10(size-2) < float64(n)
  let tooSmall := if size - 2 < 0 then n ≥ 1 else 10 ^ (size - 2).toNat < n
  if tooSmall then (b, true)
  else
    let r := trimNamesLoop size b.rows [] [] []
    ({ b with rows := r.1, index := rebuildIndex r.1 }, r.2)

/-- percent-encoding of names on the wire (every byte outside `[A-Za-z0-9_]` as `%XX`) -/
def pctHex (n : Nat) : Char := if n < 10 then Char.ofNat (48 + n) else Char.ofNat (55 + n)
def pctEnc (s : String) : String :=
  String.ofList (s.toList.flatMap fun c =>
    if c.isAlphanum || c == '_' then [c] else ['%', pctHex (c.toNat / 16), pctHex (c.toNat % 16)])

inductive Op where
  | add (n : String) (s : Seq)
  | ignore (p : Int)
  | clear
  | append (rows : List (String × Seq))
  | concat (rows : List (String × Seq))
  | rename (m : List (String × String))
  | appendId (id : String) (right : Bool)
  | cleanNames
  | trimNames (size : Int)
  | trimAuto (cur : Nat)
  | sort
  | permute (perm : List Nat)          -- ShuffleSequences with its draws resolved
  | filter (mn mx : Int)
  | dedup (nAsGap : Bool)
  | rmSeqs (c : Byte) (num den : Nat) (ic ig iN : Bool)
  | translate (phase code : Int)
  | clone
  | sample (nb : Int) (perm : List Nat)
  | toUpper
  | toLower
  | replace (old new : Seq)
  | setChar (i j : Int) (c : Byte)
  | trimSeqs (n : Int) (fromStart : Bool)
  | autoAlpha
  | revcomp
  | replaceChar (name : String) (site : Int) (c : Byte)
  | rmGapSites (num den : Nat) (ends : Bool)
  | compress
  | unalign
  /-- `RenameRegexp`: `ok` = the regular expression compiled; `names` = the value of
  `r.ReplaceAllString(name, replace)` for every row in order (regexp is external: computed by Go's regexp) -/
  | renameRe (ok : Bool) (names : List String)
  | setAlpha (alphabet : Int)
  /-- `ReverseComplementSequences(names...)` -/
  | revcompSeqs (names : List String)
  | diffFirst            -- DiffWithFirst
  | replaceMatch         -- ReplaceMatchChars
  | mask (refseq : String) (start len : Int) (mr : MaskRep) (nogap noref : Bool)
  /-- `MaskOccurences`; `MaskUnique(refseq, maskreplace)` is `maskOcc refseq 1 maskreplace` -/
  | maskOcc (refseq : String) (maxOcc : Int) (mr : MaskRep)
  /-- `RemoveCharacterSites(c, cutoff, ends, ignoreCase, ignoreGaps, ignoreNs, reverse)`, cutoff `num/den` -/
  | rmCharSites (cs : List Byte) (num den : Nat) (ends ic ig iN rev : Bool)
  /-- `RemoveMajorityCharacterSites(cutoff, ends, ignoreGaps, ignoreNs)` -/
  | rmMajSites (num den : Nat) (ends ig iN : Bool)
  /-- `Replace(old, new, regex = true)`: `ok` = the regular expression compiled; `seqs` = the value of
  `r.ReplaceAllString(sequence, new)` for every row in order (regexp is external: computed by Go's regexp) -/
  | replaceRe (ok : Bool) (seqs : List Seq)
deriving Repr

/-- the float threshold test of the cleaning functions: `cutoff = num/den` as `float64` -/
def cutoffTest (num den : Nat) (nb total : Nat) : Bool :=
  let c0 := Float.ofNat num / Float.ofNat den
  let c := if c0 < 0 || c0 > 1 then 0 else c0
  (c > 0 && Float.ofNat nb ≥ c * Float.ofNat total) || (c == 0 && nb > 0)

/-- the same test without the reset of an out-of-range cutoff (`RemoveMajorityCharacterSites` does not
reset it, unlike what its comment says; cutoffs outside [0,1] are outside the property's quantifier) -/
def cutoffTestRaw (num den : Nat) (nb total : Nat) : Bool :=
  let c := Float.ofNat num / Float.ofNat den
  (c > 0 && Float.ofNat nb ≥ c * Float.ofNat total) || (c == 0 && nb > 0)

/-- a list of positions in a status string: `+`-separated, `_` when empty -/
def plusList (l : List Nat) : String := if l.isEmpty then "_" else "+".intercalate (l.map toString)

/-- status of a site removal: leading and trailing removed runs, kept and removed positions -/
def sitesStatus (first last : Nat) (kept removed : List Nat) : String :=
  "ok[" ++ toString first ++ "," ++ toString last ++ "," ++ plusList kept ++ "," ++ plusList removed ++ "]"

/-- a name map in a status string: `old=new` entries, percent-encoded, in the order given -/
def mapStatus (m : List (String × String)) : String :=
  "[" ++ ",".intercalate (m.map fun p => pctEnc p.1 ++ "=" ++ pctEnc p.2) ++ "]"

/-- one step: new state and a status string (`ok`, `err`, `na`, with op-specific payload) -/
def stepOp (b : Bag) : Op → Bag × String
  | .add n s => let r := addSeq b n s; (r.1, if r.2 then "err" else "ok")
  | .ignore p => ({ b with policy := if p == 0 || p == 1 || p == 2 then p.toNat else 0 }, "ok")
  | .clear => (clear b, "ok")
  | .append rows =>
    if !b.isAlign then (b, "na") else
    -- the argument alignment must itself be constructible
    let o := addAllStop (newAlign b.alphabet) rows
    if o.2 then (b, "na") else
    let r := appendRows (pairs o.1) b; (r.1, if r.2 then "err" else "ok")
  | .concat rows =>
    if !b.isAlign then (b, "na") else
    let o := addAllStop (newAlign b.alphabet) rows
    if o.2 then (b, "na") else
    let r := concat (pairs o.1) o.1.length o.1.alphabet b; (r.1, if r.2 then "err" else "ok")
  | .rename m => (rename m b, "ok")
  | .appendId id right => (appendIdentifier id right b, "ok")
  | .cleanNames => (cleanNames b, "ok")
  | .trimNames size => let r := trimNames size b; (r.1, if r.2 then "err" else "ok")
  | .trimAuto cur => let r := trimNamesAuto cur b; (r.1, "ok[" ++ toString r.2 ++ "]")
  | .sort => (sortRows b, "ok")
  | .permute perm => (permuteRows perm b, "ok")
  | .filter mn mx => let r := filterLength mn mx b; (r.1, if r.2 then "err" else "ok")
  | .dedup g =>
    let r := deduplicate g b
    (r.1, (if r.2.1 then "err" else "ok") ++ "[" ++ ",".intercalate (r.2.2.map fun g => "+".intercalate (g.map pctEnc)) ++ "]")
  | .rmSeqs c num den ic ig iN =>
    if !b.isAlign then (b, "na") else
    match removeCharacterSeqs (cutoffTest num den) c ic ig iN b with
    | none => (b, "PANIC")
    | some r => (r.1, "ok[" ++ toString r.2 ++ "]")
  | .translate ph code => let r := translateBag ph code b; (r.1, if r.2 then "err" else "ok")
  | .clone => let r := clone b; if r.2 then (b, "err") else (r.1, "ok")
  | .sample nb perm =>
    match sample nb perm b with
    | none => (b, "err")
    | some s => (s, "ok")
  | .toUpper => (mapSeqs (·.map toUpper) b, "ok")
  | .toLower => (mapSeqs (·.map toLower) b, "ok")
  | .replace old new => let r := replaceBag old new b; (r.1, if r.2 then "err" else "ok")
  | .setChar i j c => let r := setSequenceChar i j c b; (r.1, if r.2 then "err" else "ok")
  | .trimSeqs n fs =>
    if !b.isAlign then (b, "na") else
    match trimSequences n fs b with
    | none => (b, "PANIC")
    | some r => (r.1, if r.2 then "err" else "ok")
  | .autoAlpha => ({ b with alphabet := autoAlphabet (b.rows.map (·.seq)) }, "ok")
  | .revcomp => let r := reverseComplement b; (r.1, if r.2 then "err" else "ok")
  | .replaceChar name site c =>
    if !b.isAlign then (b, "na") else
    match replaceChar name site c b with
    | none => (b, "PANIC")
    | some r => (r.1, if r.2 then "err" else "ok")
  | .rmGapSites num den ends =>
    if !b.isAlign then (b, "na") else
    match removeGapSites (cutoffTest num den) ends b with
    | none => (b, "PANIC")
    | some r => (r.1, sitesStatus r.2.first r.2.last r.2.kept r.2.removed)
  | .compress =>
    if !b.isAlign then (b, "na") else
    -- an alignment without sequences stays as it is (repair of /repo: `Compress` used to set its length to 0)
    if b.rows.isEmpty then (b, "ok[_]") else
    match compressBag b with
    | none => (b, "PANIC")
    | some r => (r.1, "ok[" ++ plusList r.2 ++ "]")
  | .unalign =>
    -- `NewSeqBag` ends the process on an alphabet other than the three it knows (an alignment never carries
    -- another one: `NewAlign` turns BOTH into NUCLEOTIDS)
    if !seqBagAlphabetOK b.alphabet then (b, "EXIT") else (unalign b, "ok")
  | .renameRe ok names =>
    -- a regular expression that does not compile: an error, nothing touched (`namemap` stays empty)
    if !ok then (b, "err" ++ mapStatus []) else
    let r := renameRegexp names b; (r.1, "ok" ++ mapStatus r.2)
  | .setAlpha a => let r := setAlphabet a b; (r.1, if r.2 then "err" else "ok")
  | .revcompSeqs names => let r := reverseComplementSequences names b; (r.1, if r.2 then "err" else "ok")
  | .diffFirst =>
    if !b.isAlign then (b, "na") else
    match diffWithFirstBag b with
    | none => (b, "PANIC")
    | some r => (r, "ok")
  | .replaceMatch =>
    if !b.isAlign then (b, "na") else
    match replaceMatchCharsBag b with
    | none => (b, "PANIC")
    | some r => (r, "ok")
  | .mask refseq start len mr nogap noref =>
    if !b.isAlign then (b, "na") else
    match maskBag refseq start len mr nogap noref b with
    | none => (b, "PANIC")
    | some r => (r.1, if r.2 then "err" else "ok")
  | .maskOcc refseq maxOcc mr =>
    if !b.isAlign then (b, "na") else
    match maskOccBag refseq maxOcc mr b with
    | none => (b, "PANIC")
    | some r => (r.1, if r.2 then "err" else "ok")
  | .rmCharSites cs num den ends ic ig iN rev =>
    if !b.isAlign then (b, "na") else
    match removeCharSitesBag (cutoffTest num den) cs ends ic ig iN rev b with
    | none => (b, "PANIC")
    | some r => (r.1, sitesStatus r.2.first r.2.last r.2.kept r.2.removed)
  | .rmMajSites num den ends ig iN =>
    if !b.isAlign then (b, "na") else
    -- `RemoveMajorityCharacterSites` does not reset a cutoff outside [0,1] (`cutoffTestRaw`)
    match removeMajoritySitesBag (cutoffTestRaw num den) ends ig iN b with
    | none => (b, "PANIC")
    | some r => (r.1, sitesStatus r.2.first r.2.last r.2.kept r.2.removed)
  | .replaceRe ok seqs =>
    -- a regular expression that does not compile: an error, nothing touched
    if !ok then (b, "err") else
    let r := replaceRegexBag seqs b; (r.1, if r.2 then "err" else "ok")

/-- run a history, collecting the states after every step -/
def runOps : Bag → List Op → List (Bag × String)
  | _, [] => []
  | b, op :: t => let r := stepOp b op; r :: runOps r.1 t

def finalState (b : Bag) (ops : List Op) : Bag := ops.foldl (fun s op => (stepOp s op).1) b

end Gv.Model
