import Gv.Num
import Gv.Spec.SubstModels
/-!
# Model of `models.Pij.SetLength` / `Pij.Pij` (models/model.go) as they are

`P(t) = R · diag(exp(λ_k t)) · L` assembled with the loops and the positivity floor of the Go
code.  Hand-written (the loops are outside the T2 subset); validated against the real
`SetLength` by the C18 correspondence run, for closed-form and gonum eigen-systems alike.
Generic in the numeric type.  Core only.
-/
namespace Gv.Model.Pij
open Gv Gv.Spec.Subst

variable {α : Type} [RealLike α]

/-- `DBL_MIN = 2.2250738585072014e-308 = 2^-1022`; the oracle checks this against the bit pattern
of the constant regenerated from `models/gamma.go` -/
def dblMin : α := 1 / RealLike.pow 2 1022

/-- the value of `v` after the `k` loop of `SetLength`, before the floor:
`uexpt[i][k] = right[i][k] * expt[k]`, `v += uexpt[i][k] * left[k][j]` -/
def assembled (ns : Nat) (val : Nat → α) (left right : Nat → Nat → α) (l : α) (i j : Nat) : α :=
  sumTo ns fun k => (right i k * RealLike.exp (val k * l)) * left k j

/-- one entry stored by `SetLength`: `if v < DBL_MIN { v = DBL_MIN }` -/
def entry (ns : Nat) (val : Nat → α) (left right : Nat → Nat → α) (l : α) (i j : Nat) : α :=
  let v := assembled ns val left right l i j
  if RealLike.ltb v dblMin then dblMin else v

/-- `NewPij(m, l)` followed by `Pij(i, j)` for a non-analytical model: the matrix starts as zeros with
`length = DBL_MIN`, and `SetLength` recomputes only when `pij.length != l` -/
def newPijEntry (ns : Nat) (val : Nat → α) (left right : Nat → Nat → α) (l : α) (i j : Nat) : α :=
  if RealLike.eqb l dblMin then 0 else entry ns val left right l i j

end Gv.Model.Pij
