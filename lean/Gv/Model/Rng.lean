import Gv.Gen.RngTab
/-!
Executable replica of Go's `math/rand` top-level generator after `rand.Seed(s)`:
additive lagged-Fibonacci generator (607, 273) seeded by `seedrand`; `Int63`, `Int31`, `Int31n`
(rejection loop), `Intn`, `Float64 = Int63 / 2^63`, `Perm`.  `Gen.rngCooked` is regenerated from
`$GOROOT/src/math/rand/rng.go`.  Validated against the real generator by the C10 correspondence
(exact replay); it is part of the trusted base, not of any theorem (DESIGN §4.3).
-/
namespace Gv.Model.GoRng

structure St where
  vec : Array UInt64
  tap : Nat
  feed : Nat

/-- `seedrand`: x = 48271 * (x % 44488) - 3399 * (x / 44488); if x < 0 then x += 2^31-1 -/
def seedrand (x : Int) : Int :=
  let hi := x / 44488
  let lo := x % 44488
  let y := 48271 * lo - 3399 * hi
  if y < 0 then y + 2147483647 else y

def seed (s : Int) : St := Id.run do
  let mut sd := s.tmod 2147483647   -- Go `%` truncates
  if sd < 0 then sd := sd + 2147483647
  if sd == 0 then sd := 89482311
  let mut x : Int := sd
  for _ in [0:20] do x := seedrand x
  let mut vec : Array UInt64 := Array.mkEmpty 607
  for i in [0:607] do
    x := seedrand x
    let mut u : UInt64 := (UInt64.ofNat x.toNat) <<< 40
    x := seedrand x
    u := u ^^^ ((UInt64.ofNat x.toNat) <<< 20)
    x := seedrand x
    u := u ^^^ (UInt64.ofNat x.toNat)
    u := u ^^^ Gen.rngCooked[i]!
    vec := vec.push u
  return { vec := vec, tap := 0, feed := 607 - 273 }

def uint64 (s : St) : UInt64 × St :=
  let tap := if s.tap == 0 then 606 else s.tap - 1
  let feed := if s.feed == 0 then 606 else s.feed - 1
  let x := s.vec[feed]! + s.vec[tap]!
  (x, { vec := s.vec.set! feed x, tap := tap, feed := feed })

def int63 (s : St) : Nat × St := let (x, s) := uint64 s; ((x &&& 0x7FFFFFFFFFFFFFFF).toNat, s)
def int31 (s : St) : Nat × St := let (x, s) := int63 s; (x >>> 32, s)

/-- the rejection loop of `Int31n`; each round rejects with probability < 1/2, the fuel of 200 rounds
is never exhausted in practice (probability < 2^-200) -/
def int31nLoop (max n : Nat) : Nat → St → Nat × St
  | 0, s => (0, s)
  | fuel + 1, s =>
    let (v, s) := int31 s
    if v > max then int31nLoop max n fuel s else (v % n, s)

def int31n (n : Nat) (s : St) : Nat × St :=
  if n &&& (n - 1) == 0 then let (v, s) := int31 s; (v &&& (n - 1), s)
  else int31nLoop (2147483647 - (2147483648 % n)) n 200 s

/-- `rand.Intn(n)` for `0 < n ≤ 2^31-1` (all uses in goalign) -/
def intn (n : Nat) (s : St) : Nat × St := int31n n s

def float64Loop : Nat → St → Float × St
  | 0, s => (0, s)
  | fuel + 1, s =>
    let (v, s) := int63 s
    let f := (Float.ofNat v) / (Float.ofNat (1 <<< 63))
    if f == 1 then float64Loop fuel s else (f, s)

def float64 (s : St) : Float × St := float64Loop 10 s

end Gv.Model.GoRng
