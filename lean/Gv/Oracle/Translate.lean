import Gv.Oracle.Common
import Gv.Model.Translate
import Gv.Spec.Genetic
/-! Oracle handlers for the container-level translation operations of C05 (`CodonAlign`,
`TranslateByReference`).  The predicates are evaluated on the implementation's rows. -/
namespace Gv.Oracle.TranslateOps
open Gv Gv.Oracle Gv.Model

def specTranslate (tbl : List Byte) : Seq → Seq
  | a :: b :: c :: t => Spec.translateCodon tbl a b c :: specTranslate tbl t
  | _ => []

def isPrefix (a b : Seq) : Bool := a.length ≤ b.length && b.take a.length == a

def renderAl (out : Rows) : String :=
  let len : Int := match out with | [] => -1 | x :: _ => x.2.length
  "ok " ++ toString len ++ " " ++ encRows out

/-- parse `ok <len> <rows>` -/
def parseAl (impl : String) : Option (Int × Rows) :=
  match impl.splitOn " " with
  | ["ok", l, r] => do pure ((← parseInt? l), (← decRows r))
  | _ => none

def handle : Handler := fun op args impl =>
  match op, args with
  | "codonalign", [code, prot, nts] => do
    -- `code`: the genetic code under which the generator derived the protein rows (used by the predicate only)
    let code ← code.toNat?
    let prot ← decRows prot
    let nts ← decRows nts
    let m := match codonAlign AMINOACIDS NUCLEOTIDS prot nts with
      | none => "err"
      | some out => renderAl out
    let v := match parseAl impl with
      | none => if impl == "err" then "na" else "fail:unparsable"
      | some (len, out) =>
        let L : Nat := match prot with | [] => 0 | r :: _ => r.2.length
        if out.map Prod.fst != prot.map Prod.fst then "fail:codonalign-names" else
        if !(out.all fun r => r.2.length == 3 * L) || (len != ((3 * L : Nat) : Int) && !out.isEmpty) then "fail:codonalign-length" else
        -- ungapped rows are the original nucleotides minus at most two trailing ones (nucleotides without gaps)
        let okUngap := out.all fun r =>
          match findRow r.1 nts with
          | none => false
          | some nt => nt.any (· == GAP) ||
              (isPrefix (ungap r.2) nt && nt.length - (ungap r.2).length ≤ 2)
        if !okUngap then "fail:codonalign-ungapped-rows" else
        -- when the protein row is the translation of its nucleotides, the codon alignment translates back to it
        let okBack := (out.zip prot).all fun (r, p) =>
          match findRow r.1 nts with
          | none => false
          | some nt => ungap p.2 != specTranslate (Spec.ncbi code) nt || specTranslate (Spec.ncbi code) r.2 == p.2
        verdictOf okBack "codonalign-does-not-translate-back"
    some ⟨m, v⟩
  | "byref", [ph, code, refName, rows] => do
    let ph ← parseInt? ph
    let code ← parseInt? code
    let rows ← decRows rows
    let m := match translateByReferenceZ NUCLEOTIDS ph code refName rows with
      | none => "err"
      | some out => renderAl out
    -- a negative phase must be refused (an error, not a crash, not a result)
    if ph < 0 then some ⟨m, verdictOf (impl.startsWith "err") "byref-negative-phase-must-fail"⟩ else
    let ph := ph.toNat
    let v := match parseAl impl with
      | none =>
        if impl.startsWith "err" then
          -- "in frame 0 always returns a rectangular protein alignment": with a supported code, the reference among the
          -- rows and at least one codon, an error is not an admissible answer
          let L : Nat := match rows with | [] => 0 | r :: _ => r.2.length
          if ph == 0 && (code == 0 || code == 1 || code == 2) && (findRow refName rows).isSome && L ≥ 3 &&
              rows.all (fun r => r.2.length == L) then "fail:byref-frame0-must-return-an-alignment"
          else "na"
        else "fail:unparsable"
      | some (len, out) =>
        if !(code == 0 || code == 1 || code == 2) then "fail:byref-unknown-code-accepted" else
        let tbl := Spec.ncbi code.toNat
        -- rectangular, same names, cached length
        let w : Nat := match out with | [] => 0 | r :: _ => r.2.length
        if out.map Prod.fst != rows.map Prod.fst then "fail:byref-names" else
        if !(out.all fun r => r.2.length == w) || (len != (w : Int) && !out.isEmpty) then "fail:byref-not-rectangular" else
        let L : Nat := match rows with | [] => 0 | r :: _ => r.2.length
        let nogaps := rows.all fun r => r.2.all (· != GAP)
        -- like plain translation: no result on an alignment shorter than 3 + phase
        if L < 3 + ph then "fail:byref-short-must-fail" else
        if nogaps && out != (rows.map fun r => (r.1, specTranslate tbl (r.2.drop ph))) then
          "fail:byref-differs-from-plain-translation"
        else if ph == 0 then
          match findRow refName rows, findRow refName out with
          | some r, some o => verdictOf (isPrefix (ungap o) (specTranslate tbl (ungap r))) "byref-reference-row-not-a-prefix"
          | _, _ => "fail:byref-reference-row-missing"
        else "pass"
    some ⟨m, v⟩
  | _, _ => none

end Gv.Oracle.TranslateOps
