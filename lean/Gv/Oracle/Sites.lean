import Gv.Oracle.Common
import Gv.Model.Sites
/-! Oracle handlers for C04 (site extraction and coordinates). -/
namespace Gv.Oracle.SitesOps
open Gv Gv.Oracle Gv.Model

def lenOf (rows : Rows) : Int := match rows with | r :: _ => (r.2.length : Int) | [] => -1

def outRows (o : Out SRows) : String :=
  match o with
  | .ok r => "ok " ++ toString (lenOf r) ++ " " ++ encRows r
  | .err => "err"
  | .panic => "panic"

def isPanic (impl : String) : Bool := impl.startsWith "panic" || impl == "hang" || impl.startsWith "exit"

/-- independent statement: the addressed columns, in the addressed order -/
def colsOf (rows : Rows) (sites : List Nat) : Rows := rows.map fun r => (r.1, sites.filterMap fun j => r.2[j]?)

/-- one-line-per-sequence FASTA -/
def parseFasta : List String → Rows
  | h :: q :: t => if h.startsWith ">" then ((h.drop 1).toString, bytesOfString q) :: parseFasta t else parseFasta (q :: t)
  | _ => []

/-- sequential relaxed Phylip with several alignments: header `n L`, then `n` lines `name  sequence` -/
def parsePhylipMulti (lines : List String) : List Rows :=
  let rec go (fuel : Nat) (ls : List String) (acc : List Rows) : List Rows :=
    match fuel, ls with
    | 0, _ => acc.reverse
    | _, [] => acc.reverse
    | fuel + 1, h :: t =>
      match (h.splitOn " ").filter (· != "") with
      | [n, _] =>
        match n.toNat? with
        | some k =>
          let rows := (t.take k).filterMap fun l =>
            match (l.splitOn " ").filter (· != "") with
            | [nm, sq] => some (nm, bytesOfString sq)
            | _ => none
          go fuel (t.drop k) (rows :: acc)
        | none => go fuel t acc
      | _ => go fuel t acc
  go (lines.length + 1) lines []

def handle : Handler := fun op args impl =>
  match op, args with
  | "subalign", [rows, st, ln] => do
    let rows ← decRows rows
    let st ← parseInt? st
    let ln ← parseInt? ln
    let L := lenOf rows
    let m := subAlign rows L st ln
    let valid := st ≥ 0 && ln ≥ 0 && st + ln ≤ L
    let exp := if valid then "ok " ++ toString (if rows.isEmpty then (-1 : Int) else ln) ++ " " ++
        encRows (colsOf rows ((List.range ln.toNat).map (· + st.toNat))) else "err"
    some ⟨outRows m, verdictOf (impl == exp) (if isPanic impl then "crash" else "subalign-spec")⟩
  | "selectsites", [rows, sites] => do
    let rows ← decRows rows
    let sites ← decInts sites
    let L := lenOf rows
    let m := selectSites rows L sites
    let valid := sites.all fun s => s ≥ 0 && s < L
    let exp := if valid then "ok " ++ toString (if rows.isEmpty then (-1 : Int) else (sites.length : Int)) ++ " " ++
        encRows (colsOf rows (sites.map Int.toNat)) else "err"
    some ⟨outRows m, verdictOf (impl == exp) (if isPanic impl then "crash" else "selectsites-spec")⟩
  | "invcoord", [rows, st, ln] => do
    let rows ← decRows rows
    let st ← parseInt? st
    let ln ← parseInt? ln
    let L := lenOf rows
    let m := match inverseCoordinates L st ln with
      | .ok (a, b) => "ok " ++ encInts a ++ " " ++ encInts b
      | .err => "err"
      | .panic => "panic"
    -- predicate: on success the returned windows together with the requested one tile [0, L)
    let v :=
      if !(st ≥ 0 && ln ≥ 0 && st + ln ≤ L) then verdictOf (impl == "err") (if isPanic impl then "crash" else "invcoord-must-fail")
      else match impl.splitOn " " with
        | ["ok", a, b] =>
          match decInts a, decInts b with
          | some ss, some ls =>
            let wins := (ss.zip ls) ++ [(st, ln)]
            let covered := (List.range L.toNat).all fun (i : Nat) =>
              (wins.filter fun w => w.1 ≤ (i : Int) && (i : Int) < w.1 + w.2).length == 1
            verdictOf (ss.length == ls.length && covered && (ss.zip ls).all (fun w => w.2 > 0 && w.1 ≥ 0 && w.1 + w.2 ≤ L)) "invcoord-not-a-partition"
          | _, _ => "fail:unparsable"
        | _ => if isPanic impl then "fail:crash" else "fail:invcoord-valid-failed"
    some ⟨m, v⟩
  | "invpos", [rows, sites] => do
    let rows ← decRows rows
    let sites ← decInts sites
    let L := lenOf rows
    let m := match inversePositions L sites with
      | .ok a => "ok " ++ encInts a
      | .err => "err"
      | .panic => "panic"
    let valid := sites.all fun s => s ≥ 0 && s < L
    let exp := if valid then "ok " ++ encInts (((List.range L.toNat).filter fun (i : Nat) => !sites.contains (Int.ofNat i)).map Int.ofNat) else "err"
    some ⟨m, verdictOf (impl == exp) (if isPanic impl then "crash" else "invpos-spec")⟩
  | "refcoord", [rows, name, rs, rl] => do
    let rows ← decRows rows
    let rs ← parseInt? rs
    let rl ← parseInt? rl
    let m := match refCoordinates rows name rs rl with
      | .ok (a, b, e) => if e then "err" else "ok " ++ toString a ++ " " ++ toString b
      | .err => "err"
      | .panic => "panic"
    -- independent: positions of the reference's residues
    let exp := match rows.find? (fun r => r.1 == name) with
      | none => "err"
      | some r =>
        let pos := (List.range r.2.length).filter fun j => r.2.getD j 0 != GAP
        if rs < 0 || rl ≤ 0 || rs + rl > pos.length then "err"
        else
          let a := pos.getD rs.toNat 0
          let b := pos.getD (rs + rl - 1).toNat 0
          "ok " ++ toString a ++ " " ++ toString (b - a + 1)
    some ⟨m, verdictOf (impl == exp) (if isPanic impl then "crash" else "refcoord-spec")⟩
  | "refsites", [rows, name, sites] => do
    let rows ← decRows rows
    let sites ← decInts sites
    let L := lenOf rows
    let m := match refSites rows L name sites with
      | .ok a => "ok " ++ encInts a
      | .err => "err"
      | .panic => "panic"
    let exp := match rows.find? (fun r => r.1 == name) with
      | none => "err"
      | some r =>
        let pos := (List.range r.2.length).filter fun j => r.2.getD j 0 != GAP
        if sites.any (fun s => s < 0 || s ≥ pos.length) then "err"
        else "ok " ++ encInts (((List.range pos.length).filter fun (k : Nat) => sites.contains (Int.ofNat k)).map fun k => Int.ofNat (pos.getD k 0))
    some ⟨m, verdictOf (impl == exp) (if isPanic impl then "crash" else "refsites-spec")⟩
  | "transpose", [rows] => do
    let rows ← decRows rows
    let L := lenOf rows
    let t := transpose rows L
    let m := "ok " ++ toString (lenOf t) ++ " " ++ encRows t
    -- transposing twice gives the residues back (names are site indices): checked on the model result
    let tt := transpose t (lenOf t)
    let back := tt.map Prod.snd == rows.map Prod.snd || rows.isEmpty || L ≤ 0
    some ⟨m, verdictOf (impl == m && back) "transpose-spec"⟩
  | "diff", [rows] => do
    let rows ← decRows rows
    let d := diffWithFirst rows
    -- predicate: replacing match characters after the diff gives the original back (no '.' in the input)
    let noPoint := rows.all fun r => !r.2.contains POINT
    let v := match decRows impl with
      | some out => if noPoint then verdictOf (replaceMatchChars out == rows) "diff-then-replace-not-identity" else "na"
      | none => "fail:unparsable"
    some ⟨encRows d, v⟩
  | "replacematch", [rows] => do
    let rows ← decRows rows
    some ⟨encRows (replaceMatchChars rows), "na"⟩
  | "split", [rows, ranges] => do
    let rows ← decRows rows
    let L := lenOf rows
    let rs := if ranges == "_" then [] else ranges.splitOn ";"
    let step (acc : PartSet × String × Bool) (r : String) : PartSet × String × Bool :=
      match r.splitOn ":" with
      | [n, a, b, c] =>
        match parseInt? a, parseInt? b, parseInt? c with
        | some a, some b, some c =>
          let x := addRange acc.1 n a b c
          (x.1, acc.2.1 ++ (match x.2 with | .ok _ => "k" | .err => "e" | .panic => "P"), acc.2.2 || (match x.2 with | .panic => true | _ => false))
        | _, _, _ => acc
      | _ => acc
    let (ps, st, pan) := rs.foldl step (newPartSet L, "", false)
    if pan then some ⟨"panic", "fail:crash"⟩ else
    let check := ps.parts.all (· != -1)
    let head := st ++ " [" ++ ",".intercalate (ps.parts.map toString) ++ "] check=" ++ encBool check
    let m := match split rows L ps with
      | .ok parts => head ++ " ok " ++ "|".intercalate (parts.map fun p => toString (lenOf p) ++ ":" ++ (encRows p).replace "," "+")
      | _ => head ++ " err"
    -- predicate (when every site is assigned and the split succeeds): re-interleaving the blocks by the
    -- partition map reproduces the original alignment
    let v :=
      if isPanic impl then "fail:crash" else
      match impl.splitOn " " with
      | [_, _, _, "ok", blocks] =>
        if !check then "na" else
        let parts := (blocks.splitOn "|").map fun b => ((b.splitOn ":").drop 1 |> ":".intercalate).replace "+" ","
        let prows := parts.map fun p => (decRows p).getD []
        -- rebuild column by column
        let rebuilt := rows.zipIdx.map fun (r, ri) =>
          let cols := (List.range L.toNat).map fun j =>
            let pi := (ps.parts.getD j (-1)).toNat
            let k := ((List.range j).filter fun j' => ps.parts.getD j' (-1) == ps.parts.getD j (-1)).length
            (((prows.getD pi []).getD ri ("", [])).2).getD k 0
          (r.1, cols)
        verdictOf (rebuilt == rows) "split-reinterleave"
      | _ => "na"
    some ⟨m, v⟩
  | "cli_subseq", stdin :: "subseq" :: "--ref-seq" :: name :: "-s" :: st :: "-l" :: ln :: rest => do
    -- glue of cmd/subseq.go on the built binary: FASTA on stdin (`|` = newline), one line per sequence
    let st ← parseInt? st
    let ln ← parseInt? ln
    let rev := rest == ["-r"]
    let rows := parseFasta (stdin.splitOn "|")
    let L := lenOf rows
    let fasta (r : Rows) : String := String.join (r.map fun x => ">" ++ x.1 ++ "|" ++ stringOfBytes x.2 ++ "|")
    let m := match refCoordinates rows name st ln with
      | .ok (a, l, false) =>
        if rev then
          match inverseCoordinates L a l with
          | .ok (ss, ls) =>
            if ss.isEmpty then "rc=1 out=" else   -- nothing remains: an error (cmd/subseq.go)
            let pieces := (ss.zip ls).map fun w => subAlign rows L w.1 w.2
            let cat := rows.zipIdx.map fun (r, i) => (r.1, pieces.flatMap fun p => match p with
              | .ok pr => ((pr.getD i ("", [])).2) | _ => [])
            "rc=0 out=" ++ fasta cat
          | _ => "rc=1 out="
        else match subAlign rows L a l with
          | .ok r => "rc=0 out=" ++ fasta r
          | _ => "rc=1 out="
      | _ => "rc=1 out="
    -- predicate, independent: positions of the reference residues
    let exp := match rows.find? (fun r => r.1 == name) with
      | none => "rc=1 out="
      | some r =>
        let pos := (List.range r.2.length).filter fun j => r.2.getD j 0 != GAP
        if st < 0 || ln ≤ 0 || st + ln > pos.length then "rc=1 out="
        else
          let a := pos.getD st.toNat 0
          let b := pos.getD (st + ln - 1).toNat 0
          let keep := (List.range r.2.length).filter fun j => if rev then j < a || j > b else a ≤ j && j ≤ b
          if keep.isEmpty then "rc=1 out=" else   -- an empty result is reported as an error, never a crash
          "rc=0 out=" ++ fasta (colsOf rows keep)
    some ⟨m, verdictOf (impl == exp) "subseq-refseq-cli"⟩
  | "cli_subseq_multi", stdin :: "subseq" :: "-p" :: "--ref-seq" :: name :: "-s" :: st :: "-l" :: ln :: [] => do
    -- several alignments in one (relaxed, sequential) Phylip input: each is cut independently
    let st ← parseInt? st
    let ln ← parseInt? ln
    let als := parsePhylipMulti (stdin.splitOn "|")
    let phy (r : Rows) : String :=
      "   " ++ toString r.length ++ "   " ++ toString (lenOf r) ++ "|" ++
      String.join (r.map fun x => x.1 ++ "  " ++ stringOfBytes x.2 ++ "|")
    -- model: the command stops at the first alignment whose coordinates are invalid (what it wrote
    -- before stays on stdout, but a failing status blanks the comparison)
    let step (acc : Option String) (rows : Rows) : Option String :=
      match acc with
      | none => none
      | some out =>
        match refCoordinates rows name st ln with
        | .ok (a, l, false) =>
          match subAlign rows (lenOf rows) a l with
          | .ok r => some (out ++ phy r)
          | _ => none
        | _ => none
    let m := match als.foldl step (some "") with
      | some out => "rc=0 out=" ++ out
      | none => "rc=1 out="
    -- predicate, independent: every alignment is cut at the positions of ITS OWN reference residues
    let stepS (acc : Option String) (rows : Rows) : Option String :=
      match acc, rows.find? (fun r => r.1 == name) with
      | some out, some r =>
        let pos := (List.range r.2.length).filter fun j => r.2.getD j 0 != GAP
        if st < 0 || ln ≤ 0 || st + ln > pos.length then none
        else
          let a := pos.getD st.toNat 0
          let b := pos.getD (st + ln - 1).toNat 0
          some (out ++ phy (colsOf rows ((List.range r.2.length).filter fun j => a ≤ j && j ≤ b)))
      | _, _ => none
    let exp := match als.foldl stepS (some "") with
      | some out => "rc=0 out=" ++ out
      | none => "rc=1 out="
    some ⟨m, verdictOf (impl == exp) "subseq-refseq-multi-cli"⟩
  | _, _ => none

end Gv.Oracle.SitesOps
