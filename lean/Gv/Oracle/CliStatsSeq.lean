import Gv.Oracle.Cli
/-!
Command-line glue of `goalign stats --per-sequences [--ref-sequence <name or file>] [--count-profile <file>]`
(cmd/stats.go, `printAllSequenceStats`), of `goalign stats gaps … --count-profile <file>` (cmd/stats_gaps.go) and of
`goalign stats mutations … --count-profile <file>` (cmd/stats_mutations.go) against the library models of
`Model/Stats.lean` (C14 oracle only).

The count-profile file is read by `io/countprofile.FromFile`: lines split at tabs; the first line gives the characters
(every field behind the first one must be ONE byte), every further line one count per character (`strconv.Atoi`; the
first field - the site - is not looked at; counts behind the last character are dropped silently: `AppendCount` returns
an error nobody reads; a line with fewer counts leaves the later characters with fewer sites, which the length check of
the counters refuses).  An empty file, a name of several bytes, a field that is no integer, a file that does not
exist: a failing status.  The counters only ask whether a count is 0: a negative count is kept as its absolute value.

The driver shows a tab as a blank and a newline as `|`; inside a file of the working directory `~` is a tab.
-/
namespace Gv.Oracle.CliStatsSeqOps
open Gv Gv.Oracle Gv.Model Gv.Oracle.DetOps Gv.Oracle.CliOps
open Gv.Oracle.CliDefaults (effective)

/-- not modelled / failing status / value -/
inductive R (α : Type) where
  | unmod : R α
  | fail : R α
  | ok : α → R α

def R.bind {α β : Type} : R α → (α → R β) → R β
  | .unmod, _ => .unmod
  | .fail, _ => .fail
  | .ok a, f => f a

instance : Monad R where
  pure := R.ok
  bind := R.bind

def ofOpt {α : Type} : Option α → R α
  | some a => .ok a
  | none => .unmod

/-- `strconv.Atoi`: an optional sign and at least one digit (`none` = more digits than modelled) -/
def atoi (s : String) : R Int :=
  let cs := s.toList
  let p : Bool × List Char := match cs with
    | '-' :: t => (true, t)
    | '+' :: t => (false, t)
    | _ => (false, cs)
  if p.2.isEmpty || !(p.2.all Char.isDigit) then .fail
  else if p.2.length > 18 then .unmod
  else
    let v : Nat := p.2.foldl (fun a c => 10 * a + (c.toNat - 48)) 0
    .ok (if p.1 then -(v : Int) else (v : Int))

/-- `p.AppendCount(i, count)`: nothing happens when there is no `i`-th character -/
def appendAt (cs : List (List Nat)) (i : Nat) (v : Nat) : List (List Nat) :=
  cs.zipIdx.map fun (c, j) => if j == i then c ++ [v] else c

/-- one line of counts -/
def profLine (cs : List (List Nat)) (l : String) : R (List (List Nat)) :=
  ((l.splitOn "~").drop 1).zipIdx.foldl (fun acc (f, i) => do
    let cs ← acc
    let v ← atoi f
    pure (appendAt cs i v.natAbs)) (.ok cs)

/-- `countprofile.FromFile` on the text of the file (`|` newline, `~` tab).  Not modelled: a character ≥ 128 or named
twice in the header. -/
def parseProfile (txt : String) : R (List (Byte × List Nat)) :=
  let ls := txt.splitOn "|"
  let ls := if ls.getLast? == some "" then ls.dropLast else ls
  match ls with
  | [] => .fail
  | h :: body =>
    match ((h.splitOn "~").drop 1).mapM (fun f => match bytesOfString f with | [c] => some c | _ => none) with
    | none => .fail
    | some header =>
      if header.any (· ≥ 128) || header.eraseDups.length != header.length then .unmod else do
      let cs ← body.foldl (fun acc l => do let cs ← acc; profLine cs l) (.ok (header.map fun _ => []))
      pure (header.zip cs)

/-- the profile named by `--count-profile` (`none`: the default, no profile) -/
def profileOf (files : List (String × String)) (pf : String) : R (Option (List (Byte × List Nat))) :=
  if pf == "none" then .ok none else
  match files.find? (·.1 == pf) with
  | none => .fail
  | some f => do let p ← parseProfile f.2; pure (some p)

/-- the reference named by `--ref-sequence`: a row of the alignment, else the first sequence of the FASTA file -/
def refOf (rows : Rows) (files : List (String × String)) (ref : String) : R (Option Seq) :=
  if ref == "none" then .ok none else
  match findRow ref rows with
  | some s => .ok (some s)
  | none =>
    match files.find? (·.1 == ref) with
    | some f => match (parseFasta (f.2.splitOn "|")).head? with
      | some r => .ok (some r.2)
      | none => .fail
    | none => .fail

/-- what the reader accepts and the models cover: a rectangular alignment with distinct names, ASCII -/
def wellFormed (rows : Rows) : Bool :=
  let L := lenOf rows
  !(L < 0 || rows.any (fun r => (r.2.length : Int) != L) || (rows.map Prod.fst).eraseDups.length != rows.length ||
    rows.any fun r => r.2.any (· ≥ 128))

/-- the three counters of the unique gaps (`numnew`, `numboth` only with a profile) -/
def gapCounters (rows : Rows) (L : Int) (prof : Option (List (Byte × List Nat))) : R (List Nat × List Nat × List Nat) :=
  match prof with
  | none => .ok (numGapsUnique rows L, [], [])
  | some p => match numGapsUniqueProf rows L p with
    | none => .fail
    | some t => .ok t

def mutCounters (rows : Rows) (L : Int) (alpha : Nat) (prof : Option (List (Byte × List Nat))) :
    R (List Nat × List Nat × List Nat) :=
  match prof with
  | none => match numMutationsUnique rows L alpha with
    | none => .unmod
    | some u => .ok (u, [], [])
  | some p => match numMutationsUniqueProf rows L alpha p with
    | none => .unmod
    | some none => .fail
    | some (some t) => .ok t

/-- `stats --per-sequences`: the header line, then one line per row: name, gaps, gaps at the start, at the end, unique
gaps (with a profile also: new, both), gap openings, unique mutations (with a profile: new, both), with a reference
the mutations against it, the length without gaps, the count of every (upper-cased) character of the alignment. -/
def perSeqExpected (rows : Rows) (files : List (String × String)) (fl : List String) : R String := do
  let ref := (opt fl "--ref-sequence").getD (← ofOpt (effective "statsCmd" "ref-sequence"))
  let pf := (opt fl "--count-profile").getD (← ofOpt (effective "statsCmd" "count-profile"))
  let perDefault ← ofOpt (effective "statsCmd" "per-sequences")
  if !(fl.all fun a => a == "--per-sequences" || a == "--ref-sequence" || a == ref || a == "--count-profile" || a == pf) then .unmod
  else if !(flag fl "--per-sequences" || perDefault == "true") then .unmod
  else if !wellFormed rows then .unmod
  else
  let L := lenOf rows
  let alpha := autoAlphabet (rows.map Prod.snd)
  let prof ← profileOf files pf
  let refseq ← refOf rows files ref
  let g ← gapCounters rows L prof
  let m ← mutCounters rows L alpha prof
  let chars := uniqueCharacters rows
  let header := "sequence gaps gapsstart gapsend gapsuniques" ++ (if prof.isSome then " gapsnew gapsboth" else "") ++
    " gapsopenning mutuniques" ++ (if prof.isSome then " mutsnew mutsboth" else "") ++
    (if refseq.isSome then " mutref" else "") ++ " length" ++ String.join (chars.map fun c => " " ++ charOf c) ++ "|"
  let lines ← rows.zipIdx.foldl (fun (acc : R (List String)) (r, i) => do
    let ls ← acc
    let gaps := r.2.count GAP
    let cs := countsBy toUpper r.2
    let mutref ← (match refseq with
      | none => (.ok "" : R String)
      | some rf => match numMutationsVsRef alpha r.2 rf with
        | none => .fail
        | some k => .ok (" " ++ toString k))
    pure (ls ++ [r.1 ++ " " ++ toString gaps ++ " " ++ toString (numGapsFromStart r.2) ++ " " ++ toString (numGapsFromEnd r.2) ++
      " " ++ toString (g.1.getD i 0) ++
      (if prof.isSome then " " ++ toString (g.2.1.getD i 0) ++ " " ++ toString (g.2.2.getD i 0) else "") ++
      " " ++ toString (numGapsOpenning r.2) ++ " " ++ toString (m.1.getD i 0) ++
      (if prof.isSome then " " ++ toString (m.2.1.getD i 0) ++ " " ++ toString (m.2.2.getD i 0) else "") ++
      mutref ++ " " ++ toString (r.2.length - gaps) ++
      String.join (chars.map fun c => " " ++ toString ((lookup c cs).getD 0)) ++ "|"])) (.ok [])
  pure (header ++ String.join lines)

/-- `stats gaps [--from-start] [--from-end] [--unique] [--openning] --count-profile <file>`: the profile is read
whatever the other flags are; it only changes the `--unique` lines (`name unique new both`); the flags are looked at in
the order from-start, from-end, unique, openning. -/
def gapsProfExpected (rows : Rows) (files : List (String × String)) (fl : List String) : R String := do
  let pf := (opt fl "--count-profile").getD (← ofOpt (effective "statGapsCmd" "count-profile"))
  let dflt (f : String) : R Bool := do let d ← ofOpt (effective "statGapsCmd" f); pure (flag fl ("--" ++ f) || d == "true")
  if !(fl.all fun a => a == "--from-start" || a == "--from-end" || a == "--unique" || a == "--openning" || a == "--count-profile" || a == pf) then .unmod
  else if !wellFormed rows then .unmod
  else
  let L := lenOf rows
  let prof ← profileOf files pf
  let fs ← dflt "from-start"; let fe ← dflt "from-end"; let un ← dflt "unique"; let op ← dflt "openning"
  let g ← (if un then gapCounters rows L prof else (.ok ([], [], []) : R (List Nat × List Nat × List Nat)))
  pure (String.join (rows.zipIdx.map fun (r, i) =>
    r.1 ++ " " ++
    (if fs then toString (numGapsFromStart r.2)
     else if fe then toString (numGapsFromEnd r.2)
     else if un then toString (g.1.getD i 0) ++
       (if prof.isSome then " " ++ toString (g.2.1.getD i 0) ++ " " ++ toString (g.2.2.getD i 0) else "")
     else if op then toString (numGapsOpenning r.2)
     else toString (r.2.count GAP)) ++ "|"))

/-- `stats mutations [--unique] [--ref-sequence <name or file>] --count-profile <file>`: the profile is read first; a
reference has priority (one count per row, the profile is not used); with `--unique` the lines are
`name unique new both` - and a profile of another length is a failing status (after the lines were printed);
neither: refused. -/
def mutsProfExpected (rows : Rows) (files : List (String × String)) (fl : List String) : R String := do
  let pf := (opt fl "--count-profile").getD (← ofOpt (effective "statMutationsCmd" "count-profile"))
  let ref := (opt fl "--ref-sequence").getD (← ofOpt (effective "statMutationsCmd" "ref-sequence"))
  let uniqueDefault ← ofOpt (effective "statMutationsCmd" "unique")
  if !(fl.all fun a => a == "--unique" || a == "--ref-sequence" || a == ref || a == "--count-profile" || a == pf) then .unmod
  else if !wellFormed rows then .unmod
  else
  let L := lenOf rows
  let alpha := autoAlphabet (rows.map Prod.snd)
  let prof ← profileOf files pf
  let refseq ← refOf rows files ref
  match refseq with
  | some rf =>
    match rows.mapM (fun x => (numMutationsVsRef alpha x.2 rf).map fun k => x.1 ++ " " ++ toString k ++ "|") with
    | some ls => pure (String.join ls)
    | none => .fail
  | none =>
    if flag fl "--unique" || uniqueDefault == "true" then do
      let m ← mutCounters rows L alpha prof
      pure (String.join (rows.zipIdx.map fun (r, i) => r.1 ++ " " ++ toString (m.1.getD i 0) ++
        (if prof.isSome then " " ++ toString (m.2.1.getD i 0) ++ " " ++ toString (m.2.2.getD i 0) else "") ++ "|"))
    else .fail

def decodeFiles (files : String) : List (String × String) :=
  if files == "_" then [] else (files.splitOn ";;").filterMap fun f =>
    match f.splitOn "=" with
    | n :: rest => some (n, "=".intercalate rest)
    | _ => none

def answer (withFiles : Bool) (r : R String) (impl : String) : Option Ans :=
  let sfx := if withFiles then " files=" else ""
  match r with
  | .unmod => some ⟨"unmodelled", "na"⟩
  | .fail => let m := "rc=1 out=" ++ sfx; some ⟨m, verdictOf (impl == m) failCli⟩
  | .ok out => let m := "rc=0 out=" ++ out ++ sfx; some ⟨m, verdictOf (impl == m) failCli⟩

/-- which of the three commands an argument list is (only lists this file is about: the others are left to the other
handlers) -/
def route (rows : Rows) (files : List (String × String)) (argv : List String) : Option (R String) :=
  match argv with
  | "stats" :: "gaps" :: fl => if fl.contains "--count-profile" then some (gapsProfExpected rows files fl) else none
  | "stats" :: "mutations" :: fl =>
    if fl.contains "--count-profile" && !fl.contains "list" then some (mutsProfExpected rows files fl) else none
  | "stats" :: fl =>
    -- `stats char --per-sequences` and the like are not this command: left to the other handlers
    if fl.contains "--per-sequences" then
      match perSeqExpected rows files fl with
      | .unmod => none
      | r => some r
    else none
  | _ => none

def handle : Handler := fun op args impl =>
  match op, args with
  | "cli_lib", stdin :: argv =>
    match route (parseFasta (stdin.splitOn "|")) [] argv with
    | some r => answer false r impl
    | none => none
  | "cli_libf", stdin :: files :: argv =>
    match route (parseFasta (stdin.splitOn "|")) (decodeFiles files) argv with
    | some r => answer true r impl
    | none => none
  | _, _ => none

end Gv.Oracle.CliStatsSeqOps
