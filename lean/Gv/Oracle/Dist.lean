import Gv.Oracle.Common
import Gv.Model.Dist
import Gv.Spec.Dist
/-!
Oracle handler of property C07 (`distmatrix`).

* **model** = the hand-written model (`Model/Dist.lean`) + the regenerated estimators
  (`Gen/NumericDist.lean`) run at `Float`.  Floats travel as IEEE bit patterns (16 hex digits), so
  the comparison with the implementation is exact for the NaN / ±Inf / finite class and exact to
  the bit for everything that only uses `+ - * /` (raw distance, p-distance: i.e. the counters);
  entries that went through `log` / `pow` are compared with relative tolerance 1e-9.  When they
  agree the implementation's string is echoed as the model result.
* **verdict** = the C07 predicate evaluated on the *implementation's* matrix against the published
  formulas (`Spec/Published.lean`) applied to counts and base frequencies computed independently
  of the model (`Spec/Dist.lean`).
-/
namespace Gv.Oracle.DistOps
open Gv Gv.Oracle Gv.Model.Dist

/-! ### codec -/

def hexDigits : List Char := "0123456789abcdef".toList

def hex64 (u : UInt64) : String :=
  String.ofList ((List.range 16).map fun k => hexDigits.getD ((u >>> (UInt64.ofNat (4 * (15 - k)))) &&& 15).toNat '0')

def parseHex64 (s : String) : Option UInt64 :=
  if s.length != 16 then none else
  s.toList.foldlM (fun (acc : UInt64) c => (hexVal c).map fun v => acc * 16 + UInt64.ofNat v) 0

def encFloat (x : Float) : String := hex64 x.toBits
def decFloat (s : String) : Option Float := (parseHex64 s).map Float.ofBits

def encMatrix (m : List (List Float)) : String :=
  ";".intercalate (m.map fun r => ",".intercalate (r.map encFloat))

def decMatrix (s : String) : Option (List (List Float)) :=
  (s.splitOn ";").mapM fun r => (r.splitOn ",").mapM decFloat

/-- `n` or `n/d` with naturals: the float is the correctly rounded quotient (same operation in Go) -/
def decRatio (s : String) : Option Float :=
  match s.splitOn "/" with
  | [n] => n.toNat?.map Float.ofNat
  | [n, d] => do let a ← n.toNat?; let b ← d.toNat?; pure (Float.ofNat a / Float.ofNat b)
  | _ => none

def decWeights (s : String) : Option (Option (List Float)) :=
  if s == "_" then some none else ((s.splitOn ",").mapM decRatio).map some

/-! ### comparison of floats -/

def fclass (x : Float) : Nat := if x.isNaN then 0 else if x.isInf then (if x > 0 then 1 else 2) else 3

def close (tol : Float) (a b : Float) : Bool :=
  fclass a == fclass b &&
  (fclass a != 3 || a == b || (a - b).abs ≤ tol * (if a.abs > b.abs then a.abs else b.abs) || (a - b).abs ≤ 1e-12)

/-- exact: same class, and finite values equal (−0 = +0) -/
def sameExact (a b : Float) : Bool := fclass a == fclass b && (fclass a != 3 || a == b)

def matAll (f : Float → Float → Bool) (a b : List (List Float)) : Bool :=
  a.length == b.length && (a.zip b).all fun (r, s) => r.length == s.length && (r.zip s).all fun (x, y) => f x y

/-! ### the C07 predicate on the implementation's matrix -/

/-- what the published estimator says about one pair -/
structure PairSpec where
  /-- `some v`: defined with value `v`; `none`: undefined -/
  value : Option Float
  /-- a logarithm argument is within 1e-9 of the boundary of the domain without being exactly 0: rounding decides -/
  borderline : Bool
  /-- observed proportion of differing sites (corrected models) -/
  observed : Float
  /-- no counted difference and at least one compared site -/
  noDiff : Bool
  corrected : Bool
  /-- a logarithm argument evaluates to exactly 0 here: over the reals the estimator is undefined (infinite), but the
  implementation, evaluating the same expression in another order, may see a positive argument of the size of one
  rounding error and report `-k·log(1e-16)`: accepted as long as that entry is not smaller than any properly defined
  entry of the matrix ("never as a small … distance"), and it may then serve as the matrix-wide maximum -/
  zeroArg : Bool := false

def modeOf (m : DModel) (gapMode : Int) : Spec.Dist.GapMode :=
  if m == .raw || m == .pdist then
    (if gapMode == Gen.c_GAP_COUNT_ALL then .all else if gapMode == Gen.c_GAP_COUNT_INTERNAL then .internal else .none)
  else .none

open Gv.Spec.Published in
/-- TN93 with gamma rates before the constant term is simplified with `πR + πY = 1`
(`2a [Σ kᵢ eᵢ^(-1/a) − Σ kᵢ]`): only used to recognise a matrix computed from frequencies that do
not sum to one (attribution of a failure to `probaNt`), never as the expected value -/
def tn93GammaUnnormalised (a πA πC πG πT P1 P2 Q : Float) : Float :=
  let πR := πA + πG
  let πY := πC + πT
  let k1 := πA * πG / πR
  let k2 := πC * πT / πY
  let k3 := πR * πY - πA * πG * πY / πR - πC * πT * πR / πY
  2 * a * (k1 * Float.pow (tn93E2 πA πC πG πT P1 Q) (-(1 / a)) + k2 * Float.pow (tn93E3 πA πC πG πT P2 Q) (-(1 / a))
           + k3 * Float.pow (tn93E1 πA πC πG πT Q) (-(1 / a)) - k1 - k2 - k3)

open Gv.Spec.Published in
def pairSpec (attrib : Bool) (c : Cfg Float) (kept : Nat → Bool) (π : Float × Float × Float × Float) (s t : Seq) : PairSpec :=
  let cnt := Spec.Dist.counts (modeOf c.model c.gapMode) (c.model == .pdist && c.rmAmb) kept c.weights s t
  let n := cnt.total
  let (πA, πC, πG, πT) := π
  let mk := fun (args : List Float) (aux : Bool) (v : Float) (obs : Float) (nodiff : Bool) =>
    let defined := n > 0 && aux && args.all (· > 0)
    let border := n > 0 && (args.any fun a => a.abs < 1e-9 && a != 0)
    let zero := n > 0 && aux && (args.any fun a => a == 0) && args.all (· ≥ 0)
    (⟨if defined then some v else none, border, obs, nodiff && n > 0, true, zero⟩ : PairSpec)
  match c.model with
  | .raw => ⟨some (raw cnt.diffs), false, 0, cnt.diffs == 0 && n > 0, false, false⟩
  | .pdist => ⟨if n > 0 then some (pdist cnt.diffs n) else none, false, 0, cnt.diffs == 0 && n > 0, false, false⟩
  | .jc =>
    let p := cnt.diffs / n
    mk [1 - 4 / 3 * p] true (if c.gamma then jc69Gamma c.alpha p else jc69 p) p (cnt.diffs == 0)
  | .k2p =>
    let P := cnt.transitions / n
    let Q := cnt.transversions / n
    mk [1 - 2 * P - Q, 1 - 2 * Q] true (if c.gamma then k80Gamma c.alpha P Q else k80 P Q) (P + Q) (P + Q == 0)
  | .f81 =>
    let p := cnt.diffs / n
    let b := tajimaNeiB πA πC πG πT
    mk [1 - p / b] (b > 0) (if c.gamma then f81Gamma c.alpha πA πC πG πT p else f81 πA πC πG πT p) p (cnt.diffs == 0)
  | .f84 =>
    let P := cnt.transitions / n
    let Q := cnt.transversions / n
    let A := f84A πA πC πG πT
    let B := f84B πA πC πG πT
    let C := f84C πA πC πG πT
    mk [1 - P / (2 * A) - (A - B) * Q / (2 * A * C), 1 - Q / (2 * C)] (πA + πG > 0 && πC + πT > 0 && A > 0 && C > 0)
      (if c.gamma then f84Gamma c.alpha πA πC πG πT P Q else f84 πA πC πG πT P Q) (P + Q) (P + Q == 0)
  | .tn93 =>
    let P1 := cnt.ag / n
    let P2 := cnt.ct / n
    let Q := cnt.transversions / n
    mk [tn93E1 πA πC πG πT Q, tn93E2 πA πC πG πT P1 Q, tn93E3 πA πC πG πT P2 Q] (πA > 0 && πC > 0 && πG > 0 && πT > 0)
      (if c.gamma then (if attrib then tn93GammaUnnormalised c.alpha πA πC πG πT P1 P2 Q else tn93Gamma c.alpha πA πC πG πT P1 P2 Q)
       else tn93 πA πC πG πT P1 P2 Q) (P1 + P2 + Q) (P1 + P2 + Q == 0)

/-- pairs whose distance is requested (unordered), read independently from the ranges -/
def wanted (n : Nat) (r : List Int) (i j : Nat) : Bool :=
  match r with
  | [a, b, c, d] =>
    if a ≥ 0 && b ≥ 0 && c ≥ 0 && d ≥ 0 then
      let inR := fun (lo hi : Int) (k : Nat) => lo ≤ (k : Int) && (k : Int) ≤ hi
      i != j && ((inR a b i && inR c d j) || (inR a b j && inR c d i))
    else i != j && i < n && j < n
  | _ => i != j

def accepted (x : Float) : Bool := fclass x == 3 && x ≥ 0 && x ≤ 100000

/-- judgement of the whole matrix under one reading of the base frequencies and of the site selection
("" = nothing to object).  `raw i j` = what the (regenerated) estimator returns for the pair before
the matrix substitutes anything — only used to *name* the cause of a failure.  `attrib`: the reading
is a known departure tried only to name a cause; then only the values are compared. -/
def judge (c : Cfg Float) (rows : List Seq) (ranges : List Int) (m : List (List Float))
    (freqOverAll : Bool) (ignoreSelectionInternal : Bool) (attrib : Bool) (raw : Nat → Nat → Option Float) : String :=
  let n := rows.length
  let kept := fun l => Spec.Dist.keptSite rows c.rmGaps l
  let keptPair := fun l => if ignoreSelectionInternal && modeOf c.model c.gapMode == .internal then true else kept l
  let fr := fun b => Spec.Dist.baseFreq freqOverAll rows kept c.weights b
  let usesPi := c.model == .f81 || c.model == .f84 || c.model == .tn93
  let π : Float × Float × Float × Float := if usesPi then (fr 65, fr 67, fr 71, fr 84) else (0, 0, 0, 0)
  let ent := fun i j => (m.getD i []).getD j 0
  let idx := (List.range n).flatMap fun i => ((List.range n).filter (· > i)).map fun j => (i, j)
  let specs := idx.map fun (i, j) => ((i, j), pairSpec attrib c keptPair π (rows.getD i []) (rows.getD j []))
  let want := specs.filter fun (p, _) => wanted n ranges p.1 p.2
  -- a defined value above NT_DIST_OVER is what the code calls saturated: substitute, NaN or the value itself
  let huge := fun (s : PairSpec) => match s.value with | some v => s.corrected && !(v ≤ 100000) | none => false
  let strictlyDefined := fun (s : PairSpec) => s.value.isSome && !huge s
  -- the matrix-wide maximum over the entries of the defined pairs (strictly, or counting borderline ones),
  -- and over every accepted entry of the implementation's matrix
  let mxOf := fun (f : PairSpec → Float → Bool) => want.foldl (fun mx (p, s) =>
    let e := ent p.1 p.2
    if f s e && accepted e && e > mx then e else mx) (0 : Float)
  let correct := fun (s : PairSpec) (e : Float) => strictlyDefined s && (match s.value with | some v => close 1e-9 e v | none => false)
  let mxDef := [mxOf correct, mxOf fun s e => correct s e || s.borderline || huge s,
                mxOf fun s e => correct s e || s.borderline || huge s || s.zeroArg]
  let mxImpl := mxOf fun _ _ => true
  let isSubst := fun e => mxDef.any fun mx => close 1e-9 e (2 * mx)
  -- twice some other accepted entry of the matrix: the substitute of a maximum that was raised by a
  -- wrong finite entry elsewhere (that entry is reported on its own)
  let polluted := fun (e : Float) => !isSubst e && e > 0 && want.any fun (q, _) =>
    let x := ent q.1 q.2
    accepted x && x > 0 && close 1e-9 e (2 * x)
  let first := fun (l : List String) => (l.find? (· != "")).getD ""
  let undefinedCause := fun (p : Nat × Nat) (e : Float) =>
    let hasClamp := c.model == .jc || c.model == .f81 || c.model == .tn93
    match raw p.1 p.2 with
    | some rv =>
      if accepted rv then
        (if rv == 0 && hasClamp then "undefined-as-zero-by-clamp"
         else if c.gamma then "undefined-as-finite-by-gamma-pow"
         else "undefined-as-finite")
      else if e == 0 then "undefined-as-zero-substitute"
      else "undefined-as-finite"
    | none => "undefined-as-finite"
  first (specs.map fun (p, s) =>
    let e := ent p.1 p.2
    let r :=
    if !wanted n ranges p.1 p.2 then (if e == 0 then "" else "range-outside-nonzero")
    else if s.borderline then ""
    else match s.value with
    | some v =>
      if huge s then
        (if close 1e-9 e v || e.isNaN || (isSubst e && e > 0) || polluted e then "" else undefinedCause p e)
      else if attrib && v < -1e-9 then
        -- frequencies that do not sum to one can make F84 / TN93 negative; the matrix then substitutes
        (if isSubst e || polluted e || e == 0 || e.isNaN then "" else "formula")
      else if !close 1e-9 e v then
        (match raw p.1 p.2 with
         | some rv =>
           if rv < 0 && rv > -1e-9 && v.abs ≤ 1e-9 then "rounding-negative-substituted" else "formula"
         | none => "formula")
      else if attrib then ""
      else if s.corrected && fclass e == 3 && e < s.observed - 1e-12 then "below-observed-proportion"
      else if s.noDiff && !(e.abs ≤ 1e-12) then "nodiff-nonzero"
      else ""
    | none =>
      if e.isNaN then ""
      else if s.noDiff && e.abs ≤ 1e-12 then ""   -- equal rows, estimator undefined only through the frequencies
      else if isSubst e && e > 0 then ""
      else if polluted e then ""
      else if s.zeroArg && accepted e && e > 0 && e ≥ mxOf correct then ""
      else undefinedCause p e
    if r == "" then "" else
      r ++ s!"@pair=({p.1},{p.2}) entry={e} spec={s.value} observed={s.observed} estimator-returned={raw p.1 p.2} maxDefined={mxDef} maxImpl={mxImpl}")

def clauseOf (j : String) : String := (j.splitOn "@").headD ""

def symmetricM (m : List (List Float)) : Bool :=
  let n := m.length
  (List.range n).all fun i => (List.range n).all fun j =>
    let a := (m.getD i []).getD j 0
    let b := (m.getD j []).getD i 0
    sameExact a b

def inQuantifier (c : Cfg Float) (rows : List Seq) : Bool :=
  let L := (rows.headD []).length
  rows.length ≥ 2 && L ≥ 1 && rows.all (fun s => s.length == L && s.all fun ch => Spec.Dist.isNt ch || ch == 45) &&
  (match c.weights with | none => true | some w => w.length == L && w.all fun x => x > 0 && fclass x == 3) &&
  c.alpha > 0 && fclass c.alpha == 3

def verdictD (c : Cfg Float) (rows : List Seq) (ranges : List Int) (impl : String)
    (freqAsIs : Bool) (raw : Nat → Nat → Option Float) : String :=
  if !inQuantifier c rows then "na" else
  match pairList rows.length (ranges.getD 0 (-1)) (ranges.getD 1 (-1)) (ranges.getD 2 (-1)) (ranges.getD 3 (-1)) with
  | none => "na"   -- "range min is greater than range max": an error is the documented answer
  | some _ =>
  if !impl.startsWith "ok " then "fail:no-matrix" else
  match decMatrix ((impl.drop 3).toString) with
  | none => "fail:no-matrix"
  | some m =>
    let n := rows.length
    if m.length != n || m.any (·.length != n) then "fail:shape"
    else if !symmetricM m then "fail:symmetry"
    else if (List.range n).any (fun i => !((m.getD i []).getD i 1 == 0)) then "fail:diagonal"
    else
      let j0 := judge c rows ranges m false false false raw
      if clauseOf j0 == "" then "pass"
      else
        -- name the cause when the matrix is explained by a known departure from the property
        let usesPi := c.model == .f81 || c.model == .f84 || c.model == .tn93
        let internal := modeOf c.model c.gapMode == .internal && c.rmGaps
        if usesPi then
          let j1 := judge c rows ranges m true false true raw
          -- `freqAsIs`: the implementation's matrix is reproduced by the model with the unchanged `probaNt`;
          -- then a further cause is named under that reading, otherwise under the proper one
          if clauseOf j1 == "" then "fail:formula-freq-over-all-cells@" ++ (j0.splitOn "@").getD 1 ""
          else if freqAsIs then "fail:" ++ j1 else "fail:" ++ j0
        else if internal then
          let j1 := judge c rows ranges m false true true raw
          if clauseOf j1 == "" then "fail:formula-internal-gaps-ignore-selection@" ++ (j0.splitOn "@").getD 1 "" else "fail:" ++ j0
        else "fail:" ++ j0

/-- the verdict proper: the clause without the explanatory detail -/
def verdict (c : Cfg Float) (rows : List Seq) (ranges : List Int) (impl : String)
    (freqAsIs : Bool) (raw : Nat → Nat → Option Float) : String := clauseOf (verdictD c rows ranges impl freqAsIs raw)

/-! ### handler -/

def variants : List Variant :=
  [Variant.asIs, Variant.repaired] ++
  (([false, true].flatMap fun a => [false, true].flatMap fun b => [false, true].map fun d => (⟨a, b, d⟩ : Variant)).filter
    fun v => v != Variant.asIs && v != Variant.repaired)

def variantName (v : Variant) : String :=
  s!"internal-gaps-selection={if v.internalHonoursSelection then "repaired" else "as-is"},freq-denominator={if v.freqOverNucleotides then "repaired" else "as-is"},substitute-when-max-0={if v.substituteNaNWhenNoMax then "repaired" else "as-is"}"

/-- `distmatrix` (and its diagnostic twin `distexplain`, whose verdict also names the pair, the entry
and the published value) -/
def runMatrix (detail : Bool) (args : List String) (impl : String) : Option Ans :=
  -- an optional tenth field (rows of an alignment the same model object computed before this one) does not change
  -- what is expected: the answer is a function of the alignment and the options
  match args.take 9 with
  | [model, rmGaps, gapMode, rmAmb, gamma, alpha, weights, ranges, rows] => do
    let model ← DModel.ofString model
    let gapMode ← parseInt? gapMode
    let alpha ← decRatio alpha
    let weights ← decWeights weights
    let ranges ← decInts ranges
    let rows ← decRows rows
    let seqs := rows.map (·.2)
    let cfg : Variant → Cfg Float := fun v =>
      ⟨model, decBool rmGaps, gapMode, decBool rmAmb, decBool gamma, alpha, weights, v⟩
    let run := fun v => distMatrix (cfg v) seqs (ranges.getD 0 (-1)) (ranges.getD 1 (-1)) (ranges.getD 2 (-1)) (ranges.getD 3 (-1))
    let exact := model == .raw || model == .pdist
    let cmp := if exact then sameExact else close 1e-9
    let implM : Option (List (List Float)) := if impl.startsWith "ok " then decMatrix ((impl.drop 3).toString) else none
    let agrees := fun (r : Option (List (List Float))) =>
      match r, implM with
      | none, none => impl == "err"
      | some a, some b => matAll cmp a b
      | _, _ => false
    let asIs := run Variant.asIs
    let modelStr :=
      match variants.find? (fun v => agrees (run v)) with
      | some _ => impl
      | none => match asIs with | none => "err" | some m => "ok " ++ encMatrix m
    -- the estimator's own answer for a pair, from the first variant that reproduces the implementation
    let vUsed := (variants.find? (fun v => agrees (run v))).getD Variant.asIs
    let raw := fun (i j : Nat) =>
      match initModel (cfg vUsed) seqs with
      | none => none
      | some ini => distance (cfg vUsed) ini (ini.codes.getD i []) (ini.codes.getD j [])
    some ⟨modelStr, (if detail then verdictD else verdict) (cfg Variant.asIs) seqs ranges impl
      (!vUsed.freqOverNucleotides) raw⟩
  | _ => none

def handle : Handler := fun op args impl =>
  match op, args with
  | "distmatrix", a => runMatrix false a impl
  | "distexplain", a => runMatrix true a impl
  | "distvariant", [model, rmGaps, gapMode, rmAmb, gamma, alpha, weights, ranges, rows] => do
    -- which variant of the hand-written model reproduces the implementation on this input (diagnostic)
    let model ← DModel.ofString model
    let gapMode ← parseInt? gapMode
    let alpha ← decRatio alpha
    let weights ← decWeights weights
    let ranges ← decInts ranges
    let rows ← decRows rows
    let seqs := rows.map (·.2)
    let implM : Option (List (List Float)) := if impl.startsWith "ok " then decMatrix ((impl.drop 3).toString) else none
    let names := variants.filterMap fun v =>
      let r := distMatrix (⟨model, decBool rmGaps, gapMode, decBool rmAmb, decBool gamma, alpha, weights, v⟩ : Cfg Float) seqs
        (ranges.getD 0 (-1)) (ranges.getD 1 (-1)) (ranges.getD 2 (-1)) (ranges.getD 3 (-1))
      match r, implM with
      | some a, some b => if matAll (close 1e-9) a b then some (variantName v) else none
      | _, _ => none
    some ⟨impl, "na:" ++ "|".intercalate names⟩
  | _, _ => none

end Gv.Oracle.DistOps
