import Gv.Oracle.Common
/-!
The oracle's line loop: reads `<id> \t <impl result> \t <op> \t <arg>...` and prints
`<id> \t <model result> \t <verdict>`.  `Main.lean` links every handler; `Mains/Cxx.lean` links only
the handlers (hence only the regenerated tables) that property Cxx needs, so that a source change which
the translator cannot follow in one area does not take the checks of unrelated properties down.
-/
open Gv Gv.Oracle

namespace Gv.Oracle

def answerWith (handlers : List Handler) (op : String) (args : List String) (impl : String) : Ans :=
  match handlers.findSome? (fun h => h op args impl) with
  | some a => a
  | none => ⟨"bad-op", "na"⟩

partial def loopWith (handlers : List Handler) (h out : IO.FS.Stream) : IO Unit := do
  let line ← h.getLine
  if line.isEmpty then return ()
  let line := if line.back == '\n' then (line.dropEnd 1).toString else line
  match line.splitOn "\t" with
  | id :: impl :: op :: args =>
    let a := answerWith handlers op args impl
    out.putStrLn (id ++ "\t" ++ a.model ++ "\t" ++ a.verdict)
  | _ => out.putStrLn "?\tbad-line\tna"
  loopWith handlers h out

def runOracle (handlers : List Handler) : IO Unit := do
  loopWith handlers (← IO.getStdin) (← IO.getStdout)

end Gv.Oracle
