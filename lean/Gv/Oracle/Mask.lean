import Gv.Oracle.Common
import Gv.Model.Mask
import Gv.Spec.Mask
/-! Oracle handlers for C15 (masking). -/
namespace Gv.Oracle.MaskOps
open Gv Gv.Oracle Gv.Model

def lenOf (rows : Rows) : Int := match rows with | r :: _ => (r.2.length : Int) | [] => -1

def decRep (s : String) : MaskRep :=
  if s == "_" || s == "AMBIG" then .ambig
  else if s == "GAP" then .gap
  else if s == "MAJ" then .maj
  else match bytesOfString s with
    | [c] => .char c
    | _ => .bad

/-- naive most frequent character: highest count, lowest byte on ties -/
def naiveMajority (col : List Byte) : Byte :=
  let best := col.foldl (fun (b : Byte × Nat) c =>
    let n := col.count c
    if n > b.2 || (n == b.2 && c < b.1) then (c, n) else b) (255, 0)
  best.1

def render (o : Option Rows) (L : Int) : String :=
  match o with
  | some r => "ok " ++ toString L ++ " " ++ encRows r
  | none => "err"

/-- `MaskOccurences`: model result and verdict of the independently stated predicate on `impl` -/
def occAnswer (alpha : Nat) (rows : Rows) (ref : String) (mo : Int) (mr : MaskRep) (viaUnique : Bool) (impl : String) : Ans :=
    let L := lenOf rows
    let m := render (if viaUnique then maskUnique rows L alpha ref mr else maskOccurences rows L alpha ref mo mr) L
    let refRow := (rows.find? fun r => r.1 == ref).map Prod.snd
    let fixedRep : Option Byte := match mr with
      | .ambig => if alpha == 0 then some 88 else if alpha == 1 then some 78 else none
      | .gap => some 45 | .maj => some 46 | .char c => some c | .bad => none
    let exp :=
      if fixedRep.isNone || (ref != "" && refRow.isNone) then "err"
      else
        let rr := refRow.getD []
        let out := rows.map fun r => (r.1, r.2.zipIdx.map fun (c, i) =>
          -- residues that count in column i: rows other than the reference, different from it (or facing a gap in it)
          let counts (x : String × Seq) : Bool :=
            ref == "" || (x.1 != ref && (x.2.getD i 0 != rr.getD i 0 || rr.getD i 0 == 45))
          let counted := (rows.filter counts).map fun x => x.2.getD i 0
          let rep := if mr == .maj then (if counted.isEmpty then 0 else naiveMajority counted) else fixedRep.getD 0
          let n := counted.count c
          if counts r && c != 45 && n > 0 && (n : Int) ≤ mo && (counted.isEmpty || c != rep) then rep else c)
        "ok " ++ toString L ++ " " ++ encRows out
    -- second, cell-by-cell statement: the definitions the theorems of `Gv.Props.C15` are about
    let exp2 :=
      if fixedRep.isNone || (ref != "" && refRow.isNone) then "err"
      else
        let rr := refRow.getD []
        let out := rows.map fun r => (r.1, (List.range L.toNat).map fun i => Spec.maskOccCell rows ref rr mo mr (fixedRep.getD 0) i r)
        "ok " ++ toString L ++ " " ++ encRows out
    ⟨m, verdictOf (impl == exp && impl == exp2) (if impl.startsWith "panic" then "crash" else "maskocc-spec")⟩

def handle : Handler := fun op args impl =>
  match op, args with
  | "mask", [alpha, rows, ref, st, ln, rep, nogap, noref] => do
    let alpha ← alpha.toNat?
    let rows ← decRows rows
    let st ← parseInt? st
    let ln ← parseInt? ln
    let L := lenOf rows
    let ref := if ref == "_" then "" else ref
    let mr := decRep rep
    let (nogap, noref) := (decBool nogap, decBool noref)
    let m := render (mask rows L alpha ref st ln mr nogap noref) L
    -- independent statement
    let protectRef := noref && ref != ""
    let refRow := (rows.find? fun r => r.1 == ref).map Prod.snd
    let fixedRep : Option Byte := match mr with
      | .ambig => if alpha == 0 then some 88 else if alpha == 1 then some 78 else none
      | .gap => some 45 | .maj => some 46 | .char c => some c | .bad => none
    let exp :=
      if st < 0 || st > L || fixedRep.isNone || (protectRef && refRow.isNone) then "err"
      else
        let out := rows.map fun r => (r.1, r.2.zipIdx.map fun (c, i) =>
          let inWin := st ≤ (i : Int) && (i : Int) < st + ln
          let prot := (nogap && c == 45) || (protectRef && some c == (refRow.getD [])[i]?)
          if inWin && !prot then (if mr == .maj then naiveMajority (columnAt rows i) else fixedRep.getD 0) else c)
        "ok " ++ toString L ++ " " ++ encRows out
    some ⟨m, verdictOf (impl == exp) (if impl.startsWith "panic" then "crash" else "mask-spec")⟩
  | "maskocc", [alpha, rows, ref, mo, rep] => do
    let alpha ← alpha.toNat?
    let rows ← decRows rows
    let mo ← parseInt? mo
    let ref := if ref == "_" then "" else ref
    some (occAnswer alpha rows ref mo (decRep rep) false impl)
  | "maskuniq", [alpha, rows, ref, rep] => do
    let alpha ← alpha.toNat?
    let rows ← decRows rows
    let ref := if ref == "_" then "" else ref
    some (occAnswer alpha rows ref 1 (decRep rep) true impl)
  | _, _ => none

end Gv.Oracle.MaskOps
