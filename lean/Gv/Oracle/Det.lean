import Gv.Oracle.Common
import Gv.Model.Cli
import Gv.Gen.Tables
import Gv.Spec.Rand
/-!
Oracle handlers of property C11.

* `det` / `detchain` / `detboot`: the driver ran the freshly built binary several times (thread counts,
  reformat chains, seqboot + distance against distboot) and reports `same …` or `differ …`; the model's
  answer is always `same` (the command line is a function of input, flags and seed).
* `detmulti`: a command given a Phylip input with several alignments must behave as on each alignment
  alone, one after the other (stdout and every file written).
* `cli_seeded <stdin> <argv…>`: the bytes a seeded command must print, from the C10 programs run on the
  Go generator replica seeded as `cmd/root.go` seeds it — ties the `--seed` handling, the order of the
  draws in the command loops and the FASTA writer to the model.
-/
namespace Gv.Oracle.DetOps
open Gv Gv.Oracle Gv.Model Gv.Model.Cli

def parseFasta : List String → Rows
  | h :: q :: t => if h.startsWith ">" then ((h.drop 1).toString, bytesOfString q) :: parseFasta t else parseFasta (q :: t)
  | _ => []

def wrap (w : Nat) (s : List Byte) : List (List Byte) :=
  let rec go (fuel : Nat) (s : List Byte) (acc : List (List Byte)) : List (List Byte) :=
    match fuel with
    | 0 => acc.reverse
    | fuel + 1 => if s.length ≤ w then (s :: acc).reverse else go fuel (s.drop w) (s.take w :: acc)
  go (s.length + 1) s []

/-- `fasta.WriteAlignment`, newline as `|` -/
def fasta (r : Rows) : String :=
  String.join (r.map fun x => ">" ++ x.1 ++ "|" ++ String.join ((wrap Gen.c_FASTA_LINE.toNat x.2).map fun l => stringOfBytes l ++ "|"))

/-- decimal literal `ddd.ddd` -/
def parseDec (s : String) : Option Float :=
  match s.splitOn "." with
  | [a] => a.toNat?.map Float.ofNat
  | [a, b] => do
    let x ← (a ++ b).toNat?
    if b.all Char.isDigit then pure (Float.ofScientific x true b.length) else none
  | _ => none

def sameVerdict (impl what : String) : Ans :=
  ⟨"same", if impl.startsWith "same" then "pass" else "fail:" ++ what⟩

def handle : Handler := fun op args impl =>
  match op, args with
  | "det", _ => some (sameVerdict impl "same-command-different-bytes")
  | "detchain", _ => some (sameVerdict impl "reformat-chain-changes-bytes")
  | "detboot", _ => some (sameVerdict impl "distboot-differs-from-seqboot-then-distance")
  | "detdist", _ => some (sameVerdict impl "compute-distance-differs-from-the-library-call")
  | "detgz", _ => some (sameVerdict impl "file-written-compressed-differs-from-plain")
  | "detmulti", _ => some (sameVerdict impl "multi-alignment-input-differs-from-alignments-one-by-one")
  | "cli_seeded", stdin :: argv => do
    let rows := parseFasta (stdin.splitOn "|")
    let n := rows.length
    let L : Nat := Spec.width rows
    let out : Option String :=
      match argv with
      | ["shuffle", "seqs", "--seed", s] => do
        let s ← parseInt? s
        pure ("rc=0 out=" ++ fasta (runCmd (shuffleSequences rows) s 0))
      | ["sample", "seqs", "-n", k, "-s", m, "--seed", s] => do
        let s ← parseInt? s; let k ← parseInt? k; let m ← m.toNat?
        if k < 1 || k > n then pure "rc=1 out=" else
        pure ("rc=0 out=" ++ String.join ((runCmd (replM m (sampleRows k.toNat rows)) s 0).map fasta))
      | ["sample", "sites", "-l", len, "--seed", s] => do
        let s ← parseInt? s; let len ← parseInt? len
        if len > L || len ≤ 0 then pure "rc=1 out=" else
        pure ("rc=0 out=" ++ fasta (runCmd (randSubAlign len.toNat L true rows) s 0))
      | ["sample", "sites", "-l", len, "--consecutive=false", "--seed", s] => do
        let s ← parseInt? s; let len ← parseInt? len
        if len > L || len ≤ 0 then pure "rc=1 out=" else
        pure ("rc=0 out=" ++ fasta (runCmd (randSubAlign len.toNat L false rows) s 0))
      | ["mutate", "snvs", "-r", r, "--seed", s] => do
        let s ← parseInt? s; let r ← parseDec r
        pure ("rc=0 out=" ++ fasta (runCmd (mutate r Gen.stdnucleotides rows) s 0))
      | _ => none
    match out with
    | some m => some ⟨m, verdictOf (impl == m) "seeded-command-bytes"⟩
    | none => some ⟨"bad-args", "na"⟩
  | _, _ => none

end Gv.Oracle.DetOps
