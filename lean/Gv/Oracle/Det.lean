import Gv.Oracle.Common
import Gv.Model.Cli
import Gv.Gen.Tables
import Gv.Spec.Rand
import Gv.Oracle.CliDefaults
import Gv.Model.Fmt.Phylip
/-!
Oracle handlers of property C11.

* `det` / `detchain` / `detboot`: the driver ran the freshly built binary several times (thread counts,
  reformat chains, seqboot + distance against distboot) and reports `same …` or `differ …`; the model's
  answer is always `same` (the command line is a function of input, flags and seed).
* `detmulti`: a command given a Phylip input with several alignments must behave as on each alignment
  alone, one after the other (stdout and every file written).
* `cli_seeded <stdin> <argv…>`: the bytes a seeded command must print, from the C10 programs run on the
  Go generator replica seeded as `cmd/root.go` seeds it — ties the `--seed` handling, the order of the
  draws in the command loops and the FASTA writer to the model.  Five commands with a fixed argument
  layout (shuffle seqs, sample seqs, sample sites ×2, mutate snvs) and, with flags in any order and
  defaults read from the flag registrations (`seededFlags`): shuffle sites / swap / recomb / rogue,
  mutate gaps.
* `cli_libf <stdin> <files> sample rarefy …` / `… build seqboot …` (`seededFiles`): the same for the two
  seeded commands that need a side file (counts) or write files only (replicates); every other
  `cli_libf` case is left to the handlers of the other properties.
-/
namespace Gv.Oracle.DetOps
open Gv Gv.Oracle Gv.Model Gv.Model.Cli

def parseFasta : List String → Rows
  | h :: q :: t => if h.startsWith ">" then ((h.drop 1).toString, bytesOfString q) :: parseFasta t else parseFasta (q :: t)
  | _ => []

def wrap (w : Nat) (s : List Byte) : List (List Byte) :=
  let rec go (fuel : Nat) (s : List Byte) (acc : List (List Byte)) : List (List Byte) :=
    match fuel with
    | 0 => acc.reverse
    | fuel + 1 => if s.length ≤ w then (s :: acc).reverse else go fuel (s.drop w) (s.take w :: acc)
  go (s.length + 1) s []

/-- `fasta.WriteAlignment`, newline as `|` -/
def fasta (r : Rows) : String :=
  String.join (r.map fun x => ">" ++ x.1 ++ "|" ++ String.join ((wrap Gen.c_FASTA_LINE.toNat x.2).map fun l => stringOfBytes l ++ "|"))

/-- decimal literal `ddd.ddd` -/
def parseDec (s : String) : Option Float :=
  match s.splitOn "." with
  | [a] => a.toNat?.map Float.ofNat
  | [a, b] => do
    let x ← (a ++ b).toNat?
    if b.all Char.isDigit then pure (Float.ofScientific x true b.length) else none
  | _ => none

/-- signed decimal literal -/
def parseSDec (s : String) : Option Float :=
  match s.toList with
  | '-' :: t => (parseDec (String.ofList t)).map fun x => -x
  | _ => parseDec s

/-- the flags of a seeded command: `--flag value` pairs and switches (`--flag`, value `true`), short names
replaced through `alias`; `none` when a flag is not one of `known` or a value is missing -/
def parseOpts (alias : List (String × String)) (switches known : List String) : List String → Option (List (String × String))
  | [] => some []
  | a :: rest =>
    let a := ((alias.find? (·.1 == a)).map (·.2)).getD a
    if !known.contains a then none
    else if switches.contains a then (parseOpts alias switches known rest).map fun l => (a, "true") :: l
    else match rest with
      | [] => none
      | v :: rest' => (parseOpts alias switches known rest').map fun l => (a, v) :: l

/-- value of `--flag`: the last occurrence on the command line, else the default registered in `cmd/*.go` -/
def optOr (opts : List (String × String)) (cmd flag : String) : Option String :=
  match opts.reverse.find? (·.1 == "--" ++ flag) with
  | some v => some v.2
  | none => CliDefaults.effective cmd flag

def seedOf (opts : List (String × String)) : Option Int :=
  (opts.reverse.find? (·.1 == "--seed")).bind fun v => parseInt? v.2

def nameLines (l : List String) : String := String.join (l.map fun n => n ++ "|")

/-- where a list of names goes: appended to stdout, dropped (`none` = /dev/null); any other file is not modelled -/
def namesTo (file : String) (l : List String) : Option String :=
  if file == "stdout" || file == "-" then some (nameLines l) else if file == "none" then some "" else none

/-- the seeded commands given as `cmd sub <flags…>` (flags in any order, defaults from the flag registrations) -/
def seededFlags (rows : Rows) (argv : List String) : Option String :=
  let n := rows.length
  let L : Nat := Spec.width rows
  match argv with
  | "shuffle" :: "sites" :: fl => do
    -- cmd/sites.go: per alignment `ShuffleSites(rate, rogue, stable-rogues)`, the alignment, then the rogue names
    let o ← parseOpts [("-r", "--rate")] ["--stable-rogues"] ["--seed", "--rate", "--rogue", "--stable-rogues", "--rogue-file"] fl
    let s ← seedOf o
    let rate ← parseSDec (← optOr o "sitesCmd" "rate")
    let rogue ← parseSDec (← optOr o "sitesCmd" "rogue")
    let stable := (← optOr o "sitesCmd" "stable-rogues") == "true"
    let rf ← optOr o "sitesCmd" "rogue-file"
    if rate < 0 || rate > 1 || rogue < 0 || rogue > 1 then pure "rc=1 out=" else
    let nbSites := fracOf rate L
    let nbRogueSites := (rate * (1.0 - rate) * Float.ofNat L).floor.toUInt64.toNat
    if nbRogueSites + nbSites > L then pure "rc=1 out=" else
    let r := runCmd (shuffleSites nbSites nbRogueSites (fracOf rogue n) stable rows) s 0
    pure ("rc=0 out=" ++ fasta r.1 ++ (← namesTo rf r.2))
  | "shuffle" :: "swap" :: fl => do
    -- cmd/swap.go: per alignment `Swap(rate, pos)`; `pos` outside [0,1] (default -1) = a random position per pair
    let o ← parseOpts [("-r", "--rate")] [] ["--seed", "--rate", "--pos"] fl
    let s ← seedOf o
    let rate ← parseSDec (← optOr o "swapCmd" "rate")
    let pos ← parseSDec (← optOr o "swapCmd" "pos")
    if rate < 0 || rate > 1 then pure "rc=1 out=" else
    let fixed : Option Nat := if pos < 0 || pos > 1 then none else some (Float.ofNat L * pos).floor.toUInt64.toNat
    pure ("rc=0 out=" ++ fasta (runCmd (swapRows (fracOf rate n) L fixed rows) s 0))
  | "shuffle" :: "recomb" :: fl => do
    -- cmd/recomb.go: per alignment `Recombine(prop-seq, prop-length, swap)`
    let o ← parseOpts [("-n", "--prop-seq"), ("-l", "--prop-length")] ["--swap"] ["--seed", "--prop-seq", "--prop-length", "--swap"] fl
    let s ← seedOf o
    let prop ← parseSDec (← optOr o "recombCmd" "prop-seq")
    let lp ← parseSDec (← optOr o "recombCmd" "prop-length")
    let sw := (← optOr o "recombCmd" "swap") == "true"
    if prop < 0 || prop > 0.5 || lp < 0 || lp > 1 then pure "rc=1 out=" else
    pure ("rc=0 out=" ++ fasta (runCmd (recombine (fracOf prop n) (fracOf lp L) L sw rows) s 0))
  | "shuffle" :: "rogue" :: fl => do
    -- cmd/rogue.go: per alignment `SimulateRogue(prop-seq, length)`, the alignment, then the rogue names; arguments
    -- outside [0,1]: nothing is drawn, nothing changes, no name
    let o ← parseOpts [("-n", "--prop-seq"), ("-l", "--length")] [] ["--seed", "--prop-seq", "--length", "--rogue-file"] fl
    let s ← seedOf o
    let prop ← parseSDec (← optOr o "rogueCmd" "prop-seq")
    let pl ← parseSDec (← optOr o "rogueCmd" "length")
    let rf ← optOr o "rogueCmd" "rogue-file"
    if prop < 0 || prop > 1 || pl < 0 || pl > 1 then pure ("rc=0 out=" ++ fasta rows ++ (← namesTo rf [])) else
    let prop := if pl == 0 then 0 else prop
    let r := runCmd (simulateRogue (fracOf prop n) (fracOf pl L) L rows) s 0
    pure ("rc=0 out=" ++ fasta r.1 ++ (← namesTo rf r.2.1))
  | "mutate" :: "gaps" :: fl => do
    -- cmd/addgaps.go: per alignment `AddGaps(rate, prop-seq)`; `--rate` is the flag of the parent command `mutate`
    let o ← parseOpts [("-r", "--rate"), ("-n", "--prop-seq")] [] ["--seed", "--rate", "--prop-seq"] fl
    let s ← seedOf o
    let lp ← parseSDec (← optOr o "mutateCmd" "rate")
    let p ← parseSDec (← optOr o "addgapsCmd" "prop-seq")
    if p < 0 || p > 1 || lp < 0 || lp > 1 then pure ("rc=0 out=" ++ fasta rows) else
    pure ("rc=0 out=" ++ fasta (runCmd (addGaps (fracOf p n) (fracOf lp L) L rows) s 0))
  | "shuffle" :: "seqs" :: fl => do
    -- cmd/seqs.go: per alignment `ShuffleSequences()`
    let o ← parseOpts [] [] ["--seed"] fl
    let s ← seedOf o
    if n == 0 then none else
    pure ("rc=0 out=" ++ fasta (runCmd (shuffleSequences rows) s 0))
  | "sample" :: "seqs" :: fl => do
    -- cmd/sampleseq.go: per alignment `--nb-samples` times `Sample(--nb-seq)`, every sample written in turn; a size
    -- outside [1, number of rows] is an error (at the first sample: without samples nothing is drawn, nothing fails)
    let o ← parseOpts [("-n", "--nb-seq"), ("-s", "--nb-samples"), ("-o", "--output")] [] ["--seed", "--nb-seq", "--nb-samples", "--output"] fl
    let s ← seedOf o
    let k ← parseInt? (← optOr o "sampleseqCmd" "nb-seq")
    let m ← parseInt? (← optOr o "sampleseqCmd" "nb-samples")
    let out ← optOr o "sampleseqCmd" "output"
    if n == 0 || !(out == "stdout" || out == "-") then none else
    if m ≤ 0 then pure "rc=0 out=" else
    if k < 1 || k > n then pure "rc=1 out=" else
    pure ("rc=0 out=" ++ String.join ((runCmd (replM m.toNat (sampleRows k.toNat rows)) s 0).map fasta))
  | "sample" :: "sites" :: fl => do
    -- cmd/samplesites.go, one sample on stdout (`--nsamples` above 1 writes files: `seededFiles`); `--consecutive`
    -- is a switch that takes its value after `=`
    let fl' := fl.map fun a => if a == "--consecutive=false" then "--scattered" else if a == "--consecutive=true" then "--consecutive" else a
    let o ← parseOpts [("-l", "--length"), ("-n", "--nsamples"), ("-o", "--output")] ["--consecutive", "--scattered"]
      ["--seed", "--length", "--nsamples", "--output", "--consecutive", "--scattered"] fl'
    let s ← seedOf o
    let len ← parseInt? (← optOr o "samplesitesCmd" "length")
    let m ← parseInt? (← optOr o "samplesitesCmd" "nsamples")
    let out ← optOr o "samplesitesCmd" "output"
    -- the last of `--consecutive` / `--consecutive=false` decides, else the registered default
    let cons ← match (o.reverse.find? fun x => x.1 == "--consecutive" || x.1 == "--scattered") with
      | some x => some (x.1 == "--consecutive")
      | none => (CliDefaults.effective "samplesitesCmd" "consecutive").map (· == "true")
    if n == 0 || !(out == "stdout" || out == "-") then none else
    if m ≤ 0 then pure "rc=0 out=" else
    if m != 1 then none else
    if len > L || len ≤ 0 then pure "rc=1 out=" else
    pure ("rc=0 out=" ++ fasta (runCmd (randSubAlign len.toNat L cons rows) s 0))
  | "random" :: fl => do
    -- cmd/random.go: `RandomAlignment(nucleotides | amino acids, --length, --nb-seqs)` (no input is read)
    let o ← parseOpts [("-l", "--length"), ("-n", "--nb-seqs"), ("-a", "--amino-acids"), ("-o", "--out-align")] ["--amino-acids"]
      ["--seed", "--length", "--nb-seqs", "--amino-acids", "--out-align"] fl
    let s ← seedOf o
    let len ← (← optOr o "randomCmd" "length").toNat?
    let nb ← (← optOr o "randomCmd" "nb-seqs").toNat?
    let aa := (← optOr o "randomCmd" "amino-acids") == "true"
    let out ← optOr o "randomCmd" "out-align"
    if !(out == "stdout" || out == "-") || len == 0 || nb == 0 || nb > 9999 then none else
    pure ("rc=0 out=" ++ fasta (runCmd (randomAlignment (if aa then Gen.stdaminoacid else Gen.stdnucleotides) len nb 0) s 0))
  | _ => none

/-- `phylip.WriteAlignment(al, false, false, false)`, newline as `|` -/
def phylip (r : Rows) : String :=
  (stringOfBytes (Fmt.Phylip.write false false false (r.map fun x => (bytesOfString x.1, x.2)))).replace "\n" "|"

/-- `parseCountFile` of cmd/rarefy.go on the wire form of a file (`|` newline, `~` tab): a map, a later line
replaces an earlier one of the same name; `none` = error (a line without exactly two columns, a count that is
not an integer) -/
def parseCounts (content : String) : Option (List (String × Int)) := do
  let ls := content.splitOn "|"
  let ls := if ls.getLast? == some "" then ls.dropLast else ls
  let kv ← ls.mapM fun l =>
    match l.splitOn "~" with
    | [k, v] => (parseInt? v).map fun x => (k, x)
    | _ => none
  pure (kv.foldl (fun acc e => acc.filter (fun a => a.1 != e.1) ++ [e]) [])

def filesOf (files : String) : List (String × String) :=
  if files == "_" then [] else (files.splitOn ";;").filterMap fun f =>
    match f.splitOn "=" with
    | n :: rest => some (n, "=".intercalate rest)
    | _ => none

/-- seeded commands that read or write further files (`cli_libf <stdin> <files> <argv…>`) -/
def seededFiles (rows : Rows) (files : List (String × String)) (argv : List String) : Option String :=
  let L : Nat := Spec.width rows
  let bad := "rc=1 out= files="
  match argv with
  | "sample" :: "rarefy" :: fl => do
    -- cmd/rarefy.go: the counts are read first; per alignment `replicates` calls of `Rarefy(nb-seq, counts)` on the
    -- one stream, each written at once; more than one replicate switches the output to Phylip
    let o ← parseOpts [("-n", "--nb-seq"), ("-c", "--counts"), ("-r", "--replicates")] [] ["--seed", "--nb-seq", "--counts", "--replicates"] fl
    let s ← seedOf o
    let nb ← parseInt? (← optOr o "rarefyCmd" "nb-seq")
    let m ← parseInt? (← optOr o "rarefyCmd" "replicates")
    let cf ← files.find? (·.1 == (← optOr o "rarefyCmd" "counts"))
    match parseCounts cf.2 with
    | none => pure bad
    | some cs =>
      if m ≤ 0 then pure "rc=0 out= files=" else
      let sorted := cs.mergeSort fun a b => decide (a.1 ≤ b.1)
      if sorted.any (fun c => c.2 ≤ 0) then pure bad else
      -- a negative `nb-seq` passes the test `nb >= total` and draws nothing: as 0, except that no count at all is accepted
      let empties := List.replicate m.toNat ([] : Rows)
      if nb < 0 && sorted.isEmpty then pure ("rc=0 out=" ++ String.join (empties.map (if m > 1 then phylip else fasta)) ++ " files=") else
      match rarefy nb.toNat (sorted.map fun c => (c.1, c.2.toNat)) rows with
      | none => pure bad
      | some p =>
        let outs := runCmd (replM m.toNat p) s 0
        pure ("rc=0 out=" ++ String.join (outs.map (if m > 1 then phylip else fasta)) ++ " files=")
  | "build" :: "seqboot" :: fl => do
    -- cmd/bootstrap.go (no partition, no tar / gz): replicate `i` = `BuildBootstrap(frac)` then, with `-S`,
    -- `ShuffleSequences` of the replicate, written to `<prefix><i>.fa`; nothing on stdout
    let o ← parseOpts [("-n", "--nboot"), ("-f", "--frac"), ("-o", "--out-prefix"), ("-S", "--shuf-order")] ["--shuf-order"]
      ["--seed", "--nboot", "--frac", "--out-prefix", "--shuf-order"] fl
    let s ← seedOf o
    let nboot ← parseInt? (← optOr o "seqbootCmd" "nboot")
    let f ← parseSDec (← optOr o "seqbootCmd" "frac")
    let prefix_ ← optOr o "seqbootCmd" "out-prefix"
    let shuf := (← optOr o "seqbootCmd" "shuf-order") == "true"
    if prefix_ == "none" then pure bad else
    let f := if f ≤ 0 || f > 1 then 1.0 else f
    let one : RProg Rows := RProg.bind (bootstrap (fracOf f L) L rows) fun b => if shuf then shuffleSequences b else .pure b
    let outs := runCmd (replM nboot.toNat one) s 0
    let named := (List.range outs.length).zip outs |>.map fun (i, b) => (prefix_ ++ toString i ++ ".fa", fasta b)
    let named := named.mergeSort fun a b => decide (a.1 ≤ b.1)
    pure ("rc=0 out= files=" ++ ";;".intercalate (named.map fun x => x.1 ++ "=" ++ x.2))
  | "sample" :: "sites" :: fl => do
    -- cmd/samplesites.go with `--nsamples` above 1 (FASTA input): sample `i` goes to `<output>_<i>.<extension>`, and
    -- the extension already carries its dot (`alignExtension()` = `.fa`): `<output>_<i>..fa`; nothing on stdout; the
    -- samples are drawn one after the other from the one stream
    let fl' := fl.map fun a => if a == "--consecutive=false" then "--scattered" else if a == "--consecutive=true" then "--consecutive" else a
    let o ← parseOpts [("-l", "--length"), ("-n", "--nsamples"), ("-o", "--output")] ["--consecutive", "--scattered"]
      ["--seed", "--length", "--nsamples", "--output", "--consecutive", "--scattered"] fl'
    let s ← seedOf o
    let len ← parseInt? (← optOr o "samplesitesCmd" "length")
    let m ← parseInt? (← optOr o "samplesitesCmd" "nsamples")
    let out ← optOr o "samplesitesCmd" "output"
    let cons ← match (o.reverse.find? fun x => x.1 == "--consecutive" || x.1 == "--scattered") with
      | some x => some (x.1 == "--consecutive")
      | none => (CliDefaults.effective "samplesitesCmd" "consecutive").map (· == "true")
    if rows.isEmpty || m ≤ 1 || m > 10 then none else
    if !(out.all fun c => c.isAlphanum || c == '_') || out.isEmpty then none else
    if len > L || len ≤ 0 then pure bad else
    let outs := runCmd (replM m.toNat (randSubAlign len.toNat L cons rows)) s 0
    let named := (List.range outs.length).zip outs |>.map fun (i, b) => (out ++ "_" ++ toString i ++ "." ++ ".fa", fasta b)
    pure ("rc=0 out= files=" ++ ";;".intercalate (named.map fun x => x.1 ++ "=" ++ x.2))
  | _ => none

def sameVerdict (impl what : String) : Ans :=
  ⟨"same", if impl.startsWith "same" then "pass" else "fail:" ++ what⟩

def handle : Handler := fun op args impl =>
  match op, args with
  | "det", _ => some (sameVerdict impl "same-command-different-bytes")
  | "detslow", _ => some (sameVerdict impl "same-command-different-bytes-a-second-later")
  | "detchain", _ => some (sameVerdict impl "reformat-chain-changes-bytes")
  | "detboot", _ => some (sameVerdict impl "distboot-differs-from-seqboot-then-distance")
  | "detdist", _ => some (sameVerdict impl "compute-distance-differs-from-the-library-call")
  | "detdistmulti", _ => some (sameVerdict impl "compute-distance-on-several-alignments-differs-from-the-library-call-on-each")
  | "detannot", _ => some (sameVerdict impl "annotation-file-compressed-or-on-stdin-differs-from-plain-file")
  | "detgz", _ => some (sameVerdict impl "file-written-compressed-differs-from-plain")
  | "detunion", _ => some (sameVerdict impl "rows-kept-with-several-expressions-are-not-the-union-of-the-rows-kept-with-each")
  | "detmulti", _ => some (sameVerdict impl "multi-alignment-input-differs-from-alignments-one-by-one")
  | "cli_seeded", stdin :: argv => do
    let rows := parseFasta (stdin.splitOn "|")
    let L : Nat := Spec.width rows
    let out : Option String :=
      match argv with
      | ["shuffle", "seqs", "--seed", s] => do
        let s ← parseInt? s
        pure ("rc=0 out=" ++ fasta (runCmd (shuffleSequences rows) s 0))
      -- (`sample seqs -n k -s m --seed s` is decided by `seededFlags`, which also knows that no sample means no error)
      | ["sample", "sites", "-l", len, "--seed", s] => do
        let s ← parseInt? s; let len ← parseInt? len
        if len > L || len ≤ 0 then pure "rc=1 out=" else
        pure ("rc=0 out=" ++ fasta (runCmd (randSubAlign len.toNat L true rows) s 0))
      | ["sample", "sites", "-l", len, "--consecutive=false", "--seed", s] => do
        let s ← parseInt? s; let len ← parseInt? len
        if len > L || len ≤ 0 then pure "rc=1 out=" else
        pure ("rc=0 out=" ++ fasta (runCmd (randSubAlign len.toNat L false rows) s 0))
      | ["mutate", "snvs", "-r", r, "--seed", s] => do
        let s ← parseInt? s; let r ← parseDec r
        pure ("rc=0 out=" ++ fasta (runCmd (mutate r Gen.stdnucleotides rows) s 0))
      | _ => seededFlags rows argv
    match out with
    | some m => some ⟨m, verdictOf (impl == m) "seeded-command-bytes"⟩
    | none => some ⟨"bad-args", "na"⟩
  | "cli_libf", stdin :: files :: argv =>
    -- only the seeded commands; any other `cli_libf` case is left to the handlers of the other properties
    (seededFiles (parseFasta (stdin.splitOn "|")) (filesOf files) argv).map fun m =>
      ⟨m, verdictOf (impl == m) "seeded-command-bytes"⟩
  | _, _ => none

end Gv.Oracle.DetOps
