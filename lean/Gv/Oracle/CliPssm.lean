import Gv.Oracle.Cli
import Gv.Model.Pssm
/-!
Command-line glue of `goalign stats` (the summary, see `statsSummary`) and of `goalign compute pssm [-l] [-c pseudo] [-n norm]` (cmd/pssm.go, C14) against the model of
`Pssm` (`Model/Pssm.lean`, evaluated at `Float`) and the printing code `printPSSM`: a header line with the
alphabet characters (the reader's alphabet: the 20 amino acids, else `A C G T`), then one line per site, `site+1`
and every cell as `%.3f`, tab separated (the driver shows a tab as a blank).

`fixed` is `strconv.FormatFloat(x, 'f', prec, 64)`: the exact binary value rounded to `prec` decimals, ties to even,
`NaN` / `+Inf` / `-Inf`, the sign of a negative zero kept.

* without logarithms (normalisations 0–3, no `--log`) every cell is a result of `+ * /` on counts: the bytes
  must be the model's, exactly;
* with logarithms (`--log`, logo) `math.Log` of Go and of the C library may differ in the last place: a cell must
  be the printed form of the model's value or of a value within 1e-12 (relative) of it.
-/
namespace Gv.Oracle.CliPssmOps
open Gv Gv.Oracle Gv.Model Gv.Oracle.DetOps Gv.Oracle.CliOps
open Gv.Oracle.CliDefaults (effective)

def pad (n : Nat) (s : String) : String := String.ofList (List.replicate (n - s.length) '0') ++ s

/-- `strconv.FormatFloat(x, 'f', prec, 64)` -/
def fixed (prec : Nat) (x : Float) : String :=
  let b := x.toBits.toNat
  let neg := b / 2 ^ 63 == 1
  let e := (b / 2 ^ 52) % 2048
  let f := b % 2 ^ 52
  if e == 2047 then (if f != 0 then "NaN" else if neg then "-Inf" else "+Inf") else
  -- value = m · 2^(ex - 1075)
  let m := if e == 0 then f else f + 2 ^ 52
  let ex := if e == 0 then 1 else e
  let scaled : Nat :=
    if ex ≥ 1075 then m * 2 ^ (ex - 1075) * 10 ^ prec
    else
      let num := m * 10 ^ prec
      let den := 2 ^ (1075 - ex)
      let q := num / den
      let r := num % den
      if 2 * r > den then q + 1 else if 2 * r == den then q + q % 2 else q
  let ip := scaled / 10 ^ prec
  let fp := scaled % 10 ^ prec
  (if neg then "-" else "") ++ toString ip ++ (if prec == 0 then "" else "." ++ pad prec (toString fp))

/-- a decimal flag value whose `float64` is exact (`m / 10^k` with `5^k ∣ m`, `m < 2^53`): parsed the same by
`strconv.ParseFloat` and by `Float.ofScientific`; anything else is not decided here -/
def exactDec (s : String) : Option Float :=
  match s.splitOn "." with
  | [a] => if a.all Char.isDigit && !a.isEmpty && a.length ≤ 15 then a.toNat?.map Float.ofNat else none
  | [a, b] =>
    if a.all Char.isDigit && b.all Char.isDigit && !a.isEmpty && !b.isEmpty && (a ++ b).length ≤ 15 then do
      let m ← (a ++ b).toNat?
      if m % 5 ^ b.length == 0 then some (Float.ofScientific m true b.length) else none
    else none
  | _ => none

def failCli : String := "command-line-differs-from-library-model"

def pssmVerdict (rows : Rows) (fl : List String) (impl : String) : Option Ans := do
  -- flags: `-l` / `--log`, `-c` / `--pseudo-counts x`, `-n` / `--normalization k`, each at most once
  let rec wellFormed : List String → List String → Bool
    | [], _ => true
    | a :: t, seen =>
      let canon := if a == "-l" then "--log" else if a == "-c" then "--pseudo-counts" else if a == "-n" then "--normalization" else a
      if seen.contains canon then false
      else if canon == "--log" then wellFormed t (canon :: seen)
      else if canon == "--pseudo-counts" || canon == "--normalization" then
        (match t with | _ :: t' => wellFormed t' (canon :: seen) | [] => false)
      else false
  if !wellFormed fl [] then none
  let lgDef ← effective "pssmCmd" "log"
  let lg := flag fl "-l" || flag fl "--log" || lgDef == "true"
  let psDef ← effective "pssmCmd" "pseudo-counts"
  let ps ← exactDec (((opt fl "-c").orElse fun _ => opt fl "--pseudo-counts").getD psDef)
  let nmDef ← effective "pssmCmd" "normalization"
  let nm ← parseInt? (((opt fl "-n").orElse fun _ => opt fl "--normalization").getD nmDef)
  let L := lenOf rows
  if L < 0 || rows.any (fun r => (r.2.length : Int) != L) || (rows.map Prod.fst).eraseDups.length != rows.length then none
  if rows.any fun r => r.2.any (· ≥ 128) then none
  let alpha := autoAlphabet (rows.map Prod.snd)
  match Model.pssm (α := Float) rows L alpha lg ps nm with
  | .panic => none
  | .err => some ⟨"rc=1 out=", verdictOf (impl == "rc=1 out=") failCli⟩
  | .ok t =>
    let header := String.join (t.map fun c => " " ++ charOf c.1) ++ "|"
    let line (j : Nat) (f : Float → String) : String :=
      toString (j + 1) ++ String.join (t.map fun c => " " ++ f (c.2.getD j 0.0)) ++ "|"
    let want := "rc=0 out=" ++ header ++ String.join ((List.range L.toNat).map fun j => line j (fixed 3))
    if impl == want then some ⟨want, "pass"⟩ else
    let usesLog := lg || nm == PSSM_NORM_LOGO
    if !usesLog || !impl.startsWith "rc=0 out=" then some ⟨want, "fail:" ++ failCli⟩ else
    -- cell by cell: the printed form of a value within 1e-12 of the model's
    let ls := (impl.drop 9).toString.splitOn "|"
    let near (txt : String) (x : Float) : Bool :=
      txt == fixed 3 x || txt == fixed 3 (x * (1.0 - 1e-12)) || txt == fixed 3 (x * (1.0 + 1e-12))
    let okk := ls.length == L.toNat + 2 && ls.getLast? == some "" && (ls.headD "" ++ "|") == header &&
      (((ls.drop 1).dropLast).zipIdx.all fun (l, j) =>
        match l.splitOn " " with
        | lab :: cells => lab == toString (j + 1) && cells.length == t.length &&
            (cells.zip t).all fun (txt, c) => near txt (c.2.getD j 0.0)
        | [] => false)
    some ⟨if okk then impl else want, verdictOf okk "pssm-table-differs-from-library-model"⟩

/-- `goalign stats` without sub-command and without flags (cmd/stats.go): length, number of sequences, average
number of alleles per site (`%.4f`), number of variable sites, the character table (`printCharStats(al, "*")`: sorted
upper-cased characters, count, frequency as `%f`), the alphabet.  Every number is a count or the `float64` quotient
of two counts: the bytes are exact. -/
def statsSummary (rows : Rows) : Option String := do
  let L := lenOf rows
  if L < 0 || rows.any (fun r => (r.2.length : Int) != L) || (rows.map Prod.fst).eraseDups.length != rows.length then none
  if rows.any fun r => r.2.any (· ≥ 128) then none
  let c := avgAllelesCounts rows L
  let cs := (charStats rows).mergeSort fun a b => decide (a.1 ≤ b.1)
  let total := (cs.map Prod.snd).foldl (· + ·) 0
  let a := autoAlphabet (rows.map Prod.snd)
  some ("rc=0 out=length " ++ toString L ++ "|nseqs " ++ toString rows.length ++
    "|avgalleles " ++ fixed 4 (Float.ofNat c.1 / Float.ofNat c.2) ++
    "|variable sites " ++ toString (nbVariableSites rows L) ++ "|char nb freq|" ++
    String.join (cs.map fun k => charOf k.1 ++ " " ++ toString k.2 ++ " " ++ fixed 6 (Float.ofNat k.2 / Float.ofNat total) ++ "|") ++
    "alphabet " ++ (if a == NUCLEOTIDS then "nucleotide" else if a == AMINOACIDS then "protein" else "unknown") ++ "|")

def handle : Handler := fun op args impl =>
  match op, args with
  | "cli_lib", [stdin, "stats"] =>
    match statsSummary (parseFasta (stdin.splitOn "|")) with
    | some m => some ⟨m, verdictOf (impl == m) failCli⟩
    | none => some ⟨"unmodelled", "na"⟩
  | "cli_lib", stdin :: "compute" :: "pssm" :: fl =>
    match pssmVerdict (parseFasta (stdin.splitOn "|")) fl impl with
    | some a => some a
    | none => some ⟨"unmodelled", "na"⟩
  | _, _ => none

end Gv.Oracle.CliPssmOps
