import Gv.Oracle.Common
import Gv.Oracle.Det
import Gv.Model.SW
import Gv.Oracle.CliDefaults
/-!
Command-line glue of `goalign sw` (C09) against the aligner model: the two sequences of the input aligned with
the penalties and scores given on the command line (`--gap-open` / `--gap-extend`, each on its own; `--match` /
`--mismatch` switch to match/mismatch scoring as soon as one of them is given), the alignment on stdout and the
positions, length, score, counts and the three-line picture in the log file.
-/
namespace Gv.Oracle.CliSWOps
open Gv Gv.Oracle Gv.Model.SW Gv.Oracle.DetOps

def flag (argv : List String) (f : String) : Bool := argv.contains f
def opt (argv : List String) (f : String) : Option String :=
  match argv.dropWhile (· != f) with
  | _ :: v :: _ => some v
  | _ => none

/-- a decimal with at most one digit `0` or `5` after the point, in half units -/
def half (v : String) : Option Int :=
  let neg := v.startsWith "-"
  let body := if neg then (v.drop 1).toString else v
  (match body.splitOn "." with
   | [a] => a.toNat?.map fun x => (2 * x : Nat)
   | [a, "5"] => a.toNat?.map fun x => 2 * x + 1
   | [a, "0"] => a.toNat?.map fun x => 2 * x
   | _ => none).map fun n => if neg then -(n : Int) else (n : Int)

/-- `%.2f` of `k/2` -/
def fmtHalf (k : Int) : String :=
  let a := k.natAbs
  (if k < 0 then "-" else "") ++ toString (a / 2) ++ (if a % 2 == 1 then ".50" else ".00")

def picture (r1 r2 : Seq) : Seq :=
  r1.zipWith (fun a b => if a == GAP || b == GAP then 32 else if a == b then 124 else 46) r2

def expectedSW (rows : Rows) (fl : List String) : Option String := do
  match rows with
  | [(n1, s1), (n2, s2)] =>
    -- the variable behind each flag starts from the value registered last (`Gen.CliFlags`)
    let go ← half ((opt fl "--gap-open").getD (← CliDefaults.effective "swCmd" "gap-open"))
    let ge ← half ((opt fl "--gap-extend").getD (← CliDefaults.effective "swCmd" "gap-extend"))
    let mt ← half ((opt fl "--match").getD (← CliDefaults.effective "swCmd" "match"))
    let mm ← half ((opt fl "--mismatch").getD (← CliDefaults.effective "swCmd" "mismatch"))
    let setScore := if (opt fl "--match").isSome || (opt fl "--mismatch").isSome then some (mt, mm) else none
    let a := configure 2 s1 s2 (some go) (some ge) setScore true
    if !DyadicScheme a s1.length s2.length then none else
    match align a true s1 s2 with
    | .ok r =>
      let log := match opt fl "-l" with
        | none => ""
        | some lf => lf ++ "=" ++
            s!"Query Start,End: {r.start1},{r.end1}|Subject Start,End: {r.start2},{r.end2}|Align length: {r.length}|" ++
            s!"Align Score: {fmtHalf r.score}|Align Matches: {r.nmatch}|Align Mismatches: {r.nmismatch}|Align Gaps: {r.ngaps}|" ++
            "Alignment:|" ++ stringOfBytes r.row1 ++ "|" ++ stringOfBytes (picture r.row1 r.row2) ++ "|" ++ stringOfBytes r.row2 ++ "||"
      some ("rc=0 out=" ++ fasta [(n1, r.row1), (n2, r.row2)] ++ " files=" ++ log)
    | .err => some "rc=1 out= files="
    | .panic => none
  | _ => some "rc=1 out= files="

def handle : Handler := fun op args impl =>
  match op, args with
  | "cli_libf", stdin :: _files :: "sw" :: fl =>
    match expectedSW (parseFasta (stdin.splitOn "|")) fl with
    | some m => some ⟨m, verdictOf (impl == m) "command-line-differs-from-library-model"⟩
    | none => some ⟨"unmodelled", "na"⟩
  | _, _ => none

end Gv.Oracle.CliSWOps
