import Gv.Oracle.Common
import Gv.Model.Rand
import Gv.Spec.Rand
import Gv.Gen.Tables
/-! Oracle handler for the randomised operations (C10): `rnd <op> <seed> <alphabet> <rows> <params…>`. -/
namespace Gv.Oracle.RandOps
open Gv Gv.Oracle Gv.Model

def fl (s : String) : Option Float :=
  match s.splitOn "/" with
  | [a] => a.toNat?.map Float.ofNat
  | [a, b] => do let x ← a.toNat?; let y ← b.toNat?; pure (Float.ofNat x / Float.ofNat y)
  | _ => none

def flSigned (s : String) : Option Float :=
  if s.startsWith "-" then (fl (s.drop 1).toString).map fun x => -x else fl s

def strJoin (l : List String) : String := if l.isEmpty then "_" else ",".intercalate l

def handle : Handler := fun op args impl =>
  match op, args with
  | "rnd", opn :: seed :: alpha :: rows :: ps => do
    let seed ← parseInt? seed
    let alpha ← alpha.toNat?
    let rows ← decRows rows
    let n := rows.length
    let L := Spec.width rows
    let alphabet := if alpha == 0 then Gen.stdaminoacid else Gen.stdnucleotides
    match opn, ps with
    | "shuffle", [] =>
      let m := runSeed (shuffleSequences rows) seed
      let v := match decRows impl with
        | some out => verdictOf (Spec.isRowPermutation rows out) "shuffle-not-a-row-permutation"
        | none => "fail:unparsable"
      some ⟨encRows m, v⟩
    | "bootstrap", [f] => do
      let f ← fl f
      let f := if f ≤ 0 || f > 1 then 1.0 else f
      let k := fracOf f L
      let m := runSeed (bootstrap k L rows) seed
      let v := match impl.splitOn " " with
        | [ls, r] => match decRows r, ls.toNat? with
          | some out, some l => verdictOf (l == k && Spec.isBootstrap k rows out) "bootstrap-columns-or-length"
          | _, _ => "fail:unparsable"
        | _ => "fail:unparsable"
      some ⟨toString k ++ " " ++ encRows m, v⟩
    | "sample", [nb] => do
      let nb ← parseInt? nb
      if (n : Int) < nb || nb < 1 then some ⟨"err", verdictOf (impl == "err") "sample-bad-size-must-fail"⟩ else
      let m := runSeed (sampleRows nb.toNat rows) seed
      let v := match impl.splitOn " " with
        | ["ok", r] => match decRows r with
          | some out => verdictOf (Spec.isRowSample nb.toNat rows out) "sample-not-distinct-original-rows"
          | none => "fail:unparsable"
        | _ => "fail:sample-valid-size-failed"
      some ⟨"ok " ++ encRows m, v⟩
    | "subalign", [len, cons] => do
      let len ← parseInt? len
      let cons := decBool cons
      if len > L || len ≤ 0 then some ⟨"err", verdictOf (impl == "err") "subalign-bad-length-must-fail"⟩ else
      let m := runSeed (randSubAlign len.toNat L cons rows) seed
      let v := match impl.splitOn " " with
        | ["ok", r] => match decRows r with
          | some out => verdictOf (if cons then Spec.isWindow len.toNat rows out else Spec.isColumnSample len.toNat rows out) "subalign-not-window-or-distinct-columns"
          | none => "fail:unparsable"
        | _ => "fail:subalign-valid-length-failed"
      some ⟨"ok " ++ encRows m, v⟩
    | "mutate", [r] => do
      let r ← fl r
      let m := runSeed (mutate r alphabet rows) seed
      let v := match decRows impl with
        | some out => verdictOf (Spec.isMutation alphabet rows out) "mutate-touched-gap-or-non-alphabet"
        | none => "fail:unparsable"
      some ⟨encRows m, v⟩
    | "addgaps", [lp, p] => do
      let lp ← fl lp
      let p ← fl p
      let m := if p < 0 || p > 1 || lp < 0 || lp > 1 then rows
               else runSeed (addGaps (fracOf p n) (fracOf lp L) L rows) seed
      let v := match decRows impl with
        | some out => verdictOf (Spec.isGapAddition rows out) "addgaps-changed-a-residue"
        | none => "fail:unparsable"
      some ⟨encRows m, v⟩
    | "swap", [rate, pos] => do
      let rate ← fl rate
      let pos ← flSigned pos
      if rate < 0 || rate > 1 then some ⟨"err", verdictOf (impl == "err") "swap-bad-rate-must-fail"⟩ else
      let fixed : Option Nat := if pos < 0 || pos > 1 then none else some (Float.ofNat L * pos).floor.toUInt64.toNat
      let m := runSeed (swapRows (fracOf rate n) L fixed rows) seed
      let v := match impl.splitOn " " with
        | ["ok", r] => match decRows r with
          | some out => verdictOf (Spec.columnsKeepMultiset rows out) "swap-column-multiset"
          | none => "fail:unparsable"
        | _ => "fail:swap-valid-rate-failed"
      some ⟨"ok " ++ encRows m, v⟩
    | "recombine", [prop, lp, sw] => do
      let prop ← fl prop
      let lp ← fl lp
      let sw := decBool sw
      if prop < 0 || prop > 0.5 || lp < 0 || lp > 1 then some ⟨"err", verdictOf (impl == "err") "recombine-bad-args-must-fail"⟩ else
      let m := runSeed (recombine (fracOf prop n) (fracOf lp L) L sw rows) seed
      let v := match impl.splitOn " " with
        | ["ok", r] => match decRows r with
          | some out => verdictOf (Spec.isColumnCopy rows out) "recombine-not-a-column-copy"
          | none => "fail:unparsable"
        | _ => "fail:recombine-valid-args-failed"
      some ⟨"ok " ++ encRows m, v⟩
    | "rogue", [prop, pl] => do
      let prop ← fl prop
      let pl ← fl pl
      if prop < 0 || prop > 1 || pl < 0 || pl > 1 then some ⟨encRows rows ++ " _ _", "na"⟩ else
      let prop := if pl == 0 then 0 else prop
      let r := runSeed (simulateRogue (fracOf prop n) (fracOf pl L) L rows) seed
      let v := match impl.splitOn " " with
        | [o, rg, it] => match decRows o with
          | some out => verdictOf (Spec.isRogue rows out (decStrs rg) (decStrs it)) "rogue-frame-or-partition"
          | none => "fail:unparsable"
        | _ => "fail:unparsable"
      some ⟨encRows r.1 ++ " " ++ strJoin r.2.1 ++ " " ++ strJoin r.2.2, v⟩
    | "support", [what, par, reps] => do
      -- distributional support: after K independent runs every admissible outcome must have been reached.
      -- The case is `na` unless, on an ideal uniform source, a missing outcome has probability < 1e-30.
      let K ← reps.toNat?
      let cols := (List.range L).map (Spec.col rows)
      let distinct := cols.eraseDups.length == L && (Spec.names rows).eraseDups.length == n
      let key (l : List Nat) : String := strJoin (l.map toString)
      let enough (perRun : Float) (outcomes : Nat) : Bool :=
        -- P(some outcome never reached) ≤ outcomes * (1-perRun)^K
        perRun ≥ 1 || Float.ofNat K * Float.log (1 - perRun) + Float.log (Float.ofNat outcomes) < -69.1
      let perms : List (List Nat) → Nat → List (List Nat) := fun acc _ =>
        acc.flatMap fun p => ((List.range n).filter fun i => !p.contains i).map fun i => p ++ [i]
      let res : Option (String × Bool) :=
        match what with
        | "bootstrap" => do
          let f ← fl par
          let f := if f ≤ 0 || f > 1 then 1.0 else f
          let k := fracOf f L
          if k == 0 then some ("_", true) else
          some (key (List.range L), enough (1 - Float.exp (Float.ofNat k * Float.log (1 - 1 / Float.ofNat L))) L || L == 1)
        | "sample" => do
          let nb ← par.toNat?
          if nb < 1 || nb > n then none else
          some (key (List.range n), enough (Float.ofNat nb / Float.ofNat n) n)
        | "window" => do
          let len ← par.toNat?
          if len < 1 || len > L then none else
          let m := L - len + 1
          some (key (List.range m), enough (1 / Float.ofNat m) m)
        | "columns" => do
          let len ← par.toNat?
          if len < 1 || len > L then none else
          some (key (List.range L), enough (Float.ofNat len / Float.ofNat L) L)
        | "rogue" | "shufflesites" | "addgaps" | "mutate" => do
          -- every column can be touched: with proportion `p` of the `L` columns chosen uniformly per run (and a
          -- chosen cell changing with probability at least 1/2 for rows of distinct residues), a given column stays
          -- untouched in one run with probability at most 1 - (⌊pL⌋ - 1) / (2L)
          let f ← fl par
          if f ≤ 0 || f > 1 then none else
          let k := fracOf f L
          if k < 2 || n < 2 then none else
          some (key (List.range L), enough ((Float.ofNat (k - 1)) / (2 * Float.ofNat L)) L)
        | "rarefy" =>
          -- par = "nb:c0,c1,…": row i is counted c_i times; a counted row is drawn first with probability c_i / total,
          -- so every counted row must show up within K runs
          match par.splitOn ":" with
          | [nb, cs] => do
            let nb ← nb.toNat?
            let cs ← (cs.splitOn ",").mapM String.toNat?
            let total := cs.foldl (· + ·) 0
            -- `Rarefy` refuses nb ≥ total (nothing would be left out)
            if nb < 1 || cs.length != n || total == 0 || nb ≥ total then none else
            let counted := (List.range n).filter fun i => cs.getD i 0 > 0
            let cmin := (counted.map fun i => cs.getD i 0).foldl Nat.min total
            some (key counted, enough (Float.ofNat cmin / Float.ofNat total) counted.length)
          | _ => none
        | "shuffle" =>
          if n > 4 then none else
          let ps := (List.range n).foldl perms [[]]
          let ks := ps.map fun p => String.join (p.map toString)
          some (strJoin ks, enough (1 / Float.ofNat ps.length) ps.length)
        | _ => none
      match res with
      | some (full, ok) =>
        if !distinct || !ok then some ⟨full, "na"⟩
        else if (impl.splitOn ",").contains "foreign" then
          some ⟨full, "fail:support-" ++ what ++ "-some-run-returned-something-that-is-not-admissible"⟩
        else some ⟨full, verdictOf (impl == full) ("support-" ++ what ++ "-outcome-never-reached")⟩
      | none => some ⟨"err", "na"⟩
    | "shufflesites", [rate, rrate, first] => do
      let rate ← fl rate
      let rrate ← fl rrate
      if rate < 0 || rate > 1 || rrate < 0 || rrate > 1 then some ⟨"exit", "na"⟩ else
      let nbSites := fracOf rate L
      let nbRogueSites := (rate * (1.0 - rate) * Float.ofNat L).floor.toUInt64.toNat
      let nbRogueSeq := fracOf rrate n
      let r := runSeed (shuffleSites nbSites nbRogueSites nbRogueSeq (decBool first) rows) seed
      let v := match impl.splitOn " " with
        | [o, rg] => match decRows o with
          | some out => verdictOf (Spec.columnsKeepMultiset rows out &&
              (decStrs rg).all (fun x => x == "" || (Spec.names rows).contains x)) "shufflesites-column-multiset-or-rogue-names"
          | none => "fail:unparsable"
        | _ => "fail:unparsable"
      some ⟨encRows r.1 ++ " " ++ strJoin r.2, v⟩
    | "rarefy", [nb, counts] => do
      -- Rarefy(nb, counts): exact replay, same seed same result (the harness runs it three times), and the
      -- promise: the output is a sub-list of the rows (original order), every kept row has a count
      let nb ← parseInt? nb
      let cs ← (if counts == "_" then some [] else (counts.splitOn ";").mapM fun c =>
        match c.splitOn "=" with
        | [k, v] => (parseInt? v).map fun x => (k, x)
        | _ => none)
      let sorted := cs.mergeSort fun a b => decide (a.1 ≤ b.1)
      if impl.startsWith "nondet" then some ⟨"deterministic", "fail:same-seed-different-result"⟩ else
      if nb < 0 || sorted.any (fun c => c.2 ≤ 0) || (sorted.map Prod.fst).eraseDups.length != sorted.length then
        some ⟨"err", if nb < 0 then "na" else verdictOf (impl == "err") "rarefy-bad-counts-must-fail"⟩ else
      match rarefy nb.toNat (sorted.map fun c => (c.1, c.2.toNat)) rows with
      | none => some ⟨"err", verdictOf (impl == "err") "rarefy-bad-args-must-fail"⟩
      | some p =>
        let m := runSeed p seed
        let v := match impl.splitOn " " with
          | ["ok", r] => match decRows r with
            | some out => verdictOf (out.isSublist rows && out.all (fun r => sorted.any fun c => c.1 == r.1) && out.length ≤ nb.toNat)
                            "rarefy-not-a-sublist-of-counted-rows"
            | none => "fail:unparsable"
          | _ => "fail:rarefy-valid-args-failed"
        some ⟨"ok " ++ encRows m, v⟩
    | "twice", [] => some ⟨"same", verdictOf (impl == "same") "same-seed-different-result"⟩
    | "twiceobj", [] => some ⟨"same", verdictOf (impl == "same") "same-seed-different-result-on-the-same-object"⟩
    | _, _ => none
  | _, _ => none

end Gv.Oracle.RandOps
