import Gv.Oracle.Common
import Gv.Model.Regex
/-!
`regexsub <hex pattern> <hex template> <hex input>`: Go's `regexp` (the harness) against the hand-written model of
the subset the command-line expectations use (`Gv/Model/Regex.lean`): `err` when the pattern does not compile, else
`<MatchString 0/1>:<hex of ReplaceAllString(input, template)>`.  A pattern outside the subset is answered
`unmodelled` / `na`.  A disagreement means the MODEL of the external is wrong (nothing in goalign is involved):
the expectations built on it cannot be trusted until it is repaired.
-/
namespace Gv.Oracle.RegexOps
open Gv Gv.Oracle Gv.Model

def handle : Handler := fun op args impl =>
  match op, args with
  | "regexsub", [p, t, i] =>
    match unhexz p, unhexz t, unhexz i with
    | some pb, some tb, some ib =>
      let pat := stringOfBytes pb; let tmpl := stringOfBytes tb; let inp := stringOfBytes ib
      match Regex.parse pat with
      | .unknown => some ⟨"unmodelled", "na"⟩
      | .bad => some ⟨"err", verdictOf (impl == "err") "regexp-model-differs-from-go-regexp"⟩
      | .ok re =>
        match Regex.replaceAll re tmpl inp with
        | none => some ⟨"unmodelled", "na"⟩
        | some out =>
          let m := encBool (Regex.matchString re inp) ++ ":" ++ hexz (bytesOfString out)
          some ⟨m, verdictOf (impl == m) "regexp-model-differs-from-go-regexp"⟩
    | _, _, _ => none
  | _, _ => none

end Gv.Oracle.RegexOps
