import Gv.Oracle.Common
/-!
Float codec and small dense-matrix helpers for the numeric oracles (C18, later C07/C17/C20).
Go prints floats with `strconv.FormatFloat(x,'g',17,64)` (`NaN`, `+Inf`, `-Inf`); they are parsed
here with `Float.ofScientific` (correctly rounded for 17 significant digits), compared by class
(nan / +inf / -inf / finite) and tolerance — never by text.  Core only.
-/
namespace Gv.Oracle.F

def nan : Float := 0.0 / 0.0
def pinf : Float := 1.0 / 0.0
def ninf : Float := -1.0 / 0.0

private def digitsVal (cs : List Char) : Option (Nat × Nat) :=
  cs.foldlM (fun (acc : Nat × Nat) c =>
    if c.isDigit then some (acc.1 * 10 + (c.toNat - '0'.toNat), acc.2 + 1) else none) (0, 0)

/-- decimal / scientific notation as printed by Go -/
def parseFloat? (s : String) : Option Float :=
  if s == "NaN" then some nan else if s == "+Inf" || s == "Inf" then some pinf
  else if s == "-Inf" then some ninf else
  let cs := s.toList
  let (neg, cs) := match cs with
    | '-' :: r => (true, r) | '+' :: r => (false, r) | _ => (false, cs)
  let (mant, ex) := match cs.span (fun c => c != 'e' && c != 'E') with
    | (m, []) => (m, [])
    | (m, _ :: e) => (m, e)
  let (ip, fp) := match mant.span (· != '.') with
    | (a, []) => (a, [])
    | (a, _ :: b) => (a, b)
  if ip.isEmpty && fp.isEmpty then none else do
  let (iv, _) ← digitsVal ip
  let (fv, fn) ← digitsVal fp
  let m := iv * 10 ^ fn + fv
  let (eneg, ecs) := match ex with
    | '-' :: r => (true, r) | '+' :: r => (false, r) | _ => (false, ex)
  let (ev, en) ← digitsVal ecs
  if !ex.isEmpty && en == 0 then none else
  -- value = m · 10^(±ev − fn)
  let x : Float :=
    if eneg then Float.ofScientific m true (ev + fn)
    else if ev ≥ fn then Float.ofScientific m false (ev - fn)
    else Float.ofScientific m true (fn - ev)
  some (if neg then -x else x)

def parseFloats? (s : String) : Option (Array Float) :=
  if s == "_" || s == "" then some #[] else
  (s.splitOn ",").foldlM (fun acc p => (parseFloat? p).map acc.push) #[]

/-- class of a float: 0 finite, 1 NaN, 2 +Inf, 3 -Inf -/
def cls (x : Float) : Nat :=
  if x.isNaN then 1 else if x.isInf then (if x > 0 then 2 else 3) else 0

/-- diagnostic rendering with 17 significant digits (exact scaled-integer arithmetic) -/
def fmt (x : Float) : String :=
  match cls x with
  | 1 => "NaN" | 2 => "+Inf" | 3 => "-Inf"
  | _ =>
    if x == 0 then "0" else
    let a := x.abs
    let e10 := (Float.floor (Float.log10 a)).toInt64.toInt
    -- digits = round(a · 10^(16 − e10))
    let sc : Int := 16 - e10
    let scaled : Float :=
      if sc > 300 then (a * Float.ofScientific 1 false 300) * Float.ofScientific 1 false (sc.toNat - 300)
      else if sc ≥ 0 then a * Float.ofScientific 1 false sc.toNat
      else a * Float.ofScientific 1 true (-sc).toNat
    let d := scaled.round.toUInt64.toNat
    (if x < 0 then "-" else "") ++ toString d ++ "e" ++ toString (e10 - 16)

/-- same class and, when finite, `|a − b| ≤ rel·max(|a|,|b|) + abs` -/
def close (rel abs : Float) (a b : Float) : Bool :=
  cls a == cls b && (cls a != 0 || (a - b).abs ≤ rel * (if a.abs > b.abs then a.abs else b.abs) + abs)

/-- NaN-propagating maximum of absolute values -/
def worst (acc d : Float) : Float :=
  if acc.isNaN then acc else if d.isNaN then d else if d.abs > acc then d.abs else acc

/-- `;`-separated sections `name=v,v,…` -/
def parseSections (s : String) : Option (List (String × Array Float)) :=
  (s.splitOn ";").mapM fun sec =>
    match sec.splitOn "=" with
    | [k, v] => (parseFloats? v).map fun a => (k, a)
    | _ => none

def section? (secs : List (String × Array Float)) (k : String) : Option (Array Float) :=
  (secs.find? (·.1 == k)).map (·.2)

/-! ### dense square matrices, row-major -/

structure Mat where
  n : Nat
  a : Array Float

namespace Mat

def get (m : Mat) (i j : Nat) : Float := m.a.getD (i * m.n + j) nan

def ofFn (n : Nat) (f : Nat → Nat → Float) : Mat :=
  ⟨n, Id.run do
    let mut a : Array Float := Array.mkEmpty (n * n)
    for i in [0:n] do
      for j in [0:n] do
        a := a.push (f i j)
    return a⟩

def ofArray? (n : Nat) (a : Array Float) : Option Mat := if a.size == n * n then some ⟨n, a⟩ else none

def ident (n : Nat) : Mat := ofFn n fun i j => if i == j then 1 else 0

def mul (x y : Mat) : Mat :=
  ofFn x.n fun i j => Id.run do
    let mut v : Float := 0
    for k in [0:x.n] do
      v := v + x.get i k * y.get k j
    return v

def scale (c : Float) (x : Mat) : Mat := ⟨x.n, x.a.map (c * ·)⟩
def add (x y : Mat) : Mat := ofFn x.n fun i j => x.get i j + y.get i j

/-- NaN-propagating `max |x − y|` -/
def maxAbsDiff (x y : Mat) : Float := Id.run do
  let mut w : Float := 0
  for k in [0:x.n * x.n] do
    w := worst w (x.a.getD k nan - y.a.getD k nan)
  return w

def maxAbs (x : Mat) : Float := x.a.foldl worst 0

/-- largest absolute row sum -/
def normInf (x : Mat) : Float := Id.run do
  let mut w : Float := 0
  for i in [0:x.n] do
    let mut s : Float := 0
    for j in [0:x.n] do
      s := s + (x.get i j).abs
    w := worst w s
  return w

/-- matrix exponential by scaling and squaring with a degree-20 Taylor polynomial: an independent
numerical path to `exp(Q·t)` that uses no eigen-decomposition -/
def expm (q : Mat) (t : Float) : Mat := Id.run do
  let a := scale t q
  let nrm := normInf a
  if !(nrm.isFinite) then return ofFn q.n fun _ _ => nan
  let mut k : Nat := 0
  let mut sc : Float := 1
  while nrm / sc > 0.5 && k < 64 do
    k := k + 1
    sc := sc * 2
  let b := scale (1 / sc) a
  let mut term := ident q.n
  let mut sum := ident q.n
  for m in [1:21] do
    term := scale (1 / m.toFloat) (mul term b)
    sum := add sum term
  for _ in [0:k] do
    sum := mul sum sum
  return sum

end Mat
end Gv.Oracle.F
