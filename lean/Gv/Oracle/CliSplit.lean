import Gv.Oracle.Cli
import Gv.Model.Fmt.Partition
import Gv.Gen.FmtFacts
/-!
Command-line glue of `goalign split --partition <file> [-o <prefix>]` (cmd/split.go, C04) against the partition
parser model (`Model/Fmt/Partition.lean`, with the regenerated facts about its guards) and the model of `Split`
(`Model/Sites.lean`): the first alignment of the input, the partition file parsed for its length, every site in
a partition (`CheckSites`), at least two partitions; one FASTA file `<prefix><partition name>.fa` per partition,
nothing on stdout.  Kept out of `Oracle/Cli.lean` because it needs the format facts: only the C04 oracle (and the
complete one) link it.
-/
namespace Gv.Oracle.CliSplitOps
open Gv Gv.Oracle Gv.Model Gv.Oracle.DetOps Gv.Oracle.CliOps
open Gv.Oracle.CliDefaults (effective)

def badF : String := "rc=1 out= files="

def expectedSplit (rows : Rows) (files : List (String × String)) (fl : List String) : Option String := do
  let pf ← opt fl "--partition"
  let pre := (opt fl "-o").getD (← effective "splitCmd" "out-prefix")
  if !(fl.all fun a => a == "--partition" || a == pf || a == "-o" || a == pre) then none
  if !(pre.isEmpty || plainFile pre) then none
  let f ← files.find? (·.1 == pf)
  let L := lenOf rows
  if L < 0 then none
  let bs := bytesOfString ((f.2.replace "|" "\n").replace "~" "\t")
  if bs.any (· ≥ 128) then none
  match Fmt.Partition.parse ⟨Gen.FmtFacts.partition_rejects_start_after_end, Gen.FmtFacts.partition_guards_step_overflow⟩
      L.toNat bs with
  | .ok ps =>
    -- `CheckSites`
    if ps.parts.any (· == -1) then some badF else
    let pset : PartSet := { names := ps.names.map fun nm => stringOfBytes nm.1, parts := ps.parts, length := (ps.length : Int) }
    match split rows L pset with
    | .ok als =>
      let fs ← filesPart ((pset.names.zip als).map fun (nm, al) => (pre ++ nm ++ ".fa", fasta al))
      some ("rc=0 out= files=" ++ fs)
    | .err => some badF
    | .panic => none
  | .error => some badF
  | .exit => some badF
  | .panic => none
  | .hang => none

def handle : Handler := fun op args impl =>
  match op, args with
  | "cli_libf", stdin :: files :: "split" :: fl =>
    let fs := if files == "_" then [] else (files.splitOn ";;").filterMap fun f =>
      match f.splitOn "=" with
      | n :: rest => some (n, "=".intercalate rest)
      | _ => none
    match expectedSplit (parseFasta (stdin.splitOn "|")) fs fl with
    | some m => some ⟨m, verdictOf (impl == m) "command-line-differs-from-library-model"⟩
    | none => some ⟨"unmodelled", "na"⟩
  | _, _ => none

end Gv.Oracle.CliSplitOps
