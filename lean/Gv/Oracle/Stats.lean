import Gv.Oracle.Common
import Gv.Oracle.Floats
import Gv.Model.Stats
import Gv.Model.Pssm
import Gv.Spec.Stats
/-! Oracle handlers for C14 (column statistics). -/
namespace Gv.Oracle.StatsOps
open Gv Gv.Oracle Gv.Model

def lenOf (rows : Rows) : Int := match rows with | r :: _ => (r.2.length : Int) | [] => -1
def plus (l : List Nat) : String := if l.isEmpty then "_" else "+".intercalate (l.map toString)
def strJoin (l : List String) : String := if l.isEmpty then "_" else ",".intercalate l

def hex16 (n : Nat) : String :=
  let ds := (List.range 16).map fun i => hexDigit ((n >>> (4 * (15 - i))) % 16)
  String.ofList ds

/-- floats travel as `f:<IEEE bits>`; the driver compares them by class and relative tolerance -/
def fstr (x : Float) : String := "f:" ++ hex16 x.toBits.toNat

/-- the bit pattern of a float token `f:<16 hex digits>[:decimal]` -/
def tokFloat? (t : String) : Option Float :=
  match t.splitOn ":" with
  | "f" :: b :: _ =>
    if b.length != 16 then none else
    (b.toList.foldlM (fun (acc : UInt64) c => (hexVal c).map fun v => acc * 16 + UInt64.ofNat v) 0).map Float.ofBits
  | _ => none

/-- a pseudo-count argument `n` or `n/d` (integers): `float64(n) / float64(d)` as the harness computes it -/
def fracFloat? (s : String) : Option Float :=
  let toF (i : Int) : Float := if i < 0 then -(Float.ofNat i.natAbs) else Float.ofNat i.toNat
  match s.splitOn "/" with
  | [n] => (parseInt? n).map toF
  | [n, d] => do let n ← parseInt? n; let d ← parseInt? d; pure (toF n / toF d)
  | _ => none

/-- the body of a `pssm` answer: `key=f:..+f:..,key=…` -/
def decPssm (body : String) : Option (List (Nat × List Float)) :=
  (decStrs body).mapM fun e =>
    match e.splitOn "=" with
    | [k, vs] => do
      let k ← k.toNat?
      -- tokens are joined by `+`, and the decimal rendering of +Inf contains one: split before each `f:`
      let toks := match vs.splitOn "+f:" with
        | [] => []
        | t :: rest => t :: rest.map fun r => "f:" ++ r
      let vs ← toks.mapM tokFloat?
      pure (k, vs)
    | _ => none

def encPssm (t : List (Nat × List Float)) : String :=
  strJoin (t.map fun p => toString p.1 ++ "=" ++ "+".intercalate (p.2.map fstr))

/-- relative tolerance of the PSSM correspondence: `math.Log` of Go and of the C library may differ in the last
place, and the logo entropy sums up to 20 such terms -/
def pssmTol : Float := 1e-9

def pssmClose (a b : List (Nat × List Float)) : Bool :=
  a.length == b.length && (a.zip b).all fun (x, y) =>
    x.1 == y.1 && x.2.length == y.2.length && (x.2.zip y.2).all fun (u, v) => F.close pssmTol 1e-300 u v

/-- the frequency-normalised PSSM by its definition, evaluated naively on the columns: for every alphabet
character (increasing) and site, `(number of rows holding it (either case) + pseudo-count) / (number of rows +
alphabet size × pseudo-count)`; its base-2 logarithm when asked; plain counts (+ pseudo-count) without
normalisation -/
def pssmNaive (rows : Rows) (L : Nat) (chars : List Byte) (lg : Bool) (pseudo : Float) (freq : Bool) : List (Nat × List Float) :=
  let add := if pseudo > 0 then pseudo else 0
  let denom := Float.ofNat rows.length + Float.ofNat chars.length * pseudo
  (chars.mergeSort fun a b => decide (a ≤ b)).map fun c =>
    (c.toNat, (List.range L).map fun j =>
      let x := Float.ofNat (Spec.occ Spec.upperCase (Spec.column rows j) c) + add
      let x := if freq then x / denom else x
      if lg then Float.log x / Float.log 2 else x)

def encMap (m : List (Byte × Nat)) : String :=
  if m.isEmpty then "_" else ",".intercalate (m.map fun p => toString p.1.toNat ++ "=" ++ toString p.2)

def chr2 (p : Byte × Byte) : String := stringOfBytes [p.1, p.2]

def handle : Handler := fun op args impl =>
  match op, args with
  | "charstats", [_, rows] => do
    let rows ← decRows rows
    -- naive definition (`Gv.Spec.Stats`): for every byte value, the number of residues whose upper-case form it is
    let e := encMap (Spec.charStats rows) ++ " " ++ hexOfBytes (Spec.uniqueCharacters rows)
    some ⟨encMap (charStats rows) ++ " " ++ hexOfBytes (uniqueCharacters rows), verdictOf (impl == e) "charstats-naive"⟩
  | "charstatsseq", [_, rows, idx] => do
    let rows ← decRows rows
    let idx ← parseInt? idx
    let m := match charStatsSeq rows idx with | some m => "ok " ++ encMap m | none => "err"
    let valid := idx ≥ 0 && idx < rows.length
    some ⟨m, verdictOf ((impl == "err") == !valid && !impl.startsWith "panic") "index-out-of-range-must-be-error"⟩
  | "charstatssite", [_, rows, site] => do
    let rows ← decRows rows
    let site ← parseInt? site
    let L := lenOf rows
    let m := match charStatsSite rows L site with | some m => "ok " ++ encMap m | none => "err"
    let valid := site ≥ 0 && site < L
    some ⟨m, verdictOf ((impl == "err") == !valid && !impl.startsWith "panic") "site-out-of-range-must-be-error"⟩
  | "entropy", [_, rows, site, rg, _] => do
    let rows ← decRows rows
    let site ← parseInt? site
    let L := lenOf rows
    let m := match entropy rows L site (decBool rg) with | some e => "ok " ++ fstr e | none => "err"
    let valid := site ≥ 0 && site < L
    let v := if impl.startsWith "NONDET" then "fail:nondeterministic"
      else verdictOf ((impl == "err") == !valid && !impl.startsWith "panic") "site-out-of-range-must-be-error"
    some ⟨m, v⟩
  | "sitecounts", [alpha, rows] => do
    let alpha ← alpha.toNat?
    let rows ← decRows rows
    let L := lenOf rows
    let m := toString (nbVariableSites rows L) ++ " " ++ plus (informativeSites rows L alpha) ++ " " ++ fstr (avgAlleles rows L)
    -- naive definitions (`Gv.Spec.Stats`): variable = two different plain characters; parsimony-informative = at
    -- least two (upper-cased) characters occurring at least twice
    let v := match impl.splitOn " " with
      | [nv, inf, _] =>
        if inf != plus (Spec.informativeSites rows L.toNat alpha) then "fail:informative-sites-naive"
        else verdictOf (nv == toString (Spec.nbVariableSites rows L.toNat)) "variable-sites-naive"
      | _ => "fail:unparsable"
    some ⟨m, v⟩
  | "countdiffs", [_, rows] => do
    let rows ← decRows rows
    let (all, per) := countDifferences rows
    let encPer (m : List ((Byte × Byte) × Nat)) : String :=
      if m.isEmpty then "_" else
      let sorted := m.mergeSort fun a b => decide (chr2 a.1 ≤ chr2 b.1)
      "+".intercalate (sorted.map fun p => chr2 p.1 ++ "=" ++ toString p.2)
    let v := match impl.splitOn " " with
      | [a, _] => verdictOf (a == strJoin ((Spec.allDiffs rows).map chr2)) "alldiffs-not-first-occurrences"
      | _ => if impl.startsWith "panic" then "fail:countdifferences-crash" else "fail:unparsable"
    some ⟨strJoin (all.map chr2) ++ " " ++ strJoin (per.map encPer), v⟩
  | "uniques", [alpha, rows] => do
    let alpha ← alpha.toNat?
    let rows ← decRows rows
    let L := lenOf rows
    let z := plus (rows.map fun _ => 0)
    let g := plus (numGapsUnique rows L)
    match numMutationsUnique rows L alpha with
    | none => some ⟨"panic", "na"⟩
    | some mu =>
    let mu := plus mu
    -- naive recounts (`Gv.Spec.Stats`)
    let e := plus (Spec.numGapsUnique rows L.toNat) ++ " " ++ z ++ " " ++ z ++ " " ++
      plus (Spec.numMutationsUnique rows L.toNat alpha) ++ " " ++ z ++ " " ++ z
    some ⟨g ++ " " ++ z ++ " " ++ z ++ " " ++ mu ++ " " ++ z ++ " " ++ z, verdictOf (impl == e) "uniques-naive"⟩
  | "uniquesprof", [alpha, rows, prows] => do
    -- the three outputs (unique / new / both) of the two counters with a count profile built from a second
    -- alignment.  Model: the Go loops (`numGapsUniqueProf`, `numMutationsUniqueProf` on the modelled profile);
    -- predicate: the naive recounts of `Gv.Spec.Stats` on the implementation's answer
    let alpha ← alpha.toNat?
    let rows ← decRows rows
    let prows ← decRows prows
    let L := (lenOf rows).toNat
    let Lp := (lenOf prows).toNat
    if (rows ++ prows).any (fun r => r.2.any fun c => c ≥ 130) then some ⟨"unmodelled", "na"⟩ else
    let enc3 (t : List Nat × List Nat × List Nat) : String := plus t.1 ++ " " ++ plus t.2.1 ++ " " ++ plus t.2.2
    let m := match countProfile prows (lenOf prows) with
      | none => "panic"
      | some prof =>
        match numGapsUniqueProf rows (lenOf rows) prof, numMutationsUniqueProf rows (lenOf rows) alpha prof with
        | some g, some (some mu) => enc3 g ++ " " ++ enc3 mu
        | _, none => "panic"
        | _, _ => "err"
    if !Spec.profileFits prows Lp L then some ⟨m, verdictOf (impl == "err") "profile-length-must-be-checked"⟩ else
    let idx := List.range rows.length
    let g := idx.map (Spec.gapsWithProfileOf rows prows L)
    let mu := idx.map (Spec.mutationsWithProfileOf (Spec.wildcardOf alpha) rows prows L)
    let e := plus (g.map (·.1)) ++ " " ++ plus (g.map (·.2.1)) ++ " " ++ plus (g.map (·.2.2)) ++ " " ++
      plus (mu.map (·.1)) ++ " " ++ plus (mu.map (·.2.1)) ++ " " ++ plus (mu.map (·.2.2))
    some ⟨m, verdictOf (impl == e) "uniques-with-profile-naive"⟩
  | "pssm", [alpha, rows, lg, pseudo, norm, _] => do
    -- model: `Gv.Model.pssm` at `Float`, compared with the implementation's bit patterns by class and relative
    -- tolerance (the implementation's text is echoed when they agree); repeated calls must agree; predicate: without
    -- normalisation / with the frequency normalisation the entries are what the definition says on the naive counts
    let alpha ← alpha.toNat?
    let rows ← decRows rows
    let ps ← fracFloat? pseudo
    let nm ← parseInt? norm
    let L := lenOf rows
    if (rows.any fun r => r.2.any fun c => c ≥ 128) then some ⟨"unmodelled", "na"⟩ else
    if impl.startsWith "NONDET" then some ⟨impl, "fail:nondeterministic"⟩ else
    let sortT (t : List (Byte × List Float)) : List (Nat × List Float) :=
      (t.mergeSort fun a b => decide (a.1 ≤ b.1)).map fun p => (p.1.toNat, p.2)
    match Model.pssm (α := Float) rows L alpha (decBool lg) ps nm with
    | .panic => some ⟨"panic", if impl.startsWith "panic" then "fail:pssm-crash" else "na"⟩
    | .err => some ⟨"err", if impl.startsWith "panic" then "fail:pssm-crash" else "na"⟩
    | .ok t =>
      let mt := sortT t
      if impl.startsWith "panic" then some ⟨"ok " ++ encPssm mt, "fail:pssm-crash"⟩ else
      if !impl.startsWith "ok " then some ⟨"ok " ++ encPssm mt, "na"⟩ else
      match decPssm (impl.drop 3).toString with
      | none => some ⟨"ok " ++ encPssm mt, "fail:unparsable"⟩
      | some it =>
        let m := if pssmClose mt it then impl else "ok " ++ encPssm mt
        let chars : List Byte := if alpha == 0 then Gen.stdaminoacid else Gen.stdnucleotides
        let okKeys := it.map (·.1) == (chars.map (·.toNat)).mergeSort (fun a b => decide (a ≤ b))
        let v :=
          if !okKeys then "fail:pssm-alphabet"
          else if nm == 0 then verdictOf (pssmClose (pssmNaive rows L.toNat chars (decBool lg) ps false) it) "pssm-counts-naive"
          else if nm == 1 then verdictOf (pssmClose (pssmNaive rows L.toNat chars (decBool lg) ps true) it) "pssm-frequencies-naive"
          else "pass"
        some ⟨m, v⟩
  | "profile", [_, rows, code, site] => do
    let rows ← decRows rows
    let code ← code.toNat?
    let site ← parseInt? site
    let L := lenOf rows
    let r := UInt8.ofNat code
    let encCnt (o : Option Nat) : String := match o with | some n => "ok:" ++ toString n | none => "err"
    let render (header : List Byte) (counts : List (List Nat)) (cnt : String) : String :=
      (if header.isEmpty then "-" else hexOfBytes header) ++ " " ++ strJoin (counts.map plus) ++ " " ++ cnt ++ " " ++
        (if header.isEmpty then "11" else "10") ++ " " ++
        -- CountsAt / NameAt at the first character index outside the header, and at -1: errors
        "err err err"
    let m := match countProfile rows L with
      | none => "panic"
      | some prof =>
        match profileCount prof r site with
        | none => "panic"
        | some c => render (prof.map Prod.fst) (prof.map Prod.snd) (encCnt c)
    -- the definition (`Gv.Spec.Stats`): header = characters in order of first appearance; count of a character at a
    -- site = number of rows holding it there; Count is defined for the characters present and 0 ≤ site < L
    let hdr := Spec.profileHeader rows
    let e := render hdr (hdr.map fun c => (List.range L.toNat).map fun j => Spec.profileCountAt rows j c)
      (encCnt (Spec.profileCount rows L.toNat r site))
    let v := if impl.startsWith "panic" then (if code ≥ 130 then "na" else "fail:profile-crash") else verdictOf (impl == e) "profile-not-the-definition"
    some ⟨if code > 255 then "unmodelled" else m, v⟩
  | "refmuts", [alpha, sq, rf] => do
    let alpha ← alpha.toNat?
    let s := bytesOfString sq
    let r := bytesOfString rf
    let m := match numMutationsVsRef alpha s r, listMutationsVsRef alpha s r with
      | some n, some l => "ok " ++ toString n ++ " " ++ strJoin (l.map fun (a, p, alt) => toString a.toNat ++ "." ++ toString p ++ "." ++ hexOfBytes alt)
      | _, _ => "err"
    -- the LIST, by definition (independent of the model's scan): one insertion entry per reference
    -- coordinate p (number of reference residues to the left) holding, in order, every query residue that
    -- faces a reference gap there; every other entry names the p-th reference residue and the query
    -- residue facing it, which differ
    let refBefore (i : Nat) : Nat := ((r.take i).filter (· != GAP)).length
    let R := refBefore r.length
    let insNaive : List (Nat × List Byte) := (List.range (R + 1)).filterMap fun p =>
      let alt := (List.range s.length).filterMap fun i =>
        if r.getD i 0 == GAP && s.getD i 0 != GAP && refBefore i == p then some (s.getD i 0) else none
      if alt.isEmpty then none else some (p, alt)
    let parseEntry (e : String) : Option (Nat × Nat × List Byte) :=
      match e.splitOn "." with
      | [a, p, h] => do let a ← a.toNat?; let p ← p.toNat?; let h ← bytesOfHex h; pure (a, p, h)
      | _ => none
    let listOk (l : String) : Bool :=
      match (decStrs l).mapM parseEntry with
      | none => false
      | some es =>
        let ins := (es.filter fun e => e.1 == 45).map fun e => (e.2.1, e.2.2)
        let subs := es.filter fun e => e.1 != 45
        ins == insNaive &&
        subs.all (fun (a, p, alt) =>
          -- the alignment position of the p-th reference residue
          match (List.range r.length).find? (fun i => r.getD i 0 != GAP && refBefore i == p) with
          | some i => (r.getD i 0).toNat == a && alt == [s.getD i 0] && s.getD i 0 != r.getD i 0
          | none => false) &&
        -- entries come in reference order
        (let ps := es.map fun e => e.2.1
         (ps.zip (ps.drop 1)).all fun (x, y) => decide (x ≤ y))
    let vList := match impl.splitOn " " with
      | ["ok", _, l] => if listOk l then "pass" else "fail:mutation-list-not-the-definition"
      | _ => "na"
    if vList != "pass" && vList != "na" then some ⟨m, vList⟩ else
    -- IUPAC-compatible residues, N/X and gaps never count as substitutions (naive recount)
    let v := match impl.splitOn " " with
      | ["ok", n, _] =>
        if alpha == 1 then
          let setOf (x : Byte) : Option (List Byte) :=
            if toUpper x == 45 then none else (Gen.IupacCode.find? fun p => p.1 == toUpper x).map Prod.snd
          -- pairs that MUST count (two nucleotide codes with disjoint base sets, query not N) and pairs
          -- that must NOT count (identical, compatible, query N or gap); specials are left open
          let must := ((s.zip r).filter fun (c, q) =>
            match setOf c, setOf q with
            | some sc, some rc => c != 78 && !(sc.any (rc.contains ·))
            | _, _ => false).length
          let mustNot := ((s.zip r).filter fun (c, q) =>
            c == 45 || c == 78 || toUpper c == toUpper q ||
            (match setOf c, setOf q with
             | some sc, some rc => sc.any (rc.contains ·)
             | _, _ => false)).length
          match n.toNat? with
          | some k => verdictOf (must ≤ k && k ≤ s.length - mustNot) "compatible-counted-as-substitution"
          | none => "fail:unparsable"
        else "na"
      | _ => "na"
    some ⟨m, v⟩
  | "refmutsaa", [alpha, sq, rf] => do
    let alpha ← alpha.toNat?
    let s := bytesOfString sq
    let r := bytesOfString rf
    let enc (o : Option (List (Byte × Int × List Byte))) : String := match o with
      | some l => "ok " ++ strJoin (l.map fun (a, p, alt) => toString a.toNat ++ "." ++ toString p ++ "." ++ hexOfBytes alt)
      | none => "err"
    let m := enc (listMutationsVsRefAA alpha s r)
    -- the list by definition (Spec.aaMutations: reference residues three by three located by counting, NCBI table 1,
    -- independent of the model's walk), evaluated against the implementation's answer
    let v := verdictOf (impl == enc (Spec.aaMutations alpha s r)) "aa-mutation-list-not-the-definition"
    some ⟨m, v⟩
  | "compat", [a, b] => do
    let a ← a.toNat?
    let b ← b.toNat?
    let m := match equalOrCompatible (UInt8.ofNat a) (UInt8.ofNat b) with
      | some ok => "ok " ++ encBool ok ++ " " ++ fstr (if a == b then 0.0 else if (a &&& b) == 0 then 1.0 else 0.0)
      | none => "err"
    some ⟨if a > 255 || b > 255 then "err" else m, "na"⟩
  | _, _ => none

end Gv.Oracle.StatsOps
