import Gv.Oracle.Common
import Gv.Model.Stats
import Gv.Spec.Stats
/-! Oracle handlers for C14 (column statistics). -/
namespace Gv.Oracle.StatsOps
open Gv Gv.Oracle Gv.Model

def lenOf (rows : Rows) : Int := match rows with | r :: _ => (r.2.length : Int) | [] => -1
def plus (l : List Nat) : String := if l.isEmpty then "_" else "+".intercalate (l.map toString)
def strJoin (l : List String) : String := if l.isEmpty then "_" else ",".intercalate l

def hex16 (n : Nat) : String :=
  let ds := (List.range 16).map fun i => hexDigit ((n >>> (4 * (15 - i))) % 16)
  String.ofList ds

/-- floats travel as `f:<IEEE bits>`; the driver compares them by class and relative tolerance -/
def fstr (x : Float) : String := "f:" ++ hex16 x.toBits.toNat

def encMap (m : List (Byte × Nat)) : String :=
  if m.isEmpty then "_" else ",".intercalate (m.map fun p => toString p.1.toNat ++ "=" ++ toString p.2)

def chr2 (p : Byte × Byte) : String := stringOfBytes [p.1, p.2]

def handle : Handler := fun op args impl =>
  match op, args with
  | "charstats", [_, rows] => do
    let rows ← decRows rows
    -- naive definition (`Gv.Spec.Stats`): for every byte value, the number of residues whose upper-case form it is
    let e := encMap (Spec.charStats rows) ++ " " ++ hexOfBytes (Spec.uniqueCharacters rows)
    some ⟨encMap (charStats rows) ++ " " ++ hexOfBytes (uniqueCharacters rows), verdictOf (impl == e) "charstats-naive"⟩
  | "charstatsseq", [_, rows, idx] => do
    let rows ← decRows rows
    let idx ← parseInt? idx
    let m := match charStatsSeq rows idx with | some m => "ok " ++ encMap m | none => "err"
    let valid := idx ≥ 0 && idx < rows.length
    some ⟨m, verdictOf ((impl == "err") == !valid && !impl.startsWith "panic") "index-out-of-range-must-be-error"⟩
  | "charstatssite", [_, rows, site] => do
    let rows ← decRows rows
    let site ← parseInt? site
    let L := lenOf rows
    let m := match charStatsSite rows L site with | some m => "ok " ++ encMap m | none => "err"
    let valid := site ≥ 0 && site < L
    some ⟨m, verdictOf ((impl == "err") == !valid && !impl.startsWith "panic") "site-out-of-range-must-be-error"⟩
  | "entropy", [_, rows, site, rg, _] => do
    let rows ← decRows rows
    let site ← parseInt? site
    let L := lenOf rows
    let m := match entropy rows L site (decBool rg) with | some e => "ok " ++ fstr e | none => "err"
    let valid := site ≥ 0 && site < L
    let v := if impl.startsWith "NONDET" then "fail:nondeterministic"
      else verdictOf ((impl == "err") == !valid && !impl.startsWith "panic") "site-out-of-range-must-be-error"
    some ⟨m, v⟩
  | "sitecounts", [alpha, rows] => do
    let alpha ← alpha.toNat?
    let rows ← decRows rows
    let L := lenOf rows
    let m := toString (nbVariableSites rows L) ++ " " ++ plus (informativeSites rows L alpha) ++ " " ++ fstr (avgAlleles rows L)
    -- naive definitions (`Gv.Spec.Stats`): variable = two different plain characters; parsimony-informative = at
    -- least two (upper-cased) characters occurring at least twice
    let v := match impl.splitOn " " with
      | [nv, inf, _] =>
        if inf != plus (Spec.informativeSites rows L.toNat alpha) then "fail:informative-sites-naive"
        else verdictOf (nv == toString (Spec.nbVariableSites rows L.toNat)) "variable-sites-naive"
      | _ => "fail:unparsable"
    some ⟨m, v⟩
  | "countdiffs", [_, rows] => do
    let rows ← decRows rows
    let (all, per) := countDifferences rows
    let encPer (m : List ((Byte × Byte) × Nat)) : String :=
      if m.isEmpty then "_" else
      let sorted := m.mergeSort fun a b => decide (chr2 a.1 ≤ chr2 b.1)
      "+".intercalate (sorted.map fun p => chr2 p.1 ++ "=" ++ toString p.2)
    let v := match impl.splitOn " " with
      | [a, _] => verdictOf (a == strJoin ((Spec.allDiffs rows).map chr2)) "alldiffs-not-first-occurrences"
      | _ => if impl.startsWith "panic" then "fail:countdifferences-crash" else "fail:unparsable"
    some ⟨strJoin (all.map chr2) ++ " " ++ strJoin (per.map encPer), v⟩
  | "uniques", [alpha, rows] => do
    let alpha ← alpha.toNat?
    let rows ← decRows rows
    let L := lenOf rows
    let z := plus (rows.map fun _ => 0)
    let g := plus (numGapsUnique rows L)
    match numMutationsUnique rows L alpha with
    | none => some ⟨"panic", "na"⟩
    | some mu =>
    let mu := plus mu
    -- naive recounts (`Gv.Spec.Stats`)
    let e := plus (Spec.numGapsUnique rows L.toNat) ++ " " ++ z ++ " " ++ z ++ " " ++
      plus (Spec.numMutationsUnique rows L.toNat alpha) ++ " " ++ z ++ " " ++ z
    some ⟨g ++ " " ++ z ++ " " ++ z ++ " " ++ mu ++ " " ++ z ++ " " ++ z, verdictOf (impl == e) "uniques-naive"⟩
  | "uniquesprof", [alpha, rows, prows] => do
    -- the three outputs (unique / new / both) of the two counters with a count profile built from a second
    -- alignment: naive recounts (`Gv.Spec.Stats`); they serve as model and as predicate
    let alpha ← alpha.toNat?
    let rows ← decRows rows
    let prows ← decRows prows
    let L := (lenOf rows).toNat
    let Lp := (lenOf prows).toNat
    if (rows ++ prows).any (fun r => r.2.any fun c => c ≥ 130) then some ⟨"unmodelled", "na"⟩ else
    if !Spec.profileFits prows Lp L then some ⟨"err", verdictOf (impl == "err") "profile-length-must-be-checked"⟩ else
    let idx := List.range rows.length
    let g := idx.map (Spec.gapsWithProfileOf rows prows L)
    let mu := idx.map (Spec.mutationsWithProfileOf (Spec.wildcardOf alpha) rows prows L)
    let e := plus (g.map (·.1)) ++ " " ++ plus (g.map (·.2.1)) ++ " " ++ plus (g.map (·.2.2)) ++ " " ++
      plus (mu.map (·.1)) ++ " " ++ plus (mu.map (·.2.1)) ++ " " ++ plus (mu.map (·.2.2))
    some ⟨e, verdictOf (impl == e) "uniques-with-profile-naive"⟩
  | "pssm", [alpha, rows, lg, pseudo, norm, _] => do
    -- Pssm is not modelled: repeated calls must agree; without normalisation, pseudo-count and logarithm the
    -- entries are the naive counts of the (upper-cased) alphabet characters per site
    let alpha ← alpha.toNat?
    let rows ← decRows rows
    if impl.startsWith "NONDET" then some ⟨impl, "fail:nondeterministic"⟩ else
    if !(lg == "0" && pseudo == "0" && norm == "0") || !impl.startsWith "ok " then some ⟨impl, "pass"⟩ else
    let L := (lenOf rows).toNat
    let okEntry (e : String) : Bool :=
      match e.splitOn "=" with
      | [k, vs] =>
        match k.toNat? with
        | none => false
        | some k =>
          let decs := (vs.splitOn "+").map fun t => (t.splitOn ":").getD 2 "?"
          decs == (List.range L).map fun j => toString (Spec.occ Spec.upperCase (Spec.column rows j) (UInt8.ofNat k))
      | _ => false
    let body := (impl.drop 3).toString
    let chars : List Byte := if alpha == 0 then Gen.stdaminoacid else Gen.stdnucleotides
    let keys := (decStrs body).filterMap fun e => ((e.splitOn "=").getD 0 "").toNat?
    let okKeys := keys == (chars.map (·.toNat)).mergeSort (fun a b => decide (a ≤ b))
    some ⟨impl, if !okKeys then "fail:pssm-alphabet" else verdictOf ((decStrs body).all okEntry) "pssm-counts-naive"⟩
  | "profile", [_, rows, code, site] => do
    let rows ← decRows rows
    let code ← code.toNat?
    let site ← parseInt? site
    let L := lenOf rows
    let r := UInt8.ofNat code
    let encCnt (o : Option Nat) : String := match o with | some n => "ok:" ++ toString n | none => "err"
    let render (header : List Byte) (counts : List (List Nat)) (cnt : String) : String :=
      (if header.isEmpty then "-" else hexOfBytes header) ++ " " ++ strJoin (counts.map plus) ++ " " ++ cnt ++ " " ++
        (if header.isEmpty then "11" else "10") ++ " " ++
        -- CountsAt / NameAt at the first character index outside the header, and at -1: errors
        "err err err"
    let m := match countProfile rows L with
      | none => "panic"
      | some prof =>
        match profileCount prof r site with
        | none => "panic"
        | some c => render (prof.map Prod.fst) (prof.map Prod.snd) (encCnt c)
    -- the definition (`Gv.Spec.Stats`): header = characters in order of first appearance; count of a character at a
    -- site = number of rows holding it there; Count is defined for the characters present and 0 ≤ site < L
    let hdr := Spec.profileHeader rows
    let e := render hdr (hdr.map fun c => (List.range L.toNat).map fun j => Spec.profileCountAt rows j c)
      (encCnt (Spec.profileCount rows L.toNat r site))
    let v := if impl.startsWith "panic" then (if code ≥ 130 then "na" else "fail:profile-crash") else verdictOf (impl == e) "profile-not-the-definition"
    some ⟨if code > 255 then "unmodelled" else m, v⟩
  | "refmuts", [alpha, sq, rf] => do
    let alpha ← alpha.toNat?
    let s := bytesOfString sq
    let r := bytesOfString rf
    let m := match numMutationsVsRef alpha s r, listMutationsVsRef alpha s r with
      | some n, some l => "ok " ++ toString n ++ " " ++ strJoin (l.map fun (a, p, alt) => toString a.toNat ++ "." ++ toString p ++ "." ++ hexOfBytes alt)
      | _, _ => "err"
    -- the LIST, by definition (independent of the model's scan): one insertion entry per reference
    -- coordinate p (number of reference residues to the left) holding, in order, every query residue that
    -- faces a reference gap there; every other entry names the p-th reference residue and the query
    -- residue facing it, which differ
    let refBefore (i : Nat) : Nat := ((r.take i).filter (· != GAP)).length
    let R := refBefore r.length
    let insNaive : List (Nat × List Byte) := (List.range (R + 1)).filterMap fun p =>
      let alt := (List.range s.length).filterMap fun i =>
        if r.getD i 0 == GAP && s.getD i 0 != GAP && refBefore i == p then some (s.getD i 0) else none
      if alt.isEmpty then none else some (p, alt)
    let parseEntry (e : String) : Option (Nat × Nat × List Byte) :=
      match e.splitOn "." with
      | [a, p, h] => do let a ← a.toNat?; let p ← p.toNat?; let h ← bytesOfHex h; pure (a, p, h)
      | _ => none
    let listOk (l : String) : Bool :=
      match (decStrs l).mapM parseEntry with
      | none => false
      | some es =>
        let ins := (es.filter fun e => e.1 == 45).map fun e => (e.2.1, e.2.2)
        let subs := es.filter fun e => e.1 != 45
        ins == insNaive &&
        subs.all (fun (a, p, alt) =>
          -- the alignment position of the p-th reference residue
          match (List.range r.length).find? (fun i => r.getD i 0 != GAP && refBefore i == p) with
          | some i => (r.getD i 0).toNat == a && alt == [s.getD i 0] && s.getD i 0 != r.getD i 0
          | none => false) &&
        -- entries come in reference order
        (let ps := es.map fun e => e.2.1
         (ps.zip (ps.drop 1)).all fun (x, y) => decide (x ≤ y))
    let vList := match impl.splitOn " " with
      | ["ok", _, l] => if listOk l then "pass" else "fail:mutation-list-not-the-definition"
      | _ => "na"
    if vList != "pass" && vList != "na" then some ⟨m, vList⟩ else
    -- IUPAC-compatible residues, N/X and gaps never count as substitutions (naive recount)
    let v := match impl.splitOn " " with
      | ["ok", n, _] =>
        if alpha == 1 then
          let setOf (x : Byte) : Option (List Byte) :=
            if toUpper x == 45 then none else (Gen.IupacCode.find? fun p => p.1 == toUpper x).map Prod.snd
          -- pairs that MUST count (two nucleotide codes with disjoint base sets, query not N) and pairs
          -- that must NOT count (identical, compatible, query N or gap); specials are left open
          let must := ((s.zip r).filter fun (c, q) =>
            match setOf c, setOf q with
            | some sc, some rc => c != 78 && !(sc.any (rc.contains ·))
            | _, _ => false).length
          let mustNot := ((s.zip r).filter fun (c, q) =>
            c == 45 || c == 78 || toUpper c == toUpper q ||
            (match setOf c, setOf q with
             | some sc, some rc => sc.any (rc.contains ·)
             | _, _ => false)).length
          match n.toNat? with
          | some k => verdictOf (must ≤ k && k ≤ s.length - mustNot) "compatible-counted-as-substitution"
          | none => "fail:unparsable"
        else "na"
      | _ => "na"
    some ⟨m, v⟩
  | "compat", [a, b] => do
    let a ← a.toNat?
    let b ← b.toNat?
    let m := match equalOrCompatible (UInt8.ofNat a) (UInt8.ofNat b) with
      | some ok => "ok " ++ encBool ok ++ " " ++ fstr (if a == b then 0.0 else if (a &&& b) == 0 then 1.0 else 0.0)
      | none => "err"
    some ⟨if a > 255 || b > 255 then "err" else m, "na"⟩
  | _, _ => none

end Gv.Oracle.StatsOps
