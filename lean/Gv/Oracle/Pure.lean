import Gv.Oracle.Common
import Gv.Model.MutFacts
/-! Oracle handlers for C19 (purity and ownership).  The model's answers come from the regenerated
mutation facts: a query is pure, a listed copy operation owns its data, the sampling operations share. -/
namespace Gv.Oracle.PureOps
open Gv Gv.Oracle Gv.Model.Mut Gv.Gen.MutFacts

def queryGroups : List (String × List String) :=
  [("writers", ["WriteAlignment", "WriteSequences", "String"]),
   ("stats", ["CharStats", "UniqueCharacters", "CharStatsSeq", "CharStatsSite", "MaxCharStats", "Consensus", "Entropy",
              "NbVariableSites", "InformativeSites", "AvgAllelesPerSite", "Pssm", "CountDifferences",
              "NumGapsUniquePerSequence", "NumMutationsUniquePerSequence", "Frameshifts", "Stops", "SiteConservation",
              "NumMutationsComparedToReferenceSequence", "ListMutationsComparedToReferenceSequence", "LongestORF",
              "DetectAlphabet", "NumGaps"]),
   ("coords", ["RefCoordinates", "RefSites", "InverseCoordinates", "InversePositions", "Identical", "Sequences",
               "GetSequence", "MaxNameLength"]),
   ("copies", ["SubAlign", "SelectSites", "Transpose", "BuildBootstrap", "Clone", "CloneSeqBag", "Unalign", "Sample", "RandSubAlign"]),
   ("dist", ["DistMatrix"]),
   ("sw", [])]

def copyRecv : List (String × String × String) :=
  [("clone", "align", "Clone"), ("clonebag", "seqbag", "CloneSeqBag"), ("subalign", "align", "SubAlign"),
   ("selectsites", "align", "SelectSites"), ("transpose", "align", "Transpose"), ("bootstrap", "align", "BuildBootstrap"),
   ("unalign", "seqbag", "Unalign"), ("sample", "seqbag", "sampleSeqBag"), ("randsub", "align", "RandSubAlign")]

def handle : Handler := fun op args impl =>
  match op, args with
  | "purity", [_, _, q] =>
    match queryGroups.find? (·.1 == q) with
    | none => some ⟨"bad-query", "na"⟩
    | some g =>
      let m := if g.2.all (pure fns) then "same" else "changed"
      some ⟨m, verdictOf (impl == "same") "query-modified-its-input"⟩
  | "aliassplit", [_, _, _] =>
    if impl == "na" then some ⟨"na", "na"⟩ else
    let good := "split-pure=1 parts-ok=1 shared=0 orig-unchanged=1"
    let m := if ownsData fns "align" "Split" && pure fns "Split" then good else "facts-say-shared-or-impure"
    some ⟨m, verdictOf (impl == good) "split-writes-into-or-shares-data-with-its-input"⟩
  | "alias", _ :: _ :: c :: _ =>
    match copyRecv.find? (·.1 == c) with
    | none => some ⟨"bad-op", "na"⟩
    | some (_, r, n) =>
      -- the predicate is evaluated on the implementation's answer whatever the regenerated facts say (the facts
      -- only decide what the *model* expects): a copy that shares data is a failing input, not just a broken tie
      let good := "shared=0 orig-unchanged=1 copy-unchanged=1"
      -- `Sample` (a random subset of the *rows*) hands out the row buffers of its source; it is neither a clone, a
      -- sub-alignment nor a site selection, so C19 does not require it to own its data (DESIGN 7.2): not judged
      if c == "sample" && !ownsData fns r n then some ⟨"shared=1", "na"⟩ else
      some ⟨if ownsData fns r n then good else "shared=1",
            verdictOf (impl == good || impl == "err") "copy-shares-data-with-original"⟩
  | "aliascodon", [_, _] =>
    -- CodonAlign: the codon alignment against the set of nucleotide sequences it was threaded from
    let good := "shared=0 orig-unchanged=1 copy-unchanged=1"
    some ⟨if ownsData fns "align" "CodonAlign" then good else "shared=1",
          verdictOf (impl == good || impl == "err") "copy-shares-data-with-original"⟩
  | "aliasappend", _ :: _ :: c :: _ =>
    -- the derived alignment is grown in place (every row appended to): rows must read row ++ row and the source
    -- must be unchanged - what "owns its data" means for an appending mutation (spare capacity included)
    match copyRecv.find? (·.1 == c) with
    | none => some ⟨"bad-op", "na"⟩
    | some (_, r, n) =>
      let good := "append-ok=1 orig-unchanged=1"
      if impl == "not-an-alignment" then some ⟨impl, "na"⟩ else
      if c == "sample" then some ⟨"shared=1", "na"⟩ else
      some ⟨if ownsData fns r n then good else "shared=1",
            verdictOf (impl == good || impl == "err") "appending-to-a-copy-corrupts-its-rows-or-the-original"⟩
  | _, _ => none

end Gv.Oracle.PureOps
