import Gv.Oracle.Floats
import Gv.Gen.NumericModels
import Gv.Gen.ProteinTables
import Gv.Model.Pij
import Gv.Model.ProtModel
import Gv.Spec.SubstModels
/-!
Oracle handler for C18 (substitution models).  Op `c18 <model> <params> <s> <t>`; the
implementation's answer (tools/harness/ops_models.go) carries π, the eigen-system and the matrices
`P(s)`, `P(t)`, `P(s+t)` computed by goalign.

*Model side* (correspondence, relative tolerance 1e-9 + 1e-13, NaN/Inf classes exact): the regenerated
definitions of `Gv.Gen.Models` (tie T2) evaluated at `Float` — closed-form `Pij`, closed-form
eigen-systems, rate matrices — and the hand-written `Model.Pij` assembly.  For the models whose
eigen-system comes from gonum (F81, TN93, GTR, protein) the assembly is run on the implementation's
eigen-system and the regenerated rate matrix is compared with `R·D·L`.  When everything agrees the
model result is the implementation's text; otherwise it names the first disagreement.

*Verdict* (the C18 predicate on the implementation's numbers, absolute tolerance 1e-9 on
probabilities): finite, `L·R = I`, entries in [0,1], rows sum to one, P(0)=I, semigroup, detailed
balance, analytic = eigen-based (JC, K2P), spectrum, `R·D·L` = textbook rate matrix of `Spec.Subst`
scaled to mean rate one, equality with `exp(t·Q)` of that matrix (computed here without any
eigen-decomposition), spectral bound on the distance to the stationary frequencies.  All failing
clauses are listed (`fail:a+b`).
-/
namespace Gv.Oracle.Models
open Gv Gv.Oracle Gv.Oracle.F Gv.Gen.Models Gv.Spec.Subst

def relTol : Float := 1e-9
def absFloor : Float := 1e-13
/-- tolerance of the property predicate on probabilities -/
def tol : Float := 1e-9

def idx (a : Array Float) (k : Nat) : Float := a.getD k nan
def fn1 (a : Array Float) : Nat → Float := fun k => idx a k
def fn2 (n : Nat) (a : Array Float) : Nat → Nat → Float := fun i j => idx a (i * n + j)
def ofList2 (n : Nat) (l : List Float) : Nat → Nat → Float := fn2 n l.toArray

/-- first index where two arrays differ beyond the correspondence tolerance.  `cond` (optional) gives, per
entry, the sum of the absolute values of the terms of the dot product that produced it: two correct
`float64` evaluations of `Σ_k R_ik·exp(λ_k t)·L_kj` may differ by a few units in the last place *of the
terms* (`math.Exp` and libm's `exp` are not bit-identical), so `64·ε·Σ|terms|` is allowed on top of the
relative tolerance.  For a healthy eigen-system this is ≈ 1e-14; it only matters when the
implementation's eigen-system is garbage (entries of size 1e18, see the known finding). -/
def firstDiff (name : String) (model impl : Array Float) (cond : Option (Array Float) := none) : Option String :=
  if model.size != impl.size then some s!"{name}: size model={model.size} impl={impl.size}" else
  (List.range model.size).findSome? fun k =>
    let slack := match cond with
      | some c => absFloor + 64 * 2.220446049250313e-16 * idx c k
      | none => absFloor
    if close relTol slack (idx model k) (idx impl k) then none
    else some s!"{name}[{k}]: model={fmt (idx model k)} impl={fmt (idx impl k)}"

structure Setup where
  n : Nat
  pi : Array Float
  /-- regenerated closed-form eigen-system, if the model has one -/
  eig : Option (Array Float × Array Float × Array Float)
  /-- regenerated closed-form transition probability, if the model has one -/
  pij : Option (Nat → Nat → Float → Float)
  /-- regenerated rate matrix (row-major), if the model builds one -/
  qgen : Option (Array Float)
  /-- textbook exchangeabilities -/
  ex : Nat → Nat → Float

def uniform4 : Array Float := #[0.25, 0.25, 0.25, 0.25]

def setup (model : String) (p : Array Float) : Option Setup :=
  let g := idx p
  match model, p.size with
  | "jc", 0 =>
    let e := JCModel_Eigens (α := Float)
    some ⟨4, uniform4, some (e.val.toArray, e.leftvectors.toArray, e.rightvectors.toArray),
      some fun i j l => JCModel_Pij (Int.ofNat i) (Int.ofNat j) l, none, exJC⟩
  | "k2p", 1 =>
    let k := K2PModel_InitModel (g 0)
    let e := K2PModel_Eigens (m_kappa := k)
    some ⟨4, uniform4, some (e.val.toArray, e.leftvectors.toArray, e.rightvectors.toArray),
      some fun i j l => K2PModel_Pij (Int.ofNat i) (Int.ofNat j) l (m_kappa := k), none, exK2P (g 0)⟩
  | "f81", 4 =>
    some ⟨4, p, none, none, some (F81Model_InitModel (g 0) (g 1) (g 2) (g 3)).toArray, exF81⟩
  | "f84", 5 =>
    let f := F84Model_InitModel (g 0) (g 1) (g 2) (g 3) (g 4)
    let e := F84Model_Eigens (m_kappa := f.m_kappa) (m_piA := f.m_piA) (m_piC := f.m_piC)
      (m_piG := f.m_piG) (m_piT := f.m_piT)
    some ⟨4, #[f.m_piA, f.m_piC, f.m_piG, f.m_piT],
      some (e.val.toArray, e.leftvectors.toArray, e.rightvectors.toArray), none, none,
      exF84 (g 0) (g 1 + g 3) (g 2 + g 4)⟩
  | "tn93", 6 =>
    some ⟨4, p.extract 2 6, none, none,
      some (TN93Model_InitModel (g 0) (g 1) (g 2) (g 3) (g 4) (g 5)).toArray, exTN93 (g 0) (g 1)⟩
  | "gtr", 10 =>
    some ⟨4, p.extract 6 10, none, none,
      some (GTRModel_InitModel (g 0) (g 1) (g 2) (g 3) (g 4) (g 5) (g 6) (g 7) (g 8) (g 9)).toArray,
      exGTR (g 0) (g 1) (g 2) (g 3) (g 4) (g 5)⟩
  | "prot", sz =>
    if sz != 1 && sz != 21 then none else
    match Gen.Protein.table (g 0).toUInt64.toNat with
    | none => none
    | some (mt, pt) =>
      if (g 0).toUInt64.toNat.toFloat != g 0 then none else
      let sArr : Array Float := (mt.flatten.map Model.ProtModel.ofRat).toArray
      let pArr : Array Float := (pt.map Model.ProtModel.ofRat).toArray
      let user : Option (Nat → Float) := if sz == 21 then some (fn1 (p.extract 1 21)) else none
      let ini := Model.ProtModel.initModelN 20 (fn2 20 sArr) (fn1 pArr) user
      some ⟨20, (Array.range 20).map ini.pi, none, none, some (Mat.ofFn 20 ini.q).a, fn2 20 sArr⟩
  | _, _ => none

/-- `NewPij(model, x)` then `Pij(i,j)` for all `i j`, through the eigen-system path -/
def assemble (n : Nat) (val l r : Array Float) (x : Float) : Array Float :=
  (Mat.ofFn n fun i j => Model.Pij.newPijEntry n (fn1 val) (fn2 n l) (fn2 n r) x i j).a

/-- `Σ_k |R_ik · exp(λ_k x) · L_kj|`: the scale of the rounding error of `assemble` -/
def assembleAbs (n : Nat) (val l r : Array Float) (x : Float) : Array Float :=
  (Mat.ofFn n fun i j => Id.run do
    let mut v : Float := 0
    for k in [0:n] do
      v := v + (idx r (i * n + k) * Float.exp (idx val k * x) * idx l (k * n + j)).abs
    return v).a

def closedForm (n : Nat) (f : Nat → Nat → Float → Float) (x : Float) : Array Float :=
  (Mat.ofFn n fun i j => f i j x).a

def rdl (n : Nat) (val l r : Array Float) : Mat :=
  Mat.ofFn n fun i j => Id.run do
    let mut v : Float := 0
    for k in [0:n] do
      v := v + idx r (i * n + k) * idx val k * idx l (k * n + j)
    return v

/-- The C18 predicate on the implementation's numbers: the list of failing clauses (empty = holds).
Exact laws come first; the clauses that depend on the *scale* of the textbook rate matrix
(`rate-matrix-textbook`, `expm-textbook`, `limit-stationary`) last. -/
def predicate (n : Nat) (pi val l r : Array Float) (s t : Float) (ps pt pst : Array Float)
    (es : Option (Array Float × Array Float × Array Float)) (res : Array Float) (qspec : Mat) : List String := Id.run do
  let all := [ps, pt, pst] ++ (match es with | some (a, b, c) => [a, b, c] | none => [])
  let fin (a : Array Float) : Bool := a.all Float.isFinite
  if !(fin pi && fin val && fin l && fin r && all.all fin && fin res) then return ["nonfinite"]
  let mut bad : List String := []
  let flag (b : List String) (c : String) : List String := if b.contains c then b else b ++ [c]
  let L : Mat := ⟨n, l⟩
  let R : Mat := ⟨n, r⟩
  -- eigen-system consistency (what the external decomposition is trusted for, measured)
  if !(Mat.maxAbsDiff (Mat.mul L R) (Mat.ident n) ≤ tol && idx res 1 ≤ tol) then bad := flag bad "eigen-LR-identity"
  -- stochastic
  for p in all do
    for k in [0:n * n] do
      if !(idx p k ≥ -tol && idx p k ≤ 1 + tol) then bad := flag bad "entries-unit-interval"
    for i in [0:n] do
      let mut sum : Float := 0
      for j in [0:n] do
        sum := sum + idx p (i * n + j)
      if !((sum - 1).abs ≤ tol) then bad := flag bad "rows-sum-one"
  if !(idx res 2 ≤ tol && idx res 5 ≥ -tol && idx res 6 ≤ 1 + tol) then bad := flag bad "stochastic-go-side"
  -- P(0) = I
  let idm := Mat.ident n
  for (x, p) in [(s, ps), (t, pt), (s + t, pst)] do
    if x == 0 && !(Mat.maxAbsDiff ⟨n, p⟩ idm ≤ tol) then bad := flag bad "P0-identity"
  -- semigroup
  if !(Mat.maxAbsDiff (Mat.mul ⟨n, ps⟩ ⟨n, pt⟩) ⟨n, pst⟩ ≤ tol && idx res 3 ≤ tol) then bad := flag bad "semigroup"
  -- detailed balance
  for p in all do
    for i in [0:n] do
      for j in [0:n] do
        if !((idx pi i * idx p (i * n + j) - idx pi j * idx p (j * n + i)).abs ≤ tol) then
          bad := flag bad "detailed-balance"
  if !(idx res 4 ≤ tol) then bad := flag bad "detailed-balance"
  -- analytical formula = eigen-decomposition based value
  match es with
  | some (a, b, c) =>
    if !(Mat.maxAbsDiff ⟨n, a⟩ ⟨n, ps⟩ ≤ tol && Mat.maxAbsDiff ⟨n, b⟩ ⟨n, pt⟩ ≤ tol &&
         Mat.maxAbsDiff ⟨n, c⟩ ⟨n, pst⟩ ≤ tol) then bad := flag bad "analytic-vs-eigen"
  | none => pure ()
  -- spectrum: exactly one eigenvalue 0, the others negative
  let zeros := (val.filter fun v => v.abs ≤ tol).size
  if zeros != 1 || val.any (fun v => v > tol) then bad := flag bad "spectrum"
  -- the implementation's rate matrix R·D·L is the textbook one, scaled to mean rate one
  let qscale := if qspec.maxAbs > 1 then qspec.maxAbs else 1
  if !(Mat.maxAbsDiff (rdl n val l r) qspec ≤ tol * qscale && idx res 0 ≤ tol * qscale) then
    bad := flag bad "rate-matrix-textbook"
  -- equality with the matrix exponential of the textbook rate matrix
  for (x, p) in [(s, ps), (t, pt), (s + t, pst)] do
    if !(Mat.maxAbsDiff (Mat.expm qspec x) ⟨n, p⟩ ≤ tol) then bad := flag bad "expm-textbook"
  -- convergence to the stationary frequencies: the reversible-chain bound
  -- |P_ij(x) − π_j| ≤ sqrt(π_j/π_i)·exp(−gap·x), gap = smallest non-zero |eigenvalue|
  let gap := val.foldl (fun g v => if v.abs ≤ tol then g else if -v < g then -v else g) pinf
  for (x, p) in [(s, ps), (t, pt), (s + t, pst)] do
    for i in [0:n] do
      for j in [0:n] do
        let bound := Float.sqrt (idx pi j / idx pi i) * Float.exp (-(gap * x)) + tol
        if !((idx p (i * n + j) - idx pi j).abs ≤ bound) then bad := flag bad "limit-stationary"
  return bad

def handleCore : Handler := fun op args impl =>
  match op, args with
  | "c18", [model, params, s, t] => do
    let p ← parseFloats? params
    let s ← parseFloat? s
    let t ← parseFloat? t
    let su ← setup model p
    let n := su.n
    if impl.startsWith "err" || impl.startsWith "panic" || impl == "hang" || impl.startsWith "exit" then
      -- valid parameters never make the model construction fail
      return ⟨"ok", "fail:construction-" ++ (impl.splitOn " ").head!⟩
    let bad : Ans := ⟨"unparsable-impl", "fail:unparsable"⟩
    if !impl.startsWith "ok " then return bad
    let some secs := parseSections (impl.drop 3).toString | return bad
    let get (k : String) (sz : Nat) : Option (Array Float) :=
      (section? secs k).bind fun a => if a.size == sz then some a else none
    let some nI := get "n" 1 | return bad
    let some piI := get "pi" n | return bad
    let some valI := get "val" n | return bad
    let some lI := get "L" (n * n) | return bad
    let some rI := get "R" (n * n) | return bad
    let some psI := get "Ps" (n * n) | return bad
    let some ptI := get "Pt" (n * n) | return bad
    let some pstI := get "Pst" (n * n) | return bad
    let some resI := get "res" 7 | return bad
    let esI : Option (Array Float × Array Float × Array Float) := do
      let a ← get "Es" (n * n); let b ← get "Et" (n * n); let c ← get "Est" (n * n)
      pure (a, b, c)
    -- ---------------- model side ----------------
    let xs := [("s", s, psI), ("t", t, ptI), ("st", s + t, pstI)]
    let mut diff : Option String := none
    let chk (d : Option String) (name : String) (m i : Array Float) (cond : Option (Array Float) := none) :
        Option String :=
      match d with | some x => some x | none => firstDiff name m i cond
    if Model.Pij.dblMin (α := Float) != Float.ofBits c_DBL_MIN_bits.toUInt64 then
      diff := some "DBL_MIN of models/gamma.go is not 2^-1022"
    diff := chk diff "n" #[n.toFloat] nI
    diff := chk diff "pi" su.pi piI
    -- eigen-system used for the assembly: regenerated closed form, else the implementation's
    let (valM, lM, rM) := match su.eig with
      | some e => e
      | none => (valI, lI, rI)
    diff := chk diff "val" valM valI
    diff := chk diff "L" lM lI
    diff := chk diff "R" rM rI
    for (nm, x, pI) in xs do
      match su.pij with
      | some f => diff := chk diff ("P" ++ nm) (closedForm n f x) pI
      | none => diff := chk diff ("P" ++ nm) (assemble n valM lM rM x) pI (some (assembleAbs n valM lM rM x))
    match su.pij, esI with
    | some _, some (a, b, c) =>
      for (nm, x, eI) in [("s", s, a), ("t", t, b), ("st", s + t, c)] do
        diff := chk diff ("E" ++ nm) (assemble n valM lM rM x) eI (some (assembleAbs n valM lM rM x))
    | some _, none => diff := diff <|> some "missing eigen-based sections for an analytical model"
    | none, some _ => diff := diff <|> some "unexpected eigen-based sections"
    | none, none => pure ()
    -- regenerated rate matrix against the implementation's eigen-system (Q = R·D·L)
    -- The rate matrix is an unexported field: it is observable only through a valid eigen-system.  When
    -- the implementation's `L` is not the inverse of its `R` (a failing verdict clause, never silent)
    -- `R·D·L` says nothing about the matrix that was built, and this comparison is not possible.
    let lrOk := Mat.maxAbsDiff (Mat.mul ⟨n, lI⟩ ⟨n, rI⟩) (Mat.ident n) ≤ tol
    match su.qgen with
    | some q =>
      let qm : Mat := ⟨n, q⟩
      let sc := if qm.maxAbs > 1 then qm.maxAbs else 1
      let d := Mat.maxAbsDiff (rdl n valI lI rI) qm
      if lrOk && !(d ≤ relTol * sc) && diff.isNone then
        diff := some s!"Q(regenerated) vs R·D·L(impl): max diff {fmt d}"
    | none => pure ()
    let modelStr := match diff with | none => impl | some d => "MISMATCH " ++ d
    -- ---------------- verdict ----------------
    let qspec := Mat.ofFn n (textbookQ n su.ex (fn1 su.pi))
    let verdict := match predicate n piI valI lI rI s t psI ptI pstI esI resI qspec with
      | [] => "pass"
      | cs => "fail:" ++ "+".intercalate cs
    return ⟨modelStr, verdict⟩
  | _, _ => none

/-- `c18re <model> <params0> <params> <s> <t>`: the model value (and a live `Pij`) served `params0` before it was
initialised again with `params`; what it answers now must be exactly what a fresh model of `params` answers. -/
def handle : Handler := fun op args impl =>
  match op, args with
  | "c18re", [model, _, params, s, t] => handleCore "c18" [model, params, s, t] impl
  | "c18seq", [_, _, _] =>
    -- P(t) is a function of the model and of t: a Pij object that served other lengths before answers like a fresh one
    if impl.startsWith "err" then some ⟨impl, "na"⟩ else
    some ⟨"same", if impl == "same" then "pass" else "fail:transition-matrix-depends-on-earlier-lengths"⟩
  | _, _ => handleCore op args impl

end Gv.Oracle.Models
