import Gv.Oracle.Common
import Gv.Oracle.Dist
import Gv.Gen.ProteinTables
import Gv.Model.ProtModel
import Gv.Model.ProtDist
/-!
Oracle handler of property C17 (`c17`, see tools/harness/ops_protdist.go for the wire format).

* **model** = `Model/ProtDist.lean` run at `Float` in the variant read from the source
  (`sourceVariant`, regenerated facts): frequencies of the substitution model (bit-exact: only `+ /`),
  `p` (bit-exact), the JC69 distances (`math.Log`: relative 1e-12), and the three `MLDist` matrices
  (original, rows permuted, columns permuted) on the implementation's eigen-system.  `MLDist` goes
  through `exp`/`pow`/`log` and a Brent search whose branches compare likelihoods: Go's `math` and libm
  differ in the last place, so two faithful runs may take different branches near the end and stop at
  abscissae that differ by the stop rule's resolution (1e-6 as is).  Entries are compared with
  `|a−b| ≤ 1e-6·max(1,|a|,|b|)`; an entry outside that is still accepted when both values have the
  same likelihood to 1e-12 relative (two numerically indistinguishable maximisers on a flat stretch).
  When everything agrees the implementation's text is echoed as the model result.
* **verdict** = the C17 predicate evaluated on the *implementation's* matrices with the oracle's own
  pair frequencies and likelihood (nothing of `Model/ProtDist.lean` is used): see `predicate`.
-/
namespace Gv.Oracle.ProtDistOps
open Gv Gv.Oracle Gv.Model.ProtDist

/-! ### codec -/

def decFloats (s : String) : Option (Array Float) :=
  if s == "" then some #[] else (s.splitOn ",").foldlM (fun acc p => (DistOps.decFloat p).map acc.push) #[]

def sections (s : String) : Option (List (String × Array Float)) :=
  (s.splitOn ";").mapM fun sec =>
    match sec.splitOn "=" with
    | [k, v] => (decFloats v).map fun a => (k, a)
    | _ => none

def sec? (secs : List (String × Array Float)) (k : String) : Option (Array Float) := (secs.find? (·.1 == k)).map (·.2)

def decPerm (s : String) : Option (List Nat) := (decInts s).map fun l => l.map Int.toNat

def permute {β} (p : List Nat) (l : List β) (d : β) : List β := p.map fun k => l.getD k d

def fmtF (x : Float) : String := toString x

/-! ### comparison -/

def sameExact (a b : Float) : Bool := DistOps.sameExact a b

def closeRel (tol : Float) (a b : Float) : Bool :=
  DistOps.fclass a == DistOps.fclass b &&
  (DistOps.fclass a != 3 || a == b || (a - b).abs ≤ tol * (if a.abs > b.abs then a.abs else b.abs))

/-- abscissae of two runs of the same search: `|a−b| ≤ tol·max(1,|a|,|b|)` -/
def closeDist (tol : Float) (a b : Float) : Bool :=
  DistOps.fclass a == DistOps.fclass b &&
  (DistOps.fclass a != 3 || a == b ||
    (a - b).abs ≤ tol * (let m := if a.abs > b.abs then a.abs else b.abs; if m > 1 then m else 1))

def firstDiff (name : String) (cmp : Float → Float → Bool) (model impl : Array Float) : Option String :=
  if model.size != impl.size then some s!"{name}: size model={model.size} impl={impl.size}" else
  (List.range model.size).findSome? fun k =>
    if cmp (model.getD k 0) (impl.getD k 0) then none
    else some s!"{name}[{k}]: model={fmtF (model.getD k 0)} impl={fmtF (impl.getD k 0)}"

/-! ### the substitution model from the wire -/

structure Eig where
  pi : Array Float
  val : Array Float
  l : Array Float
  r : Array Float

def Eig.subst (e : Eig) (gamma : Bool) (alpha : Float) : Subst Float :=
  ⟨e.pi, e.val, e.l, e.r, gamma, alpha⟩

/-! ### the oracle's own pair frequencies and likelihood (specification side) -/

/-- the 20 amino acids in the order every empirical model lists them (PAML order) -/
def aaOrder : List Byte := "ARNDCQEGHILKMFPSTWYV".toUTF8.toList

def specIndex (c : Byte) : Option Nat :=
  let k := aaOrder.idxOf c
  if k < 20 then some k else none

/-- a column survives gap-site removal iff every row holds one of the 20 amino acids there -/
def specKept (rows : List Seq) (rmGaps : Bool) (l : Nat) : Bool :=
  !rmGaps || rows.all fun s => (specIndex (s.getD l 0)).isSome

/-- observed residue-pair frequencies of a pair of rows: weighted counts over the kept columns where both
rows hold an amino acid, divided by their total; `none` when no such column has weight -/
def specF (rows : List Seq) (rmGaps : Bool) (w : Nat → Float) (s t : Seq) : Option (Array Float) := Id.run do
  let mut cnt : Array Float := Array.replicate 400 0
  let mut tot : Float := 0
  for l in [0:s.length] do
    if specKept rows rmGaps l then
      match specIndex (s.getD l 0), specIndex (t.getD l 0) with
      | some x, some y =>
        cnt := cnt.modify (x * 20 + y) (· + w l)
        tot := tot + w l
      | _, _ => pure ()
  if tot > 0 then return some (cnt.map (· / tot)) else return none

/-- some column where both rows hold an amino acid and the two differ -/
def specDiffer (s t : Seq) : Bool :=
  (List.range s.length).any fun l =>
    (specIndex (s.getD l 0)).isSome && (specIndex (t.getD l 0)).isSome && s.getD l 0 != t.getD l 0

def tiny : Float := 2.2250738585072014e-308

/-- log-likelihood (per unit weight) of the pair frequencies `F` at distance `t`:
`Σ F_ij · log(π_i · P_ij(t))`, `P(t) = R · diag(g(λ_k t)) · L` with `g = exp` or the gamma-rate mixture
`(α/(α−x))^α`; a numerically non-positive probability counts as the smallest positive double -/
def specLnL (e : Eig) (gamma : Bool) (alpha : Float) (F : Array Float) (t : Float) : Float := Id.run do
  let mut g : Array Float := Array.mkEmpty 20
  for k in [0:20] do
    let x := e.val.getD k 0 * t
    g := g.push (if gamma then Float.pow (alpha / (alpha - x)) alpha else Float.exp x)
  let mut acc : Float := 0
  for i in [0:20] do
    for j in [0:20] do
      let f := F.getD (i * 20 + j) 0
      if f != 0 then
        let mut p : Float := 0
        for k in [0:20] do
          p := p + e.r.getD (i * 20 + k) 0 * g.getD k 0 * e.l.getD (k * 20 + j) 0
        let pp := if p > tiny then p else tiny
        acc := acc + f * Float.log (e.pi.getD i 0 * pp)
  return acc

def blMin : Float := 1e-8
def distCap : Float := 20

/-- 61 log-spaced distances from 1e-8 to 20 -/
def grid : List Float := (List.range 61).map fun k => blMin * Float.pow (distCap / blMin) (k.toFloat / 60)

def nearFactors : List Float := [1 - 1e-3, 1 + 1e-3, 1 - 1e-2, 1 + 1e-2]
def farFactors : List Float := [0.9, 1.1, 0.7, 1.3]

def clampRange (t : Float) : Float := if t < blMin then blMin else if t > distCap then distCap else t

/-- tolerance on a log-likelihood difference: 1e-9 relative to `max(1, |lnL|)`.  A search that stops with its
abscissa within the stop rule's 1e-6 of a maximiser loses ½·|L″|·1e-12 ≤ 2e-10 for every distance ≥ 0.003; float
noise of `specLnL` is ≈ 1e-15·|lnL|. -/
def lnLTol (l : Float) : Float := 1e-9 * (if l.abs > 1 then l.abs else 1)

inductive LkJudge | ok | nearby | grid
deriving BEq

/-- is `d` (0 ≤ d < 20) a maximiser of the pair's likelihood over [1e-8, 20] up to `lnLTol`?  `nearby`: some
distance within 1 % is better; `grid`: only farther ones are -/
def judgeLk (e : Eig) (gamma : Bool) (alpha : Float) (F : Array Float) (d : Float) : LkJudge :=
  let f := specLnL e gamma alpha F
  let l0 := f (clampRange d)
  let better := fun (t : Float) => f (clampRange t) > l0 + lnLTol l0
  if nearFactors.any fun c => better (d * c) then .nearby
  else if (farFactors.any fun c => better (d * c)) || grid.any better then .grid
  else .ok

/-! ### decoding a case -/

structure Case17 where
  idx : Nat
  modelFreqs : Bool
  gamma : Bool
  alpha : Float
  rmGaps : Bool
  ws : Option (List Float)
  rp : List Nat
  cp : List Nat
  rows : List Seq

def decCase (args : List String) : Option Case17 :=
  -- an optional tenth field `reuse` (one model object for the three calls) does not change what is expected
  match args.take 9 with
  | [model, mf, gamma, alpha, rg, weights, rp, cp, rows] => do
    let idx ← model.toNat?
    let alpha ← DistOps.decRatio alpha
    let ws ← DistOps.decWeights weights
    let rp ← decPerm rp
    let cp ← decPerm cp
    let rows ← decRows rows
    pure ⟨idx, decBool mf, decBool gamma, alpha, decBool rg, ws, rp, cp, rows.map (·.2)⟩
  | _ => none

def Case17.rowPermuted (c : Case17) : List Seq := permute c.rp c.rows []
def Case17.colPermuted (c : Case17) : List Seq := c.rows.map fun s => permute c.cp s 0
def Case17.colWeights (c : Case17) : Option (List Float) := c.ws.map fun w => permute c.cp w 0

structure Impl where
  base : Eig
  rowE : Eig
  colE : Eig
  p : Array Float
  jc : Array Float
  d : Array Float
  dr : Array Float
  dc : Array Float

def decImpl (impl : String) : Option Impl := do
  if !impl.startsWith "ok " then none
  let secs ← sections (impl.drop 3).toString
  let g := sec? secs
  let base : Eig := ⟨← g "pi", ← g "val", ← g "L", ← g "R"⟩
  let rowE : Eig := match g "valr", g "Lr", g "Rr" with
    | some v, some l, some r => ⟨(g "pir").getD #[], v, l, r⟩
    | _, _, _ => base
  let colE : Eig := match g "valc", g "Lc", g "Rc" with
    | some v, some l, some r => ⟨(g "pic").getD #[], v, l, r⟩
    | _, _, _ => base
  pure ⟨base, { rowE with pi := ← g "pir" }, { colE with pi := ← g "pic" }, ← g "p", ← g "jc", ← g "d", ← g "dr", ← g "dc"⟩

/-! ### model side -/

def flat (m : List (List Float)) : Array Float := m.flatten.toArray

def tablePi (idx : Nat) : Option (List Float) :=
  (Gen.Protein.table idx).map fun t => t.2.map Model.ProtModel.ofRat

def errName : MLErr → String
  | .sumInvalid => "err mldist"
  | .tooManyIterations => "panic"

/-- one `MLDist` call of the model on the implementation's eigen-system -/
def modelRun (v : Variant) (c : Case17) (e : Eig) (rows : List Seq) (ws : Option (List Float)) : Except MLErr (Array Float) :=
  (mlDist v (e.subst c.gamma c.alpha) c.rmGaps rows ws).map flat

/-- two values of the same search that differ by more than the stop rule's resolution are still the same answer when
their likelihoods are indistinguishable -/
def sameAnswer (c : Case17) (e : Eig) (rows : List Seq) (ws : Option (List Float)) (n : Nat) (k : Nat) (a b : Float) : Bool :=
  closeDist 1e-6 a b ||
  (a.isFinite && b.isFinite && a ≥ 0 && b ≥ 0 &&
    (match specF rows c.rmGaps (fun l => match ws with | none => 1 | some w => w.getD l 0) (rows.getD (k / n) []) (rows.getD (k % n) []) with
     | some F =>
       let la := specLnL e c.gamma c.alpha F (clampRange a)
       let lb := specLnL e c.gamma c.alpha F (clampRange b)
       (la - lb).abs ≤ 1e-12 * (if la.abs > 1 then la.abs else 1)
     | none => false))

def cmpMatrix (name : String) (c : Case17) (e : Eig) (rows : List Seq) (ws : Option (List Float))
    (model : Except MLErr (Array Float)) (impl : Array Float) : Option String :=
  match model with
  | .error er => some s!"{name}: model={errName er} impl=ok"
  | .ok m =>
    if m.size != impl.size then some s!"{name}: size model={m.size} impl={impl.size}" else
    (List.range m.size).findSome? fun k =>
      if sameAnswer c e rows ws rows.length k (m.getD k 0) (impl.getD k 0) then none
      else some s!"{name}[{k}]: model={fmtF (m.getD k 0)} impl={fmtF (impl.getD k 0)}"

def modelSide (v : Variant) (c : Case17) (im : Impl) (impl : String) : String :=
  match tablePi c.idx with
  | none => "bad-model-index"
  | some tpi =>
    let n := c.rows.length
    let len := alLength c.rows
    if Model.ProtDist.dblMin (α := Float) != Float.ofBits Gen.ProtDist.c_DBL_MIN_bits.toUInt64 then "DBL_MIN: the model's floor is not the source's constant" else
    let pi := (modelPi v c.modelFreqs c.rmGaps tpi c.rows c.ws).toArray
    let pir := (modelPi v c.modelFreqs c.rmGaps tpi c.rowPermuted c.ws).toArray
    let pic := (modelPi v c.modelFreqs c.rmGaps tpi c.colPermuted c.colWeights).toArray
    let w := defaultWeights len c.ws
    let pm := flat (jc69Dist c.rows w (selectedSites c.rows c.rmGaps)).1
    let jc := flat (jc69Dist c.rows w (List.replicate len true)).2
    let checks : List (Unit → Option String) := [
      fun _ => firstDiff "pi" sameExact pi im.base.pi,
      fun _ => firstDiff "pir" sameExact pir im.rowE.pi,
      fun _ => firstDiff "pic" sameExact pic im.colE.pi,
      fun _ => if im.p.size != n * n then some "p: size" else none,
      fun _ => firstDiff "p" sameExact pm im.p,
      fun _ => firstDiff "jc" (closeRel 1e-12) jc im.jc,
      fun _ => cmpMatrix "d" c im.base c.rows c.ws (modelRun v c im.base c.rows c.ws) im.d,
      fun _ => cmpMatrix "dr" c im.rowE c.rowPermuted c.ws (modelRun v c im.rowE c.rowPermuted c.ws) im.dr,
      fun _ => cmpMatrix "dc" c im.colE c.colPermuted c.colWeights (modelRun v c im.colE c.colPermuted c.colWeights) im.dc]
    match checks.findSome? (fun f => f ()) with
    | some msg => msg
    | none => impl

/-! ### the C17 predicate on the implementation's matrices -/

def addClause (b : List String) (c : String) : List String := if b.contains c then b else b ++ [c]

/-- failing clauses (empty = the property holds on this case).

* `nonfinite`, `symmetric`, `diag-zero`, `range` (an entry outside [0, 20]; `range-missing-marker` when every such
  entry is exactly −1 and belongs to a pair without any usable column), `zero-no-diff` (a pair without a column
  where both rows hold different amino acids is not at 0);
* `lk-nearby` / `lk-grid`: an entry below the cap is not a maximiser of the oracle's likelihood (see `judgeLk`);
  judged on the three matrices, each under the model that call used;
* `row-perm`, `col-perm`: the matrix of the permuted alignment is not the permuted / the same matrix
  (`closeDist 1e-5`, or equal likelihood to 1e-12), for pairs whose entries are maximisers in both calls —
  a non-maximiser is reported by its own clause; `…-empirical-freq` when the two calls counted different
  equilibrium frequencies in the same alignment (relative difference > 1e-9). -/
def predicate (c : Case17) (im : Impl) : List String := Id.run do
  let n := c.rows.length
  let sz := n * n
  if im.d.size != sz || im.dr.size != sz || im.dc.size != sz then return ["shape"]
  if !(im.d.all Float.isFinite && im.dr.all Float.isFinite && im.dc.all Float.isFinite) then return ["nonfinite"]
  let mut bad : List String := []
  let cellOf := fun (m : Array Float) (i j : Nat) => m.getD (i * n + j) 0
  let wOf := fun (ws : Option (List Float)) (l : Nat) => match ws with | none => (1 : Float) | some w => w.getD l 0
  let rrows := c.rowPermuted
  let crows := c.colPermuted
  -- structure of each of the three matrices
  for m in [im.d, im.dr, im.dc] do
    for i in [0:n] do
      if cellOf m i i != 0 then bad := addClause bad "diag-zero"
      for j in [0:n] do
        if cellOf m i j != cellOf m j i then bad := addClause bad "symmetric"
  -- per pair of the original alignment (and the same pair in the permuted calls)
  let inv := fun (k : Nat) => c.rp.idxOf k       -- position of original row k in the row-permuted alignment
  let freqDiffers := fun (a b : Array Float) =>
    (List.range 20).any fun k => !(closeRel 1e-9 (a.getD k 0) (b.getD k 0))
  let rowFreq := freqDiffers im.base.pi im.rowE.pi
  let colFreq := freqDiffers im.base.pi im.colE.pi
  for i in [0:n] do
    for j in [i+1:n] do
      let s := c.rows.getD i []
      let t := c.rows.getD j []
      let d0 := cellOf im.d i j
      let d1 := cellOf im.dr (inv i) (inv j)
      let d2 := cellOf im.dc i j
      let F := specF c.rows c.rmGaps (wOf c.ws) s t
      -- range
      for d in [d0, d1, d2] do
        if !(d ≥ 0 && d ≤ distCap) then
          bad := addClause bad (if d == -1 && F.isNone then "range-missing-marker" else "range")
      -- no unambiguous difference => 0
      if !specDiffer s t && !(d0 == 0 && d1 == 0 && d2 == 0) then bad := addClause bad "zero-no-diff"
      -- likelihood maximiser, each call under its own model and its own view of the pair
      let mut allMax := true
      match F with
      | none => pure ()
      | some F0 =>
        -- row-permuted call: the same two rows, possibly in the other order
        let (a, b) := (inv i, inv j)
        let Fr := if a < b then specF rrows c.rmGaps (wOf c.ws) (rrows.getD a []) (rrows.getD b [])
                  else specF rrows c.rmGaps (wOf c.ws) (rrows.getD b []) (rrows.getD a [])
        let Fc := specF crows c.rmGaps (wOf c.colWeights) (crows.getD i []) (crows.getD j [])
        for (d, e, Fx) in [(d0, im.base, some F0), (d1, im.rowE, Fr), (d2, im.colE, Fc)] do
          match Fx with
          | none => pure ()
          | some Fx =>
            if d ≥ 0 && d < distCap then
              match judgeLk e c.gamma c.alpha Fx d with
              | .ok => pure ()
              | .nearby => bad := addClause bad "lk-nearby"; allMax := false
              | .grid => bad := addClause bad "lk-grid"; allMax := false
        -- permutations (only between maximisers)
        if allMax then
          let same := fun (x y : Float) =>
            closeDist 1e-5 x y ||
            (x ≥ 0 && y ≥ 0 &&
              (let lx := specLnL im.base c.gamma c.alpha F0 (clampRange x)
               let ly := specLnL im.base c.gamma c.alpha F0 (clampRange y)
               -- the tolerance under which each of them was accepted as a maximiser (`judgeLk`)
               (lx - ly).abs ≤ lnLTol lx))
          if !same d0 d1 then bad := addClause bad (if rowFreq then "row-perm-empirical-freq" else "row-perm")
          if !same d0 d2 then bad := addClause bad (if colFreq then "col-perm-empirical-freq" else "col-perm")
      -- pairs without usable column: the permuted calls must still agree exactly
      if F.isNone then
        if d0 != d1 then bad := addClause bad "row-perm"
        if d0 != d2 then bad := addClause bad "col-perm"
  return bad

def verdictOfClauses (b : List String) : String := if b.isEmpty then "pass" else "fail:" ++ "+".intercalate b

def handle : Handler := fun op args impl =>
  match op with
  | "c17" =>
    match decCase args with
    | none => some ⟨"bad-args", "na"⟩
    | some c =>
      match decImpl impl with
      | none =>
        -- the library reported an error / panicked: outside what the generator produces; the model is not asked
        some ⟨"ok", "fail:call-failed"⟩
      | some im =>
        let verdict := verdictOfClauses (predicate c im)
        match sourceVariant with
        | none => some ⟨"unknown-source-shape (Gen.ProtDist facts)", verdict⟩
        | some v => some ⟨modelSide v c im impl, verdict⟩
  | _ => none

end Gv.Oracle.ProtDistOps
