import Gv.Oracle.Common
import Gv.Model.PhaseAlign
/-!
Oracle handlers for the aligner behind phasing (C16; ops of `tools/harness/ops_phasealign.go`).

* `atgalign`: model result = `Gv.Model.PhaseAlign.alignATG` of the variant the harness detected, rendered
  like the harness renders the real result; verdict = the executable form of the (partial) clause "the
  reference occurs verbatim exactly once ⇒ the alignment is that occurrence" evaluated on the
  **implementation's** result.
* `phasent1`: model result = `phaseNT` on one sequence; verdict = "trimmed exactly at the ORF's start"
  under the same premise; a removed result must carry the untrimmed input.  A run-time panic (none is left
  in the repaired code on the generated inputs) is rendered `exit:2`: the harness process dies.
* `phaseaa1`: model result = `phaseAAOfRefs` (what `Phase()` does with the references in translate mode, then
  `phaseAA` = `alignAgainstRefsAA`) on one sequence, rendered like `phasent1`; verdict = `aaVerdict`, the framing
  clauses of C16 evaluated on the **implementation's** result from definitions that do not use the model.
-/
namespace Gv.Oracle.PhaseAlignOps
open Gv Gv.Oracle Gv.Model Gv.Model.SW Gv.Model.Phase Gv.Model.PhaseAlign

def encSeq (s : Seq) : String := if s.isEmpty then "_" else stringOfBytes s
def decSeq (s : String) : Seq := if s == "_" then [] else bytesOfString s

def renderAtg (v : Nat) : AtgOutcome → String
  | .ok r =>
    s!"ok v={v} sc={r.score} st={r.start1},{r.start2} en={r.end1},{r.end2} len={r.length} " ++
    s!"nm={r.nmatch} mis={r.nmismatch} gap={r.ngaps} r1={encSeq r.row1} r2={encSeq r.row2} unmod=1"
  | .err => s!"err v={v}"
  | .panic => s!"panic v={v}"

def renderNT (v : Nat) : NTOut → String
  | .ok p _ =>
    match p.aa with
    | some aa => s!"ok v={v} {p.position}|0|{encSeq p.nt}|{encSeq p.codon}|{encSeq aa}"
    | none => s!"ERR v={v}"
  | .removed p => s!"ok v={v} {p.position}|1|{encSeq p.nt}|{encSeq p.codon}|{encSeq (p.aa.getD [])}"
  | .err => s!"ERR v={v}"
  | .panic => "exit:2"

def fields (s : String) : List (String × String) :=
  (s.splitOn " ").filterMap fun f =>
    match f.splitOn "=" with
    | [k, v] => some (k, v)
    | _ => none

def optInt (s : String) : Option (Option Int) :=
  if s == "d" then some none else (parseInt? s).map some

/-- the substitution score the configured aligner gives to a pair of residues (index map + matrix, or byte
equality after `SetScore`) -/
def subOf (a : Aligner) (x y : Byte) : Int :=
  let idx (c : Byte) : Nat := match a.chartopos with
    | none => 0
    | some tbl => (lookup (toUpper c) tbl).getD 0
  matchScore a (x, idx x) (y, idx y)

/-- diagonal dominance (`Proofs.PhaseAlignSpec.Dom`), decided on the two sequences -/
def domB (a : Aligner) (s t : Seq) : Bool :=
  s.all fun x => decide (0 < subOf a x x) &&
    t.all fun y => decide (subOf a x y ≤ subOf a x x) && (subOf a x y != subOf a x x || y == x)

/-- the premise of the (partial) clause, decided on the inputs alone: the hypotheses of
`Props.C16.atg_verbatim_aligned_at_occurrence_partial` -/
def premise (a : Aligner) (orf seq : Seq) : Bool :=
  domB a orf seq && decide (a.gapopen ≤ a.gapextend) && decide (a.gapextend < 0) && !orf.isEmpty &&
  !orf.contains GAP && (occurrences orf seq).length == 1

/-- the C16 clauses for ONE result of the translate mode (`alignAgainstRefsAA`), evaluated on the implementation's
answer `<pos>|<removed>|<nt>|<codon>|<aa>` from the inputs alone (the strands, the published translation
`codonsFrom` — nothing of `phaseAA` / `assembleAA`):

* a removed result (the cut-offs are switched off, so: no alignment with a positive score) is the untrimmed
  input at position 0, codon sequence = input, no amino acids;
* a kept result: the trimmed nucleotides occur at the reported position of the forward strand — or, only when
  both strands are searched, of the reverse-complemented copy — and run to the end of that strand unless the end
  is cut; the codon sequence IS the trimmed sequence; the amino acids are exactly the frame-0 translation of the
  codon sequence with the case's genetic code, i.e. one residue per complete codon: the 1 or 2 nucleotides that
  may follow the last complete codon (`(len − position) mod 3`, possible only without cut-end) are kept in the
  nucleotide / codon sequences and have no amino acid; with cut-end the trimmed sequence is a whole number of
  codons, so `3 · |aa| = |nt|`. -/
def aaVerdict (code : List (List Byte × Byte)) (reverse cutend : Bool) (seq : Seq) (impl : String) : String :=
  if impl.startsWith "panic" || impl.startsWith "exit:" then "fail:worker-panic" else
  if !impl.startsWith "ok " then "na" else
  match ((impl.splitOn " ").getD 2 "").splitOn "|" with
  | [pos, rm, nt, codon, aa] =>
    match pos.toNat? with
    | none => "fail:bad-result"
    | some pos =>
      let nt := decSeq nt
      let codon := decSeq codon
      let aa := decSeq aa
      if rm == "1" then
        verdictOf (pos == 0 && nt == seq && codon == seq && aa.isEmpty) "removed-result-is-not-the-input"
      else
        let strands := if reverse then [seq, revcompIgnoringError seq] else [seq]
        if !(strands.any fun t => occursAt nt t pos && (cutend || pos + nt.length == t.length)) then
          "fail:nt-not-substring-of-strand-at-position"
        else if codon != nt then "fail:codon-sequence-differs-from-trimmed-nucleotides"
        else if aa != codonsFrom code codon then "fail:aa-not-translation-of-codon-sequence"
        else if cutend && nt.length % 3 != 0 then "fail:cutend-not-whole-codons"
        else "pass"
  | _ => "fail:bad-result"

def handle : Handler := fun op args impl =>
  match op, args with
  | "atgalign", [den, gopen, gext, mt, mm, s1, s2] => do
    let den ← parseInt? den
    let gopen ← optInt gopen
    let gext ← optInt gext
    let s1 := decSeq s1
    let s2 := decSeq s2
    let f := fields impl
    let v : Nat := ((lookup "v" f).bind String.toNat?).getD 0
    let fixed := v % 2 == 1
    let fa := v / 2 % 2 == 1
    let setScore : Option (Int × Int) ←
      if mt == "_" then some none else do
        let x ← parseInt? mt
        let y ← parseInt? mm
        some (some (x, y))
    let a := configure den s1 s2 gopen gext setScore fa
    let model := renderAtg v (alignATG a fixed s1 s2)
    let inScope := DyadicScheme a s1.length s2.length
    let verdict :=
      if !inScope then "na"
      else if impl.startsWith "panic" || impl.startsWith "exit:" then "fail:panic"
      else if (lookup "unmod" f).getD "1" != "1" then "fail:input-modified"
      else if premise a s1 s2 then
        let off := (occurrences s1 s2).getD 0 0
        let want := s!"sc={(s1.map fun x => subOf a x x).foldl (· + ·) 0} st=0,{off} en={s1.length - 1},{off + s1.length - 1} " ++
          s!"len={s1.length} nm={s1.length} mis=0 gap=0 r1={encSeq s1} r2={encSeq s1}"
        verdictOf ((impl.splitOn want).length == 2) "verbatim-orf-not-aligned-at-its-occurrence"
      else "na"
    some ⟨model, verdict⟩
  | "phasent1", [den, gopen, gext, mt, mm, rev, ce, code, orfs, seq] => do
    let den ← parseInt? den
    let gopen ← optInt gopen
    let gext ← optInt gext
    let codeId ← parseInt? code
    let refs ← decRows orfs
    let seq := decSeq seq
    let f := fields impl
    let v : Nat := ((lookup "v" f).bind String.toNat?).getD 3
    let setScore : Option (Int × Int) ←
      if mt == "_" then some none else do
        let x ← parseInt? mt
        let y ← parseInt? mm
        some (some (x, y))
    match geneticCode codeId with
    | none => some ⟨"err-code", "na"⟩
    | some tbl =>
      let c : NTCfg := { den := den, gapopen := gopen.getD (-10 * den), gapextend := gext.getD (-(den / 2)),
                         scores := setScore, reverse := decBool rev, cutend := decBool ce,
                         fixed := v % 2 == 1, alphaFixed := v / 2 % 2 == 1 }
      -- Phase() translates the (nucleotide) references before anything else, also in nucleotide mode: a
      -- reference shorter than a codon makes it return an error
      let out := phaseNT c tbl (refs.map (·.2)) seq
      let model := if refs.any (fun r => r.2.length < 3) then s!"err v={v}" else renderNT v out
      -- "exactly one result per input": a removed result is the input itself, untrimmed
      let removedOk :=
        match ((impl.splitOn " ").getD 2 "").splitOn "|" with
        | [pos, "1", nt, _, _] => verdictOf (pos == "0" && nt == encSeq seq) "removed-result-is-not-the-input"
        | _ => "na"
      let verdict :=
        if impl.startsWith "panic" || impl.startsWith "exit:" then "fail:worker-panic" else
        -- the hypotheses of `Props.C16.phase_nt_verbatim_multi_partial`, decided on the inputs: the (reference, strand)
        -- pairs in the order `alignAgainstRefsNT` tries them; exactly one pair meets the premise of the verbatim clause
        -- on its strand; every other pair is diagonally dominant, a pair tried earlier has no gap character on its strand
        -- and either a smaller self-score or an equal one without any verbatim occurrence, a pair tried later has no
        -- greater self-score.  Then the winning hit is that occurrence, aligned without gaps: trimmed at its start, and the
        -- codon sequence - in frame with the trimmed nucleotides - is the trimmed sequence itself.
        let strands : List Seq := if c.reverse then [seq, revcompIgnoringError seq] else [seq]
        let pairs : List (Seq × Seq) := refs.flatMap fun r => strands.map fun t => (r.2, t)
        let selfOf (r t : Seq) : Int := let b := c.aligner r t; (r.map fun x => subOf b x x).foldl (· + ·) 0
        let good (r t : Seq) : Bool := let b := c.aligner r t; DyadicScheme b r.length t.length && premise b r t
        let bounded (r t : Seq) : Bool := let b := c.aligner r t; DyadicScheme b r.length t.length && domB b r t
        match (pairs.zipIdx.filter fun (p, _) => good p.1 p.2) with
        | [((r, t), k)] =>
          let others := pairs.zipIdx.filter fun (_, j) => j != k
          if others.all (fun ((r', t'), j) => bounded r' t' &&
               (if j < k then !t'.contains GAP &&
                    (decide (selfOf r' t' < selfOf r t) ||
                     (decide (selfOf r' t' ≤ selfOf r t) && (occurrences r' t').isEmpty))
                else decide (selfOf r' t' ≤ selfOf r t))) then
            let off := (occurrences r t).getD 0 0
            let nt := if c.cutend then r else t.drop off
            if !impl.startsWith s!"ok v={v} {off}|0|{encSeq nt}|" then "fail:verbatim-orf-not-trimmed-at-its-start"
            else verdictOf (impl.startsWith s!"ok v={v} {off}|0|{encSeq nt}|{encSeq nt}|")
                   "verbatim-orf-codon-sequence-out-of-frame"
          else removedOk
        | _ => removedOk
      some ⟨model, verdict⟩
  | "phaseaa1", [den, gopen, gext, mt, mm, rev, ce, code, orfs, seq] => do
    let den ← parseInt? den
    let gopen ← optInt gopen
    let gext ← optInt gext
    let codeId ← parseInt? code
    let refs ← decRows orfs
    let seq := decSeq seq
    let f := fields impl
    let v : Nat := ((lookup "v" f).bind String.toNat?).getD 3
    let setScore : Option (Int × Int) ←
      if mt == "_" then some none else do
        let x ← parseInt? mt
        let y ← parseInt? mm
        some (some (x, y))
    match geneticCode codeId with
    | none => some ⟨"err-code", "na"⟩
    | some tbl =>
      let c : NTCfg := { den := den, gapopen := gopen.getD (-10 * den), gapextend := gext.getD (-(den / 2)),
                         scores := setScore, reverse := decBool rev, cutend := decBool ce,
                         fixed := v % 2 == 1, alphaFixed := v / 2 % 2 == 1 }
      -- the harness builds the reference bag with `AutoAlphabet()`: nucleotide references are translated by `Phase()`
      let rs := refs.map (·.2)
      let model := match phaseAAOfRefs c tbl (autoAlphabet rs) rs seq with
        | none => s!"err v={v}"
        | some out => renderNT v out
      some ⟨model, aaVerdict tbl c.reverse c.cutend seq impl⟩
  | _, _ => none

end Gv.Oracle.PhaseAlignOps
