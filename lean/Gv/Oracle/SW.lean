import Gv.Oracle.Common
import Gv.Model.SW
import Gv.Spec.SW
import Gv.Spec.Matrices
/-!
Oracle handler for C09 (`sw` op, see `tools/harness/ops_sw.go` for the wire format).

* model result: `Gv.Model.SW.align` of the variant the harness detected (`v` = border bit +
  2 · alphabet bit; `0` = code as shipped, `1` = border repair, `2` = alphabet repair, `3` = both),
  rendered exactly like the harness renders the real result;
* verdict: the C09 predicate evaluated on the **implementation's** result with the independent
  definitions of `Gv.Spec.SW` (column reading of the rows, affine score, Gotoh optimum, and for tiny
  inputs the enumeration of all local alignments).
-/
namespace Gv.Oracle.SWOps
open Gv Gv.Oracle Gv.Model.SW

def encSeq (s : Seq) : String := if s.isEmpty then "_" else stringOfBytes s
def decSeq (s : String) : Seq := if s == "_" then [] else bytesOfString s

def render (v : Nat) : Outcome → String
  | .ok r =>
    s!"ok v={v} sc={r.score} st={r.start1},{r.start2} en={r.end1},{r.end2} len={r.length} " ++
    s!"nm={r.nmatch} mis={r.nmismatch} gap={r.ngaps} r1={encSeq r.row1} r2={encSeq r.row2} al=1 unmod=1"
  | .err => s!"err v={v}"
  | .panic => s!"panic v={v}"

def fields (s : String) : List (String × String) :=
  (s.splitOn " ").filterMap fun f =>
    match f.splitOn "=" with
    | [k, v] => some (k, v)
    | _ => none

def pair? (s : String) : Option (Int × Int) :=
  match s.splitOn "," with
  | [a, b] => do let x ← parseInt? a; let y ← parseInt? b; pure (x, y)
  | _ => none

/-! ### the scheme "as configured", stated independently of the model -/

def keysOf (tbl : List (Byte × Nat)) : List Byte := tbl.map (·.1)
def specUpper (c : Byte) : Byte := if 97 ≤ c ∧ c ≤ 122 then c - 32 else c
def allIn (keys : List Byte) (s : Seq) : Bool := s.all fun c => keys.contains (specUpper c)

def matrixSub (den : Int) (tbl : List (Byte × Nat)) (mat : List (List Int)) (a b : Byte) : Int :=
  match lookup (specUpper a) tbl, lookup (specUpper b) tbl with
  | some i, some j => den * ((mat.getD i []).getD j 0)
  | _, _ => 0

/-- `mat` mode: DNAfull when both sequences are IUPAC nucleotide sequences, else BLOSUM62 when both
are amino-acid sequences; `mm` mode: byte equality -/
def specScheme (mode : String) (den mt mm gopen gext : Int) (s1 s2 : Seq) : Option Spec.SW.Scheme :=
  if mode == "mm" then
    some ⟨fun a b => if a == b then mt else mm, gopen, gext⟩
  else if allIn (keysOf Gen.dna_to_matrix_pos) s1 && allIn (keysOf Gen.dna_to_matrix_pos) s2 then
    -- the reference scores with the matrices AS PUBLISHED (`Spec/Matrices.lean`), not with the regenerated tables
    some ⟨fun a b => den * (Spec.Matrices.dnaScore a b).getD 0, gopen, gext⟩
  else if allIn (keysOf Gen.prot_to_matrix_pos) s1 && allIn (keysOf Gen.prot_to_matrix_pos) s2 then
    some ⟨fun a b => den * (Spec.Matrices.protScore a b).getD 0, gopen, gext⟩
  else none

def sub (s : Seq) (a b : Int) : Option Seq :=
  -- s[a .. b] inclusive, `a ≤ b + 1`
  if 0 ≤ a ∧ a ≤ b + 1 ∧ b + 1 ≤ (s.length : Int) then
    some ((s.drop a.toNat).take ((b + 1 - a).toNat))
  else none

/-- C09 on one implementation result; `tiny` adds the enumeration of all local alignments -/
def predicate (S : Spec.SW.Scheme) (s1 s2 : Seq) (tiny : Bool) (f : List (String × String)) : String :=
  let get (k : String) : Option String := lookup k f
  let int (k : String) : Option Int := (get k).bind parseInt?
  match int "sc", (get "st").bind pair?, (get "en").bind pair?, int "len", int "nm", int "mis", int "gap",
        get "r1", get "r2", get "al", get "unmod" with
  | some sc, some (st1, st2), some (en1, en2), some len, some nm, some mis, some gap,
    some r1, some r2, some al, some unmod =>
    let r1 := decSeq r1
    let r2 := decSeq r2
    if r1.length != r2.length then "fail:rows-length" else
    match Spec.SW.colsOfRows r1 r2 with
    | none => "fail:all-gap-column"
    | some cols =>
      if sub s1 st1 en1 != some (r1.filter (· != GAP)) then "fail:row1-substring" else
      if sub s2 st2 en2 != some (r2.filter (· != GAP)) then "fail:row2-substring" else
      if nm < 0 || mis < 0 || gap < 0 || nm + mis + gap != len || len != (r1.length : Int) then "fail:counts" else
      if al != "1" then "fail:alignment-object" else
      if unmod != "1" then "fail:input-modified" else
      let best := Spec.SW.gotohBest S s1 s2
      if tiny && Spec.SW.enumBest S s1 s2 != best then "fail:oracle-gotoh-vs-enumeration" else
      if best > 0 then
        if sc != Spec.SW.score S cols then "fail:score-self"
        else if sc != best then "fail:not-optimal"
        else "pass"
      else "pass"
  | _, _, _, _, _, _, _, _, _, _, _ => "fail:unparsable-result"

/-! ### attribution of a failure to a recorded finding

Closed set of classifiers, each a decidable predicate on the input, evaluated on the model of the
variant the harness detected (the driver separately insists that this model reproduces the
implementation's result):

border logic as shipped (variant bit 0 unset)
* `empty-sequence`  — one of the sequences is empty;
* `border-max`      — some cell of the first row or column of the shipped matrix holds a value
                      greater than the tracked maximum (the running maximum skips the borders);
* `border-trace`    — the shipped stop rule lets the trace-back enter a non-positive border cell:
                      re-running the trace-back on the same matrices with the repaired stop rule
                      gives a different alignment;
* `maxa-init`       — `maxa[j]` is initialised with the *extension* penalty because the first row
                      holds a horizontal gap (`trace[0][j-1] == LEFT`) and there is a second row;

alphabet choice as shipped (variant bit 1 unset)
* `stop-codon-alphabet` — a sequence contains the stop `*` and every residue of both sequences is
                      in `DetectAlphabet`'s nucleotide-compatible class, so the DNA matrix is chosen
                      and `*` rejected although both sequences are BLOSUM62 sequences.

A failure is attributed only if, in addition, (a) the model of the detected variant exhibits the very
same failing clause on this input (the failure is a consequence of the modelled logic, not of
something else the implementation does) and (b) the fully repaired model satisfies the whole
predicate on the same input.  Anything else stays an unattributed `fail:<clause>`. -/
def attributeFailure (cfg : Bool → Aligner) (fixed fa : Bool) (S : Spec.SW.Scheme) (s1 s2 : Seq) (tiny : Bool)
    (verdict : String) : Option String :=
  let a := cfg fa
  let cur := align a fixed s1 s2
  let curVerdict := match cur with
    | .ok _ => predicate S s1 s2 tiny (fields (render 0 cur))
    | .err => "fail:rejected-valid-pair"
    | .panic => "fail:panic"
  if curVerdict != verdict then none else
  let repaired := align (cfg true) true s1 s2
  let repairedOk := match repaired with
    | .ok _ => predicate S s1 s2 tiny (fields (render 3 repaired)) == "pass"
    | _ => false
  if verdict == "fail:rejected-valid-pair" then
    let ntClass (c : Byte) : Bool := let u := specUpper c; Gen.alpha_seq_both.contains u || Gen.alpha_seq_nt.contains u
    if !fa && repairedOk && (s1.contains 42 || s2.contains 42) && s1.all ntClass && s2.all ntClass
    then some "stop-codon-alphabet" else none
  else if fixed then none
  else if s1.isEmpty || s2.isEmpty then
    -- the repaired code refuses empty input with an error
    (if repaired == Outcome.err then some "empty-sequence" else none)
  else
  match seqToIndices a s1, seqToIndices a s2 with
  | some i1, some i2 =>
    if !repairedOk then none else
    let f := fill a false (s1.zip i1) (s2.zip i2)
    let borderMax := (f.rows.headD []).any (fun c => c.val > f.best.score) ||
      f.rows.any (fun r => (r.headD default).val > f.best.score)
    let bt (fx : Bool) := backTrack fx a.gapopen a.gapextend f.m f.t s1 s2 f.best.score f.best.i f.best.j
    let row0 := f.rows.headD []
    let maxaInit := decide (f.rows.length ≥ 2) && (row0.take (row0.length - 1)).any (fun c => c.tr == Dir.left)
    if borderMax then some "border-max"
    else if bt false != bt true then some "border-trace"
    else if maxaInit then some "maxa-init"
    else none
  | _, _ => none

def optInt (s : String) : Option (Option Int) :=
  if s == "d" then some none else (parseInt? s).map some

def handle : Handler := fun op args impl =>
  match op, args with
  | "sw", [mode, den, mt, mm, gopen, gext, s1, s2] => do
    let den ← parseInt? den
    let mt ← optInt mt
    let mm ← optInt mm
    let gopen ← optInt gopen
    let gext ← optInt gext
    let s1 := decSeq s1
    let s2 := decSeq s2
    let f := fields impl
    let v : Nat := ((lookup "v" f).bind String.toNat?).getD 0
    let fixed := v % 2 == 1
    let fa := v / 2 % 2 == 1
    let setScore : Option (Int × Int) :=
      if mode == "mm" then some (mt.getD den, mm.getD (-den)) else none
    let cfg (alpha : Bool) := configure den s1 s2 gopen gext setScore alpha
    let a := cfg fa
    let model := render v (align a fixed s1 s2)
    let kind := (impl.splitOn " ").headD ""
    let inScope := DyadicScheme a s1.length s2.length && decide (a.gapextend < 0) &&
      decide (a.gapopen ≤ a.gapextend) && (mode != "mm" || (decide (a.matchS > 0) && decide (a.mismatch < 0)))
    let tiny := s1.length ≤ 3 && s2.length ≤ 3
    -- a pair of non-empty nucleotide sequences or of non-empty protein sequences (independent of the model)
    let validPair := !s1.isEmpty && !s2.isEmpty &&
      ((allIn (keysOf Gen.dna_to_matrix_pos) s1 && allIn (keysOf Gen.dna_to_matrix_pos) s2) ||
       (allIn (keysOf Gen.prot_to_matrix_pos) s1 && allIn (keysOf Gen.prot_to_matrix_pos) s2))
    let scheme := specScheme mode den a.matchS a.mismatch a.gapopen a.gapextend s1 s2
    let verdict :=
      if !inScope then "na"
      else if kind == "err" then (if validPair then "fail:rejected-valid-pair" else "na")
      else if kind == "ok" then
        match scheme with
        | none => "fail:accepted-foreign-residue"
        | some S => if validPair then predicate S s1 s2 tiny f else "fail:accepted-foreign-residue"
      else "fail:panic"
    -- a failure is tagged with the recorded finding that explains it, if any
    let verdict :=
      if verdict.startsWith "fail:" && v != 3 then
        match scheme.bind fun S => attributeFailure cfg fixed fa S s1 s2 tiny verdict with
        | some w => verdict ++ "@" ++ w
        | none => verdict
      else verdict
    some ⟨model, verdict⟩
  | _, _ => none

end Gv.Oracle.SWOps
