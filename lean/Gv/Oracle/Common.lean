import Gv.Basic
/-! Wire codec shared by the oracle handlers (mirror of tools/harness/codec.go). -/
namespace Gv.Oracle
open Gv

abbrev Rows := List (String × Seq)

def decRows (s : String) : Option Rows :=
  if s == "_" then some [] else
  (s.splitOn ",").mapM fun p =>
    match p.splitOn ":" with
    | [n, q] => some (n, bytesOfString q)
    | _ => none

def encRows (rows : Rows) : String :=
  if rows.isEmpty then "_" else
  ",".intercalate (rows.map fun r => r.1 ++ ":" ++ stringOfBytes r.2)

def decInts (s : String) : Option (List Int) :=
  if s == "_" || s == "" then some [] else (s.splitOn ",").mapM parseInt?

def encInts (l : List Int) : String :=
  if l.isEmpty then "_" else ",".intercalate (l.map toString)

def encNats (l : List Nat) : String :=
  if l.isEmpty then "_" else ",".intercalate (l.map toString)

def decStrs (s : String) : List String := if s == "_" then [] else s.splitOn ","

def decBool (s : String) : Bool := s == "1" || s == "true"
def encBool (b : Bool) : String := if b then "1" else "0"

/-- handler result: model's canonical result and the verdict of the property predicate evaluated on
the *implementation's* result (`pass`, `fail:<clause>`, or `na` when the case lies outside the
property's quantifier) -/
structure Ans where
  model : String
  verdict : String

abbrev Handler := String → List String → String → Option Ans

def verdictOf (b : Bool) (clause : String) : String := if b then "pass" else "fail:" ++ clause

end Gv.Oracle
