import Gv.Basic
/-! Wire codec shared by the oracle handlers (mirror of tools/harness/codec.go). -/
namespace Gv.Oracle
open Gv

abbrev Rows := List (String × Seq)

def decRows (s : String) : Option Rows :=
  if s == "_" then some [] else
  (s.splitOn ",").mapM fun p =>
    match p.splitOn ":" with
    | [n, q] => some (n, bytesOfString q)
    | _ => none

def encRows (rows : Rows) : String :=
  if rows.isEmpty then "_" else
  ",".intercalate (rows.map fun r => r.1 ++ ":" ++ stringOfBytes r.2)

def decInts (s : String) : Option (List Int) :=
  if s == "_" || s == "" then some [] else (s.splitOn ",").mapM parseInt?

def encInts (l : List Int) : String :=
  if l.isEmpty then "_" else ",".intercalate (l.map toString)

def encNats (l : List Nat) : String :=
  if l.isEmpty then "_" else ",".intercalate (l.map toString)

def decStrs (s : String) : List String := if s == "_" then [] else s.splitOn ","

def decBool (s : String) : Bool := s == "1" || s == "true"
def encBool (b : Bool) : String := if b then "1" else "0"

/-! ### hex variants (C02/C03: names and residues are arbitrary bytes; mirror of codec.go) -/

abbrev XRows := List (List Byte × Seq)

/-- a whole wire field holding a byte string; `-` is the empty string -/
def unhexz (s : String) : Option (List Byte) := if s == "-" || s == "" then some [] else bytesOfHex s

def hexz (bs : List Byte) : String := if bs.isEmpty then "-" else hexOfBytes bs

/-- `hexname:hexseq,hexname:hexseq` (`_` = no row) -/
def decXRows (s : String) : Option XRows :=
  if s == "_" then some [] else
  (s.splitOn ",").mapM fun p =>
    match p.splitOn ":" with
    | [n, q] => do pure ((← bytesOfHex n), (← bytesOfHex q))
    | _ => none

def encXRows (rows : XRows) : String :=
  if rows.isEmpty then "_" else
  ",".intercalate (rows.map fun r => hexOfBytes r.1 ++ ":" ++ hexOfBytes r.2)

/-- handler result: model's canonical result and the verdict of the property predicate evaluated on
the *implementation's* result (`pass`, `fail:<clause>`, or `na` when the case lies outside the
property's quantifier) -/
structure Ans where
  model : String
  verdict : String

abbrev Handler := String → List String → String → Option Ans

def verdictOf (b : Bool) (clause : String) : String := if b then "pass" else "fail:" ++ clause

end Gv.Oracle
