import Gv.Oracle.Common
import Gv.Model.Seq
import Gv.Oracle.Translate
import Gv.Spec.Genetic
/-! Oracle handlers for the sequence-level operations (C05 codons/frames, C06). -/
namespace Gv.Oracle.SeqOps
open Gv Gv.Oracle Gv.Model

/-- independent complement used by the C06 predicate: via IUPAC base sets, case preserved -/
def specComplement (c : Byte) : Option Byte :=
  if c == 45 || c == 46 || c == 42 then some c else
  match Spec.iupacSet c with
  | none => none
  | some S =>
    let target := S.map Spec.baseComp
    match Spec.dnaUpper.find? (fun d => Spec.sameSet ((Spec.iupacSet d).getD []) target) with
    | none => none
    | some d => some (if Spec.isLowerAZ c then d + 32 else d)

def specRevcomp (s : Seq) : Option Seq := (s.reverse).mapM specComplement

def inDna (rows : Rows) : Bool := rows.all fun r => r.2.all (Spec.dnaAlphabet.contains ·)

def specTranslate (tbl : List Byte) : Seq → Seq
  | a :: b :: c :: t => Spec.translateCodon tbl a b c :: specTranslate tbl t
  | _ => []

def okErr (e : Bool) (p : String) : String := (if e then "err " else "ok ") ++ p

def handle : Handler := fun op args impl =>
  match op, args with
  | "revcomp", [al, rows] => do
    let rows ← decRows rows
    let alpha ← al.toNat?
    let r := revcompBag alpha rows
    let verdict :=
      if alpha == 1 && inDna rows then
        match rows.mapM (fun r => (specRevcomp r.2).map fun s => (r.1, s)) with
        | some exp => verdictOf (impl == "ok " ++ encRows exp) "revcomp-spec"
        | none => "fail:spec-undefined"
      else "na"
    some ⟨okErr r.2 (encRows r.1), verdict⟩
  | "revcompsub", [al, rows, names] => do
    let rows ← decRows rows
    let alpha ← al.toNat?
    let names := decStrs names
    let r := revcompSub alpha names rows
    -- predicate: listed existing rows are reverse-complemented once per listing, others untouched
    let verdict :=
      if alpha == 1 && inDna rows then
        let exp := rows.mapM fun row =>
          let k := names.count row.1
          -- only the first row of a given name is addressed by the index
          let isFirst := (rows.takeWhile (fun r' => r' != row)).all (fun r' => r'.1 != row.1)
          if k % 2 == 1 && isFirst then (specRevcomp row.2).map fun s => (row.1, s) else some row
        match exp with
        | some e => verdictOf (impl == "ok " ++ encRows e) "revcompsub-spec"
        | none => "fail:spec-undefined"
      else "na"
    some ⟨okErr r.2 (encRows r.1), verdict⟩
  | "toupper", [rows] => do
    let rows ← decRows rows
    let exp := rows.map fun r => (r.1, r.2.map Spec.fold')
    some ⟨encRows (toUpperRows rows), verdictOf (impl == encRows exp) "toupper-spec"⟩
  | "tolower", [rows] => do
    let rows ← decRows rows
    let exp := rows.map fun r => (r.1, r.2.map fun c => if 65 ≤ c ∧ c ≤ 90 then c + 32 else c)
    some ⟨encRows (toLowerRows rows), verdictOf (impl == encRows exp) "tolower-spec"⟩
  | "casehex", [dir, h] => do
    -- bytes >= 0x80 are outside the residue alphabets and have no model; what the property still demands of such a
    -- row: the transform keeps its length, and an ASCII position changes in letter case only
    let inp ← bytesOfHex h
    let up := dir == "up"
    let f : Byte → Byte := fun c =>
      if up then (if 97 ≤ c ∧ c ≤ 122 then c - 32 else c) else (if 65 ≤ c ∧ c ≤ 90 then c + 32 else c)
    match bytesOfHex impl with
    | none => some ⟨"unparsable", "fail:unparsable"⟩
    | some out =>
      let ok := out.length == inp.length && (inp.zip out).all fun (x, y) => x ≥ 128 || y == f x
      some ⟨if ok then impl else hexOfBytes (inp.map f), verdictOf ok "case-transform-changes-more-than-letter-case"⟩
  | "unalign", [rows] => do
    let rows ← decRows rows
    let m := rows.map fun r => (r.1, ungap r.2)
    some ⟨encRows m, verdictOf (impl == encRows m) "unalign-spec"⟩
  | "detectalpha", [s] =>
    let m := toString (detectAlphabetSeq (bytesOfString s))
    some ⟨m, "na"⟩
  | "translate", [ph, code, s] => do
    let ph ← ph.toNat?
    let code ← parseInt? code
    let s := bytesOfString s
    let m := match translateSeq ph code s with
      | none => "err"
      | some p => "ok " ++ stringOfBytes p
    let a := detectAlphabetSeq s
    let verdict :=
      if (a == NUCLEOTIDS || a == BOTH) && (code == 0 || code == 1 || code == 2) then
        if s.length < 3 + ph then verdictOf (impl == "err") "translate-short-must-fail"
        else verdictOf (impl == "ok " ++ stringOfBytes (specTranslate (Spec.ncbi code.toNat) (s.drop ph))) "translate-spec"
      else "na"
    some ⟨m, verdict⟩
  | "altranslate", [alpha, ph, code, rows] => do
    -- Alignment.Translate on the container: rows, names (`_<frame>` suffix for the three frames) and the cached
    -- Length().  The alphabet re-detected on the protein rows is not judged (copied from the implementation).
    let alpha ← alpha.toNat?
    let ph ← parseInt? ph
    let code ← parseInt? code
    let rows ← decRows rows
    if ph < -1 then some ⟨"unmodelled", "na"⟩ else
    let frames : List Nat := if ph == -1 then [0, 1, 2] else [ph.toNat]
    let validCode := code == 0 || code == 1 || code == 2
    let short := rows.any fun r => frames.any fun f => r.2.length < 3 + f
    let nm (r : String) (f : Nat) := if ph == -1 then r ++ "_" ++ toString f else r
    let implAlpha := (impl.splitOn " ").getD 2 "0"
    let render (out : List (String × Seq)) : String :=
      let len : Int := match out with | [] => -1 | x :: _ => x.2.length
      "ok " ++ toString len ++ " " ++ implAlpha ++ " " ++ encRows out
    -- the model of the container operation (`Model/Translate.lean`: rows, names, cached length)
    let modelStr := match alignTranslate alpha ph code rows with
      | none => "err"
      | some (out, len) => "ok " ++ toString len ++ " " ++ implAlpha ++ " " ++ encRows out
    let spec := rows.flatMap fun r => frames.map fun f => (nm r.1 f, specTranslate (Spec.ncbi code.toNat) (r.2.drop f))
    let names := spec.map Prod.fst
    if names.eraseDups.length != names.length then some ⟨"unmodelled", "na"⟩ else
    if alpha != 1 || !validCode || short then
      some ⟨"err", if rows.all (fun r => (detectAlphabetSeq r.2 == NUCLEOTIDS || detectAlphabetSeq r.2 == BOTH)) then verdictOf (impl.startsWith "err") "altranslate-must-fail" else "na"⟩
    else
      let ok := rows.all fun r => (detectAlphabetSeq r.2 == NUCLEOTIDS || detectAlphabetSeq r.2 == BOTH)
      some ⟨modelStr, if ok then verdictOf (impl == render spec) "altranslate-rows-or-length" else "na"⟩
  | _, _ => TranslateOps.handle op args impl

end Gv.Oracle.SeqOps
