import Gv.Oracle.Cli
/-!
Command-line glue of `goalign extract --coordinates <file> [--gff] [--ref-seq name] [--translate code]
[--prefix p] [--suffix s] [-o dir]` (cmd/extract.go, C04) against the library models: for every line of the
annotation file the blocks `[start, end[` are cut out of the FIRST alignment of the input (`SubAlign`, after
`RefCoordinates` when `--ref-seq` was given on the command line), concatenated (`Concat`), reverse-complemented
for a gene on the reverse strand (`ReverseComplement`), translated when the input is nucleotidic and
`--translate ≥ 0` (`Translate(0, code)` / `TranslateByReference(0, code, ref)`), and written as FASTA into
`<dir>/<prefix><name><suffix>.fa`; nothing on stdout.  The first error ends the command with a failing status
(the files written before it stay, but the driver compares files of successful runs only).

The expectation mirrors the command as it is: the range test `s < 0 || e > Length()` is done on the
coordinates as they are written (also with `--ref-seq`, where they are positions on the ungapped reference), a
later gene of the same name overwrites the file of an earlier one, the strand of a GFF gene is the strand of its
first CDS line, GFF genes come out sorted by name.
-/
namespace Gv.Oracle.CliExtractOps
open Gv Gv.Oracle Gv.Model Gv.Oracle.DetOps Gv.Oracle.CliOps
open Gv.Oracle.CliDefaults (effective)

structure Sub where
  starts : List Int
  ends : List Int
  name : String
  strand : Bool
deriving Repr

/-- `strconv.Atoi` on a token: `none` = not decided here (a sign `+`, more than 18 digits …), `some none` =
certainly an error (empty, or a character that is neither a digit nor a sign), else the value -/
def atoi (s : String) : Option (Option Int) :=
  let cs := s.toList
  let ds := match cs with | '-' :: t => t | _ => cs
  if cs.isEmpty then some none
  else if cs.any fun c => !(c.isDigit || c == '-' || c == '+' || c == '_') then some none
  else if !ds.isEmpty && ds.all Char.isDigit && ds.length ≤ 18 then some (parseInt? s)
  else none

/-- the lines `utils.Readln` delivers for a file given in wire form (`|` newline): a last line without newline
is delivered, an empty rest is not -/
def linesOf (content : String) : List String :=
  let ls := content.splitOn "|"
  if ls.getLast? == some "" then ls.dropLast else ls

/-- `parseCoordinateFile`: outer `none` = not decided, inner `none` = the error return -/
def parseCoords (content : String) : Option (Option (List Sub)) :=
  let rec go : List String → List Sub → Option (Option (List Sub))
    | [], acc => some (some acc.reverse)
    | l :: rest, acc =>
      let cols := l.splitOn "~"
      if cols.length != 3 && cols.length != 4 then some none else
      let strand := if cols.length == 4 then cols.getD 3 "" == "+" else true
      let ss := (cols.getD 0 "").splitOn ","
      let es := (cols.getD 1 "").splitOn ","
      if ss.length != es.length then some none else
      -- the tokens are converted in the order start, end, start, end, …: the first bad one is the error
      let toks := (ss.zip es).flatMap fun p => [p.1, p.2]
      let rec conv : List String → List Int → Option (Option (List Int))
        | [], out => some (some out.reverse)
        | t :: ts, out =>
          match atoi t with
          | none => none
          | some none => some none
          | some (some v) => conv ts (v :: out)
      match conv toks [] with
      | none => none
      | some none => some none
      | some (some vs) =>
        let rec split2 : List Int → List Int × List Int
          | a :: b :: t => let r := split2 t; (a :: r.1, b :: r.2)
          | _ => ([], [])
        let p := split2 vs
        go rest ({ starts := p.1, ends := p.2, name := cols.getD 2 "", strand := strand } :: acc)
  go (linesOf content) []

/-- the `key=value` fields of a GFF attribute column: `none` = a field that is not of that form (error) -/
def gffInfos (col : String) : Option (List (String × String)) :=
  (col.splitOn ";").mapM fun f => match f.splitOn "=" with | [k, v] => some (k, v) | _ => none

/-- `parseGFFFile`: `gene` lines give the name of a gene id (a later line replaces an earlier one), every `CDS`
line adds the block `[start-1, end[` to the gene its `Parent` names (the last `Parent` field counts); genes in
the order of their names -/
def parseGff (content : String) : Option (Option (List Sub)) :=
  let rec go : List String → List (String × String) → List Sub → Option (Option (List Sub))
    | [], _, genes => some (some (genes.mergeSort fun a b => decide (a.name ≤ b.name)))
    | l :: rest, ids, genes =>
      let cols := l.splitOn "~"
      if cols.length < 9 then some none else
      let strand := cols.getD 6 "" == "+"
      match atoi (cols.getD 3 "") with
      | none => none
      | some none => some none
      | some (some st) =>
      match atoi (cols.getD 4 "") with
      | none => none
      | some none => some none
      | some (some en) =>
        let kind := cols.getD 2 ""
        if kind == "gene" then
          match gffInfos (cols.getD 8 "") with
          | none => some none
          | some kv =>
            let gid := ((kv.filter (·.1 == "ID")).getLast?.map Prod.snd).getD ""
            let gname := ((kv.filter (·.1 == "Name")).getLast?.map Prod.snd).getD ""
            go rest ((gid, gname) :: ids.filter (·.1 != gid)) genes
        else if kind == "CDS" then
          match gffInfos (cols.getD 8 "") with
          | none => some none
          | some kv =>
            let parent := ((kv.filter (·.1 == "Parent")).getLast?.map Prod.snd).getD ""
            if parent == "" then some none else
            match ids.find? (·.1 == parent) with
            | none => some none
            | some (_, gname) =>
              if genes.any (·.name == gname) then
                go rest ids (genes.map fun g =>
                  if g.name == gname then { g with starts := g.starts ++ [st - 1], ends := g.ends ++ [en] } else g)
              else go rest ids (genes ++ [{ starts := [st - 1], ends := [en], name := gname, strand := strand }])
        else go rest ids genes
  go (linesOf content) [] []

/-- one gene: the blocks cut out and concatenated, strand, translation; `none` = the command fails -/
def extractOne (rows : Rows) (L : Int) (alpha : Nat) (ref : Option String) (tr : Int) (g : Sub) : Option Rows := do
  let blocks := g.starts.zip g.ends
  let cut (acc : Option (Option Bag)) (b : Int × Int) : Option (Option Bag) :=
    match acc with
    | none => none
    | some cur =>
      let s := b.1; let e := b.2
      if s < 0 || e > L then none else
      if s ≥ e then none else
      let conv : Option (Int × Int) := match ref with
        | some name => (match refCoordinates rows name s (e - s) with
            | .ok (a, l, false) => some (a, l)
            | _ => none)
        | none => some (s, e - s)
      match conv with
      | none => none
      | some (a, l) =>
        match subAlign rows L a l with
        | .ok r =>
          let piece := (addAllStop (newAlign alpha) r).1
          (match cur with
           | none => some (some piece)
           -- the error of `Concat` is dropped by the command
           | some whole => some (some (concat (pairs piece) piece.length piece.alphabet whole).1))
        | _ => none
  let whole ← blocks.foldl cut (some none)
  -- a gene without blocks cannot come out of the parsers (`strings.Split` never returns an empty list)
  let sub ← whole
  let sub1 : Rows ←
    if g.strand then some (pairs sub) else
      let r := revcompBag sub.alphabet (pairs sub)
      if r.2 then none else some r.1
  if alpha == NUCLEOTIDS && tr ≥ 0 then
    match ref with
    | some name => translateByReferenceZ sub.alphabet 0 tr name sub1
    | none => (alignTranslate sub.alphabet 0 tr sub1).map Prod.fst
  else some sub1

def badF : String := "rc=1 out= files="

def expectedExtract (rows : Rows) (files : List (String × String)) (fl : List String) : Option String := do
  let cf := (opt fl "--coordinates").getD (← effective "extractCmd" "coordinates")
  let outDef ← effective "extractCmd" "output"
  let out := ((opt fl "-o").orElse fun _ => opt fl "--output").getD outDef
  let pre := (opt fl "--prefix").getD (← effective "extractCmd" "prefix")
  let suf := (opt fl "--suffix").getD (← effective "extractCmd" "suffix")
  let trs := (opt fl "--translate").getD (← effective "extractCmd" "translate")
  let tr ← parseInt? trs
  -- `cmd.Flags().Changed("ref-seq")`: the flag was written, whatever its value
  let ref := opt fl "--ref-seq"
  let gff := flag fl "--gff"
  let valued := ["--coordinates", "-o", "--output", "--prefix", "--suffix", "--translate", "--ref-seq"]
  -- every argument is a flag of the command or the value following one, no flag twice
  let rec wellFormed : List String → List String → Bool
    | [], _ => true
    | a :: t, seen =>
      if seen.contains a then false
      else if valued.contains a then (match t with | v :: t' => !v.startsWith "--" && v != "-o" && wellFormed t' (a :: seen) | [] => false)
      else a == "--gff" && wellFormed t (a :: seen)
  if !wellFormed fl [] then none
  if cf == "none" then some badF else
  if cf == "stdin" || cf == "-" || cf.endsWith ".gz" then none else
  -- the alignment the reader delivers: rows of one length, names all different
  let L := lenOf rows
  if L < 0 || rows.any (fun r => (r.2.length : Int) != L) || (rows.map Prod.fst).eraseDups.length != rows.length then none
  if rows.any fun r => r.2.any (· ≥ 128) then none
  let alpha := autoAlphabet (rows.map Prod.snd)
  match files.find? (·.1 == cf) with
  | none => some badF      -- no such file in the working directory
  | some f =>
    match ← (if gff then parseGff f.2 else parseCoords f.2) with
    | none => some badF
    | some genes =>
      let rec run : List Sub → List (String × String) → Option (Option (List (String × String)))
        | [], acc => some (some acc)
        | g :: gs, acc =>
          match extractOne rows L alpha ref tr g with
          | none => some none
          | some r =>
            let fname := pre ++ g.name ++ suf ++ ".fa"
            if !plainFile fname then none else
            -- `-o .` is the working directory; any other directory does not exist there: `os.Create` fails
            if out != "." then (if plainFile out then some none else none) else
            run gs (acc.filter (·.1 != fname) ++ [(fname, fasta r)])
      match ← run genes [] with
      | none => some badF
      | some fs => some ("rc=0 out= files=" ++ (← filesPart fs))

def handle : Handler := fun op args impl =>
  match op, args with
  | "cli_libf", stdin :: files :: "extract" :: fl =>
    match expectedExtract (parseFasta (stdin.splitOn "|")) (filesOf files) fl with
    | some m => some ⟨m, verdictOf (impl == m) "command-line-differs-from-library-model"⟩
    | none => some ⟨"unmodelled", "na"⟩
  | _, _ => none

end Gv.Oracle.CliExtractOps
