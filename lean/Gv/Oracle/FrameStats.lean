import Gv.Oracle.Common
import Gv.Model.FrameStats
import Gv.Spec.FrameStats
/-! Oracle handlers for `Frameshifts` / `Stops` (C14; the statistics `goalign phasent` logs, C16). -/
namespace Gv.Oracle.FrameStatsOps
open Gv Gv.Oracle Gv.Model

def joinC (l : List String) : String := if l.isEmpty then "_" else ",".intercalate l
def encFs (l : List (Nat × Nat)) : String := joinC (l.map fun p => toString p.1 ++ "-" ++ toString p.2)
def encStops (l : List Int) : String := "ok " ++ joinC (l.map toString)

def handle : Handler := fun op args impl =>
  match op, args with
  | "frameshifts", [_, rows, flag] => do
    let rows ← decRows rows
    let flag := decBool flag
    match frameshifts rows flag, rows with
    | some l, ref :: rest =>
      -- the documented meaning (`Gv.Spec.FrameStats`), evaluated against the implementation's answer
      let e := encFs ((0, 0) :: rest.map fun r => Spec.frameshiftsRow flag ref.2 r.2)
      let v := if impl.startsWith "NONDET" then "fail:nondeterministic"
        else if impl.startsWith "panic" then "fail:frameshifts-crash"
        else verdictOf (impl == e) "frameshifts-not-the-longest-dephased-part"
      some ⟨encFs l, v⟩
    | _, _ => some ⟨"panic", "na"⟩
  | "stops", [_, rows, flag, code] => do
    let rows ← decRows rows
    let flag := decBool flag
    let code ← parseInt? code
    let m := match stops rows flag code with
      | .err => "err" | .panic => "panic" | .ok l => encStops l
    let known := code == 0 || code == 1 || code == 2
    let v :=
      if impl.startsWith "NONDET" then "fail:nondeterministic"
      else if !known then verdictOf (impl == "err") "unknown-genetic-code-must-be-error"
      else match rows with
        | [] => "na"
        | ref :: rest =>
          if impl.startsWith "panic" then "fail:stops-crash" else
          let e := encStops (0 :: rest.map fun r => Spec.stopsRow (Spec.ncbi code.toNat) flag ref.2 r.2)
          verdictOf (impl == e) "stops-not-the-first-stop-in-frame"
    some ⟨m, v⟩
  | _, _ => none

end Gv.Oracle.FrameStatsOps
