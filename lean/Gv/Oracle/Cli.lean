import Gv.Oracle.Common
import Gv.Oracle.Det
import Gv.Model.Seq
import Gv.Model.Sites
import Gv.Model.Clean
import Gv.Model.BagHist
import Gv.Model.Mask
import Gv.Model.Compress
import Gv.Oracle.Mask
import Gv.Model.Translate
import Gv.Model.Stats
import Gv.Model.Regex
import Gv.Oracle.CliDefaults
/-!
Command-line glue (flag parsing, defaults, conversions, readers and writers) checked against the library
models: `cli_lib <stdin FASTA, | = newline> <argv…>` — what the built binary must print for a command
whose library operation is modelled, computed here from the model of that operation and the FASTA
writer.  The result of the binary is `rc=<status> out=<stdout>` (`out` empty when the status is not 0).
-/
namespace Gv.Oracle.CliOps
open Gv Gv.Oracle Gv.Model Gv.Oracle.DetOps
open Gv.Oracle.CliDefaults (effective)

def ok (r : Rows) : String := "rc=0 out=" ++ fasta r
def bad : String := "rc=1 out="

/-- a decimal cutoff `d.ddd` as the fraction the model's cutoff test takes -/
def decFrac (s : String) : Option (Nat × Nat) :=
  match s.splitOn "." with
  | [a] => a.toNat?.map fun x => (x, 1)
  | [a, b] => do let x ← (a ++ b).toNat?; if b.all Char.isDigit then pure (x, 10 ^ b.length) else none
  | _ => none

def lenOf (rows : Rows) : Int := match rows with | r :: _ => (r.2.length : Int) | [] => -1

def flag (argv : List String) (f : String) : Bool := argv.contains f
def opt (argv : List String) (f : String) : Option String :=
  match argv.dropWhile (· != f) with
  | _ :: v :: _ => some v
  | _ => none

/-- `clean sites -c <cut> …` (cmd/cleansites.go) on one alignment: `none` = not modelled, `some none` = refused
(`--ignore-gaps` with gaps among the characters, `--ignore-n` with `N`/`n` among them), else the cleaning result
with the kept and the removed positions -/
def cleanSitesResult (rows : Rows) (cut : String) (fl : List String) : Option (Option CleanResult) := do
  let L := lenOf rows
  let (num, den) ← decFrac cut
  let ends := flag fl "--ends"
  let ch := (opt fl "--char").getD (← effective "cleanCmd" "char")
  let ig := flag fl "--ignore-gaps"; let iN := flag fl "--ignore-n"
  if ch == "GAP" || ch == "-" then
    if ig then some none else
    some (some (removeCharacterSites (cutoffTest num den) rows L 1 [GAP] ends false false iN false))
  else if ch == "MAJ" then
    some (some (removeMajoritySites (cutoffTestRaw num den) rows L 1 ends ig iN))
  else
    let cs := bytesOfString ch
    if (cs.contains 78 || cs.contains 110) && iN then some none else
    if cs.contains GAP && ig then some none else
    some (some (removeCharacterSites (cutoffTest num den) rows L 1 cs ends (flag fl "--ignore-case") ig iN (flag fl "--reverse")))

/-- a name given to an output-file flag that makes the command create exactly that file, uncompressed, in its
working directory (`utils.OpenWriteFile`: `stdout` / `-` = standard output, `none` = nothing, `.gz` / `.xz` compressed) -/
def plainFile (n : String) : Bool :=
  n != "" && n != "stdout" && n != "-" && n != "none" && !n.endsWith ".gz" && !n.endsWith ".xz" &&
  !n.startsWith "-" && n.all fun c => c.isAlphanum || c == '.' || c == '_'

/-- the `files=` part of a `cli_libf` answer: every file once, plainly named, sorted by name -/
def filesPart (fs : List (String × String)) : Option String :=
  if fs.all (fun f => plainFile f.1) && (fs.map Prod.fst).eraseDups.length == fs.length then
    some (";;".intercalate ((fs.mergeSort fun a b => decide (a.1 ≤ b.1)).map fun f => f.1 ++ "=" ++ f.2))
  else none

def numLines (l : List Nat) : String := String.join (l.map fun p => toString p ++ "|")

def expected (rows : Rows) (argv : List String) : Option String :=
  let L := lenOf rows
  -- nucleotide alphabet (the generator only sends IUPAC nucleotides and gaps)
  match argv with
  | ["revcomp"] => let r := revcompBag 1 rows; some (if r.2 then bad else ok r.1)
  | ["toupper"] => some (ok (toUpperRows rows))
  | ["tolower"] => some (ok (toLowerRows rows))
  | ["unalign"] => some (ok (rows.map fun r => (r.1, ungap r.2)))
  | ["transpose"] => some (ok (transpose rows L))
  | "subsites" :: sites => do
    -- (no site at all, flags: `subsitesExpected`)
    if sites.isEmpty then none
    let ss ← sites.mapM parseInt?
    match selectSites rows L ss with
    | .ok r => some (ok r)
    | _ => some bad
  | "subseq" :: fl => do
    -- cmd/subseq.go: window `-s` / `-l` (defaults 0 / 10), on the reference sequence with `--ref-seq`; `-r` keeps what
    -- lies outside the window (the pieces are concatenated); `--step k` writes one alignment per window start,
    -- start + k, … while the window fits
    let st ← parseInt? ((opt fl "-s").getD (← effective "subseqCmd" "start"))
    let ln ← parseInt? ((opt fl "-l").getD (← effective "subseqCmd" "length"))
    let stepv ← parseInt? ((opt fl "--step").getD (← effective "subseqCmd" "step"))
    let rev := flag fl "-r" || flag fl "--reverse"
    let ref := opt fl "--ref-seq"
    if ref.isSome && stepv > 0 then some bad else
    let conv : Option (Int × Int) := match ref with
      | some name => (match refCoordinates rows name st ln with
          | .ok (a, l, false) => some (a, l)
          | _ => none)
      | none => some (st, ln)
    match conv with
    | none => some bad
    | some (start0, len) =>
      let one (start : Int) : Option Rows :=
        let ws : Option (List (Int × Int)) :=
          if rev then (match inverseCoordinates L start len with
            | .ok (ss, ls) => some (ss.zip ls)
            | _ => none)
          else some [(start, len)]
        match ws with
        | none => none
        | some [] => none
        | some (w :: rest) =>
          let sub (x : Int × Int) : Option Rows := match subAlign rows L x.1 x.2 with | .ok r => some r | _ => none
          rest.foldl (fun acc x => match acc, sub x with
            | some a, some b => some (a.zipWith (fun p q => (p.1, p.2 ++ q.2)) b)
            | _, _ => none) (sub w)
      let rec go (fuel : Nat) (start : Int) (acc : String) : Option String :=
        match fuel with
        | 0 => none
        | fuel + 1 =>
          match one start with
          | none => some bad
          | some r =>
            let acc := acc ++ fasta r
            let start := start + stepv
            if stepv == 0 || start + len > L then some ("rc=0 out=" ++ acc) else go fuel start acc
      go (L.toNat + 3) start0 ""
  | "consensus" :: fl =>
    if L < 0 then none else
    let ig := flag fl "--ignore-gaps"; let iN := flag fl "--ignore-n"
    some (ok [("consensus", (List.range L.toNat).map fun j => (maxCharSite 1 ig iN (columnAt rows j)).1)])
  | "clean" :: "sites" :: "-c" :: cut :: fl => do
    match ← cleanSitesResult rows cut fl with
    | some r => some (ok r.rows)
    | none => some bad
  | "mask" :: fl => do
    -- cmd/mask.go: `--unique` first, then `--pos` (each position a window of one site), else `-s` / `-l` (defaults
    -- 0 / 10); with `--ref-seq` every window is given on the ungapped reference and converted first
    let hasRef := (opt fl "--ref-seq").isSome
    let refseq := (opt fl "--ref-seq").getD ""
    let mr := MaskOps.decRep ((opt fl "--replace").getD (← effective "maskCmd" "replace"))
    if flag fl "--unique" then
      let mo ← parseInt? ((opt fl "--at-most").getD (← effective "maskCmd" "at-most"))
      match maskOccurences rows L 1 refseq mo mr with
      | some r => some (ok r)
      | none => some bad
    else
      let windows : List (Int × Int) ← match opt fl "--pos" with
        | some p => (p.splitOn ",").mapM fun x => (parseInt? x).map fun v => (v, (1 : Int))
        | none => do
          let st ← parseInt? ((opt fl "-s").getD (← effective "maskCmd" "start"))
          let ln ← parseInt? ((opt fl "-l").getD (← effective "maskCmd" "length"))
          pure [(st, ln)]
      let step (acc : Option Rows) (w : Int × Int) : Option Rows :=
        match acc with
        | none => none
        | some cur =>
          let conv : Option (Int × Int) :=
            if hasRef then
              match refCoordinates cur refseq w.1 w.2 with
              | .ok (a, l, false) => some (a, l)
              | _ => none
            else some w
          match conv with
          | none => none
          | some (a, l) => mask cur L 1 refseq a l mr (flag fl "--no-gaps") (flag fl "--no-ref")
      match windows.foldl step (some rows) with
      | some r => some (ok r)
      | none => some bad
  | "dedup" :: fl =>
    let b0 := (addAllStop (newAlign 1) rows).1
    let r := deduplicate (flag fl "--n-as-gap") b0
    some (ok (pairs r.1))
  | ["compress"] =>
    if rows.isEmpty then none else
    let (rs, _, _) := compress rows L
    some (ok rs)
  | ["sort"] => some (ok (pairs (sortRows (addAllStop (newAlign 1) rows).1)))
  | ["sort", "--unaligned"] =>
    -- plain sequences of any lengths (the generator gives distinct names)
    if (rows.map Prod.fst).eraseDups.length != rows.length || rows.any (·.2.isEmpty) then none else
    some (ok (pairs (sortRows (addAllIgnore (newBag 1) rows))))
  | "translate" :: "--ref-seq" :: name :: fl => do
    let ph ← parseInt? ((opt fl "--phase").getD (← effective "translateCmd" "phase"))
    let code : Int := match (opt fl "--genetic-code").getD (← effective "translateCmd" "genetic-code") with
      | "standard" => 0 | "mitov" => 1 | "mitoi" => 2 | _ => 99
    match translateByReferenceZ 1 ph code name rows with
    | some r => some (ok r)
    | none => some bad
  | "translate" :: fl => do
    -- cmd/translate.go on an alignment, one frame: every row translated from `phase`
    let ph ← ((opt fl "--phase").getD (← effective "translateCmd" "phase")).toNat?
    let code : Int := match (opt fl "--genetic-code").getD (← effective "translateCmd" "genetic-code") with
      | "standard" => 0 | "mitov" => 1 | "mitoi" => 2 | _ => 99
    match rows.mapM (fun r => (translateSeq ph code r.2).map fun p => (r.1, p)) with
    | some r => some (ok r)
    | none => some bad
  | "stats" :: "maxchar" :: fl =>
    if L < 0 then none else
    let ig := flag fl "--ignore-gaps" || flag fl "--exclude-gaps"; let iN := flag fl "--ignore-n"
    some ("rc=0 out=site char nb|" ++ String.join ((List.range L.toNat).map fun j =>
      let m := maxCharSite 1 ig iN (columnAt rows j)
      toString j ++ " " ++ stringOfBytes [m.1] ++ " " ++ toString m.2.1 ++ "|"))
  | ["stats", "nseq"] => some ("rc=0 out=" ++ toString rows.length ++ "|")
  | ["stats", "nalign"] =>
    -- a FASTA input holds one alignment (an input that is no alignment: a failing status after the count is printed)
    if rows.isEmpty || (addAllStop (newAlign 1) rows).2 then none else some "rc=0 out=1|"
  | ["stats", "length"] => if L < 0 then none else some ("rc=0 out=" ++ toString L ++ "|")
  | ["stats", "taxa"] => some ("rc=0 out=" ++ String.join (rows.zipIdx.map fun (r, i) => toString i ++ " " ++ r.1 ++ "|"))
  | ["stats", "gaps"] => some ("rc=0 out=" ++ String.join (rows.map fun r => r.1 ++ " " ++ toString (r.2.count GAP) ++ "|"))
  | ["diff"] => some (ok (diffWithFirst rows))
  | "diff" :: fl => do
    -- cmd/diff.go: `--counts` (priority) prints, for every row but the first, how often each pair (reference character,
    -- its character) occurs - the pairs sorted, those with a gap left out with `--no-gaps`; `--reverse` puts the
    -- characters of the first row back where a row has `.`; else `DiffWithFirst`
    if !(fl.all fun a => ["--counts", "--no-gaps", "--reverse"].contains a) then none
    if (← effective "diffCmd" "output") != "stdout" then none
    let counts := flag fl "--counts" || (← effective "diffCmd" "counts") == "true"
    let noGaps := flag fl "--no-gaps" || (← effective "diffCmd" "no-gaps") == "true"
    let rev := flag fl "--reverse" || (← effective "diffCmd" "reverse") == "true"
    if counts then
      if rows.any (fun r => r.2.any (· ≥ 128)) then none else
      let (all, per) := countDifferences rows
      let key (p : Byte × Byte) : String := stringOfBytes [p.1, p.2]
      let keys := ((all.map key).mergeSort fun a b => decide (a ≤ b)).filter fun k => !(noGaps && k.contains '-')
      let line (nm : String) (ds : List ((Byte × Byte) × Nat)) : String :=
        nm ++ String.join (keys.map fun k => " " ++ toString (((ds.find? fun d => key d.1 == k).map (·.2)).getD 0)) ++ "|"
      some ("rc=0 out=" ++ String.join (keys.map fun k => " " ++ k) ++ "|" ++ String.join (((rows.drop 1).zip per).map fun (r, ds) => line r.1 ds))
    else if rev then some (ok (replaceMatchChars rows))
    else some (ok (diffWithFirst rows))
  | "revcomp" :: rest =>
    -- cmd/revcomp.go: names given -> only those rows; `--unaligned` reads and writes plain sequences
    let names := rest.filter (· != "--unaligned")
    let r := if names.isEmpty then revcompBag 1 rows else revcompSub 1 names rows
    some (if r.2 then bad else ok r.1)
  | "addid" :: fl =>
    -- the default of -n is the string "none"
    let id := (opt fl "-n").getD ((effective "addidCmd" "name").getD "none")
    let right := flag fl "-r"
    some (ok (rows.map fun r => (if right then r.1 ++ id else id ++ r.1, r.2)))
  | _ => none

/-! ### more commands: trimming, renaming, replacing, sequence cleaning, gap / mutation statistics -/

def bagOf (rows : Rows) : Bag := (addAllStop (newAlign 1) rows).1

/-- what `trim name` works on: the alignment, or with `--unaligned` (default read from the regenerated flag table) the
sequence bag `readsequences` builds; `none` = outside the modelled inputs (repeated names, empty sequences) -/
def trimNameInput (rows : Rows) (fl : List String) : Option Bag := do
  let un := flag fl "--unaligned" || (← effective "nameCmd" "unaligned") != "false"
  if !un then pure (bagOf rows) else
  if (rows.map Prod.fst).eraseDups.length != rows.length || rows.any (·.2.isEmpty) then none else
  pure (addAllIgnore (newBag 1) rows)

/-- the name map file written by `trim name -m` / read by `rename -m`: `old<TAB>new` per line (tab shown as a blank
by the driver), sorted by the old name -/
def nameMapText (m : List (String × String)) : String :=
  String.join ((m.mergeSort fun a b => decide (a.1 ≤ b.1)).map fun p => p.1 ++ " " ++ p.2 ++ "|")

def numGapsFromStart (s : Seq) : Nat := (s.takeWhile (· == GAP)).length
def numGapsFromEnd (s : Seq) : Nat := (s.reverse.takeWhile (· == GAP)).length
def numGapsOpenning (s : Seq) : Nat :=
  (s.foldl (fun (acc : Nat × Byte) c => (if c == GAP && acc.2 != GAP then acc.1 + 1 else acc.1, c)) (0, 62)).1

/-- a pattern given to `-e`: outer `none` = outside the modelled subset of Go's regexp (`Gv/Model/Regex.lean`),
`some none` = `regexp.Compile` fails -/
def compileRe (pat : String) : Option (Option Regex.Re) :=
  match Regex.parse pat with
  | .ok re => some (some re)
  | .bad => some none
  | .unknown => none

/-- `rename -e <regexp> -b <replacement> [-m <map file>]` (cmd/rename.go, one alignment).  Outer `none` = not
modelled; `some none` = a failing status (`--regexp` without `--replace`; an expression that does not compile);
else the renamed rows (`RenameRegexp`: every name replaced in place, names made equal stay equal) and the map
`old name -> new name`, which the command writes to the map file when one is given. -/
def renameRegexpResult (rows : Rows) (fl : List String) : Option (Option (Rows × List (String × String) × String)) := do
  let o ← parseOpts [("-e", "--regexp"), ("-b", "--replace"), ("-m", "--map-file")] [] ["--regexp", "--replace", "--map-file"] fl
  if (← effective "renameCmd" "output") != "stdout" || (← effective "renameCmd" "clean-names") != "false" ||
     (← effective "renameCmd" "unaligned") != "false" then none
  let mf ← optOr o "renameCmd" "map-file"
  let pat := (o.reverse.find? (·.1 == "--regexp")).map (·.2)
  let rep := (o.reverse.find? (·.1 == "--replace")).map (·.2)
  match pat, rep with
  | none, _ => none                      -- no expression: the map-file mode
  | some _, none => some none
  | some p, some t =>
    if rows.isEmpty then none else
    match ← compileRe p with
    | none => some none
    | some re =>
      let names ← rows.mapM fun r => Regex.replaceAll re t r.1
      -- a new name the FASTA writer / the wire form cannot carry
      if names.any (fun n => n.any fun c => c == '\n' || c == '|' || c == '\t' || c == '~' || c == '=' || c == ';') then none else
      let r := renameRegexp names (bagOf rows)
      some (some (pairs r.1, r.2, mf))

/-- `subset` (cmd/subset.go) on one alignment: `given` = the names, 0-based indices (`--indices`) or regular
expressions (`-e`, priority) taken from the command line or from the name file; `-r` keeps the complement -/
def subsetExpected (rows : Rows) (given fl : List String) : Option String :=
  let rev := flag fl "-r" || flag fl "--revert"
  if flag fl "-e" || flag fl "--regexp" then
    -- the names are regular expressions (priority over `--indices`, whose conversion to integers comes first and
    -- can still fail); an expression that does not compile is an error; a row is selected when one of them matches
    if !(fl.all fun a => !a.startsWith "-" || ["-e", "--regexp", "-r", "--revert", "--indices"].contains a) then none else
    if flag fl "--indices" && !(given.all fun g => (parseInt? g).isSome) then
      (if given.all fun g => (parseInt? g).isSome || !(g.startsWith "+") then some bad else none)
    else
    match given.mapM compileRe with
    | none => none
    | some res =>
      if res.any Option.isNone then some bad else
      if rows.any (fun r => !Regex.asciiOnly r.1) then none else
      let rs := res.filterMap id
      some (ok (rows.filter fun r => (rs.any fun re => Regex.matchString re r.1) != rev))
  else
  if flag fl "--indices" then
    match given.mapM parseInt? with
    | none => if given.any (·.startsWith "+") then none else some bad
    | some is => some (ok ((rows.zipIdx.filter fun (_, i) => is.contains (i : Int) != rev).map Prod.fst))
  else some (ok (rows.filter fun r => given.contains r.1 != rev))

/-- `subsites [sites…] [--sitefile f] [--ref-seq name] [-r] [--informative]` (cmd/subsites.go) on one alignment.
Outer `none` = not modelled, `some none` = a failing status.  The sites come from the file (one integer per line)
when one is given, else from the command line; none at all is refused.  `--informative`: the parsimony-informative
sites of the alignment instead (none is refused; `--ref-seq` is then not looked at).  `--ref-seq`: the sites are
positions on the ungapped reference row; `-r`: all the other sites.  Then `SelectSites`. -/
def subsitesExpected (rows : Rows) (files : List (String × String)) (fl : List String) : Option (Option Rows) := do
  let rec split : List String → Option (List (String × String) × List String)
    | [] => some ([], [])
    | a :: t =>
      if a == "--ref-seq" || a == "--sitefile" then (match t with | v :: t' => (split t').map fun (o, p) => ((a, v) :: o, p) | [] => none)
      else if a == "-r" || a == "--reverse" then (split t).map fun (o, p) => (("--reverse", "true") :: o, p)
      else if a == "--informative" then (split t).map fun (o, p) => ((a, "true") :: o, p)
      else if a.startsWith "-" then none else (split t).map fun (o, p) => (o, a :: p)
  let (o, pos) ← split fl
  let get (f : String) : Option String := (o.reverse.find? (·.1 == f)).map (·.2)
  if (← effective "subsitesCmd" "output") != "stdout" then none
  let L := lenOf rows
  if rows.isEmpty then none
  let informative := ((get "--informative").getD (← effective "subsitesCmd" "informative")) == "true"
  let reverse := ((get "--reverse").getD (← effective "subsitesCmd" "reverse")) == "true"
  let sitefile := (get "--sitefile").getD (← effective "subsitesCmd" "sitefile")
  let refseq := (get "--ref-seq").isSome && !informative
  let sites : Option (List Int) ←
    if informative then
      let alpha := autoAlphabet (rows.map Prod.snd)
      if alpha != NUCLEOTIDS && alpha != AMINOACIDS then none else
      some (some ((informativeSites rows L alpha).map Int.ofNat))
    else if sitefile != "none" then
      if sitefile == "stdin" || sitefile == "-" || sitefile.endsWith ".gz" then none else
      match files.find? (·.1 == sitefile) with
      | none => some none
      | some f =>
        let ls := f.2.splitOn "|"
        let ls := if ls.getLast? == some "" then ls.dropLast else ls
        if ls.any (fun l => l.startsWith "+" || l.contains '\r' || l.contains '_') then none else
        some (ls.mapM parseInt?)
    else
      if pos.any (fun l => l.startsWith "+" || l.contains '_') then none else some (pos.mapM parseInt?)
  match sites with
  | none => some none
  | some [] => some none
  | some ss =>
    let p1 : Option (List Int) := if refseq then (match refSites rows L ((get "--ref-seq").getD "") ss with | .ok r => some r | _ => none) else some ss
    match p1 with
    | none => some none
    | some p1 =>
      let p2 : Option (List Int) := if reverse then (match inversePositions L p1 with | .ok r => some r | _ => none) else some p1
      match p2 with
      | none => some none
      | some p2 =>
        match selectSites rows L p2 with
        | .ok r => some (some r)
        | .err => some none
        | _ => none

def expected2 (rows : Rows) (argv : List String) : Option String :=
  let L := lenOf rows
  match argv with
  | "subsites" :: fl => do
    match ← subsitesExpected rows [] fl with
    | some r => some (ok r)
    | none => some bad
  | "rename" :: fl =>
    if fl == ["--clean-names"] then some (ok (pairs (cleanNames (bagOf rows)))) else do
    match ← renameRegexpResult rows fl with
    | none => some bad
    | some (r, _, mf) => if mf == "none" || mf == "None" then some (ok r) else none
  | "replace" :: "-s" :: o :: "-n" :: nw :: [] =>
    -- cmd/replace.go, literal replacement; an alignment whose rows no longer have one length is an error
    if o.isEmpty then none else
    let r := replaceBag (bytesOfString o) (bytesOfString nw) (bagOf rows)
    some (if r.2 then bad else ok (pairs r.1))
  | "replace" :: fl => do
    -- every flag in any order, short or long; `-e`: `--old` is a regular expression, `--new` its replacement template;
    -- both must be given (their defaults, the word `none`, are never used)
    let o ← parseOpts [("-e", "--regexp"), ("-s", "--old"), ("-n", "--new")] ["--regexp"] ["--regexp", "--old", "--new"] fl
    if (← effective "replaceCmd" "output") != "stdout" || (← effective "replaceCmd" "posfile") != "none" ||
       (← effective "replaceCmd" "unaligned") != "false" then none
    let isRe := (← optOr o "replaceCmd" "regexp") == "true"
    match (o.reverse.find? (·.1 == "--old")).map (·.2), (o.reverse.find? (·.1 == "--new")).map (·.2) with
    | some old, some new =>
      if rows.isEmpty then none else
      if isRe then
        match ← compileRe old with
        | none => some bad
        | some re =>
          let seqs ← rows.mapM fun r => Regex.replaceAll re new (stringOfBytes r.2)
          if rows.any (fun r => r.2.any (· ≥ 128)) then none else
          let table := rows.zip seqs
          let f (q : Seq) : Seq := match table.find? (·.1.2 == q) with | some e => bytesOfString e.2 | none => q
          let r := replaceBagWith f (bagOf rows)
          -- an empty sequence is not written back as a FASTA record the reader model takes
          if r.1.rows.any (·.seq.isEmpty) then none else
          some (if r.2 then bad else ok (pairs r.1))
      else
        if old.isEmpty then none else
        let r := replaceBag (bytesOfString old) (bytesOfString new) (bagOf rows)
        if r.1.rows.any (·.seq.isEmpty) then none else
        some (if r.2 then bad else ok (pairs r.1))
    | _, _ => some bad
  | "trim" :: "seq" :: fl => do
    -- cmd/seq.go: TrimSequences(n, fromStart); -n defaults to 1
    let n ← parseInt? ((opt fl "-n").getD (← effective "seqCmd" "nb-char"))
    match trimSequences n (flag fl "-s") (bagOf rows) with
    | some (b, false) => some (ok (pairs b))
    | _ => some bad
  | "trim" :: "name" :: fl => do
    -- cmd/name.go without --out-map: TrimNamesAuto (priority) or TrimNames(n); `--unaligned` reads plain sequences of
    -- any lengths into a sequence bag (the generator gives distinct names) and writes them with the same FASTA writer
    let b ← trimNameInput rows fl
    if flag fl "-a" then some (ok (pairs (trimNamesAuto 1 b).1)) else
    let n ← parseInt? ((opt fl "-n").getD (← effective "nameCmd" "nb-char"))
    let r := trimNames n b
    some (if r.2 then bad else ok (pairs r.1))
  | "clean" :: "seqs" :: "-c" :: cut :: fl => do
    let (num, den) ← decFrac cut
    let ch := (opt fl "--char").getD (← effective "cleanCmd" "char")
    let iN := flag fl "--ignore-n"
    let r ←
      if ch == "GAP" || ch == "-" then pure (removeCharacterSeqs (cutoffTest num den) GAP false false iN (bagOf rows))
      else match bytesOfString ch with
        | [c] => pure (removeCharacterSeqs (cutoffTest num den) c (flag fl "--ignore-case") (flag fl "--ignore-gaps") iN (bagOf rows))
        | _ => none
    match r with
    | some (b, _) => some (ok (pairs b))
    | none => none
  | "subset" :: fl =>
    -- names, indices or expressions on the command line
    if flag fl "-f" || flag fl "--name-file" then none else
    subsetExpected rows (fl.filter fun a => !a.startsWith "-") fl
  | ["stats", "alphabet"] =>
    -- the alphabet the reader detected (`AutoAlphabet`), of the first alignment
    if rows.isEmpty then none else
    let a := autoAlphabet (rows.map Prod.snd)
    some ("rc=0 out=" ++ (if a == NUCLEOTIDS then "nucleotide" else if a == AMINOACIDS then "protein" else "unknown") ++ "|")
  | ["stats", "gaps", "--from-start"] =>
    some ("rc=0 out=" ++ String.join (rows.map fun r => r.1 ++ " " ++ toString (numGapsFromStart r.2) ++ "|"))
  | ["stats", "gaps", "--from-end"] =>
    some ("rc=0 out=" ++ String.join (rows.map fun r => r.1 ++ " " ++ toString (numGapsFromEnd r.2) ++ "|"))
  | ["stats", "gaps", "--openning"] =>
    some ("rc=0 out=" ++ String.join (rows.map fun r => r.1 ++ " " ++ toString (numGapsOpenning r.2) ++ "|"))
  | ["stats", "gaps", "--unique"] =>
    if L < 0 then none else
    let u := numGapsUnique rows L
    some ("rc=0 out=" ++ String.join (rows.zipIdx.map fun (r, i) => r.1 ++ " " ++ toString (u.getD i 0) ++ "|"))
  | ["stats", "mutations", "--unique"] =>
    if L < 0 then none else
    match numMutationsUnique rows L 1 with
    | some u => some ("rc=0 out=" ++ String.join (rows.zipIdx.map fun (r, i) => r.1 ++ " " ++ toString (u.getD i 0) ++ "|"))
    | none => none
  | ["stats", "mutations", "--ref-sequence", name] =>
    -- a name of the alignment (the generator never gives a file name)
    match findRow name rows with
    | none => none
    | some ref =>
      match rows.mapM (fun r => (numMutationsVsRef 1 r.2 ref).map fun k => r.1 ++ " " ++ toString k ++ "|") with
      | some ls => some ("rc=0 out=" ++ String.join ls)
      | none => some bad
  | _ => none

/-! ### `stats mutations list [--aa] --ref-sequence <name or file>` (cmd/stats_mutations_list.go) -/

/-- the first alignment of a sequential relaxed Phylip input: header `n L`, then `n` lines `name  sequence` -/
def parsePhylipFirst (lines : List String) : Rows :=
  match lines.dropWhile fun l => ((l.splitOn " ").filter (· != "")).length != 2 with
  | h :: t =>
    match ((h.splitOn " ").filter (· != "")).head? >>= String.toNat? with
    | some k => (t.take k).filterMap fun l =>
        match (l.splitOn " ").filter (· != "") with
        | [nm, sq] => some (nm, bytesOfString sq)
        | _ => none
    | none => []
  | [] => []

/-- one line of the list: the name, then (after a tab, shown as a blank) the entries `<ref><position><alternative>`
separated by commas -/
def mutLine (name : String) (l : List (Byte × String × List Byte)) : String :=
  name ++ (if l.isEmpty then "" else " " ++ ",".intercalate (l.map fun (a, p, alt) => stringOfBytes [a] ++ p ++ stringOfBytes alt)) ++ "|"

/-- `fl` = the arguments behind `stats mutations`, with the sub-command `list` among them.  Outer `none` = not
modelled; `some none` = a failing status: no `--ref-sequence` (its default, the word `none`), a name that is neither a
row of the alignment nor a file of the working directory, a file without sequences, a reference of another length,
`--aa` on an alignment that is not nucleotidic, a character that is no nucleotide code (without `--aa`).  The reference
is the row of that name - it is not listed - else the first sequence of the FASTA file of that name; only the first
alignment of the input is read. -/
def mutListExpected (rows : Rows) (files : List (String × String)) (fl : List String) : Option (Option String) := do
  let ref := (opt fl "--ref-sequence").getD (← effective "statMutationsCmd" "ref-sequence")
  let aaDefault ← effective "statMutationsListCmd" "aa"
  if !(fl.all fun a => a == "list" || a == "--aa" || a == "--ref-sequence" || a == ref) || !fl.contains "list" then none
  -- a flag of the sub-command in front of it swallows the word `list`
  if (fl.takeWhile (· != "list")).contains "--aa" then none
  if rows.isEmpty then none
  let aa := flag fl "--aa" || aaDefault == "true"
  if ref == "none" then some none else
  let refseq : Option Seq := match findRow ref rows with
    | some s => some s
    | none => match files.find? (·.1 == ref) with
      | some f => ((parseFasta (f.2.splitOn "|")).head?).map Prod.snd
      | none => none
  match refseq with
  | none => some none
  | some r =>
    let alpha := autoAlphabet (rows.map Prod.snd)
    if alpha != NUCLEOTIDS && alpha != AMINOACIDS then none else
    let one (q : Seq) : Option (List (Byte × String × List Byte)) :=
      if aa then (listMutationsVsRefAA alpha q r).map fun l => l.map fun (a, p, alt) => (a, toString p, alt)
      else (listMutationsVsRef alpha q r).map fun l => l.map fun (a, p, alt) => (a, toString p, alt)
    match (rows.filter fun x => x.1 != ref).mapM fun x => (one x.2).map (mutLine x.1) with
    | some ls => some (some (String.join ls))
    | none => some none

/-- `stats mutations [--unique] [--ref-sequence <name or file>]` (cmd/stats_mutations.go) without `--count-profile`:
with a reference (it has priority over `--unique`) one line `name<TAB>count` per row, the reference row included;
else with `--unique` the characters unique in their column; else a failing status.  The reference is resolved as for
`list`. -/
def mutCountExpected (rows : Rows) (files : List (String × String)) (fl : List String) : Option (Option String) := do
  let ref := (opt fl "--ref-sequence").getD (← effective "statMutationsCmd" "ref-sequence")
  let uniqueDefault ← effective "statMutationsCmd" "unique"
  let profDefault ← effective "statMutationsCmd" "count-profile"
  if !(fl.all fun a => a == "--unique" || a == "--ref-sequence" || a == ref) || profDefault != "none" then none
  if rows.isEmpty then none
  let L := lenOf rows
  let alpha := autoAlphabet (rows.map Prod.snd)
  if alpha != NUCLEOTIDS && alpha != AMINOACIDS then none else
  if ref != "none" then
    let refseq : Option Seq := match findRow ref rows with
      | some s => some s
      | none => match files.find? (·.1 == ref) with
        | some f => ((parseFasta (f.2.splitOn "|")).head?).map Prod.snd
        | none => none
    match refseq with
    | none => some none
    | some r =>
      match rows.mapM (fun x => (numMutationsVsRef alpha x.2 r).map fun k => x.1 ++ " " ++ toString k ++ "|") with
      | some ls => some (some (String.join ls))
      | none => some none
  else if flag fl "--unique" || uniqueDefault == "true" then
    match numMutationsUnique rows L alpha with
    | some u => some (some (String.join (rows.zipIdx.map fun (r, i) => r.1 ++ " " ++ toString (u.getD i 0) ++ "|")))
    | none => none
  else some none

/-- commands that read or write further files: `cli_libf <stdin> <files> <argv…>`; the expected answer lists the
files the command must have written (`files=name=content;;…`, sorted by name) -/
def expectedF (rows : Rows) (files : List (String × String)) (argv : List String) : Option String :=
  let fileRows (n : String) : Option Rows := (files.find? (·.1 == n)).map fun f => parseFasta (f.2.splitOn "|")
  let okF (r : Rows) (fs : String) : String := "rc=0 out=" ++ fasta r ++ " files=" ++ fs
  let badF : String := "rc=1 out= files="
  match argv with
  | "trim" :: "name" :: "-m" :: mf :: fl => do
    -- the alignment on stdout, the map (old name, new name) in the file
    let old := rows.map Prod.fst
    let b0 ← trimNameInput rows fl
    if flag fl "-a" then
      let b := (trimNamesAuto 1 b0).1
      some (okF (pairs b) (mf ++ "=" ++ nameMapText (old.zip ((pairs b).map Prod.fst))))
    else
      let n ← parseInt? ((opt fl "-n").getD (← effective "nameCmd" "nb-char"))
      let r := trimNames n b0
      if r.2 then some badF else some (okF (pairs r.1) (mf ++ "=" ++ nameMapText (old.zip ((pairs r.1).map Prod.fst))))
  | "rename" :: fl =>
    if flag fl "-e" || flag fl "--regexp" then do
      -- the alignment on stdout, the map (old name, new name) in the file given with `-m`
      match ← renameRegexpResult rows fl with
      | none => some badF
      | some (r, m, mf) =>
        if mf == "none" || mf == "None" then some (okF r "") else
        some (okF r (← filesPart [(mf, nameMapText m)]))
    else
    match fl with
    | "-m" :: mf :: fl => do
    let f ← files.find? (·.1 == mf)
    let m ← ((f.2.splitOn "|").filter (· != "")).mapM fun l =>
      match l.splitOn "~" with
      | [a, b] => some (if flag fl "-r" then (b, a) else (a, b))
      | _ => none
    some (okF (pairs (rename m (bagOf rows))) "")
    | _ => none
  | "replace" :: fl => do
    -- cmd/replace.go with `-f <file>`: one line `name<TAB>site<TAB>character…` per replacement (lines starting with `#`
    -- are skipped; the first byte of the third column is the character; further columns are ignored), applied in
    -- order through `ReplaceChar`; `--old` / `--new` are not needed.  A line with fewer than three columns, a site
    -- that is no integer, a site outside the alignment, a name that no row has: a failing status.  (An EMPTY third
    -- column makes the command panic - index out of range in `readreplacefile`: the generator never writes one.)
    let pf ← match fl with
      | ["-f", f] => some f
      | ["--posfile", f] => some f
      | _ => none
    if pf == "none" || pf == "stdin" || pf == "-" || pf.endsWith ".gz" || rows.isEmpty then none
    if (← effective "replaceCmd" "output") != "stdout" || (← effective "replaceCmd" "unaligned") != "false" then none
    match files.find? (·.1 == pf) with
    | none => some badF
    | some f =>
      let ls := f.2.splitOn "|"
      let ls := (if ls.getLast? == some "" then ls.dropLast else ls).filter fun l => !l.startsWith "#"
      if ls.any (fun l => l.contains '\r') then none else
      let parsed : Option (List (Option (String × Int × Byte))) := ls.mapM fun l =>
        match l.splitOn "~" with
        | nm :: st :: ch :: _ =>
          if st.startsWith "+" || st.contains '_' then none else
          (match ch.toList.head?, parseInt? st with
           | none, _ => none                     -- the panic
           | some c, some site => if c.toNat < 128 then some (some (nm, site, c.toNat.toUInt8)) else none
           | some _, none => some none)
        | _ => some none
      match parsed with
      | none => none
      | some reps =>
        -- the whole file is read before anything is replaced
        if reps.any Option.isNone then some badF else
        let step (acc : Option (Option Bag)) (r : String × Int × Byte) : Option (Option Bag) :=
          match acc with
          | some (some b) => (match replaceChar r.1 r.2.1 r.2.2 b with
              | some (b', false) => some (some b')
              | some (_, true) => some none
              | none => none)
          | other => other
        match (reps.filterMap id).foldl step (some (some (bagOf rows))) with
        | none => none
        | some none => some badF
        | some (some b) => some (okF (pairs b) "")
  | "subsites" :: fl => do
    match ← subsitesExpected rows files fl with
    | some r => some (okF r "")
    | none => some badF
  | "subset" :: fl => do
    -- `-f <file>`: the names (indices, expressions) are read from the file, one per line and / or comma separated;
    -- what the command line names is not looked at
    let o ← parseOpts [("-f", "--name-file"), ("-r", "--revert"), ("-e", "--regexp")] ["--revert", "--regexp", "--indices"]
      ["--name-file", "--revert", "--regexp", "--indices"] (fl.filter fun a => a.startsWith "-" || (opt fl "-f" == some a) || (opt fl "--name-file" == some a))
    let nf ← (o.reverse.find? (·.1 == "--name-file")).map (·.2)
    if nf == "stdin" || nf == "-" || nf.endsWith ".gz" then none
    match files.find? (·.1 == nf) with
    | none => some badF
    | some f =>
      let ls := f.2.splitOn "|"
      let ls := if ls.getLast? == some "" then ls.dropLast else ls
      if ls.any (fun l => l.contains '\r') then none else
      let given := ls.flatMap fun l => l.splitOn ","
      match subsetExpected rows given.eraseDups (fl.filter fun a => a.startsWith "-" && a != "-f" && a != "--name-file") with
      | some r => some (r ++ " files=")
      | none => none
  | "concat" :: fl => do
    -- cmd/concat.go: the alignment of stdin (left out with `-i none`), then the alignment of every file in the order
    -- given; `-l` writes one line `start end source` per alignment (the source of stdin is the word `stdin`)
    if (← effective "concatCmd" "output") != "stdout" then none
    let logf := ((opt fl "-l").orElse fun _ => opt fl "--log").getD (← effective "concatCmd" "log")
    let noStdin := opt fl "-i" == some "none"
    let rec names : List String → Option (List String)
      | [] => some []
      | a :: t =>
        if a == "-l" || a == "--log" || a == "-i" then (match t with | _ :: t' => names t' | [] => none)
        else if a.startsWith "-" then none else (names t).map (a :: ·)
    let others ← names fl
    if opt fl "-i" != none && !noStdin then none
    -- a file that does not exist: a failing status
    match others.mapM fun n => (fileRows n).map fun r => (n, r) with
    | none => some badF
    | some os =>
    let srcs : List (String × Rows) := (if noStdin then [] else [("stdin", rows)]) ++ os
    -- `cur` = the alignment so far (`none` before the first one), the next start, the log
    let step (acc : Option (Option Bag × Nat × String)) (src : String × Rows) : Option (Option Bag × Nat × String) :=
      match acc with
      | none => none
      | some (cur, start, log) =>
        -- a file whose rows do not form an alignment is refused by the reader
        if (addAllStop (newAlign 1) src.2).2 || src.2.isEmpty then none else
        let ob := bagOf src.2
        let len := (lenOf src.2).toNat
        let log := log ++ toString start ++ " " ++ toString (start + len) ++ " " ++ src.1 ++ "|"
        match cur with
        | none => some (some ob, start + len, log)
        | some b =>
          let r := concat (pairs ob) ob.length ob.alphabet b
          if r.2 then none else some (some r.1, start + len, log)
    match srcs.foldl step (some (none, 0, "")) with
    | none => some badF
    | some (none, _, _) => none
    | some (some b, _, log) =>
      if logf == "none" then some (okF (pairs b) "") else some (okF (pairs b) (← filesPart [(logf, log)]))
  | "append" :: others => do
    -- cmd/append.go: the rows of every file, in the order given, appended to the alignment of stdin
    if others.isEmpty || others.any (·.startsWith "-") || (← effective "appendCmd" "output") != "stdout" then none
    let step (acc : Option Bag) (n : String) : Option (Option Bag) :=
      match acc, fileRows n with
      | _, none => some none         -- a file that does not exist
      | none, _ => some none
      | some b, some o =>
        if (addAllStop (newAlign 1) o).2 || o.isEmpty then some none else
        let r := appendRows (pairs (bagOf o)) b
        some (if r.2 then none else some r.1)
    let res ← others.foldlM (fun acc n => step acc n) (some (bagOf rows))
    match res with
    | none => some badF
    | some b => some (okF (pairs b) "")
  | ["sort", "-o", f] => do some ("rc=0 out= files=" ++ (← filesPart [(f, fasta (pairs (sortRows (bagOf rows))))]))
  | "dedup" :: fl => do
    -- cmd/dedup.go: the alignment without the repeated rows on stdout; `-l`: one line per kept row, its name and
    -- the names of the rows identical to it, comma separated (also when nothing is identical to it)
    let lf ← opt fl "-l"
    if !(fl.all fun a => a == "-l" || a == lf || a == "--n-as-gap") || lf.startsWith "-" then none else
    let r := deduplicate (flag fl "--n-as-gap") (bagOf rows)
    some (okF (pairs r.1) (← filesPart [(lf, String.join (r.2.2.map fun g => ",".intercalate g ++ "|"))]))
  | ["compress", "--weight-out", wf] => do
    -- cmd/compress.go: the distinct patterns on stdout, one weight per line in the file
    if rows.isEmpty then none else
    let (rs, ws, _) := compress rows (lenOf rows)
    some (okF rs (← filesPart [(wf, numLines ws)]))
  | "clean" :: "sites" :: "-c" :: cut :: fl => do
    -- cmd/cleansites.go: `--positions` the remaining, `--positions-rm` the removed sites (0-based, one per line)
    let outs := (match opt fl "--positions" with | some f => [(f, true)] | none => []) ++
      (match opt fl "--positions-rm" with | some f => [(f, false)] | none => [])
    if outs.isEmpty then none else
    match ← cleanSitesResult rows cut fl with
    | none => some badF
    | some r => some (okF r.rows (← filesPart (outs.map fun o => (o.1, numLines (if o.2 then r.kept else r.removed)))))
  | "stats" :: "mutations" :: fl => do
    -- `list` with a reference read from a file of the working directory (or a name that is neither a row nor a file)
    match ← (if fl.contains "list" then mutListExpected rows files fl else mutCountExpected rows files fl) with
    | some out => some ("rc=0 out=" ++ out ++ " files=")
    | none => some badF
  | ["codonalign", "-f", ntf] => do
    -- cmd/codonalign.go: the protein alignment on stdin, the unaligned nucleotide sequences in the file; both
    -- alphabets are the ones the readers detect; any refusal of `CodonAlign` is a failing status
    let nts ← fileRows ntf
    if rows.isEmpty || (nts.map Prod.fst).eraseDups.length != nts.length then none else
    match codonAlign (autoAlphabet (rows.map Prod.snd)) (autoAlphabet (nts.map Prod.snd)) rows nts with
    | some r => some (okF r "")
    | none => some badF
  | _ => none

/-- `compute entropy [-a] [-g]`: numbers are printed with three decimals -/
def entropyVerdict (rows : Rows) (fl : List String) (impl : String) : Option Ans := do
  let L := lenOf rows
  if L < 0 then none
  let g := flag fl "-g"
  let avg := flag fl "-a"
  let es := (List.range L.toNat).map fun j => (entropy rows L (Int.ofNat j) g).getD (0.0 / 0.0)
  let close (txt : String) (x : Float) : Bool :=
    if x.isNaN then txt == "NaN" else
    match DetOps.parseDec (if txt.startsWith "-" then (txt.drop 1).toString else txt) with
    | some v => Float.abs ((if txt.startsWith "-" then -v else v) - x) ≤ 0.00051
    | none => false
  if !impl.startsWith "rc=0 out=" then some ⟨"rc=0", "fail:command-line-differs-from-library-model"⟩ else
  let lines := ((impl.drop 9).toString.splitOn "|").filter (· != "")
  if avg then
    let fin := es.filter fun e => !e.isNaN
    let m := fin.foldl (· + ·) 0.0 / Float.ofNat fin.length
    let okk := match lines with
      | [h, l] => h == "Alignment AvgEntropy" && (match l.splitOn " " with | ["0", v] => close v m | _ => false)
      | _ => false
    some ⟨if okk then impl else "average " ++ toString m, verdictOf okk "average-entropy-not-the-mean-of-the-defined-sites"⟩
  else
    let okk := lines.length == es.length + 1 && lines.headD "" == "Alignment Site Entropy" &&
      ((lines.drop 1).zip (es.zipIdx)).all fun (l, (e, j)) =>
        match l.splitOn " " with | ["0", jj, v] => jj == toString j && close v e | _ => false
    some ⟨if okk then impl else "per-site " ++ toString es, verdictOf okk "site-entropy-differs-from-library-model"⟩

/-! ### `stats char`, `stats alleles`, `stats alphabet` (cmd/char.go, cmd/stats.go, cmd/alleles.go, cmd/stats_alphabet.go) -/

def charOf (c : Byte) : String := stringOfBytes [c]

def failCli : String := "command-line-differs-from-library-model"

/-- `stats char [--per-sites] [--per-sequences] [--only c]`.
* default: `char nb freq`, one line per upper-cased character (`CharStats`, sorted), the frequency printed with `%f`
  (compared with a tolerance of 1e-6, the integer columns exactly);
* `--per-sequences`: `seq` and the same characters, one line per row with its `CharStatsSeq` counts;
* `--per-sites` (priority): `site` and the characters of the count profile as they are written (not upper-cased),
  in order of first appearance, one line per site;
* `--only c`: that column / line only, with 0 when the character does not occur. -/
def charStatsVerdict (rows : Rows) (fl : List String) (impl : String) : Option Ans := do
  let only := (opt fl "--only").getD (← effective "charCmd" "only")
  if !(fl.all fun a => a == "--per-sites" || a == "--per-sequences" || a == "--only" || a == only) then none
  let L := lenOf rows
  if L < 0 then none
  let all := only == "*"
  let oc : Byte ← if all then some 0 else match bytesOfString only with | [c] => if c < 128 then some c else none | _ => none
  let exact (m : String) : Ans := ⟨m, verdictOf (impl == m) failCli⟩
  if flag fl "--per-sites" then
    let prof ← countProfile rows L
    let cols := if all then prof else
      match prof.find? (·.1 == oc) with
      | some q => [q]
      | none => [(oc, List.replicate L.toNat 0)]
    some (exact ("rc=0 out=site" ++ String.join (cols.map fun q => " " ++ charOf q.1) ++ "|" ++
      String.join ((List.range L.toNat).map fun j =>
        toString j ++ String.join (cols.map fun q => " " ++ toString (q.2.getD j 0)) ++ "|")))
  else
    let cs0 := charStats rows
    let cs := if all || cs0.any (·.1 == oc) then cs0 else
      (cs0.filter (·.1 < oc)) ++ [(oc, 0)] ++ cs0.filter (fun p => !(p.1 < oc))
    let keys := if all then cs else cs.filter (·.1 == oc)
    if flag fl "--per-sequences" then
      some (exact ("rc=0 out=seq" ++ String.join (keys.map fun k => " " ++ charOf k.1) ++ "|" ++
        String.join (rows.map fun r =>
          let m := countsBy toUpper r.2
          r.1 ++ String.join (keys.map fun k => " " ++ toString ((lookup k.1 m).getD 0)) ++ "|")))
    else
      let total := (cs.map Prod.snd).foldl (· + ·) 0
      let want := "char nb freq " ++ " ".intercalate (keys.map fun k => charOf k.1 ++ ":" ++ toString k.2 ++ "/" ++ toString total)
      if !impl.startsWith "rc=0 out=" then some ⟨want, "fail:" ++ failCli⟩ else
      let lines := ((impl.drop 9).toString.splitOn "|").filter (· != "")
      let close (txt : String) (nb : Nat) : Bool :=
        match DetOps.parseDec txt with
        | some v => Float.abs (v - Float.ofNat nb / Float.ofNat total) ≤ 0.000001
        | none => false
      let okk := lines.length == keys.length + 1 && lines.headD "" == "char nb freq" && impl.endsWith "|" &&
        ((lines.drop 1).zip keys).all fun (l, k) =>
          match l.splitOn " " with
          | [c, nb, f] => c == charOf k.1 && nb == toString k.2 && close f k.2
          | _ => false
      some ⟨if okk then impl else want, verdictOf okk "character-table-differs-from-library-model"⟩

/-- `stats alleles`: `fmt.Println(AvgAllelesPerSite())`, the quotient of two counts (`NaN` when no site has an allele) -/
def allelesVerdict (rows : Rows) (impl : String) : Option Ans := do
  let L := lenOf rows
  if L < 0 then none
  let c := avgAllelesCounts rows L
  let want := "alleles " ++ toString c.1 ++ "/" ++ toString c.2
  if !impl.startsWith "rc=0 out=" then some ⟨want, "fail:" ++ failCli⟩ else
  let okk := match (impl.drop 9).toString.splitOn "|" with
    | [v, ""] =>
      if c.2 == 0 then v == "NaN" else
      (match DetOps.parseDec v with
       | some x => let q := Float.ofNat c.1 / Float.ofNat c.2; Float.abs (x - q) ≤ 1e-12 * q
       | none => false)
    | _ => false
  some ⟨if okk then impl else want, verdictOf okk "average-number-of-alleles-differs-from-library-model"⟩

def handle : Handler := fun op args impl =>
  match op, args with
  | "cli_lib", stdin :: "compute" :: "entropy" :: fl =>
    match entropyVerdict (parseFasta (stdin.splitOn "|")) fl impl with
    | some a => some a
    | none => some ⟨"unmodelled", "na"⟩
  | "cli_lib", stdin :: "stats" :: "char" :: fl =>
    match charStatsVerdict (parseFasta (stdin.splitOn "|")) fl impl with
    | some a => some a
    | none => some ⟨"unmodelled", "na"⟩
  | "cli_lib", [stdin, "stats", "alleles"] =>
    match allelesVerdict (parseFasta (stdin.splitOn "|")) impl with
    | some a => some a
    | none => some ⟨"unmodelled", "na"⟩
  | "cli_lib", stdin :: "stats" :: "mutations" :: fl =>
    if fl.contains "list" then
      -- `-p` (last): a sequential Phylip input, possibly with several alignments: the first one is read
      let phy := fl.getLast? == some "-p"
      let rows := if phy then parsePhylipFirst (stdin.splitOn "|") else parseFasta (stdin.splitOn "|")
      match mutListExpected rows [] (if phy then fl.dropLast else fl) with
      | some (some out) => let m := "rc=0 out=" ++ out; some ⟨m, verdictOf (impl == m) failCli⟩
      | some none => some ⟨bad, verdictOf (impl == bad) failCli⟩
      | none => some ⟨"unmodelled", "na"⟩
    else
    let rows := parseFasta (stdin.splitOn "|")
    -- the alphabet is the one the reader detects (`expected2` takes it for nucleotides)
    match mutCountExpected rows [] fl with
    | some (some out) => let m := "rc=0 out=" ++ out; some ⟨m, verdictOf (impl == m) failCli⟩
    | some none => some ⟨bad, verdictOf (impl == bad) failCli⟩
    | none =>
      match expected2 rows ("stats" :: "mutations" :: fl) with
      | some m => some ⟨m, verdictOf (impl == m) "command-line-differs-from-library-model"⟩
      | none => some ⟨"unmodelled", "na"⟩
  | "cli_lib", stdin :: argv =>
    let rows := parseFasta (stdin.splitOn "|")
    match (expected rows argv).orElse fun _ => expected2 rows argv with
    | some m => some ⟨m, verdictOf (impl == m) "command-line-differs-from-library-model"⟩
    | none => some ⟨"unmodelled", "na"⟩
  | "cli_libf", stdin :: files :: argv =>
    let rows := parseFasta (stdin.splitOn "|")
    let fs := if files == "_" then [] else (files.splitOn ";;").filterMap fun f =>
      match f.splitOn "=" with
      | n :: rest => some (n, "=".intercalate rest)
      | _ => none
    match expectedF rows fs argv with
    | some m => some ⟨m, verdictOf (impl == m) "command-line-differs-from-library-model"⟩
    | none => some ⟨"unmodelled", "na"⟩
  | _, _ => none

end Gv.Oracle.CliOps
