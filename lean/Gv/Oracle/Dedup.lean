import Gv.Oracle.Common
import Gv.Model.Compress
import Gv.Spec.Bag
import Gv.Spec.Dedup
/-! Oracle handlers for C13 (de-duplication and site compression). -/
namespace Gv.Oracle.DedupOps
open Gv Gv.Oracle Gv.Model

def lenOf (rows : Rows) : Int := match rows with | r :: _ => (r.2.length : Int) | [] => -1
def plus (l : List Nat) : String := if l.isEmpty then "_" else "+".intercalate (l.map toString)
def strJoin (l : List String) : String := if l.isEmpty then "_" else ",".intercalate l

def handle : Handler := fun op args impl =>
  match op, args with
  | "dedup", [alpha, rows, g] => do
    let alpha ← alpha.toNat?
    let rows ← decRows rows
    let g := decBool g
    -- model: the container model of C01 (rows are re-added to a cleared container)
    let b0 := (addAllStop (newAlign alpha) rows).1
    let r := deduplicate g b0
    let m := "ok " ++ toString r.1.length ++ " " ++ encRows (pairs r.1) ++ " " ++
      strJoin (r.2.2.map fun grp => "+".intercalate grp) ++ " idem=1"
    -- predicate, stated independently: first occurrences in order, groups partition the names
    let key := dedupKey b0.alphabet g
    -- (`Spec.firstOccs` / `Spec.groupsOf`: the very definitions the theorems of `Gv.Props.C13` are about)
    let firsts := Spec.firstOccs key rows
    let groups := Spec.groupsOf key rows
    let exp := "ok " ++ toString (lenOf rows) ++ " " ++ encRows firsts ++ " " ++
      strJoin (groups.map fun grp => "+".intercalate grp) ++ " idem=1"
    some ⟨m, verdictOf (impl == exp) "dedup-spec"⟩
  | "dedupbag", [alpha, rows, g] => do
    -- the same on a sequence set: rows of any lengths (`goalign dedup --unaligned`)
    let alpha ← alpha.toNat?
    let rows ← decRows rows
    let g := decBool g
    let b0 := (addAllStop (newBag alpha) rows).1
    let r := deduplicate g b0
    let m := "ok " ++ encRows (pairs r.1) ++ " " ++ strJoin (r.2.2.map fun grp => "+".intercalate grp) ++ " idem=1"
    let key := dedupKey b0.alphabet g
    let exp := "ok " ++ encRows (Spec.firstOccs key rows) ++ " " ++
      strJoin ((Spec.groupsOf key rows).map fun grp => "+".intercalate grp) ++ " idem=1"
    some ⟨m, verdictOf (impl == exp) "dedup-spec"⟩
  | "compress", [_, rows] => do
    let rows ← decRows rows
    let L := lenOf rows
    let (rs, ws, l) := compress rows L
    let m := toString l ++ " " ++ plus ws ++ " " ++ encRows rs
    let v := match impl.splitOn " " with
      | [l', ws', rs'] =>
        match l'.toNat?, decRows rs' with
        | some l', some out =>
          let ws' := if ws' == "_" then [] else (ws'.splitOn "+").filterMap String.toNat?
          let cols := (List.range l').map (columnAt out)
          let orig := (List.range L.toNat).map (columnAt rows)
          let distinct := cols.all fun c => cols.count c == 1
          let sumOk := ws'.foldl (· + ·) 0 == L.toNat && ws'.length == l'
          let multOk := (cols.zip ws').all (fun (c, w) => orig.count c == w && w > 0) && orig.all (cols.contains ·)
          let namesOk := out.map Prod.fst == rows.map Prod.fst
          verdictOf (distinct && sumOk && multOk && namesOk) "compress-spec"
        | _, _ => "fail:unparsable"
      | _ => "fail:unparsable"
    some ⟨m, if rows.isEmpty then "na" else v⟩
  | _, _ => none

end Gv.Oracle.DedupOps
