import Gv.Oracle.Common
import Gv.Model.Pool
import Gv.Model.Facts
import Gv.Model.Phase
import Gv.Gen.Facts
import Gv.Oracle.PhaseAlign
/-!
Oracle handlers for the concurrency part of C08 and for C16 (ops of `tools/harness/ops_pool.go`).

`model` is what the Lean side claims about the implementation's answer; for operations whose numeric /
alignment content is another property's business (C07 estimators, C09 Smith–Waterman) the claim is only the
part the pool model and the framing model determine, and `verdict` is the property's executable predicate on
the implementation's result.
-/
namespace Gv.Oracle.PoolOps
open Gv Gv.Oracle Gv.Model Gv.Model.Pool Gv.Model.Facts Gv.Model.Phase

/-! ### facts -/

def factsOf (which : String) : Option Facts :=
  if which == "distMatrix" then some Gen.Facts.distMatrix
  else if which == "phase" then some Gen.Facts.phase
  else none

def discStr (d : Discipline) : String :=
  "doneOnFail=" ++ encBool d.doneOnFail ++ ",errSticky=" ++ encBool d.errSticky

/-! ### the pool model run for the failing-model operation -/

def outcomeOf (c : Cfg Nat Nat) : String :=
  if !c.waited then "hang" else if c.err.isSome then "returned-error" else "returned-nil"

def insertSorted (s : String) : List String → List String
  | [] => [s]
  | a :: t => if s == a then a :: t else if s < a then s :: a :: t else a :: insertSorted s t

/-- outcomes of the pool model (discipline of the regenerated facts) over a set of pseudo-random schedules -/
def failOutcomes (d : Discipline) (npairs n k : Nat) (from_ : Bool := false) : List String :=
  let P : Params Nat Nat := ⟨id, fun j => if from_ then j ≥ k else j == k, 100, d⟩
  let c0 : Cfg Nat Nat := init (List.range npairs) n
  let fuel := mu c0 + 1
  (List.range 24).foldl (fun acc seed => insertSorted (outcomeOf (runRandom P fuel (seed * 7919 + 1) c0)) acc) []

/-! ### matrices -/

def hexToUInt64 (s : String) : Option UInt64 :=
  s.toList.foldlM (fun (acc : UInt64) ch => (hexVal ch).map fun v => acc * 16 + UInt64.ofNat v) 0

/-- "n:hex,hex,…" -/
def decMatrix (s : String) : Option (Nat × List Float) :=
  match s.splitOn ":" with
  | [n, body] => do
    let n ← n.toNat?
    let cells ← if body == "" then some [] else (body.splitOn ",").mapM fun h => (hexToUInt64 h).map Float.ofBits
    if cells.length == n * n then some (n, cells) else none
  | _ => none

/-- equal up to rounding: same class (NaN / ±Inf), or relative difference ≤ 1e-9, or — for values that are zero up
to the absolute rounding noise of `log(1 - x)` near `x = 0` (about 1e-16) — absolute difference ≤ 1e-12 -/
def approx (a b : Float) : Bool :=
  (a.isNaN && b.isNaN) || a == b ||
    (!(a.isNaN) && !(b.isNaN) &&
      (Float.abs (a - b) ≤ 1e-9 * (if Float.abs a > Float.abs b then Float.abs a else Float.abs b) ||
       Float.abs (a - b) ≤ 1e-12))

def cellAt (m : Nat × List Float) (i j : Nat) : Float := m.2.getD (i * m.1 + j) 0.0

def matrixRel (kind param : String) (m1 m2 : Nat × List Float) : Bool :=
  if m1.1 != m2.1 then false else
  let n := m1.1
  let idx := List.range n
  if kind == "same" then idx.all fun i => idx.all fun j => approx (cellAt m1 i j) (cellAt m2 i j)
  else if kind == "scale" then
    match param.toNat? with
    | some k => idx.all fun i => idx.all fun j => approx (Float.ofNat k * cellAt m1 i j) (cellAt m2 i j)
    | none => false
  else if kind == "rowperm" then
    match decInts param with
    | some p =>
      let p := p.map Int.toNat
      p.length == n && idx.all fun i => idx.all fun j =>
        approx (cellAt m1 (p.getD i 0) (p.getD j 0)) (cellAt m2 i j)
    | none => false
  else false

def maxCell (m : Nat × List Float) : Float :=
  m.2.foldl (fun acc x => if x > acc then x else acc) 0.0

/-- pairs of corresponding cells (after the relation's index / scale mapping) -/
def cellPairs (kind param : String) (m1 m2 : Nat × List Float) : Option (List (Float × Float)) :=
  if m1.1 != m2.1 then none else
  let n := m1.1
  let idx := List.range n
  let mk (g : Nat → Nat → Float) := some (idx.flatMap fun i => idx.map fun j => (g i j, cellAt m2 i j))
  if kind == "same" then mk (cellAt m1)
  else if kind == "scale" then
    match param.toNat? with
    | some k => mk fun i j => Float.ofNat k * cellAt m1 i j
    | none => none
  else if kind == "rowperm" then
    match decInts param with
    | some p =>
      let p := p.map Int.toNat
      if p.length == n then mk fun i j => cellAt m1 (p.getD i 0) (p.getD j 0) else none
    | none => none
  else none

/-- `""` = the relation holds; `zero-vs-2max` = it fails only in cells where one run has (numerically) zero and
the other run has its matrix maximum, i.e. the `2·max` substitute of an entry `DistMatrix` took for uncomputable;
`values` = anything else -/
def mismatchKind (kind param : String) (m1 m2 : Nat × List Float) : String :=
  match cellPairs kind param m1 m2 with
  | none => "shape"
  | some ps =>
    let bad := ps.filter fun p => !(approx p.1 p.2)
    if bad.isEmpty then "" else
    let scale := if kind == "scale" then (match param.toNat? with | some k => Float.ofNat k | none => 1.0) else 1.0
    let mx1 := scale * maxCell m1
    let mx2 := maxCell m2
    let z (x : Float) : Bool := Float.abs x ≤ 1e-9
    if bad.all fun p => (z p.1 && p.2 == mx2) || (z p.2 && p.1 == mx1) then "zero-vs-2max" else "values"

/-! ### phasing results -/

structure PRes where
  name : String
  pos : Nat
  removed : Bool
  nt : Seq
  codon : Seq
  aa : Seq

def decPRes (s : String) : Option PRes :=
  match s.splitOn "|" with
  | [name, pos, rm, nt, codon, aa] => do
    let pos ← pos.toNat?
    some ⟨name, pos, decBool rm, bytesOfString nt, bytesOfString codon, bytesOfString aa⟩
  | _ => none

/-- (all parsed results, some result carried an error) -/
def decSet (s : String) : Option (List PRes × Bool) :=
  if s == "_" then some ([], false) else
  let parts := s.splitOn ","
  let errs := parts.any (· == "ERR")
  ((parts.filter (· != "ERR")).mapM decPRes).map fun l => (l, errs)

def sortStrings (l : List String) : List String := l.foldl (fun acc s => (insertDup s acc)) []
where insertDup (s : String) : List String → List String
  | [] => [s]
  | a :: t => if s ≤ a then s :: a :: t else a :: insertDup s t

/-- the framing clauses of C16 on one implementation result; `""` = all hold -/
def framing (code : List (List Byte × Byte)) (translate reverse cutend : Bool) (inputs : Rows) (r : PRes) : String :=
  match findRow r.name inputs with
  | none => "result-for-unknown-sequence"
  | some s =>
    -- no alignment with a positive score: the result is removed and carries the untrimmed input
    if r.removed && r.pos == 0 && r.nt == s && r.codon == s && r.aa.isEmpty then "" else
    let strands := if reverse then [s, revcompIgnoringError s] else [s]
    let sub := strands.any fun t =>
      occursAt r.nt t r.pos && (cutend || r.pos + r.nt.length == t.length)
    if !sub then "nt-not-substring-at-position"
    else
      let inFrame := if translate then r.codon == r.nt
        else [0, 1, 2].any fun k => r.codon == r.nt.drop k
      if !inFrame then "codon-not-in-frame"
      else if codonsFrom code r.codon != r.aa then "aa-not-translation-of-codons"
      else if cutend && translate && r.nt.length % 3 != 0 then "cutend-not-whole-codons"
      else ""

/-- the (partial) clause: an input that contains the single nucleotide reference verbatim exactly once (and, when
both strands are searched, not on the other strand) is trimmed exactly at that occurrence -/
def verbatim (reverse : Bool) (refs inputs : Rows) (r : PRes) : String :=
  match refs, findRow r.name inputs with
  | [ref], some s =>
    let occ := occurrences ref.2 s
    let occRev := if reverse then occurrences ref.2 (revcompIgnoringError s) else []
    if occ.length == 1 && occRev.isEmpty && ref.2.length ≥ 6 then
      if r.pos == occ.getD 0 0 && occursAt r.nt s r.pos then "" else "verbatim-orf-not-trimmed-at-its-start"
    else ""
  | _, _ => ""

def firstNonEmpty : List String → String
  | [] => ""
  | a :: t => if a == "" then firstNonEmpty t else a

def kv (s key : String) : String :=
  match s.splitOn (key ++ "=") with
  | [_, v] => v
  | _ => "?"

def handle : Handler := fun op args impl =>
  match op, args with
  | "facts", [which, pred] => do
    let F ← factsOf which
    if pred == "raceFree" then
      let b := raceFree F
      some ⟨encBool b ++ (if b then "" else " " ++ raceReport F), "na"⟩
    else if pred == "instanceOfPool" then
      let b := instanceOfPool F
      some ⟨encBool b ++ (if b then "" else " " ++ ",".intercalate (failingPoolRules F)), "na"⟩
    else if pred == "discipline" then some ⟨discStr (disciplineOf F), "na"⟩
    else if pred == "raceLines" then some ⟨raceReportLines F, "na"⟩
    else if pred == "ownCellLines" then
      some ⟨",".intercalate ((F.accesses.filter fun a => a.role == .worker && a.indexed && a.ownCell).map fun a => toString a.line), "na"⟩
    else if pred == "inputsUnmodified" then
      let b := inputsUnmodified Gen.Facts.phaseMutCalls
      some ⟨encBool b ++ " calls=" ++ toString Gen.Facts.phaseMutCalls.length, "na"⟩
    else if pred == "orfSearch" then
      some ⟨(match Gen.Facts.longestOrfRegex with | some r => "regexp " ++ r | none => "scan"), "na"⟩
    else none
  | "distcpus", [_, _, _, _, _, _, _, cpus] =>
    let segs := impl.splitOn ";"
    let first := segs.headD ""
    let n := (decStrs cpus).length
    let model := ";".intercalate (first :: List.replicate (n - 1) "=")
    let ok := impl == model
    some ⟨model, if first.startsWith "err" then (if ok then "na" else "fail:thread-count-changes-outcome")
                 else verdictOf ok "thread-count-changes-matrix"⟩
  | "distfail", [rows, cpus, k, mode, _] => do
    let rows ← decRows rows
    let n ← cpus.toNat?
    let k ← k.toNat?
    let npairs := rows.length * (rows.length - 1) / 2
    let d := disciplineOf Gen.Facts.distMatrix
    if n == 0 then some ⟨"unmodelled", "na"⟩ else
    if k ≥ npairs then some ⟨"returned-nil", verdictOf (impl == "returned-nil") "spurious-error"⟩ else
    let outs := failOutcomes d npairs n k (mode == "pairfrom")
    some ⟨"|".intercalate outs, if impl == "returned-error" then "pass" else "fail:error-not-returned:" ++ impl⟩
  | "distjobs", [n, ranges, cpus] => do
    let n ← n.toNat?
    let r ← decInts ranges
    -- the producer of DistMatrix: range mode iff the four bounds are >= 0
    let jobs : Option (Option (List (Nat × Nat))) :=
      match r with
      | [a, b, c, d] =>
        if a ≥ 0 && b ≥ 0 && c ≥ 0 && d ≥ 0 then
          let b := if b.toNat ≥ n then n - 1 else b.toNat
          let d := if d.toNat ≥ n then n - 1 else d.toNat
          if a.toNat > b || c.toNat > d then some none
          else (rangeJobsFor Gen.Facts.rangeSendGuard a.toNat b c.toNat d).map some
        else some (some (halfJobs n))
      | _ => some (some (halfJobs n))
    let enc (js : List (Nat × Nat)) : String :=
      if js.isEmpty then "_" else ",".intercalate (js.map fun p => toString p.1 ++ "-" ++ toString p.2)
    match jobs with
    | none => some ⟨"unsupported-guard", "na"⟩
    | some none => some ⟨"err", "na"⟩
    | some (some js) =>
      -- with one worker the evaluation order is the producer's order; otherwise compare as multisets
      let model := if cpus == "1" then enc js else enc (js.mergeSort fun p q => p.1 < q.1 || (p.1 == q.1 && p.2 ≤ q.2))
      let implJobs : List (Nat × Nat) := (decStrs impl).filterMap fun t =>
        match t.splitOn "-" with
        | [i, j] => (i.toNat?).bind fun i => (j.toNat?).map fun j => (i, j)
        | _ => none
      let shared := implJobs.zipIdx.any fun (p, k) =>
        (implJobs.drop (k + 1)).any fun q => (cellsOf p).any ((cellsOf q).contains ·)
      some ⟨model, if impl == "err" then "na" else verdictOf (!shared) "two-jobs-own-the-same-cells"⟩
  | "distpair", kind :: param :: _ =>
    match impl.splitOn "|" with
    | [a, b] =>
      match decMatrix a, decMatrix b with
      | some m1, some m2 =>
        let mk := mismatchKind kind param m1 m2
        some ⟨"na", if mk == "" then "pass" else "fail:metamorphic-" ++ kind ++ ":" ++ mk⟩
      | _, _ => some ⟨"na", if a.startsWith "err" && b.startsWith "err" then "na" else "fail:metamorphic-" ++ kind ++ "-error-on-one-side"⟩
    | _ => some ⟨"na", "fail:bad-result"⟩
  | "phase", [cpus, tr, rev, ce, code, orfs, seqs, _] => do
    let inputs ← decRows seqs
    let refs ← decRows orfs
    let codeId ← parseInt? code
    let translate := decBool tr
    let reverse := decBool rev
    let cutend := decBool ce
    let ncpus := (decStrs cpus).length
    match geneticCode codeId with
    | none => some ⟨"err-code", "na"⟩
    | some tbl =>
      -- does Phase return an error before starting?
      let early :=
        if orfs == "_" then
          match longestORFBag Gen.Facts.longestOrfRegex reverse inputs with
          | some none => true
          | _ => false
        else refs.any fun r => r.2.length < 3
      if early then some ⟨"err", if impl == "err" then "na" else "fail:expected-error"⟩ else
      match impl.splitOn " " with
      | [cl, um, nr, sets] =>
        let segs := sets.splitOn ";"
        let first := segs.headD ""
        match decSet first with
        | none => some ⟨"unparsed", "fail:bad-result"⟩
        | some (res, hasErr) =>
          let closedOk := cl == "closed=1"
          let unmodOk := um == "unmod=1"
          let norefExp := if orfs == "_" then "same" else "na"
          if hasErr || segs.any (fun s => (s.splitOn ",").any (· == "ERR")) then
            -- an alignment error was reported: only the stream and the inputs are constrained
            some ⟨"closed=1 unmod=1 " ++ nr ++ " " ++ sets,
              if !closedOk then "fail:stream-not-closed" else if !unmodOk then "fail:inputs-modified" else "na"⟩
          else
            let model := "closed=1 unmod=1 noref=" ++ norefExp ++ " " ++
              ";".intercalate (first :: List.replicate (ncpus - 1) "=")
            let names := sortStrings (res.map (·.name))
            let inNames := sortStrings (inputs.map (·.1))
            let v :=
              if !closedOk then "fail:stream-not-closed"
              else if !unmodOk then "fail:inputs-modified"
              else if names != inNames then "fail:not-one-result-per-input"
              else
                let fr := firstNonEmpty (res.map (framing tbl translate reverse cutend inputs))
                if fr != "" then "fail:" ++ fr
                else if segs.tail.any (· != "=") then "fail:thread-count-changes-results"
                else if nr != "noref=" ++ norefExp then "fail:reference-used-is-not-LongestORF"
                else
                  let vb := firstNonEmpty (res.map (verbatim reverse refs inputs))
                  if vb != "" then "fail:" ++ vb else "pass"
            some ⟨model, v⟩
      | _ => some ⟨"closed=1 …", "fail:unexpected-outcome:" ++ impl⟩
  | "longestorf", [s] =>
    let s := bytesOfString s
    let m := match longestORFSeq Gen.Facts.longestOrfRegex s with
      | none => "unsupported-regex"
      | some none => "-1,-1"
      | some (some (a, b)) => toString a ++ "," ++ toString b
    let orfs := allOrfs 0 (orfText s)
    let v :=
      if impl == "-1,-1" then verdictOf orfs.isEmpty "orf-exists-but-none-reported"
      else match impl.splitOn "," with
        | [a, b] =>
          match a.toNat?, b.toNat? with
          | some a, some b =>
            if !(orfs.contains (a, b)) then "fail:not-an-ATG-to-first-stop-frame"
            else verdictOf (b - a == specLongestLen s) "longer-orf-exists"
          | _, _ => "fail:bad-result"
        | _ => "fail:bad-result"
    some ⟨m, v⟩
  | "baglongestorf", [rev, rows] => do
    let rows ← decRows rows
    let reverse := decBool rev
    let m := match longestORFBag Gen.Facts.longestOrfRegex reverse rows with
      | none => "unsupported-regex"
      | some none => "err unmod=1"
      | some (some (n, q)) => "ok " ++ n ++ ":" ++ stringOfBytes q ++ " unmod=1"
    let best := specLongestLenBag reverse rows
    let v :=
      if (impl.splitOn "unmod=1").length != 2 then "fail:inputs-modified"
      else if impl.startsWith "err" then verdictOf (best == 0) "orf-exists-but-none-reported"
      else match (impl.splitOn " ").getD 1 "" |>.splitOn ":" with
        | [_, q] =>
          let q := bytesOfString q
          -- the reported frame must itself be an ORF and as long as the longest one
          if !((allOrfs 0 (orfText q)).contains (0, q.length)) then "fail:not-an-ATG-to-first-stop-frame"
          else verdictOf (q.length == best) "longer-orf-exists"
        | _ => "fail:bad-result"
    some ⟨m, v⟩
  -- the aligner behind phasing (C16): `Oracle/PhaseAlign.lean`
  | "atgalign", _ => PhaseAlignOps.handle op args impl
  | "phasent1", _ => PhaseAlignOps.handle op args impl
  | "phaseaa1", _ => PhaseAlignOps.handle op args impl
  | _, _ => none

end Gv.Oracle.PoolOps
