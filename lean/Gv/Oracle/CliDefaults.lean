import Gv.Gen.CliFlags
/-!
Defaults of the command-line flags, read from the regenerated table of flag registrations (`Gen.CliFlags.flags`,
tools/extract/cliflags.go).  `effective cmd flag`: the flag `--flag` of the command whose cobra variable is `cmd` is
bound to a Go variable; pflag stores a flag's default into its variable when the flag is registered, and several
commands bind the same variable (`gapopen`, `trimNb`, `unaligned`, …), so the value a command starts from is the
default of the LAST registration of that variable (files in name order, statements in source order).  `none` when
the command no longer has such a flag: the expectation is then not evaluated (`unmodelled`), nothing is reported.
-/
namespace Gv.Oracle.CliDefaults
open Gv.Gen.CliFlags

def effective (cmd flag : String) : Option String :=
  match flags.find? (fun f => f.2.1 == cmd && f.2.2.1 == flag) with
  | none => none
  | some f =>
    let gov := f.2.2.2.2.1
    ((flags.filter fun g => g.2.2.2.2.1 == gov).getLast?).map fun g => g.2.2.2.2.2

end Gv.Oracle.CliDefaults
