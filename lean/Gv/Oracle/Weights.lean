import Gv.Oracle.Common
import Gv.Model.Weights
import Gv.Oracle.CliDefaults
/-!
Oracle handler for C20 (random site weights, Dirichlet / gamma samplers, incomplete gamma ratio, discrete-gamma
rate categories).  Wire format: see `tools/harness/ops_weights.go`.

* model result: the Lean model (`Gv/Model/Weights.lean`) run at `Float`; sampler operations are replayed
  EXACTLY from the seed through the `math/rand` replica (`runSeedF`).  Floats are printed as `f:<bits>`;
  the driver compares them by class and relative tolerance (last-ulp differences of log/exp/pow between
  Go's `math` and the C library behind Lean's `Float`).
* verdict: the property's predicate evaluated on the IMPLEMENTATION's output.

The reference for the incomplete gamma ratio is independent of the modelled AS32 code: own log-gamma
(Stirling series after an upward shift), fully converged power series for `x < a+1`, modified-Lentz continued
fraction otherwise, and — on a sub-grid — a composite Simpson quadrature of the defining integral.
Core only.
-/
namespace Gv.Oracle.WeightsOps
open Gv Gv.Oracle Gv.Model Gv.Model.Weights

/-! ### float codec: `f:<16 hex digits>[:decimal]` -/

def hex16 (n : Nat) : String :=
  String.ofList ((List.range 16).map fun i => hexDigit ((n >>> (4 * (15 - i))) % 16))

def fstr (x : Float) : String := "f:" ++ hex16 x.toBits.toNat

def bitsFloat? (s : String) : Option Float :=
  if s.length != 16 then none else
  (s.toList.foldlM (fun (acc : UInt64) c => (hexVal c).map fun v => acc * 16 + UInt64.ofNat v) 0).map Float.ofBits

def bitsFloats? (s : String) : Option (List Float) :=
  if s == "_" || s == "" then some [] else (s.splitOn ",").mapM bitsFloat?

def tokFloat? (t : String) : Option Float :=
  match t.splitOn ":" with
  | "f" :: b :: _ => bitsFloat? b
  | _ => none

def fstrs (l : List Float) : String := " ".intercalate (l.map fstr)

def okFloats (l : List Float) : String :=
  if l.isEmpty then "ok 0" else "ok " ++ toString l.length ++ " " ++ fstrs l

/-- `ok <n> f… ` → the floats (exactly `n` of them), and the remaining tokens -/
def parseOk (toks : List String) : Option (List Float × List String) :=
  match toks with
  | "ok" :: n :: rest => do
    let n ← n.toNat?
    let fs ← (rest.take n).mapM tokFloat?
    if fs.length == n then some (fs, rest.drop n) else none
  | _ => none

def finite (x : Float) : Bool := !x.isNaN && !x.isInf

def sumF (l : List Float) : Float := l.foldl (· + ·) 0

def nondecreasing : List Float → Bool
  | a :: b :: l => a ≤ b && nondecreasing (b :: l)
  | _ => true

/-- non-decreasing up to rounding noise: no drop larger than `slack` -/
def nondecreasingUpTo (slack : Float) : List Float → Bool
  | a :: b :: l => a - slack ≤ b && nondecreasingUpTo slack (b :: l)
  | _ => true

def strictlyIncreasing : List Float → Bool
  | a :: b :: l => a < b && strictlyIncreasing (b :: l)
  | _ => true

def clauses (cs : List (Bool × String)) : String :=
  match (cs.filter fun c => !c.1).map (·.2) with
  | [] => "pass"
  | l => "fail:" ++ "+".intercalate l

/-! ### independent reference: regularised lower incomplete gamma `P(a, x)` -/

/-- `ln Γ(z)` for `z > 0`: shift to `z ≥ 16`, Stirling series (error < 1e-15) -/
def lnGamma (z : Float) : Float := Id.run do
  let mut z := z
  let mut shift : Float := 0
  for _ in [0:16] do
    if z < 16 then
      shift := shift + Float.log z
      z := z + 1
  let z2 := z * z
  let ser := 1 / (12 * z) - 1 / (360 * z * z2) + 1 / (1260 * z * z2 * z2) - 1 / (1680 * z * z2 * z2 * z2)
    + 1 / (1188 * z * z2 * z2 * z2 * z2)
  return (z - 0.5) * Float.log z - z + 0.5 * Float.log (2 * 3.141592653589793) + ser - shift

/-- fully converged series `e^{-x} x^a / Γ(a+1) · Σ x^n / ((a+1)…(a+n))` -/
def pSeriesLoop (a x : Float) : Nat → Float → Float → Float → Float
  | 0, _, _, sum => sum
  | fuel + 1, n, term, sum =>
    if term > 1e-18 * sum then
      let n := n + 1
      let term := term * x / (a + n)
      pSeriesLoop a x fuel n term (sum + term)
    else sum

def pSeries (a x : Float) : Float :=
  pSeriesLoop a x 100000 0 1 1 * Float.exp (a * Float.log x - x - lnGamma (a + 1))

/-- `Q(a, x)` by the modified Lentz evaluation of `1/(x+1-a- 1(1-a)/(x+3-a- 2(2-a)/(x+5-a- …)))` -/
def lentzLoop (a : Float) : Nat → Float → Float → Float → Float → Float → Float
  | 0, _, _, _, _, h => h
  | fuel + 1, i, b, c, d, h =>
    let tiny : Float := 1e-300
    let i := i + 1
    let an := -i * (i - a)
    let b := b + 2
    let d := an * d + b
    let d := if d.abs < tiny then tiny else d
    let c := b + an / c
    let c := if c.abs < tiny then tiny else c
    let d := 1 / d
    let del := d * c
    let h := h * del
    if (del - 1).abs < 1e-16 then h else lentzLoop a fuel i b c d h

def qLentz (a x : Float) : Float :=
  let b := x + 1 - a
  let d := 1 / b
  Float.exp (a * Float.log x - x - lnGamma a) * lentzLoop a 100000 0 b (1 / 1e-300) d d

def pRef (a x : Float) : Float :=
  if x ≤ 0 then 0 else if x.isInf then 1
  else if x < a + 1 then pSeries a x
  else
    -- far in the tail the prefactor underflows: Q = 0
    if a * Float.log x - x - lnGamma a < -745 then 1 else 1 - qLentz a x

/-- composite Simpson quadrature of `(1/Γ(a)) ∫_0^x t^{a-1} e^{-t} dt` after `t = w^m` (integrand
`m w^{ma-1} e^{-w^m}`, smooth at 0 for `ma ≥ 4`), `2n` panels -/
def pQuad (a x : Float) (n : Nat) : Float := Id.run do
  let m : Float := if a ≥ 1 then 4 else Float.ceil (4 / a)
  let hi := Float.pow x (1 / m)
  let f := fun (w : Float) => if w ≤ 0 then 0 else m * Float.pow w (m * a - 1) * Float.exp (-(Float.pow w m))
  let h := hi / Float.ofNat (2 * n)
  let mut s : Float := f 0 + f hi
  for k in [1:2 * n] do
    let w := h * Float.ofNat k
    s := s + (if k % 2 == 1 then 4 else 2) * f w
  return s * h / 3 / Float.exp (lnGamma a)

/-! ### predicates -/

/-- weight vector of an alignment of length `L`: one finite strictly positive weight per site, sum = L -/
def weightsVerdict (L : Nat) (w : List Float) : String :=
  let Lf := Float.ofNat L
  clauses [(w.length == L, "one-weight-per-site"), (w.all finite, "finite"), (w.all (· > 0), "zero-weight"),
           ((sumF w - Lf).abs ≤ 1e-9 * Lf, "sum-eq-length")]

def sampleVerdict (n : Nat) (factor : Float) (strict : Bool) (w : List Float) : String :=
  clauses [(w.length == n, "one-value-per-parameter"), (w.all finite, "finite"), (w.all (· ≥ 0), "negative-weight"),
           (!strict || w.all (· > 0), "zero-weight"),
           ((sumF w - factor).abs ≤ 1e-9 * factor.abs, "sum-eq-factor")]

def fuelC : Nat := 10000
def fuelIG : Nat := 100000

def resStr : Res (List Float) → String
  | .ok l => okFloats l
  | .err => "err"
  | .exit => "exit:1"
  | .fuel => "hang"

def implToks (impl : String) : List String := impl.splitOn " "

/-! ### `goalign build weightboot [-n k] --seed s` (cmd/weightboot.go) -/

/-- `k` weight vectors one after the other from the one stream -/
def weightbootProg (L : Nat) : Nat → FProg Float (Res (List (List Float)))
  | 0 => .pure (.ok [])
  | k + 1 => FProg.bind (buildWeightsDirichlet L fuelC) fun
    | .ok w => FProg.bind (weightbootProg L k) fun
      | .ok ws => .pure (.ok (w :: ws))
      | .err => .pure .err
      | .exit => .pure .exit
      | .fuel => .pure .fuel
    | .err => .pure .err
    | .exit => .pure .exit
    | .fuel => .pure .fuel

/-- `--flag value` pairs of the command, short names replaced; `none` = a flag that is not known -/
def wbOpts : List String → Option (List (String × String))
  | [] => some []
  | [_] => none
  | a :: v :: rest =>
    let a := if a == "-n" then "--nboot" else if a == "-o" then "--output" else a
    if a == "--nboot" || a == "--seed" || a == "--output" then (wbOpts rest).map ((a, v) :: ·) else none

/-- a number printed with `%f`: digits, a point, exactly six digits; its value -/
def fixed6? (t : String) : Option Float :=
  match t.splitOn "." with
  | [a, b] =>
    if b.length == 6 && !a.isEmpty && a.all Char.isDigit && b.all Char.isDigit then
      (a ++ b).toNat?.map fun n => Float.ofScientific n true 6
    else none
  | _ => none

/-- what the command must print, as the exact weights: the first alignment of the FASTA input has `L` sites; one line
per replicate, `L` weights each (none for `L <= 2`: the library call returns no vector).  `none` = not modelled
(no `--seed`: the clock seeds the generator; an output file; a sampler that runs out of fuel). -/
def weightbootExpected (stdin : String) (fl : List String) : Option (List (List Float)) := do
  let o ← wbOpts fl
  let get (f : String) : Option String := (o.reverse.find? (·.1 == f)).map (·.2)
  let out := (get "--output").getD (← CliDefaults.effective "weightbootCmd" "output")
  let nb ← parseInt? ((get "--nboot").getD (← CliDefaults.effective "weightbootCmd" "nboot"))
  let seed ← parseInt? (← get "--seed")
  if seed == -1 || !(out == "stdout" || out == "-") then none
  -- one sequence per line, every row of the same length (the generator writes it so)
  let L ← match stdin.splitOn "|" with
    | h :: q :: _ => if h.startsWith ">" && !q.startsWith ">" then some q.length else none
    | _ => none
  if L == 0 then none
  match runSeedF (weightbootProg L nb.toNat) seed with
  | .ok ws => some ws
  | _ => none

def weightbootVerdict (stdin : String) (fl : List String) (impl : String) : Ans :=
  match weightbootExpected stdin fl with
  | none => ⟨"unmodelled", "na"⟩
  | some ws =>
    let want := "rc=0 " ++ toString ws.length ++ " lines: " ++ "|".intercalate (ws.map fun w => " ".intercalate (w.map toString))
    if !impl.startsWith "rc=0 out=" then ⟨want, "fail:printed-weights-differ-from-library-replay"⟩ else
    let body := (impl.drop 9).toString
    -- layout: every line ends with a newline, the weights of a line are separated by one tab (shown as a blank)
    let lines := body.splitOn "|"
    let okLayout := lines.getLast? == some "" && lines.length == ws.length + 1
    let okVals := (lines.dropLast.zip ws).all fun (ln, w) =>
      let toks := if ln.isEmpty then [] else ln.splitOn " "
      toks.length == w.length && (toks.zip w).all fun (t, x) =>
        match fixed6? t with
        | some v => (v - x).abs ≤ 0.00000051
        | none => false
    if okLayout && okVals then ⟨impl, "pass"⟩ else ⟨want, "fail:printed-weights-differ-from-library-replay"⟩

def handle : Handler := fun op args impl =>
  match op, args with
  | "cli_lib", stdin :: "build" :: "weightboot" :: fl => some (weightbootVerdict stdin fl impl)
  | "c20consts", _ =>
    let m : List Float := [cE, magicConst, Float.log 4, c1em7, c9999999, accurate, overflowC, dblMin]
    let ok := match (implToks impl).mapM tokFloat? with
      | some v => v.length == m.length && (v.zip m).all fun p => p.1.toBits == p.2.toBits
      | none => false
    some ⟨fstrs m, verdictOf ok "float-constants-differ-from-go"⟩
  | "c20wgamma", [seed, L] => do
    let seed ← parseInt? seed
    let L ← L.toNat?
    let m := runSeedF (buildWeightsGamma L fuelC) seed
    let v := if L < 3 then "na" else match parseOk (implToks impl) with
      | some (w, []) => weightsVerdict L w
      | _ => "fail:no-weights-returned"
    some ⟨resStr m, v⟩
  | "c20wdir", [seed, L] => do
    let seed ← parseInt? seed
    let L ← L.toNat?
    let m := runSeedF (buildWeightsDirichlet L fuelC) seed
    let v := if L < 3 then "na" else match parseOk (implToks impl) with
      | some (w, []) => weightsVerdict L w
      | _ => "fail:no-weights-returned"
    some ⟨resStr m, v⟩
  | "c20wdir2", [seed, L1, L2] => do
    -- a longer (or shorter) alignment first, in the same process and from the same stream: the weights of
    -- the second alignment are those of `BuildWeightsDirichlet` on it alone, continuing the stream
    let seed ← parseInt? seed
    let L1 ← L1.toNat?
    let L2 ← L2.toNat?
    let m := runSeedF (FProg.bind (buildWeightsDirichlet L1 fuelC) fun _ => buildWeightsDirichlet L2 fuelC) seed
    let v := if L1 < 3 || L2 < 3 then "na" else match parseOk (implToks impl) with
      | some (w, []) => weightsVerdict L2 w
      | _ => "fail:no-weights-returned"
    some ⟨resStr m, v⟩
  | "c20wgamma2", [seed, L1, L2] => do
    let seed ← parseInt? seed
    let L1 ← L1.toNat?
    let L2 ← L2.toNat?
    let m := runSeedF (FProg.bind (buildWeightsGamma L1 fuelC) fun _ => buildWeightsGamma L2 fuelC) seed
    let v := if L1 < 2 || L2 < 2 then "na" else match parseOk (implToks impl) with
      | some (w, []) => weightsVerdict L2 w
      | _ => "fail:no-weights-returned"
    some ⟨resStr m, v⟩
  | "c20dir", [seed, factor, alphas] => do
    let seed ← parseInt? seed
    let factor ← bitsFloat? factor
    let alphas ← bitsFloats? alphas
    let m := runSeedF (dirichlet factor alphas fuelC) seed
    -- invalid: fewer than two parameters, or a parameter that is not a positive finite number
    let invalid := alphas.length < 2 || alphas.any fun a => !(a > 0) || !finite a
    let v :=
      if invalid then verdictOf (impl == "err") "invalid-parameters-not-reported"
      else if alphas.length < 3 then "na"     -- the code rejects `len(alpha) <= 2`; lengths < 3 are outside the quantifier
      else match parseOk (implToks impl) with
        | some (w, []) => sampleVerdict alphas.length factor true w
        | _ => "fail:valid-parameters-rejected"
    some ⟨resStr m, v⟩
  | "c20dir1", [seed, factor, n] => do
    let seed ← parseInt? seed
    let factor ← bitsFloat? factor
    let n ← parseInt? n
    let m := runSeedF (dirichlet1 factor n.toNat) seed
    let v :=
      if n < 2 then verdictOf (impl == "err") "invalid-parameters-not-reported"
      else if n < 3 then "na"
      else match parseOk (implToks impl) with
        | some (w, []) => sampleVerdict n.toNat factor false w
        | _ => "fail:valid-parameters-rejected"
    some ⟨resStr m, v⟩
  | "c20gamma", [seed, alpha, beta, n] => do
    let seed ← parseInt? seed
    let alpha ← bitsFloat? alpha
    let beta ← bitsFloat? beta
    let n ← n.toNat?
    let m := runSeedF (gammaDraws alpha beta fuelC n) seed
    let valid := alpha > 0 && beta > 0 && finite alpha && finite beta
    let v := if !valid then "na" else match parseOk (implToks impl) with
      | some (w, []) => clauses [(w.length == n, "count"), (w.all finite, "finite"), (w.all (· ≥ 0), "negative-weight"),
                                  (w.all (· > 0), "zero-weight")]
      | _ => "fail:no-draws-returned"
    some ⟨resStr m, v⟩
  | "c20incg", [alpha, xs] => do
    let alpha ← bitsFloat? alpha
    let xs ← bitsFloats? xs
    -- the external `math.Lgamma(alpha)` is taken from the implementation's line
    let toks := implToks impl
    let lgImpl := match toks with
      | "ok" :: l :: _ => tokFloat? l
      | _ => none
    match lgImpl with
    | none =>
      -- hang / panic: run the model with its own log-gamma to say what it predicts
      let m := xs.map fun x => incompleteGamma x alpha (lnGamma alpha) fuelIG
      let ms := if m.any Option.isNone then "hang" else "ok-without-lgamma"
      some ⟨ms, if alpha > 0 && xs.all (· ≥ 0) then "fail:" ++ (if impl == "hang" then "hang" else "no-result") else "na"⟩
    | some lg =>
      let m := xs.map fun x => incompleteGamma x alpha lg fuelIG
      let ms := if m.any Option.isNone then "hang"
        else "ok " ++ fstr lg ++ " " ++ toString xs.length ++ " " ++ fstrs (m.map fun o => o.getD 0)
      let inQ := alpha > 0 && finite alpha && xs.all (fun x => x ≥ 0 && finite x) && nondecreasing xs
      let v := if !inQ then "na" else match parseOk ("ok" :: toks.drop 2) with
        | some (vs, []) =>
          let refs := xs.map (pRef alpha)
          let devOk := (vs.zip refs).all fun p => (p.1 - p.2).abs ≤ 1e-6
          -- quadrature cross-check where the integrand is tame
          let quadOk := ((xs.zip vs).zipIdx.all fun (p, i) =>
            if i % 5 == 2 && alpha ≥ 0.25 && alpha ≤ 40 && p.1 ≥ 0.01 && p.1 ≤ 150 then (p.2 - pQuad alpha p.1 3000).abs ≤ 1e-6
            else true)
          clauses [(vs.length == xs.length, "count"), (vs.all fun y => !y.isNaN && 0 ≤ y && y ≤ 1, "range-0-1"),
                   (nondecreasingUpTo 1e-12 vs, "monotone"), (devOk, "series-value"), (quadOk, "quadrature-value"),
                   ((lg - lnGamma alpha).abs ≤ 1e-10 * (if lg.abs > 1 then lg.abs else 1), "ext-lgamma")]
        | _ => "fail:no-result"
      some ⟨ms, v⟩
  | "c20dgamma", [alpha, ncat] => do
    let alpha ← bitsFloat? alpha
    let ncat ← ncat.toNat?
    -- the harness asks three times: a later answer that differs from the first is reported as such
    if impl.startsWith "again-differs" then
      return ⟨"same-answer-every-time", "fail:same-arguments-different-rates"⟩
    let toks := implToks impl
    match parseOk toks with
    | some (r, "q" :: rest) =>
      let qs := (rest.take (ncat - 1)).filterMap tokFloat?
      let lg := match rest.drop (ncat - 1) with
        | ["lg", l] => tokFloat? l
        | _ => none
      match lg with
      | none => some ⟨"unparsable", "fail:unparsable"⟩
      | some lg =>
        if qs.length != ncat - 1 then some ⟨"unparsable", "fail:unparsable"⟩ else
        let m := discreteGamma alpha ncat qs lg fuelIG
        let ms := match m with
          | some l => okFloats l ++ " q " ++ fstrs qs ++ " lg " ++ fstr lg
          | none => "hang"
        let inQ := alpha ≥ 0.01 && alpha ≤ 100 && 2 ≤ ncat && ncat ≤ 32
        let K := Float.ofNat ncat
        -- are the external quantiles what they claim to be?
        let extOk := strictlyIncreasing qs && (qs.zipIdx.all fun (q, i) =>
          (pRef alpha (q * alpha) - Float.ofNat (i + 1) / K).abs ≤ 1e-6)
        let v := if !inQ then "na" else
          match clauses [(r.length == ncat, "count"), (r.all finite, "finite"), (r.all (· ≥ 0), "negative-rate"),
                   (nondecreasing r, "non-decreasing"), ((sumF r / K - 1).abs ≤ 1e-6, "mean-one")] with
          | "pass" => "pass"
          | f => if extOk then f else f ++ "+ext-quantile"
        some ⟨ms, v⟩
    | _ =>
      some ⟨"no-externals", if impl == "hang" then "fail:hang" else "fail:no-result"⟩
  | _, _ => none

end Gv.Oracle.WeightsOps
