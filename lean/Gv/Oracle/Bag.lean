import Gv.Oracle.Common
import Gv.Spec.Bag
import Gv.Model.Rand
import Gv.Model.Identical
/-! Oracle handler for container histories (C01): `hist <A|B> <alphabet> <rows> <ops>`. -/
namespace Gv.Oracle.BagOps
open Gv Gv.Oracle Gv.Model

def pctDecL : List Char → List Char
  | '%' :: a :: b :: t =>
    match hexVal a, hexVal b with
    | some x, some y => Char.ofNat (x * 16 + y) :: pctDecL t
    | _, _ => '%' :: pctDecL (a :: b :: t)
  | c :: t => c :: pctDecL t
  | [] => []

def pctDec (s : String) : String := String.ofList (pctDecL s.toList)

def pairUp : List String → List (String × String)
  | a :: b :: t => (a, b) :: pairUp t
  | _ => []

def decPRows (s : String) : List (String × Seq) :=
  if s == "_" || s == "" then [] else (pairUp (s.splitOn "/")).map fun p => (pctDec p.1, bytesOfString p.2)

/-- a list of names on the wire: percent-encoded, `/`-separated, `_` when empty -/
def decNames (s : String) : List String := if s == "_" || s == "" then [] else (s.splitOn "/").map pctDec

/-- the `maskreplace` string (`_` = the empty string) -/
def decMaskRep (s : String) : MaskRep :=
  if s == "_" || s == "" || s == "AMBIG" then .ambig
  else if s == "GAP" then .gap
  else if s == "MAJ" then .maj
  else match bytesOfString s with
    | [c] => .char c
    | _ => .bad

def encPRows (rows : List (String × Seq)) : String :=
  if rows.isEmpty then "_" else "/".intercalate (rows.flatMap fun r => [pctEnc r.1, stringOfBytes r.2])

/-- everything observable, rendered exactly like `observe` in ops_bag.go -/
structure Obs where
  n : Nat
  len : Option Int
  alpha : Nat
  it : List (String × Seq)
  byid : List (String × Seq)
  seqs : List (String × Seq)
  byname : List (String × Option (String × Seq) × Int)   -- probe, found (name, seq), idByName

def dedupStr : List String → List String → List String
  | [], acc => acc.reverse
  | s :: t, acc => if acc.contains s then dedupStr t acc else dedupStr t (s :: acc)

def probeNames (cur probes : List String) : List String :=
  (dedupStr (cur ++ probes) []).mergeSort fun a b => decide (a ≤ b)

def render (o : Obs) : String :=
  let sameOr (l : List (String × Seq)) := if encPRows l == encPRows o.it then "=" else encPRows l
  let bn := o.byname.map fun (nm, found, id) =>
    let v := match found with | some r => "+" ++ stringOfBytes r.2 | none => "-"
    let on := match found with | some r => pctEnc r.1 | none => ""
    pctEnc nm ++ ">" ++ v ++ ">" ++ on ++ ">" ++ toString id
  "n=" ++ toString o.n ++ (match o.len with | some l => " len=" ++ toString l | none => "") ++
  " alpha=" ++ toString o.alpha ++ " it=" ++ encPRows o.it ++ " byid=" ++ sameOr o.byid ++
  " seqs=" ++ sameOr o.seqs ++ " byname=" ++ ",".intercalate bn

def obsModel (b : Bag) (probes : List String) : Obs :=
  let it := pairs b
  { n := b.rows.length, len := if b.isAlign then some b.length else none, alpha := b.alphabet,
    it := it, byid := it, seqs := it,
    byname := (probeNames (it.map Prod.fst) probes).map fun nm =>
      (nm, (getByName b nm).map (fun r => (r.name, r.seq)), idByName b nm) }

def idxOf (n : String) : List (String × Seq) → Nat → Int
  | [], _ => -1
  | r :: t, k => if r.1 == n then (k : Int) else idxOf n t (k + 1)

def obsSpec (b : Spec.SBag) (probes : List String) : Obs :=
  { n := b.rows.length, len := if b.isAlign then some b.length else none, alpha := b.alphabet,
    it := b.rows, byid := b.rows, seqs := b.rows,
    byname := (probeNames b.names probes).map fun nm => (nm, Spec.firstNamed nm b.rows, idxOf nm b.rows 0) }

def frac (s : String) : Option (Nat × Nat) :=
  match s.splitOn "/" with
  | [a] => a.toNat?.map fun x => (x, 1)
  | [a, b] => do let x ← a.toNat?; let y ← b.toNat?; pure (x, y)
  | _ => none

/-- Go's `rand.Seed(seed); ShuffleSequences()` etc. need the generator replica: resolved by the
RNG-aware handler in `Gv/Oracle/Rand.lean`; here `perm` fields arrive already resolved (`p1+p2+…`). -/
def decPerm (s : String) : List Nat := if s == "_" || s == "" then [] else (s.splitOn "+").filterMap String.toNat?

/-- operations whose random draws are resolved, at the step where they are applied, by the replica of
Go's generator seeded as the harness seeds the real one -/
inductive OpX where
  | plain (op : Op)
  | shuffle (seed : Int)
  | sample (nb : Int) (seed : Int)
  /-- `RenameRegexp`: the regular-expression substitution is external; its values (one new name per row, or the
  fact that the expression does not compile) are read from the status the harness reports for that step -/
  | renameRe
  /-- `Replace` with a regular expression: likewise, the new sequence of every row is read from the status -/
  | replaceRe

/-- the externally computed part of a `renamere` status: `…{!}` = the expression does not compile,
`…{=n1=n2…}` = the new name of every row in order (percent-encoded) -/
def decExt (record : String) : Option (Bool × List String) :=
  let st := (record.splitOn "|").headD ""
  match st.splitOn "{" with
  | [_, r] =>
    match r.splitOn "}" with
    | [body, ""] =>
      if body == "!" then some (false, [])
      else if body == "" then some (true, [])
      else match body.splitOn "=" with
        | "" :: names => some (true, names.map pctDec)
        | _ => none
    | _ => none
  | _ => none

def encExt (ok : Bool) (names : List String) : String :=
  "{" ++ (if ok then String.join (names.map fun n => "=" ++ pctEnc n) else "!") ++ "}"

/-- `record` = what the implementation reported for this step (only `renameRe` looks at it) -/
def resolve (n : Nat) (record : String) : OpX → Op
  | .plain op => op
  | .shuffle seed => .permute (runSeed (shuffleAux n (List.range n)) seed)
  | .sample nb seed => .sample nb (runSeed (permProg n) seed)
  | .renameRe =>
    match decExt record with
    | some (ok, names) => .renameRe ok names
    -- no usable record (the implementation's trace ended, or is malformed): an expression that does not
    -- compile; the traces then differ at this step at the latest
    | none => .renameRe false []
  | .replaceRe =>
    match decExt record with
    | some (ok, seqs) => .replaceRe ok (seqs.map bytesOfString)
    | none => .replaceRe false []

/-- the probes a step adds beyond those of its text: `renamere` probes every old and every new name -/
def extraProbes (cur : List String) : Op → List String
  | .renameRe true names => cur ++ names
  | _ => []

/-- the echo of the external values in the status of a `renamere` step -/
def statusEcho : Op → String
  | .renameRe ok names => encExt ok names
  | .replaceRe ok seqs => encExt ok (seqs.map stringOfBytes)
  | _ => ""

def decOpX (s : String) : Option (OpX × List String) :=
  match s.splitOn ":" with
  | ["shuffle", sd] => (parseInt? sd).map fun v => (.shuffle v, [])
  | ["sample", nb, sd] => do let a ← parseInt? nb; let b ← parseInt? sd; pure (.sample a b, [])
  | ["renamere", _, _] => some (.renameRe, [])
  | ["replacere", _, _] => some (.replaceRe, [])
  | _ => none

def decOp (s : String) : Option (Op × List String) :=
  match s.splitOn ":" with
  | ["add", n, q] => some (.add (pctDec n) (bytesOfString q), [pctDec n, pctDec n ++ "_0001"])
  | ["ignore", p] => (parseInt? p).map fun v => (.ignore v, [])
  | ["clear"] => some (.clear, [])
  | ["append", r] => some (.append (decPRows r), [])
  | ["concat", r] => let rows := decPRows r; some (.concat rows, rows.map Prod.fst)
  | ["rename", r] =>
    let m := (decPRows r).map fun p => (p.1, pctDec (stringOfBytes p.2))
    some (.rename m, m.flatMap fun p => [p.1, p.2])
  | ["appendid", id, r] => some (.appendId (pctDec id) (decBool r), [])
  | ["cleannames"] => some (.cleanNames, [])
  | ["trimnames", k] => (parseInt? k).map fun v => (.trimNames v, [])
  | ["trimauto", k] => k.toNat?.map fun v => (.trimAuto v, [])
  | ["sort"] => some (.sort, [])
  | ["permute", p] => some (.permute (decPerm p), [])
  | ["filter", a, b] => do let x ← parseInt? a; let y ← parseInt? b; pure (.filter x y, [])
  | ["dedup", g] => some (.dedup (decBool g), [])
  | ["rmseqs", c, f, ic, ig, iN] => do
    let (x, y) ← frac f
    let ch ← (bytesOfString c).head?
    pure (.rmSeqs ch x y (decBool ic) (decBool ig) (decBool iN), [])
  | ["rmgapseqs", f, iN] => do
    let (x, y) ← frac f
    pure (.rmSeqs GAP x y false false (decBool iN), [])
  | ["translate", p, c] => do let x ← parseInt? p; let y ← parseInt? c; pure (.translate x y, [])
  | ["clone"] => some (.clone, [])
  | ["samplep", n, p] => (parseInt? n).map fun v => (.sample v (decPerm p), [])
  | ["toupper"] => some (.toUpper, [])
  | ["tolower"] => some (.toLower, [])
  | ["replace", a, b] => some (.replace (bytesOfString a) (bytesOfString b), [])
  | ["setchar", i, j, c] => do
    let x ← parseInt? i; let y ← parseInt? j; let ch ← (bytesOfString c).head?
    pure (.setChar x y ch, [])
  | ["trimseqs", n, fs] => (parseInt? n).map fun v => (.trimSeqs v (decBool fs), [])
  | ["autoalpha"] => some (.autoAlpha, [])
  | ["revcomp"] => some (.revcomp, [])
  | ["compress"] => some (.compress, [])
  | ["unalign"] => some (.unalign, [])
  | ["setalpha", a] => (parseInt? a).map fun v => (.setAlpha v, [])
  | ["mask", r, st, ln, rep, ng, nr] => do
    let a ← parseInt? st; let l ← parseInt? ln
    let ref := if r == "_" then "" else pctDec r
    pure (.mask ref a l (decMaskRep (pctDec rep)) (decBool ng) (decBool nr), if ref == "" then [] else [ref])
  | ["maskocc", r, mo, rep] => do
    let m ← parseInt? mo
    let ref := if r == "_" then "" else pctDec r
    pure (.maskOcc ref m (decMaskRep (pctDec rep)), if ref == "" then [] else [ref])
  | ["maskuniq", r, rep] =>
    let ref := if r == "_" then "" else pctDec r
    some (.maskOcc ref 1 (decMaskRep (pctDec rep)), if ref == "" then [] else [ref])
  | ["diffwithfirst"] => some (.diffFirst, [])
  | ["replacematch"] => some (.replaceMatch, [])
  | ["revcompseqs", r] => let names := decNames r; some (.revcompSeqs names, names)
  | ["rmgapsites", f, e] => do
    let (x, y) ← frac f
    pure (.rmGapSites x y (decBool e), [])
  | ["rmcharsites", cs, f, e, ic, ig, iN, rv] => do
    let (x, y) ← frac f
    let set := if cs == "_" then [] else bytesOfString (pctDec cs)
    pure (.rmCharSites set x y (decBool e) (decBool ic) (decBool ig) (decBool iN) (decBool rv), [])
  | ["rmmajsites", f, e, ig, iN] => do
    let (x, y) ← frac f
    pure (.rmMajSites x y (decBool e) (decBool ig) (decBool iN), [])
  | ["replacechar", n, i, c] => do
    let x ← parseInt? i; let ch ← (bytesOfString c).head?
    pure (.replaceChar (pctDec n) x ch, [])
  | _ => none

def initModel (kind : String) (alpha : Nat) (rows : List (String × Seq)) : Bag × Bool :=
  let b0 := if kind == "A" then newAlign alpha else newBag alpha
  -- the harness adds every row and remembers whether any add failed
  rows.foldl (fun (acc : Bag × Bool) r => let a := addSeq acc.1 r.1 r.2; (a.1, acc.2 || a.2)) (b0, false)

def initSpec (kind : String) (alpha : Nat) (rows : List (String × Seq)) : Spec.SBag × Bool :=
  let b0 : Spec.SBag := { alphabet := if kind == "A" && alpha == BOTH then NUCLEOTIDS else alpha, isAlign := kind == "A" }
  rows.foldl (fun (acc : Spec.SBag × Bool) r => let a := Spec.add acc.1 r.1 r.2; (a.1, acc.2 || a.2)) (b0, false)

def traceModel : Bag → List String → List (OpX × List String × String) → List String
  | _, _, [] => []
  | b, probes, (opx, pr, record) :: t =>
    let op := resolve b.rows.length record opx
    let probes := probes ++ pr ++ extraProbes (b.rows.map (·.name)) op
    let r := stepOp b op
    if r.2 == "PANIC" then ["PANIC"] else
    (r.2 ++ statusEcho op ++ "|" ++ render (obsModel r.1 probes)) :: traceModel r.1 probes t

/-- the reference trace; stops (returns what it has) when the reference leaves the state unspecified -/
def traceSpec : Spec.SBag → List String → List (OpX × List String × String) → List String
  | _, _, [] => []
  | b, probes, (opx, pr, record) :: t =>
    let op := resolve b.rows.length record opx
    let probes := probes ++ pr ++ extraProbes b.names op
    match Spec.stepOp b op with
    | (some b', st) => (st ++ statusEcho op ++ "|" ++ render (obsSpec b' probes)) :: traceSpec b' probes t
    | (none, _) => []

/-- `len=` equals the length of every row shown by `it=` (and `-1` iff there is no row) -/
def rectangularStep (st : String) : Bool :=
  if st == "PANIC" then true else
  let fields := (st.splitOn "|").getLastD "" |>.splitOn " "
  let get (k : String) := (fields.find? (·.startsWith k)).map (fun f => (f.drop k.length).toString)
  match get "len=", get "it=" with
  | some l, some it =>
    let rows := decPRows it
    match parseInt? l with
    | some lv => if rows.isEmpty then lv == -1 else rows.all fun r => (r.2.length : Int) == lv
    | none => false
  | _, _ => true

/-- `identical <A|B> <alphabet> <rows x> <rows y> <rename x> <rename y>`: model = the container model of C01 (rows added
one by one, a refused row skipped, caller-made renames) and `Model.identical` both ways; predicate, stated independently
on the rows the IMPLEMENTATION reports: with pairwise distinct names in both containers the answer (both ways) is
"the two row lists are permutations of each other" (`Props/C01` `identical_iff_same_records`); with repeated names,
"as many rows and every row of the receiver is the first row of its name in the other, same bytes" (`identicalRows_spec`) -/
def identicalAns (kind : String) (alpha : Nat) (rx ry : List (String × Seq)) (mx my : List (String × String)) (impl : String) : Ans :=
  let mk (rows : List (String × Seq)) (m : List (String × String)) : Bag :=
    let b := addAllIgnore (if kind == "A" then newAlign alpha else newBag alpha) rows
    if m.isEmpty then b else rename m b
  let x := mk rx mx
  let y := mk ry my
  let b2s (b : Bool) : String := if b then "1" else "0"
  let m := b2s (identical x y) ++ " " ++ b2s (identical y x) ++ " " ++ encPRows (pairs x) ++ " " ++ encPRows (pairs y)
  let v := match impl.splitOn " " with
    | [xy, yx, px, py] =>
      let ax := decPRows px
      let ay := decPRows py
      let distinct (l : List (String × Seq)) : Bool := (l.map Prod.fst).eraseDups.length == l.length
      let firstWise (p q : List (String × Seq)) : Bool :=
        p.length == q.length && p.all fun r => (q.find? fun s => s.1 == r.1) == some r
      if distinct ax && distinct ay then
        verdictOf (xy == b2s (ax.isPerm ay) && yx == b2s (ax.isPerm ay)) "identical-is-not-same-records-up-to-order"
      else verdictOf (xy == b2s (firstWise ax ay) && yx == b2s (firstWise ay ax)) "identical-with-repeated-names"
    | _ => "fail:identical-answer-shape"
  ⟨m, v⟩

def handle : Handler := fun op args impl =>
  match op, args with
  | "identical", [kind, alpha, rx, ry, mx, my] => do
    let alpha ← alpha.toNat?
    let dm (s : String) : List (String × String) := (decPRows s).map fun p => (p.1, pctDec (stringOfBytes p.2))
    some (identicalAns kind alpha (decPRows rx) (decPRows ry) (dm mx) (dm my) impl)
  | "hist", [kind, alpha, rows, ops] => do
    let alpha ← alpha.toNat?
    let rows := decPRows rows
    let opl ← (if ops == "_" || ops == "" then some [] else (ops.splitOn ";").mapM fun o =>
      match decOpX o with
      | some x => some x
      | none => (decOp o).map fun p => (OpX.plain p.1, p.2))
    let probes0 := rows.map Prod.fst
    -- the implementation's record of every step (record 0 is the construction), for the externally computed values
    let irecs := impl.splitOn ";"
    let opl := opl.zipIdx.map fun (p, k) => (p.1, p.2, irecs.getD (k + 1) "")
    let (m0, e0) := initModel kind alpha rows
    let mtrace := ((if e0 then "err" else "ok") ++ "|" ++ render (obsModel m0 probes0)) :: traceModel m0 probes0 opl
    let (s0, se0) := initSpec kind alpha rows
    let strace := ((if se0 then "err" else "ok") ++ "|" ++ render (obsSpec s0 probes0)) :: traceSpec s0 probes0 opl
    -- predicate: the implementation's observations equal the reference's, step by step, as far as
    -- the reference specifies them
    -- the last record of the implementation's trace says whether the alignments handed to Append / Concat kept their
    -- content and are independent of the receiver (`alias=ok`); it is not part of the step-by-step comparison
    let itrace0 := impl.splitOn ";"
    let aliasRec := (itrace0.getLast?.filter (·.startsWith "alias=")).getD "alias=ok"
    let itrace := if (itrace0.getLast?.map (·.startsWith "alias=")).getD false then itrace0.dropLast else itrace0
    let cmp := (strace.zip itrace).all fun (a, b) => a == b
    let okLen := itrace.length ≥ strace.length
    let noPanic := !(itrace.contains "PANIC")
    -- rectangularity of what the implementation shows, step by step (alignments only)
    -- (only as far as the reference specifies the state, plus the first unspecified step when that
    -- step reported success: an operation that returns an error may leave anything behind)
    let ragged := if kind == "A" then
        (itrace.zipIdx.find? fun (st, k) =>
          (k < strace.length || (k == strace.length && !st.startsWith "err")) && !rectangularStep st).map (·.2)
      else none
    let firstDiff := ((strace.zip itrace).takeWhile fun (a, b) => a == b).length
    let verdict :=
      match ragged with
      | some k => if k ≤ firstDiff then "fail:ragged-step" ++ toString k else "fail:step" ++ toString firstDiff
      | none =>
        if !cmp then "fail:step" ++ toString firstDiff
        else if !noPanic && itrace.length ≤ strace.length then "fail:panic-step" ++ toString (itrace.length - 1)
        else if !okLen then "fail:trace-short"
        else if aliasRec != "alias=ok" then "fail:" ++ (aliasRec.drop 6).toString
        else "pass"
    some ⟨";".intercalate (if mtrace.getLast? == some "PANIC" then mtrace else mtrace ++ ["alias=ok"]), verdict⟩
  | _, _ => none

end Gv.Oracle.BagOps
