import Gv.Oracle.Common
import Gv.Spec.Fmt
import Gv.Model.Fmt.Fasta
import Gv.Model.Fmt.Paml
import Gv.Model.Fmt.Phylip
import Gv.Model.Fmt.Stockholm
import Gv.Model.Fmt.Clustal
import Gv.Model.Fmt.Partition
import Gv.Model.Fmt.Nexus
import Gv.Model.Fmt.Auto
import Gv.Gen.FmtFacts
/-!
Oracle handlers for the alignment formats (C02 round trips, C03 parser outcomes).

Every handler returns
* `model`   – the model's canonical result, or `unmodelled` when the format (or the byte range: the
  models are ASCII-only) has no executable model yet: then there is NO correspondence obligation for
  that case (the driver modules say so explicitly and list the format under PARTIAL);
* `verdict` – the property's predicate evaluated on the IMPLEMENTATION's outcome alone.
-/
namespace Gv.Oracle.FmtOps
open Gv Gv.Oracle Gv.Model Gv.Model.Fmt
open Gv.Spec.Fmt (wellFormed wfClause declaredPhylip declaredNexus reprFmt)

/-! ### decoding -/

def decPOpts (s : String) : Option POpts :=
  match s.splitOn "," with
  | [a, b, c] => do pure { strict := decBool a, ignore := (← b.toNat?), alphabet := (← c.toNat?) }
  | _ => none

structure WOpts where
  strict : Bool := false
  oneline : Bool := false
  noblock : Bool := false

def decWOpts (s : String) : Option WOpts :=
  if s == "_" then some {} else
  match s.toList with
  | [a, b, c] => some ⟨a == '1', b == '1', c == '1'⟩
  | _ => none

/-- what the implementation answered -/
inductive Impl
  | ok (alphabet : Nat) (length : Int) (rows : XRows)
  | err | eos | exitMsg | exitOther | panic | hang | other

def decAlignFields (a l r : String) : Option (Nat × Int × XRows) := do
  pure ((← a.toNat?), (← parseInt? l), (← decXRows r))

def decImpl (s : String) : Impl :=
  if s == "err" then .err
  else if s == "eos" then .eos
  else if s == "hang" then .hang
  else if s == "exit:1" then .exitMsg
  else if s.startsWith "exit:" then .exitOther
  else if s.startsWith "panic:" then .panic
  else match s.splitOn " " with
    | ["ok", a, l, r] =>
      match decAlignFields a l r with
      | some (a, l, r) => .ok a l r
      | none => .other
    | _ => .other

def encAln (a : Aln) : String := s!"{a.alphabet} {a.length} {encXRows a.rows}"

/-- model outcome of a single-alignment parser; `ok none` = Phylip end-of-stream marker -/
abbrev PRes := Outcome (Option Aln)

def encPRes : PRes → String
  | .ok (some a) => "ok " ++ encAln a
  | .ok none => "eos"
  | .error => "err"
  | .exit => "exit:1"
  | .panic => "panic"
  | .hang => "hang"

/-- errors / panics are compared by kind only: when the model says `panic` and the implementation
panicked, the implementation's text is echoed -/
def canon (model impl : String) : String :=
  if model == "panic" && impl.startsWith "panic:" then impl else model

/-! ### models per format (`none` = unmodelled) -/

def liftOutcome : Outcome Aln → PRes
  | .ok a => .ok (some a)
  | .error => .error
  | .exit => .exit
  | .panic => .panic
  | .hang => .hang

def modelParse (fmt : String) (o : POpts) (bs : List Byte) : Option PRes :=
  -- every model is defined on ALL byte strings (rune decoding and rune-wise upper-casing modelled: Model/Fmt/Utf8.lean)
  match fmt with
  | "fasta" => some (liftOutcome (Fasta.parseBytes Gen.FmtFacts.fasta_rejects_empty o bs))
  | "phylip" =>
    match Phylip.parseOne Gen.FmtFacts.phylip_allocates_from_header o { inp := Utf8.norm bs } with
    | .ok (.slow, _) => none      -- allocation of 2^27 … 2^44 entries: machine dependent, not compared
    | r => some (Phylip.toOutcome r)
  | "stockholm" => some (liftOutcome (Stockholm.parseBytes Gen.FmtFacts.stockholm_markup_stops_at_eof
      Gen.FmtFacts.stockholm_rejects_empty o bs))
  | "clustal" => some (liftOutcome (Clustal.parseBytes Gen.FmtFacts.clustal_checks_row_index o bs))
  | "nexus" => some (liftOutcome (Nexus.parseBytes ⟨Gen.FmtFacts.nexus_comment_stops_at_eof,
      Gen.FmtFacts.nexus_rejects_negative_counts, Gen.FmtFacts.nexus_rejects_empty_rows,
      Gen.FmtFacts.nexus_keyword_rows_are_residues, Gen.FmtFacts.nexus_rejects_nested_begin,
      Gen.FmtFacts.nexus_empty_command_is_noop, Gen.FmtFacts.nexus_rejects_second_data_block⟩ o bs))
  | _ => none

/-- what `buildAlign` of the harness does: AddSequence one by one under IGNORE_NONE -/
def buildRows (rows : XRows) : Option Bag :=
  rows.foldlM (fun (b : Bag) r => b.add r.1 r.2) {}

/-- the alphabet of the alignment object handed to a writer -/
def builtAlphabet (alpha : String) (b : Bag) : Option Nat :=
  if alpha == "auto" then (b.finish BOTH).map (·.alphabet) else alpha.toNat?

/-- `version.Version` of the harness build (no -ldflags): the literal in version/version.go -/
def harnessVersion : List Byte := "Unset".toUTF8.toList

def modelWrite (fmt : String) (_w : WOpts) (_alphabet : Nat) (b : Bag) : Option (List Byte) :=
  if !(b.rows.all fun r => allAscii r.1 && allAscii r.2) then none else
  match fmt with
  | "fasta" => some (Fasta.write Gen.c_FASTA_LINE.toNat b.rows)
  | "phylip" => some (Phylip.write _w.strict _w.oneline _w.noblock b.rows)
  | "stockholm" => some (Stockholm.write b.rows)
  | "clustal" => some (Clustal.write harnessVersion _alphabet b.rows)
  | "nexus" => some (Nexus.write _alphabet b.rows)
  | "paml" => some (Paml.write b.rows)
  | _ => none

/-! ### C03 predicate on the implementation's outcome -/

def headerClause (fmt : String) (o : POpts) (bs : List Byte) (length : Int) (rows : XRows) : String :=
  let n : Int := rows.length
  let rowsOk (d : Int) : Bool := Gv.Spec.Fmt.rowsOk (normIgnore o.ignore != 0) n d
  match fmt with
  | "phylip" =>
    match declaredPhylip bs with
    | some (dn, dl) => if !rowsOk dn then "contradicts-header-nbseq" else if length != dl then "contradicts-header-length" else "ok"
    | none => "ok"
  | "nexus" =>
    let (dn, dl) := declaredNexus bs
    if (match dn with | some d => !rowsOk d | none => false) then "contradicts-header-ntax"
    else if (match dl with | some d => length != d | none => false) then "contradicts-header-nchar"
    else "ok"
  | _ => "ok"

def alnClause (fmt : String) (o : POpts) (bs : List Byte) (a : Nat) (l : Int) (rows : XRows) : String :=
  let c := wfClause l rows
  if c != "ok" then c else
  let h := headerClause fmt o bs l rows
  if h != "ok" then h else
  let fa := normAlphabet o.alphabet
  if fa != 2 && a != fa then "alphabet-not-as-forced" else "ok"

/-- blank up to the first NUL (NUL is goalign's in-band end-of-input marker, see the module docs) -/
def blankToNul (bs : List Byte) : Bool := Gv.Spec.Fmt.blankToNul bs

def c03Verdict (fmt : String) (o : POpts) (bs : List Byte) (impl : String) : String :=
  match decImpl impl with
  | .err => "pass"
  | .exitMsg => "pass"
  | .eos => if fmt == "phylip" && blankToNul bs then "pass" else "fail:end-of-stream-marker-on-non-empty-input"
  | .ok a l rows =>
    let c := alnClause fmt o bs a l rows
    if c == "ok" then "pass" else "fail:" ++ c
  | .panic => "fail:panic"
  | .hang => "fail:hang"
  | .exitOther => "fail:process-died"
  | .other => "fail:unparsable-outcome"

/-- `multi <k> <a/l/rows;…> end=ok|err` -/
def multiVerdict (o : POpts) (impl : String) : String :=
  match decImpl impl with
  | .panic => "fail:panic"
  | .hang => "fail:hang"
  | .exitMsg => "pass"
  | .exitOther => "fail:process-died"
  | _ =>
    match impl.splitOn " " with
    | ["multi", k, body, _e] =>
      let parts := if body == "_" then [] else body.splitOn ";"
      if some parts.length != k.toNat? then "fail:unparsable-outcome" else
      let bad := parts.filterMap fun p =>
        match p.splitOn "/" with
        | [a, l, r] =>
          match decAlignFields a l r with
          | some (a, l, r) => let c := alnClause "multi" o [] a l r; if c == "ok" then none else some c
          | none => some "unparsable-outcome"
        | _ => some "unparsable-outcome"
      match bad with
      | [] => "pass"
      | c :: _ => "fail:" ++ c
    | _ => "fail:unparsable-outcome"

/-- partition outcome `ok <L> <names> <vector>` -/
def partVerdict (declared : Int) (impl : String) : String :=
  if impl == "err" then "pass"
  else if impl.startsWith "panic:" then "fail:panic"
  else if impl == "hang" then "fail:hang"
  else if impl.startsWith "exit:" then "fail:process-died"
  else match impl.splitOn " " with
    | ["ok", l, names, vec] =>
      match parseInt? l, decInts vec with
      | some l, some v =>
        let n : Int := if names == "_" then 0 else (names.splitOn ",").length
        if l != declared then "fail:partition-length-differs-from-declared"
        else if (v.length : Int) != declared then "fail:partition-map-not-over-declared-length"
        else if !(v.all fun p => decide (-1 ≤ p) && decide (p < n)) then "fail:partition-index-out-of-range"
        else "pass"
      | _, _ => "fail:unparsable-outcome"
    | _ => "fail:unparsable-outcome"

/-! ### C02 predicate -/

def defaultPOpts (o : POpts) (strict : Bool) : Bool :=
  normIgnore o.ignore == 0 && normAlphabet o.alphabet == 2 && o.strict == strict

/-- "the same detected alphabet": the alphabet goalign detects for the alignment that was written
(`AutoAlphabet` over the regenerated character classes) must be the alphabet of the parsed one -/
def expectAln (rows : XRows) : String :=
  let l := match rows with | r :: _ => r.2.length | [] => 0
  s!"ok {autoAlphabet (rows.map (·.2))} {l} {encXRows rows}"

/-- `utils.ParseAlignmentAuto`: dispatch on the first byte; default parser options -/
def modelAuto (strict : Bool) (bs : List Byte) : Option String :=
  match Auto.detect bs with
  | none => some "err"          -- ReadByte fails
  | some f =>
    let fmt := f.name
    match modelParse fmt { strict := strict } bs with
    | none => none
    | some (.ok (some a)) => some s!"fmt={fmt} ok {encAln a}"
    | some r => some (encPRes r)

def encMulti (als : List Aln) (ok : Bool) : String :=
  let body := if als.isEmpty then "_" else ";".intercalate (als.map fun a => (encAln a).replace " " "/")
  s!"multi {als.length} {body} end={if ok then "ok" else "err"}"

def modelMulti (o : POpts) (bs : List Byte) : String :=
  match Phylip.parseMultiBytes Gen.FmtFacts.phylip_allocates_from_header o bs with
  | .done als ok => encMulti als ok
  | .slow => "unmodelled"
  | .stop .exit => "exit:1"
  | .stop .panic => "panic"
  | .stop .hang => "hang"
  | .stop .error => "err"

/-- convert through the formats in turn: write, parse with default options (Phylip strict iff written strict) -/
def chainModel : List (String × WOpts) → Nat → Aln → String
  | [], _, a => "ok " ++ encAln a
  | (f, w) :: rest, k, a =>
    match modelWrite f w a.alphabet { length := a.length, rows := a.rows } with
    | none => "unmodelled"
    | some out =>
      match modelParse f { strict := w.strict } out with
      | none => "unmodelled"
      | some (.ok (some a')) => chainModel rest (k + 1) a'
      | some _ => s!"err-step {k}"

def handle0 : Handler := fun op args impl =>
  match op, args with
  | "parse", ["partition", len, hex] => do
    let bs ← unhexz hex
    let len ← parseInt? len
    let m :=
      if len < 0 then "unmodelled" else
      match Partition.parseBytes ⟨Gen.FmtFacts.partition_rejects_start_after_end, Gen.FmtFacts.partition_guards_step_overflow⟩
          len.toNat bs with
      | .ok ps =>
        let names := if ps.names.isEmpty then "_" else
          ",".intercalate (ps.names.map fun nm => hexz nm.1 ++ "|" ++ hexz nm.2)
        s!"ok {ps.length} {names} {encInts ps.parts}"
      | .error => "err"
      | .exit => "exit:1"
      | .panic => "panic"
      | .hang => "hang"
    some ⟨canon m impl, partVerdict len impl⟩
  | "parse", [fmt, o, hex] => do
    let o ← decPOpts o
    let bs ← unhexz hex
    let m := match modelParse fmt o bs with
      | some r => canon (encPRes r) impl
      | none => "unmodelled"
    some ⟨m, c03Verdict fmt o bs impl⟩
  | "parsemulti", [o, hex] => do
    let o ← decPOpts o
    let bs ← unhexz hex
    some ⟨canon (modelMulti o bs) impl, multiVerdict o impl⟩
  | "auto", [strict, hex] => do
    let bs ← unhexz hex
    let m := match modelAuto (decBool strict) bs with
      | some r => canon r impl
      | none => "unmodelled"
    -- the detected format is reported in front of the outcome
    let (fmt, rest) := match impl.splitOn " " with
      | f :: r => if f.startsWith "fmt=" then ((f.drop 4).toString, " ".intercalate r) else ("phylip", impl)
      | [] => ("phylip", impl)
    some ⟨m, c03Verdict fmt {} bs rest⟩
  | "write", [fmt, w, alpha, rows] => do
    let w ← decWOpts w
    let rows ← decXRows rows
    let m := match buildRows rows with
      | none => "err-build"
      | some b =>
        match builtAlphabet alpha b with
        | none => "bad-alphabet"
        | some a =>
          match modelWrite fmt w a b with
          | some out => "ok " ++ hexz out
          | none => "unmodelled"
    some ⟨m, "na"⟩
  | "roundtrip", [fmt, w, o, alpha, rows] => do
    let w ← decWOpts w
    let o ← decPOpts o
    let rows ← decXRows rows
    let m := match buildRows rows with
      | none => "err-build"
      | some b =>
        match builtAlphabet alpha b with
        | none => "bad-alphabet"
        | some a =>
          match modelWrite fmt w a b with
          | none => "unmodelled"
          | some out =>
            match modelParse fmt o out with
            | some r => canon (encPRes r) impl
            | none => "unmodelled"
    let verdict :=
      if alpha == "auto" && defaultPOpts o w.strict && reprFmt fmt w.strict rows then
        verdictOf (impl == expectAln rows) ("roundtrip-" ++ fmt)
      else "na"
    some ⟨m, verdict⟩
  | "roundtripu", [fmt, w, o, alpha, rows] => do
    -- names holding well-formed multi-byte UTF-8 LETTERS (no model: the writer models are ASCII-only).  Such a name is
    -- judged like the ASCII name obtained by writing `z` for every non-ASCII rune: the round trip must return the ORIGINAL rows
    let w ← decWOpts w
    let o ← decPOpts o
    let rows ← decXRows rows
    let wf := rows.all fun r => Utf8.norm r.1 == r.1
    let rows' := rows.map fun r => ((Utf8.runes r.1).map fun c => if c < 128 then UInt8.ofNat c else 122, r.2)
    let distinctNames := (rows.map (·.1)).eraseDups.length == rows.length
    let verdict :=
      -- (the strict Phylip writer cuts a name after 10 BYTES and pads to 10 runes: a name is representable there when it
      -- has at most 10 bytes)
      if alpha == "auto" && defaultPOpts o w.strict && wf && distinctNames && reprFmt fmt w.strict rows' &&
          (!(fmt == "phylip" && w.strict) || rows.all fun r => r.1.length ≤ 10) then
        verdictOf (impl == expectAln rows) ("roundtrip-" ++ fmt ++ "-utf8-names")
      else "na"
    some ⟨"unmodelled", verdict⟩
  | "filert", [fmt, _ext, w, o, alpha, rows] => do
    let w ← decWOpts w
    let o ← decPOpts o
    let rows ← decXRows rows
    -- compression / file system are trusted externals: the model is the in-memory round trip
    let m := match buildRows rows with
      | none => "err-build"
      | some b =>
        match builtAlphabet alpha b with
        | none => "bad-alphabet"
        | some a =>
          match modelWrite fmt w a b with
          | none => "unmodelled"
          | some out =>
            match modelParse fmt o out with
            | some r => canon (encPRes r) impl
            | none => "unmodelled"
    let verdict :=
      if alpha == "auto" && defaultPOpts o w.strict && reprFmt fmt w.strict rows then
        verdictOf (impl == expectAln rows) ("file-roundtrip-" ++ fmt)
      else "na"
    some ⟨m, verdict⟩
  | "autort", [fmt, w, alpha, rows] => do
    let w ← decWOpts w
    let rows ← decXRows rows
    let verdict :=
      if alpha == "auto" && fmt != "stockholm" && reprFmt fmt w.strict rows then
        verdictOf (impl == "fmt=" ++ fmt ++ " " ++ expectAln rows) ("autodetect-" ++ fmt)
      else "na"
    let m := match buildRows rows with
      | none => "err-build"
      | some b =>
        match builtAlphabet alpha b with
        | none => "bad-alphabet"
        | some a =>
          match modelWrite fmt w a b with
          | none => "unmodelled"
          | some out =>
            match modelAuto w.strict out with
            | none => "unmodelled"
            | some r => if r.startsWith "fmt=" then r else "err"
    some ⟨m, verdict⟩
  | "filechunks", _ =>
    -- strings written one after the other through io/utils read back as their concatenation (plain / .gz / .xz)
    some ⟨"same", if impl == "same" then "pass" else "fail:file-holds-other-bytes-than-written"⟩
  | "multirt", [w, o, xs] => do
    let w ← decWOpts w
    let o ← decPOpts o
    let als ← (xs.splitOn ";").mapM decXRows
    let verdict :=
      if defaultPOpts o w.strict && als.all (reprFmt "phylip" w.strict) then
        let exp := ";".intercalate (als.map fun r => ((expectAln r).drop 3).toString.replace " " "/")
        verdictOf (impl == s!"multi {als.length} {exp} end=ok") "multi-phylip-roundtrip"
      else "na"
    let m := match als.mapM buildRows with
      | none => "err-build"
      | some bags =>
        if !(als.all fun a => a.all fun r => allAscii r.1 && allAscii r.2) then "unmodelled" else
        canon (modelMulti o (bags.flatMap fun b => Phylip.write w.strict w.oneline w.noblock b.rows)) impl
    some ⟨m, verdict⟩
  | "chain", [steps, alpha, rows] => do
    let rows ← decXRows rows
    let st ← (steps.splitOn ",").mapM fun s =>
      match s.splitOn ":" with
      | [f, w] => (decWOpts w).map fun w => (f, w)
      | _ => none
    let verdict :=
      if alpha == "auto" && st.all (fun fw => reprFmt fw.1 fw.2.strict rows) then
        verdictOf (impl == expectAln rows) "chain-conversion"
      else "na"
    let m := match buildRows rows with
      | none => "err-build"
      | some b =>
        match builtAlphabet alpha b with
        | none => "bad-alphabet"
        | some a0 => chainModel st 0 ⟨a0, b.length, b.rows⟩
    some ⟨m, verdict⟩
  | _, _ => none

/-- `multirtf` (the stream written to a plain / .gz / .xz file, one write per alignment) is judged as `multirt` -/
def handle : Handler := fun op args impl =>
  match op, args with
  | "multirtf", [_ext, w, o, xs] => handle0 "multirt" [w, o, xs] impl
  | _, _ => handle0 op args impl

end Gv.Oracle.FmtOps
