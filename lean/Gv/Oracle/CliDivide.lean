import Gv.Oracle.Cli
import Gv.Model.Fmt.Phylip
import Gv.Model.Fmt.Stockholm
import Gv.Model.Fmt.Paml
import Gv.Model.Identical
import Gv.Gen.FmtFacts
/-!
Command-line glue of two commands of property C11 whose bytes are a function of the input only:

* `goalign divide [-p] [-o prefix] [-f] [--nb-sequences n] [--unaligned]` (cmd/divide.go): every alignment of the
  input (one for FASTA; with `-p` the alignments the Phylip parser model delivers, `Model/Fmt/Phylip.lean` with the
  regenerated allocation fact) goes to its own file `<prefix>_<%03d><ext>`, or — with `--nb-sequences n`, `n > 0` —
  is cut into groups of `n` rows in row order, the numbering running on over all alignments; the files are written
  with the writer of the input format (`-f`: FASTA, extension `.fa`); `--unaligned` reads plain FASTA sequences and
  writes FASTA whatever the extension says.  An input that ends with an error gives a failing status (the files of
  the alignments before it are written, the driver does not compare them).  A negative `n` is not decided here.
* `goalign identical -c <file>` (cmd/identical.go): `true` / `false`, `Identical` of the first alignment of the
  input and the first alignment of the file: as many rows, and every row of the input has a row of the same name
  and the same (case-sensitive) sequence in the file; the order of the rows does not matter
  (`Model/Identical.lean` `identicalRows`; what it decides: `Props/C01` `identical_iff_same_records`, `identicalRows_spec`).

* `goalign stats nalign -p`: the number of alignments of a Phylip input.

* `goalign reformat paml`: the bytes of the PAML writer model for the FASTA alignment read.

* `detchainsto`: the Stockholm file a Stockholm chain starts from is the one the writer model predicts.

Needs the format facts: only the C11 oracle and the complete one link it.
-/
namespace Gv.Oracle.CliDivideOps
open Gv Gv.Oracle Gv.Model Gv.Oracle.DetOps Gv.Oracle.CliOps
open Gv.Oracle.CliDefaults (effective)

/-- an alignment as the FASTA reader accepts it: at least one row, one length, names all different -/
def wellFormed (rows : Rows) : Bool :=
  !rows.isEmpty && !(addAllStop (newAlign 1) rows).2

def pad3 (i : Nat) : String := let s := toString i; String.ofList (List.replicate (3 - s.length) '0') ++ s

/-- groups of `n` consecutive rows, the last one shorter (`n > 0`) -/
def groupsOf (n : Nat) (rows : Rows) : List Rows :=
  let rec go (fuel : Nat) (r : Rows) (acc : List Rows) : List Rows :=
    match fuel with
    | 0 => acc.reverse
    | fuel + 1 => if r.isEmpty then acc.reverse else go fuel (r.drop n) (r.take n :: acc)
  go (rows.length + 1) rows []

def badF : String := "rc=1 out= files="

def expectedDivide (stdin : String) (fl : List String) : Option String := do
  let valued := ["-o", "--output", "--nb-sequences"]
  let switches := ["-p", "--phylip", "-f", "--out-fasta", "--unaligned"]
  let rec wf : List String → Bool
    | [] => true
    | a :: t =>
      if valued.contains a then (match t with | v :: t' => !v.startsWith "-" && wf t' | [] => false)
      else switches.contains a && wf t
  if !wf fl || fl.eraseDups.length != fl.length then none
  let pre := ((opt fl "-o").orElse fun _ => opt fl "--output").getD (← effective "divideCmd" "output")
  let n ← ((opt fl "--nb-sequences").getD (← effective "divideCmd" "nb-sequences")).toNat?
  if (← effective "divideCmd" "compress") != "false" || (← effective "divideCmd" "unaligned") != "false" ||
     (← effective "divideCmd" "out-fasta") != "false" then none
  let phy := flag fl "-p" || flag fl "--phylip"
  let outFa := flag fl "-f" || flag fl "--out-fasta"
  let ext := if outFa then ".fa" else if phy then ".ph" else ".fa"
  if !plainFile (pre ++ "_000" ++ ext) then none
  let name (i : Nat) : String := pre ++ "_" ++ pad3 i ++ ext
  let pieces (rows : Rows) : List Rows := if n == 0 then [rows] else groupsOf n rows
  if flag fl "--unaligned" then
    -- plain FASTA sequences (any lengths), names all different, no empty sequence; written as FASTA
    let rows := parseFasta (stdin.splitOn "|")
    if rows.isEmpty || (rows.map Prod.fst).eraseDups.length != rows.length || rows.any (·.2.isEmpty) then none
    if rows.any fun r => r.2.any (· ≥ 128) then none
    if fasta rows != stdin then none
    let fs := (pieces rows).zipIdx.map fun (g, i) => (name i, fasta g)
    some ("rc=0 out= files=" ++ (← filesPart fs))
  else
    let write (r : Rows) : String := if phy && !outFa then phylip r else fasta r
    let als : List Rows × Bool ←
      if phy then
        let bs := bytesOfString (stdin.replace "|" "\n")
        if bs.any (· ≥ 128) then none else
        match Fmt.Phylip.parseMulti Gen.FmtFacts.phylip_allocates_from_header {} (bs.length + 2) { inp := bs } [] with
        | .done als ok => some (als.map (fun a => a.rows.map fun r => (stringOfBytes r.1, r.2)), ok && !als.isEmpty)
        | _ => none
      else
        let rows := parseFasta (stdin.splitOn "|")
        if fasta rows != stdin then none else
        if wellFormed rows then some ([rows], true) else some ([], false)
    if !als.2 then some badF else
    let fs := (als.1.flatMap pieces).zipIdx.map fun (g, i) => (name i, write g)
    some ("rc=0 out= files=" ++ (← filesPart fs))

def expectedIdentical (rows : Rows) (stdin : String) (files : List (String × String)) (fl : List String) : Option String := do
  let cf ← match fl with
    | ["-c", f] => some f
    | ["--compared", f] => some f
    | _ => none
  if cf == "none" || cf == "stdin" || cf == "-" || cf.endsWith ".gz" || cf.endsWith ".xz" then none
  if fasta rows != stdin then none
  if rows.any fun r => r.2.any (· ≥ 128) then none
  if !wellFormed rows then some "rc=1 out= files=" else
  match files.find? (·.1 == cf) with
  | none => some "rc=1 out= files="
  | some f =>
    let comp := parseFasta (f.2.splitOn "|")
    if fasta comp != f.2 then none else
    if !wellFormed comp then some "rc=1 out= files=" else
    some ("rc=0 out=" ++ (if identicalRows rows comp then "true" else "false") ++ "| files=")

/-- `goalign stats nalign -p` (cmd/nalign.go): the number of alignments the Phylip parser model delivers; an input that
ends with an error gives a failing status (the count is printed first; the driver blanks the output of a failing run) -/
def expectedNalignPhylip (stdin : String) : Option String :=
  let bs := bytesOfString (stdin.replace "|" "\n")
  if bs.any (· ≥ 128) then none else
  match Fmt.Phylip.parseMulti Gen.FmtFacts.phylip_allocates_from_header {} (bs.length + 2) { inp := bs } [] with
  | .done als ok => if als.isEmpty then none else some (if ok then "rc=0 out=" ++ toString als.length ++ "|" else "rc=1 out=")
  | _ => none

/-- the Stockholm file goalign writes for these rows (`Model/Fmt/Stockholm.lean` `write`, the writer of
`C02.roundtrip_stockholm` and of the chain theorems of C11), newline as `|`, tab as `~` -/
def stockholmText (rows : Rows) : String :=
  ((stringOfBytes (Fmt.Stockholm.write (rows.map fun r => (bytesOfString r.1, r.2)))).replace "\n" "|").replace "\t" "~"

/-- `detchainsto`: the driver answers `same … sto=<the Stockholm file the chain started from>` when every chain it ran
agreed; the file must also be the one the writer model predicts for the rows of the FASTA input -/
def chainStoVerdict (stdin impl : String) : Ans :=
  if !impl.startsWith "same" then ⟨"same", "fail:stockholm-chain-changes-bytes"⟩ else
  let rows := parseFasta (stdin.splitOn "|")
  match impl.splitOn " sto=" with
  | [_, sto] =>
    -- the input is read back faithfully (one line per sequence, as the generator writes it), plain ASCII
    if String.join (rows.map fun x => ">" ++ x.1 ++ "|" ++ stringOfBytes x.2 ++ "|") != stdin ||
       rows.any (fun r => r.2.any (· ≥ 128)) then ⟨"same", "pass"⟩ else
    ⟨"same", verdictOf (sto == stockholmText rows) "stockholm-file-differs-from-the-writer-model"⟩
  | _ => ⟨"same", "pass"⟩

/-- `goalign reformat paml` (cmd/paml.go) on a FASTA input: the bytes of the PAML writer model (`Model/Fmt/Paml.lean`) for
the alignment read; an input the FASTA reader refuses (no row, rows of different lengths) gives a failing status.
`none` = not decided here (names repeated, non-ASCII, a FASTA text that is not one line per sequence) -/
def expectedReformatPaml (stdin : String) : Option String :=
  let rows := parseFasta (stdin.splitOn "|")
  if String.join (rows.map fun x => ">" ++ x.1 ++ "|" ++ stringOfBytes x.2 ++ "|") != stdin then none else
  if rows.any (fun r => r.2.any (· ≥ 128) || r.2.isEmpty || r.1.isEmpty || r.1.any (fun c => c.toNat ≥ 128 || c == ' ' || c == '~')) then none else
  if (rows.map Prod.fst).eraseDups.length != rows.length then none else
  if !wellFormed rows then some "rc=1 out=" else
  let out := Fmt.Paml.write (rows.map fun r => (bytesOfString r.1, r.2))
  some ("rc=0 out=" ++ ((stringOfBytes out).replace "\n" "|").replace "\t" "~")

def handle : Handler := fun op args impl =>
  match op, args with
  | "cli_lib", [stdin, "reformat", "paml"] =>
    match expectedReformatPaml stdin with
    | some m => some ⟨m, verdictOf (impl == m) "command-line-differs-from-library-model"⟩
    | none => some ⟨"unmodelled", "na"⟩
  | "detchainsto", stdin :: _ => some (chainStoVerdict stdin impl)
  | "cli_lib", [stdin, "stats", "nalign", p] =>
    if p != "-p" && p != "--phylip" then none else
    match expectedNalignPhylip stdin with
    | some m => some ⟨m, verdictOf (impl == m) "command-line-differs-from-library-model"⟩
    | none => some ⟨"unmodelled", "na"⟩
  | "cli_libf", stdin :: _ :: "divide" :: fl =>
    match expectedDivide stdin fl with
    | some m => some ⟨m, verdictOf (impl == m) "command-line-differs-from-library-model"⟩
    | none => some ⟨"unmodelled", "na"⟩
  | "cli_libf", stdin :: files :: "identical" :: fl =>
    match expectedIdentical (parseFasta (stdin.splitOn "|")) stdin (filesOf files) fl with
    | some m => some ⟨m, verdictOf (impl == m) "command-line-differs-from-library-model"⟩
    | none => some ⟨"unmodelled", "na"⟩
  | _, _ => none

end Gv.Oracle.CliDivideOps
