import Gv.Oracle.Common
import Gv.Model.Clean
import Gv.Model.BagHist
/-! Oracle handlers for C12 (cleaning) and the MaxCharStats / consensus part of C14. -/
namespace Gv.Oracle.CleanOps
open Gv Gv.Oracle Gv.Model

def plus (l : List Nat) : String := if l.isEmpty then "_" else "+".intercalate (l.map toString)

def lenOf (rows : Rows) : Int := match rows with | r :: _ => (r.2.length : Int) | [] => -1

def frac (s : String) : Option (Nat × Nat) :=
  match s.splitOn "/" with
  | [a] => a.toNat?.map fun x => (x, 1)
  | [a, b] => do let x ← a.toNat?; let y ← b.toNat?; pure (x, y)
  | _ => none

def render (r : CleanResult) : String :=
  toString r.first ++ " " ++ toString r.last ++ " " ++ plus r.kept ++ " " ++ plus r.removed ++ " " ++
  toString r.length ++ " " ++ encRows r.rows

/-- independent statement of the cleaning result from the per-site qualification `q` -/
def specClean (rows : Rows) (L : Nat) (q : List Bool) (ends : Bool) : String :=
  let pre := (q.takeWhile id).length
  let suf := (q.reverse.takeWhile id).length
  let removedSite (i : Nat) : Bool := q.getD i false && (!ends || i < pre || i ≥ L - suf)
  let removed := (List.range L).filter removedSite
  let kept := (List.range L).filter fun i => !removedSite i
  let rows' := rows.map fun r => (r.1, kept.filterMap fun j => r.2[j]?)
  toString pre ++ " " ++ toString suf ++ " " ++ plus kept ++ " " ++ plus removed ++ " " ++
  toString ((L : Int) - removed.length) ++ " " ++ encRows rows'

def specQualifies (num den : Nat) (col : List Byte) (cs : List Byte) (alphabet : Nat) (ic ig iN rev : Bool) : Bool :=
  let wild : List Byte := if alphabet == 0 then [88, 120] else [78, 110]
  let selected (x : Byte) : Bool :=
    let hit := cs.any fun v => v == x || (ic && toLower v == toLower x)
    if rev then !hit else hit
  let excluded (x : Byte) : Bool := (ig && x == 45) || (iN && wild.contains x)
  let nb := (col.filter selected).length
  let total := (col.filter fun x => !excluded x).length
  cutoffTest num den nb total

/-- naive majority of a column: most frequent upper-cased character among the non-excluded ones,
smallest byte on ties; falls back to the first character when everything is excluded -/
def specMajority (alphabet : Nat) (ig iN : Bool) (col : List Byte) : Byte × Nat × Nat :=
  let wild : Byte := if alphabet == 0 then 88 else 78
  let up := col.map toUpper
  let cand := (List.range 256).filterMap fun (k : Nat) =>
    let b := UInt8.ofNat k
    let c := up.count b
    if c > 0 && !(ig && b == 45) && !(iN && b == wild) then some (b, c) else none
  let total := (cand.map Prod.snd).foldl (· + ·) 0
  match cand.foldl (fun (best : Option (Byte × Nat)) p =>
      match best with
      | none => some p
      | some q => if p.2 > q.2 then some p else some q) none with
  | some p => (p.1, p.2, total)
  | none => (up.headD 0, col.length, 0)

/-- the per-sequence variant: model = `removeCharacterSeqs` on the alignment built from the rows (the
harness adds them one by one to a fresh alignment); independent statement = the rows that do not
qualify under `specQualifies` (the sequence in the role of the column), in order, untouched -/
def seqsCase (alpha : Nat) (rows : Rows) (c : Byte) (num den : Nat) (ic ig iN : Bool) (impl : String) : Ans :=
  let b := addAllIgnore (newAlign alpha) rows
  let m := match removeCharacterSeqs (cutoffTest num den) c ic ig iN b with
    | none => "panic"
    | some r => toString r.2 ++ " " ++ toString r.1.length ++ " " ++ encRows (pairs r.1)
  let kept := rows.filter fun r => !specQualifies num den r.2 [c] alpha ic ig iN false
  let exp := toString (rows.length - kept.length) ++ " " ++ toString (if kept.isEmpty then (-1 : Int) else lenOf rows) ++ " " ++ encRows kept
  ⟨m, verdictOf (impl == exp) (if impl.startsWith "panic" then "crash" else "rmseqs-spec")⟩

def handle : Handler := fun op args impl =>
  match op, args with
  | "rmsites", [alpha, rows, cs, cut, ends, ic, ig, iN, rev] => do
    let alpha ← alpha.toNat?
    let rows ← decRows rows
    let (num, den) ← frac cut
    let L := lenOf rows
    let cs := bytesOfString cs
    let (ends, ic, ig, iN, rev) := (decBool ends, decBool ic, decBool ig, decBool iN, decBool rev)
    let r := removeCharacterSites (cutoffTest num den) rows L alpha cs ends ic ig iN rev
    let q := (List.range L.toNat).map fun j => specQualifies num den (columnAt rows j) cs alpha ic ig iN rev
    let exp := if rows.isEmpty then "0 0 _ _ -1 _" else specClean rows L.toNat q ends
    some ⟨render r, verdictOf (impl == exp) (if impl.startsWith "panic" then "crash" else "rmsites-spec")⟩
  | "rmmajsites", [alpha, rows, cut, ends, ig, iN] => do
    let alpha ← alpha.toNat?
    let rows ← decRows rows
    let (num, den) ← frac cut
    let L := lenOf rows
    let (ends, ig, iN) := (decBool ends, decBool ig, decBool iN)
    let r := removeMajoritySites (cutoffTestRaw num den) rows L alpha ends ig iN
    let q := (List.range L.toNat).map fun j =>
      let m := specMajority alpha ig iN (columnAt rows j)
      cutoffTest num den m.2.1 m.2.2
    let inRange := num ≤ den && den > 0
    let exp := if rows.isEmpty then "0 0 _ _ -1 _" else specClean rows L.toNat q ends
    some ⟨render r, if inRange then verdictOf (impl == exp) (if impl.startsWith "panic" then "crash" else "rmmajsites-spec") else "na"⟩
  | "maxchar", [alpha, rows, ig, iN, _] => do
    let alpha ← alpha.toNat?
    let rows ← decRows rows
    let L := lenOf rows
    if L < 0 then some ⟨"panic", "na"⟩ else
    let (ig, iN) := (decBool ig, decBool iN)
    let sites := (List.range L.toNat).map fun j => maxCharSite alpha ig iN (columnAt rows j)
    let m := stringOfBytes (sites.map (·.1)) ++ " " ++ plus (sites.map (·.2.1)) ++ " " ++ plus (sites.map (·.2.2))
    let ss := (List.range L.toNat).map fun j => specMajority alpha ig iN (columnAt rows j)
    let e := stringOfBytes (ss.map (·.1)) ++ " " ++ plus (ss.map (·.2.1)) ++ " " ++ plus (ss.map (·.2.2))
    some ⟨m, verdictOf (impl == e) (if impl.startsWith "NONDET" then "nondeterministic" else "maxchar-spec")⟩
  | "consensus", [alpha, rows, ig, iN, _] => do
    let alpha ← alpha.toNat?
    let rows ← decRows rows
    let L := lenOf rows
    if L < 0 then some ⟨"panic", "na"⟩ else
    let (ig, iN) := (decBool ig, decBool iN)
    let m := encRows [("consensus", (List.range L.toNat).map fun j => (maxCharSite alpha ig iN (columnAt rows j)).1)]
    let e := encRows [("consensus", (List.range L.toNat).map fun j => (specMajority alpha ig iN (columnAt rows j)).1)]
    some ⟨m, verdictOf (impl == e) (if impl.startsWith "NONDET" then "nondeterministic" else "consensus-spec")⟩
  | "rmseqs", [alpha, rows, c, cut, ic, ig, iN] => do
    let alpha ← alpha.toNat?
    let rows ← decRows rows
    let (num, den) ← frac cut
    let c ← (bytesOfString c).head?
    some (seqsCase alpha rows c num den (decBool ic) (decBool ig) (decBool iN) impl)
  | "rmgapseqs", [alpha, rows, cut, iN] => do
    let alpha ← alpha.toNat?
    let rows ← decRows rows
    let (num, den) ← frac cut
    some (seqsCase alpha rows GAP num den false false (decBool iN) impl)
  | _, _ => none

end Gv.Oracle.CleanOps
