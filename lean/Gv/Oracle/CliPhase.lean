import Gv.Oracle.Common
import Gv.Oracle.Det
import Gv.Oracle.PhaseAlign
import Gv.Model.Phase
import Gv.Model.PhaseAlign
import Gv.Gen.Facts
import Gv.Oracle.CliDefaults
/-!
Command-line glue of the phasing commands (C16) against the library models: what the built binary prints and
writes for `goalign orf` and `goalign phasent` must be what `longestORFBag` / `phaseNT` give, through flag parsing
(the command's own defaults for the gap penalties: −12 / −0.5, not the library's), the order of the input
sequences, the three output files and the FASTA writer.
-/
namespace Gv.Oracle.CliPhaseOps
open Gv Gv.Oracle Gv.Model Gv.Model.Phase Gv.Model.PhaseAlign Gv.Oracle.DetOps

def flag (argv : List String) (f : String) : Bool := argv.contains f
def opt (argv : List String) (f : String) : Option String :=
  match argv.dropWhile (· != f) with
  | _ :: v :: _ => some v
  | _ => none

def codeOf (fl : List String) : Int :=
  match (opt fl "--genetic-code").getD ((CliDefaults.effective "phasentCmd" "genetic-code").getD "standard") with
  | "standard" => 0 | "mitov" => 1 | "mitoi" => 2 | _ => 99

/-- `goalign orf [--reverse]`: the sequences are un-aligned first -/
def expectedOrf (rows : Rows) (fl : List String) : Option String :=
  match longestORFBag Gen.Facts.longestOrfRegex (flag fl "--reverse") (rows.map fun r => (r.1, ungap r.2)) with
  | none => none
  | some none => some "rc=1 out="
  | some (some (name, orf)) => some ("rc=0 out=" ++ fasta [(name, orf)])

/-- `goalign phasent --unaligned --ref-orf <file> --match-cutoff -1 --nt-output <f> --aa-output <f> …` -/
def expectedPhasent (rows : Rows) (files : List (String × String)) (fl : List String) : Option String := do
  let reff ← opt fl "--ref-orf"
  let rf ← files.find? (·.1 == reff)
  let refs := parseFasta (rf.2.splitOn "|")
  -- only the configuration the generator uses is modelled: no cut-off on matches or length
  if refs.isEmpty || opt fl "--match-cutoff" != some "-1" then none else
  let tbl ← geneticCode (codeOf fl)
  -- gap penalties in half units; without the flag, the value the command starts from: the default registered last
  -- for the Go variable behind it (`Gen.CliFlags`) - for `--gap-open` that is −10 from cmd/sw.go, not the −12 the
  -- help text of phasent announces (DESIGN 7.2)
  let half (v : String) : Option Int :=
    let neg := v.startsWith "-"
    let body := if neg then (v.drop 1).toString else v
    (match body.splitOn "." with
     | [a] => a.toNat?.map fun x => (2 * x : Nat)
     | [a, "5"] => a.toNat?.map fun x => 2 * x + 1
     | [a, "0"] => a.toNat?.map fun x => 2 * x
     | _ => none).map fun n => if neg then -(n : Int) else (n : Int)
  let go ← half ((opt fl "--gap-open").getD (← CliDefaults.effective "phasentCmd" "gap-open"))
  let ge ← half ((opt fl "--gap-extend").getD (← CliDefaults.effective "phasentCmd" "gap-extend"))
  let c : NTCfg := { den := 2, gapopen := go, gapextend := ge, scores := none, reverse := flag fl "--reverse",
                     cutend := flag fl "--cut-end", fixed := true, alphaFixed := true }
  let badF := "rc=1 out= files="
  if refs.any (fun r => r.2.length < 3) then some badF else
  let outs := rows.map fun r => (r.1, phaseNT c tbl (refs.map (·.2)) r.2)
  if outs.any (fun o => match o.2 with | .err => true | .panic => true | .ok p _ => p.aa.isNone | .removed _ => false) then
    some badF
  else
  let kept := outs.filterMap fun o => match o.2 with | .ok p _ => some (o.1, p) | _ => none
  let nt := kept.map fun k => (k.1, k.2.nt)
  let codon := kept.map fun k => (k.1, k.2.codon)
  let aa := kept.map fun k => (k.1, k.2.aa.getD [])
  let fileOf (fname : Option String) (r : Rows) : List (String × String) :=
    match fname with | some n => [(n, fasta r)] | none => []
  let fs := (fileOf (opt fl "--nt-output") codon ++ fileOf (opt fl "--aa-output") aa).mergeSort fun a b => decide (a.1 ≤ b.1)
  some ("rc=0 out=" ++ fasta nt ++ " files=" ++ ";;".intercalate (fs.map fun f => f.1 ++ "=" ++ f.2))

/-- `goalign phase --unaligned --ref-orf <file> --match-cutoff -1 --aa-output <f> …` (amino-acid mode: the model
`phaseAAOfRefs`); stdout holds the trimmed nucleotides, the file the amino acids -/
def expectedPhase (rows : Rows) (files : List (String × String)) (fl : List String) : Option String := do
  let reff ← opt fl "--ref-orf"
  let rf ← files.find? (·.1 == reff)
  let refs := parseFasta (rf.2.splitOn "|")
  if refs.isEmpty || opt fl "--match-cutoff" != some "-1" then none else
  let tbl ← geneticCode (match (opt fl "--genetic-code").getD ((CliDefaults.effective "phaseCmd" "genetic-code").getD "standard") with
    | "standard" => 0 | "mitov" => 1 | "mitoi" => 2 | _ => 99)
  let half (v : String) : Option Int :=
    let neg := v.startsWith "-"
    let body := if neg then (v.drop 1).toString else v
    (match body.splitOn "." with
     | [a] => a.toNat?.map fun x => (2 * x : Nat)
     | [a, "5"] => a.toNat?.map fun x => 2 * x + 1
     | [a, "0"] => a.toNat?.map fun x => 2 * x
     | _ => none).map fun n => if neg then -(n : Int) else (n : Int)
  let go ← half ((opt fl "--gap-open").getD (← CliDefaults.effective "phaseCmd" "gap-open"))
  let ge ← half ((opt fl "--gap-extend").getD (← CliDefaults.effective "phaseCmd" "gap-extend"))
  let c : NTCfg := { den := 2, gapopen := go, gapextend := ge, scores := none, reverse := flag fl "--reverse",
                     cutend := flag fl "--cut-end", fixed := true, alphaFixed := true }
  let badF := "rc=1 out= files="
  -- the reference file is read as unaligned nucleotide sequences: alphabet NUCLEOTIDS
  -- (`none` = Phase() itself refused the references: every sequence of the input fails alike)
  let outs : List (String × NTOut) := rows.map fun r =>
    (r.1, (phaseAAOfRefs c tbl NUCLEOTIDS (refs.map (·.2)) r.2).getD NTOut.err)
  if outs.any (fun o => match o.2 with | .err => true | .panic => true | .ok p _ => p.aa.isNone | .removed _ => false) then
    some badF
  else
  let kept := outs.filterMap fun o => match o.2 with | .ok p _ => some (o.1, p) | _ => none
  let nt := kept.map fun k => (k.1, k.2.nt)
  let aa := kept.map fun k => (k.1, k.2.aa.getD [])
  let fs := match opt fl "--aa-output" with | some n => n ++ "=" ++ fasta aa | none => ""
  some ("rc=0 out=" ++ fasta nt ++ " files=" ++ fs)

def handle : Handler := fun op args impl =>
  match op, args with
  | "cli_lib", stdin :: "orf" :: fl =>
    match expectedOrf (parseFasta (stdin.splitOn "|")) fl with
    | some m => some ⟨m, verdictOf (impl == m) "command-line-differs-from-library-model"⟩
    | none => some ⟨"unmodelled", "na"⟩
  | "cli_libf", stdin :: files :: "phase" :: fl =>
    let fs := if files == "_" then [] else (files.splitOn ";;").filterMap fun f =>
      match f.splitOn "=" with
      | n :: rest => some (n, "=".intercalate rest)
      | _ => none
    match expectedPhase (parseFasta (stdin.splitOn "|")) fs fl with
    | some m => some ⟨m, verdictOf (impl == m) "command-line-differs-from-library-model"⟩
    | none => some ⟨"unmodelled", "na"⟩
  | "cli_libf", stdin :: files :: "phasent" :: fl =>
    let fs := if files == "_" then [] else (files.splitOn ";;").filterMap fun f =>
      match f.splitOn "=" with
      | n :: rest => some (n, "=".intercalate rest)
      | _ => none
    match expectedPhasent (parseFasta (stdin.splitOn "|")) fs fl with
    | some m => some ⟨m, verdictOf (impl == m) "command-line-differs-from-library-model"⟩
    | none => some ⟨"unmodelled", "na"⟩
  | _, _ => none

end Gv.Oracle.CliPhaseOps
