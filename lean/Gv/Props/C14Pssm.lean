import Gv.Proofs.PssmReal
import Mathlib.Analysis.SpecialFunctions.Log.Base
/-!
C14 — `Pssm`: the position-specific scoring matrix equals its definition evaluated naively on the columns.

All theorems are over `ℝ` and about `Gv.Model.pssm` (lean/Gv/Model/Pssm.lean: the five stages of the Go
function, generic in the numeric type; the oracle runs the same text at `Float` and compares it with the
implementation's bit patterns within a relative tolerance — rounding and the last place of `math.Log` are not
modelled).  `occ col c` is the naive count: the number of rows of the column whose upper-cased character is `c`.

* `pssm_no_panic`, `pssm_err_iff` — never a run-time panic (the `makeslice` panic on an alignment without sequences
  is repaired: an error); an error exactly for an alignment without sequences, an unknown normalisation, or the data
  normalisation when an alphabet character does not occur in the alignment;
* `pssm_counts` — no normalisation: naive count (+ pseudo-count);
* `pssm_freq` — frequency normalisation: `(count + pseudo-count) / (number of sequences + alphabet size × pseudo-count)`;
  `pssm_freq_column_sum`: a column sums to `(counted + K·added) / (N + K·ψ)` where `counted` is the number of rows
  holding an alphabet character there; `pssm_freq_column_sums_to_one`: it sums to 1 when every row holds an alphabet
  character at that site (and exactly then, `pssm_freq_column_sum_one_iff`); a column with a gap, `N`, `X`, … sums to
  LESS than 1 (`pssm_freq_column_with_gap_sums_below_one`: the divisor is the number of sequences, not the number of
  counted characters);
* `pssm_unif`, `pssm_data`, `pssm_logo` — the other three normalisations in closed form;
* `pssm_log` — with `log` (and not the logo normalisation) every entry is the base-2 logarithm of the entry without.
-/
namespace Gv.Props.C14Pssm
open Gv Gv.Model Gv.Proofs.PssmReal

/-- the table `Pssm` returns: one row per alphabet character (in alphabet order), one entry per site -/
noncomputable def pssmTable (rows : CRows) (L : Int) (alphabet : Nat) (f : List Byte → Byte → ℝ) : List (Byte × List ℝ) :=
  (pssmAlphabet alphabet).map fun c => (c, (List.range L.toNat).map fun j => f (columnAt rows j) c)

/-- the sum of column `j` of a table -/
noncomputable def columnSum (t : List (Byte × List ℝ)) (j : ℕ) : ℝ := (t.map fun p => p.2.getD j 0).sum

/-- the frequency-normalised cell by definition -/
noncomputable def freqCell (N K : ℕ) (ψ : ℝ) (col : List Byte) (c : Byte) : ℝ :=
  ((occ col c : ℝ) + added ψ) / ((N : ℝ) + (K : ℝ) * ψ)

private theorem alphabet_nodup (alphabet : Nat) : (pssmAlphabet alphabet).Nodup := by
  unfold pssmAlphabet
  split <;> decide

private theorem normDefs : PSSM_NORM_NONE = 0 ∧ PSSM_NORM_FREQ = 1 ∧ PSSM_NORM_DATA = 2 ∧ PSSM_NORM_UNIF = 3 ∧ PSSM_NORM_LOGO = 4 :=
  ⟨rfl, rfl, rfl, rfl, rfl⟩

/-- **`Pssm` never crashes**: an alignment without sequences (cached length −1; before the repair
`make([]float64, -1)` panicked) is an error -/
theorem pssm_no_panic (rows : CRows) (L : Int) (alphabet : Nat) (lg : Bool) (ψ : ℝ) (nm : Int) :
    pssm rows L alphabet lg ψ nm ≠ .panic := by
  unfold pssm
  split
  · simp
  · simp only []
    split <;> simp

/-- an alignment without sequences (or with a negative cached length) is an error -/
theorem pssm_empty_is_error (rows : CRows) (L : Int) (alphabet : Nat) (lg : Bool) (ψ : ℝ) (nm : Int)
    (h : rows = [] ∨ L < 0) : pssm rows L alphabet lg ψ nm = .err := by
  unfold pssm
  rcases h with rfl | h
  · simp
  · simp [h]

/-- **error cases**: an unknown normalisation, or the data normalisation when some alphabet character has no
occurrence (in either case) in the whole alignment -/
theorem pssm_err_iff (rows : CRows) (L : Int) (hL : 0 ≤ L) (hN : rows ≠ []) (alphabet : Nat) (lg : Bool) (ψ : ℝ) (nm : Int) :
    (pssm rows L alphabet lg ψ nm = .err) ↔
      (nm ≠ 0 ∧ nm ≠ 1 ∧ nm ≠ 2 ∧ nm ≠ 3 ∧ nm ≠ 4) ∨
      (nm = 2 ∧ ∃ c ∈ pssmAlphabet alphabet, Spec.occ Spec.upperCase (rows.flatMap Prod.snd) c = 0) := by
  have hL' : (rows.isEmpty || decide (L < 0)) = false := by
    cases rows with
    | nil => exact absurd rfl hN
    | cons _ _ => simp only [List.isEmpty_cons, Bool.false_or, decide_eq_false_iff_not]; omega
  unfold pssm pssmNormFactor
  simp only [hL', Bool.false_eq_true, if_false, PSSM_NORM_NONE, PSSM_NORM_FREQ, PSSM_NORM_DATA, PSSM_NORM_UNIF, PSSM_NORM_LOGO, beq_iff_eq]
  by_cases h0 : nm = 0
  · subst h0; simp
  by_cases h3 : nm = 3
  · subst h3; simp
  by_cases h1 : nm = 1
  · subst h1; simp
  by_cases h4 : nm = 4
  · subst h4; simp
  by_cases h2 : nm = 2
  · subst h2
    simp only [show ¬ (2 : Int) = 0 by decide, show ¬ (2 : Int) = 3 by decide, show ¬ (2 : Int) = 1 by decide,
      show ¬ (2 : Int) = 4 by decide, if_false, if_true, ne_eq, not_true_eq_false, and_false, false_and, false_or, true_and]
    by_cases hall : ((pssmAlphabet alphabet).all fun c => (lookup c (charStats rows)).isSome) = true
    · simp only [hall, if_true, reduceCtorEq, false_iff, not_exists, not_and]
      intro c hc
      have := (List.all_eq_true.mp hall) c hc
      rw [stat_isSome] at this
      have := of_decide_eq_true this
      omega
    · have hall' : ((pssmAlphabet alphabet).all fun c => (lookup c (charStats rows)).isSome) = false := by
        simpa using hall
      simp only [hall', Bool.false_eq_true, if_false, true_iff]
      have hex : ∃ c ∈ pssmAlphabet alphabet, (lookup c (charStats rows)).isSome = false := by
        rw [List.all_eq_false] at hall'
        obtain ⟨c, hc, hs⟩ := hall'
        exact ⟨c, hc, by simpa using hs⟩
      obtain ⟨c, hc, hs⟩ := hex
      refine ⟨c, hc, ?_⟩
      rw [stat_isSome] at hs
      have : ¬ 0 < Spec.occ Spec.upperCase (rows.flatMap Prod.snd) c := by simpa using hs
      omega
  · simp [h0, h1, h2, h3, h4]

/-- **all error cases of the repaired `Pssm`**, every input: no sequence (or a negative cached length), an unknown
normalisation, or the data normalisation with an alphabet character that does not occur -/
theorem pssm_err_iff_all (rows : CRows) (L : Int) (alphabet : Nat) (lg : Bool) (ψ : ℝ) (nm : Int) :
    (pssm rows L alphabet lg ψ nm = .err) ↔
      rows = [] ∨ L < 0 ∨ (nm ≠ 0 ∧ nm ≠ 1 ∧ nm ≠ 2 ∧ nm ≠ 3 ∧ nm ≠ 4) ∨
      (nm = 2 ∧ ∃ c ∈ pssmAlphabet alphabet, Spec.occ Spec.upperCase (rows.flatMap Prod.snd) c = 0) := by
  by_cases h : rows = [] ∨ L < 0
  · have := pssm_empty_is_error rows L alphabet lg ψ nm h
    simp only [this, true_iff]
    rcases h with h | h
    · exact Or.inl h
    · exact Or.inr (Or.inl h)
  · have hN : rows ≠ [] := fun e => h (Or.inl e)
    have hL : 0 ≤ L := by
      have : ¬ L < 0 := fun e => h (Or.inr e)
      omega
    rw [pssm_err_iff rows L hL hN alphabet lg ψ nm]
    constructor
    · intro g; exact Or.inr (Or.inr g)
    · intro g
      rcases g with g | g | g
      · exact absurd g hN
      · omega
      · exact g

/-- **no normalisation, no logarithm**: every entry is the naive count of its character at its site, plus the
pseudo-count when it is positive -/
theorem pssm_counts (rows : CRows) (L : Int) (hL : 0 ≤ L) (hN : rows ≠ []) (alphabet : Nat) (ψ : ℝ) :
    pssm rows L alphabet false ψ 0 = .ok (pssmTable rows L alphabet fun col c => (occ col c : ℝ) + added ψ) := by
  have hL' : (rows.isEmpty || decide (L < 0)) = false := by
    cases rows with
    | nil => exact absurd rfl hN
    | cons _ _ => simp only [List.isEmpty_cons, Bool.false_or, decide_eq_false_iff_not]; omega
  unfold pssm pssmNormFactor pssmTable
  simp only [hL', Bool.false_eq_true, if_false, PSSM_NORM_NONE, BEq.rfl, if_true, pssmFinal, PSSM_NORM_LOGO, pssmCell_eq, RealLike.real_one, mul_one]
  simp

/-- **frequency normalisation, no logarithm**: every entry is `(count + added pseudo-count) / (number of sequences +
alphabet size × pseudo-count)` -/
theorem pssm_freq (rows : CRows) (L : Int) (hL : 0 ≤ L) (hN : rows ≠ []) (alphabet : Nat) (ψ : ℝ) :
    pssm rows L alphabet false ψ 1 =
      .ok (pssmTable rows L alphabet (freqCell rows.length (pssmAlphabet alphabet).length ψ)) := by
  have hL' : (rows.isEmpty || decide (L < 0)) = false := by
    cases rows with
    | nil => exact absurd rfl hN
    | cons _ _ => simp only [List.isEmpty_cons, Bool.false_or, decide_eq_false_iff_not]; omega
  unfold pssm pssmNormFactor pssmTable freqCell
  simp only [hL', Bool.false_eq_true, if_false, PSSM_NORM_NONE, PSSM_NORM_UNIF, PSSM_NORM_FREQ, PSSM_NORM_LOGO, pssmFinal, pssmCell_eq,
    pssmFreqFactor_eq]
  simp [div_eq_mul_inv]

/-- number of rows of a column that hold (in either case) a character of the alphabet: the rows `Pssm` counts -/
def counted (A : List Byte) (col : List Byte) : ℕ := col.countP fun s => A.contains (Spec.upperCase s)

private theorem sum_indicator_nodup (A : List Byte) (hA : A.Nodup) (x : Byte) :
    (A.map fun c => if (x == c) = true then 1 else 0).sum = if A.contains x then 1 else 0 := by
  induction A with
  | nil => simp
  | cons a t ih =>
    have hn := List.nodup_cons.mp hA
    simp only [List.map_cons, List.sum_cons, ih hn.2, List.contains_cons]
    by_cases h : x = a
    · subst h
      simp [hn.1]
    · have : (x == a) = false := by simpa using h
      simp [this]

private theorem sum_occ_nat (A : List Byte) (hA : A.Nodup) (col : List Byte) :
    (A.map fun c => occ col c).sum = counted A col := by
  induction col with
  | nil => simp [occ, Spec.occ, counted]
  | cons s t ih =>
    have h1 : ∀ c, occ (s :: t) c = occ t c + if (Spec.upperCase s == c) = true then 1 else 0 := by
      intro c; simp [occ, Spec.occ, List.countP_cons]
    simp only [h1, List.sum_map_add, ih, sum_indicator_nodup A hA]
    simp [counted, List.countP_cons]

private theorem sum_occ (A : List Byte) (hA : A.Nodup) (col : List Byte) :
    (A.map fun c => (occ col c : ℝ)).sum = (counted A col : ℝ) := by
  rw [← sum_occ_nat A hA col, Nat.cast_list_sum, List.map_map]
  rfl

private theorem columnSum_table (rows : CRows) (L : Int) (alphabet : Nat) (f : List Byte → Byte → ℝ) (j : ℕ)
    (hj : j < L.toNat) :
    columnSum (pssmTable rows L alphabet f) j = ((pssmAlphabet alphabet).map fun c => f (columnAt rows j) c).sum := by
  unfold columnSum pssmTable
  rw [List.map_map]
  congr 1
  apply List.map_congr_left
  intro c _
  simp [List.getD_eq_getElem?_getD, List.getElem?_map, List.getElem?_range hj]

/-- **a frequency-normalised column** sums to `(counted + K · added pseudo-count) / (N + K · pseudo-count)`: `counted` is
the number of rows holding an alphabet character (either case) at that site, `K` the alphabet size, `N` the number of
sequences -/
theorem pssm_freq_column_sum (rows : CRows) (L : Int) (alphabet : Nat) (ψ : ℝ) (j : ℕ) (hj : j < L.toNat) :
    columnSum (pssmTable rows L alphabet (freqCell rows.length (pssmAlphabet alphabet).length ψ)) j =
      ((counted (pssmAlphabet alphabet) (columnAt rows j) : ℝ) + ((pssmAlphabet alphabet).length : ℝ) * added ψ) /
        ((rows.length : ℝ) + ((pssmAlphabet alphabet).length : ℝ) * ψ) := by
  rw [columnSum_table rows L alphabet _ j hj]
  unfold freqCell
  rw [← sum_occ _ (alphabet_nodup alphabet)]
  generalize pssmAlphabet alphabet = A
  generalize ((rows.length : ℝ) + (A.length : ℝ) * ψ) = D
  induction A with
  | nil => simp
  | cons a t ih => simp only [List.map_cons, List.sum_cons, ih, List.length_cons]; push_cast; ring

/-- **frequency-normalised columns sum to 1** when every row holds an alphabet character at the site (no gap, no
`N` / `X`, no other symbol) and the pseudo-count is not negative (at least one sequence) -/
theorem pssm_freq_column_sums_to_one (rows : CRows) (L : Int) (alphabet : Nat) (ψ : ℝ) (hψ : 0 ≤ ψ) (hN : rows ≠ [])
    (j : ℕ) (hj : j < L.toNat)
    (hcol : ∀ s ∈ columnAt rows j, (pssmAlphabet alphabet).contains (Spec.upperCase s) = true) :
    columnSum (pssmTable rows L alphabet (freqCell rows.length (pssmAlphabet alphabet).length ψ)) j = 1 := by
  rw [pssm_freq_column_sum rows L alphabet ψ j hj]
  have hc : counted (pssmAlphabet alphabet) (columnAt rows j) = rows.length := by
    unfold counted
    rw [List.countP_eq_length.mpr (by simpa using hcol)]
    simp [columnAt]
  have ha : added ψ = ψ := by
    unfold added
    by_cases h : 0 < ψ
    · simp [h]
    · have : ψ = 0 := le_antisymm (not_lt.mp h) hψ
      simp [this]
  rw [hc, ha]
  have hpos : (0 : ℝ) < (rows.length : ℝ) := by
    have : 0 < rows.length := List.length_pos_iff.mpr hN
    exact_mod_cast this
  have hK : (0 : ℝ) ≤ ((pssmAlphabet alphabet).length : ℝ) * ψ := mul_nonneg (Nat.cast_nonneg _) hψ
  exact div_self (by linarith)

/-- … and only then: with a non-negative pseudo-count and at least one sequence, the column sums to 1 exactly when all
its rows are counted -/
theorem pssm_freq_column_sum_one_iff (rows : CRows) (L : Int) (alphabet : Nat) (ψ : ℝ) (hψ : 0 ≤ ψ) (hN : rows ≠ [])
    (j : ℕ) (hj : j < L.toNat) :
    columnSum (pssmTable rows L alphabet (freqCell rows.length (pssmAlphabet alphabet).length ψ)) j = 1 ↔
      counted (pssmAlphabet alphabet) (columnAt rows j) = rows.length := by
  rw [pssm_freq_column_sum rows L alphabet ψ j hj]
  have ha : added ψ = ψ := by
    unfold added
    by_cases h : 0 < ψ
    · simp [h]
    · have : ψ = 0 := le_antisymm (not_lt.mp h) hψ
      simp [this]
  rw [ha]
  have hpos : (0 : ℝ) < (rows.length : ℝ) := by
    have : 0 < rows.length := List.length_pos_iff.mpr hN
    exact_mod_cast this
  have hK : (0 : ℝ) ≤ ((pssmAlphabet alphabet).length : ℝ) * ψ := mul_nonneg (Nat.cast_nonneg _) hψ
  have hD : ((rows.length : ℝ) + ((pssmAlphabet alphabet).length : ℝ) * ψ) ≠ 0 := by linarith
  rw [div_eq_one_iff_eq hD]
  constructor
  · intro h
    have : (counted (pssmAlphabet alphabet) (columnAt rows j) : ℝ) = (rows.length : ℝ) := by linarith
    exact_mod_cast this
  · intro h; rw [h]

/-- **uniform normalisation**: the frequency entry divided by the uniform frequency `1 / K`, i.e. times `K` -/
theorem pssm_unif (rows : CRows) (L : Int) (hL : 0 ≤ L) (hN : rows ≠ []) (alphabet : Nat) (ψ : ℝ) :
    pssm rows L alphabet false ψ 3 =
      .ok (pssmTable rows L alphabet fun col c =>
        freqCell rows.length (pssmAlphabet alphabet).length ψ col c * ((pssmAlphabet alphabet).length : ℝ)) := by
  have hL' : (rows.isEmpty || decide (L < 0)) = false := by
    cases rows with
    | nil => exact absurd rfl hN
    | cons _ _ => simp only [List.isEmpty_cons, Bool.false_or, decide_eq_false_iff_not]; omega
  unfold pssm pssmNormFactor pssmTable freqCell
  simp only [hL', Bool.false_eq_true, if_false, PSSM_NORM_NONE, PSSM_NORM_UNIF, PSSM_NORM_FREQ, PSSM_NORM_LOGO, pssmFinal, pssmCell_eq,
    pssmFreqFactor_eq, ofCount_eq, RealLike.real_one]
  simp [div_eq_mul_inv, mul_assoc]

/-- **data normalisation** (every alphabet character occurs somewhere in the alignment): the frequency entry divided by
the character's share `S c / T` of all alphabet characters of the alignment (`S c` = occurrences of `c` in either case) -/
theorem pssm_data (rows : CRows) (L : Int) (hL : 0 ≤ L) (hN : rows ≠ []) (alphabet : Nat) (ψ : ℝ)
    (hall : ∀ c ∈ pssmAlphabet alphabet, 0 < Spec.occ Spec.upperCase (rows.flatMap Prod.snd) c) :
    pssm rows L alphabet false ψ 2 =
      .ok (pssmTable rows L alphabet fun col c =>
        freqCell rows.length (pssmAlphabet alphabet).length ψ col c /
          ((Spec.occ Spec.upperCase (rows.flatMap Prod.snd) c : ℝ) /
            (((pssmAlphabet alphabet).map fun c => Spec.occ Spec.upperCase (rows.flatMap Prod.snd) c).sum : ℕ))) := by
  have hL' : (rows.isEmpty || decide (L < 0)) = false := by
    cases rows with
    | nil => exact absurd rfl hN
    | cons _ _ => simp only [List.isEmpty_cons, Bool.false_or, decide_eq_false_iff_not]; omega
  have h1 : ((pssmAlphabet alphabet).all fun c => (lookup c (charStats rows)).isSome) = true := by
    rw [List.all_eq_true]
    intro c hc
    rw [stat_isSome]
    exact decide_eq_true (hall c hc)
  unfold pssm pssmNormFactor pssmTable freqCell
  simp only [hL', Bool.false_eq_true, if_false, PSSM_NORM_NONE, PSSM_NORM_UNIF, PSSM_NORM_FREQ, PSSM_NORM_LOGO, PSSM_NORM_DATA, pssmFinal,
    pssmCell_eq, pssmFreqFactor_eq, ofCount_eq, pssmDataTotal_eq, h1, statOf_eq]
  simp [div_eq_mul_inv, mul_assoc]

/-- the relative frequency used by the logo normalisation: `(count + added pseudo-count) / N` -/
noncomputable def logoFreq (N : ℕ) (ψ : ℝ) (col : List Byte) (c : Byte) : ℝ := ((occ col c : ℝ) + added ψ) / (N : ℝ)

/-- **logo normalisation**: `f · (log₂ K − H)` with `f = (count + added pseudo-count) / N` and the site entropy
`H = − Σ f log₂ f` over the alphabet characters -/
theorem pssm_logo (rows : CRows) (L : Int) (hL : 0 ≤ L) (hN : rows ≠ []) (alphabet : Nat) (lg : Bool) (ψ : ℝ) :
    pssm rows L alphabet lg ψ 4 =
      .ok (pssmTable rows L alphabet fun col c =>
        logoFreq rows.length ψ col c *
          (Real.logb 2 ((pssmAlphabet alphabet).length : ℝ) -
            ((pssmAlphabet alphabet).map fun k => -(logoFreq rows.length ψ col k * Real.logb 2 (logoFreq rows.length ψ col k))).sum)) := by
  have hL' : (rows.isEmpty || decide (L < 0)) = false := by
    cases rows with
    | nil => exact absurd rfl hN
    | cons _ _ => simp only [List.isEmpty_cons, Bool.false_or, decide_eq_false_iff_not]; omega
  unfold pssm pssmNormFactor pssmTable logoFreq
  simp only [hL', Bool.false_eq_true, if_false, PSSM_NORM_NONE, PSSM_NORM_UNIF, PSSM_NORM_FREQ, PSSM_NORM_LOGO, pssmFinal,
    pssmCell_eq, pssmEntropy_eq, ofCount_eq, RealLike.real_one, RealLike.real_log, RealLike.real_ofNat]
  simp only [show ((4 : Int) == 0) = false by decide, show ((4 : Int) == 3) = false by decide,
    show ((4 : Int) == 1) = false by decide, BEq.rfl, Bool.false_eq_true, if_false, if_true, Real.logb]
  congr 1
  apply List.map_congr_left
  intro c _
  congr 1
  apply List.map_congr_left
  intro j _
  simp only [mul_one_div]
  congr 2
  congr 1
  apply List.map_congr_left
  intro k _
  ring

/-- **logarithm**: with `log` (any normalisation but the logo one) every entry is the base-2 logarithm of the entry
computed without it -/
theorem pssm_log (rows : CRows) (L : Int) (alphabet : Nat) (ψ : ℝ) (nm : Int) (hnm : nm ≠ 4) (t : List (Byte × List ℝ))
    (h : pssm rows L alphabet false ψ nm = .ok t) :
    pssm rows L alphabet true ψ nm = .ok (t.map fun p => (p.1, p.2.map fun x => Real.logb 2 x)) := by
  unfold pssm at h ⊢
  by_cases hL : (rows.isEmpty || decide (L < 0)) = true
  · simp [hL] at h
  · have hL : (rows.isEmpty || decide (L < 0)) = false := by simpa using hL
    simp only [hL, Bool.false_eq_true, if_false] at h ⊢
    cases hnf : pssmNormFactor rows (pssmAlphabet alphabet) ψ nm with
    | none => simp [hnf] at h
    | some nf =>
      simp only [hnf, PssmRes.ok.injEq] at h ⊢
      subst h
      have hb : (nm == PSSM_NORM_LOGO) = false := by simpa [PSSM_NORM_LOGO] using hnm
      simp [pssmFinal, hb, Real.logb]

/-- the keys of a `Pssm` table are the alphabet characters (in alphabet order) and every row has one entry per site -/
theorem pssm_shape (rows : CRows) (L : Int) (alphabet : Nat) (lg : Bool) (ψ : ℝ) (nm : Int) (t : List (Byte × List ℝ))
    (h : pssm rows L alphabet lg ψ nm = .ok t) :
    t.map Prod.fst = pssmAlphabet alphabet ∧ ∀ p ∈ t, p.2.length = L.toNat := by
  unfold pssm at h
  by_cases hL : (rows.isEmpty || decide (L < 0)) = true
  · simp [hL] at h
  · have hL : (rows.isEmpty || decide (L < 0)) = false := by simpa using hL
    simp only [hL, Bool.false_eq_true, if_false] at h
    cases hnf : pssmNormFactor rows (pssmAlphabet alphabet) ψ nm with
    | none => simp [hnf] at h
    | some nf =>
      simp only [hnf, PssmRes.ok.injEq] at h
      subst h
      constructor
      · simp [List.map_map, Function.comp_def]
      · intro p hp
        simp only [List.mem_map] at hp
        obtain ⟨c, _, rfl⟩ := hp
        simp

/-! ## the divisor is the number of sequences, not the number of counted characters -/

def gapRows : CRows := [("a", [65, 45]), ("b", [65, 67])]

/-- **a frequency-normalised column that holds a gap does NOT sum to 1**: in `A-` / `AC` (no pseudo-count) the second
column sums to 1/2 — `Pssm` divides by the number of sequences, whatever the column holds.  Reproduce on the Go code:
`al.Pssm(false, 0, align.PSSM_NORM_FREQ)` gives `C ↦ [0, 0.5]` and 0 for the other characters at site 1. -/
theorem pssm_freq_column_with_gap_sums_below_one :
    pssm gapRows 2 1 false (0 : ℝ) 1 = .ok (pssmTable gapRows 2 1 (freqCell 2 4 0)) ∧
    columnSum (pssmTable gapRows 2 1 (freqCell 2 4 0)) 1 = 1 / 2 ∧
    columnSum (pssmTable gapRows 2 1 (freqCell 2 4 0)) 0 = 1 := by
  have ha : added (0 : ℝ) = 0 := by simp [added]
  refine ⟨pssm_freq gapRows 2 (by decide) (by decide) 1 0, ?_, ?_⟩
  · have h := pssm_freq_column_sum gapRows 2 1 0 1 (by decide)
    have hc : counted (pssmAlphabet 1) (columnAt gapRows 1) = 1 := by decide
    have hl : (pssmAlphabet 1).length = 4 := by decide
    have hr : gapRows.length = 2 := rfl
    rw [hl, hr] at h
    rw [h, hc, ha]
    norm_num
  · have h := pssm_freq_column_sum gapRows 2 1 0 0 (by decide)
    have hc : counted (pssmAlphabet 1) (columnAt gapRows 0) = 2 := by decide
    have hl : (pssmAlphabet 1).length = 4 := by decide
    have hr : gapRows.length = 2 := rfl
    rw [hl, hr] at h
    rw [h, hc, ha]
    norm_num

/-! ## non-vacuity -/

private def exR : CRows := [("a", [65, 99]), ("b", [71, 67]), ("c", [97, 116])]

set_option maxRecDepth 100000 in
example : columnSum (pssmTable exR 2 1 (freqCell exR.length (pssmAlphabet 1).length (1 / 2))) 1 = 1 :=
  pssm_freq_column_sums_to_one exR 2 1 (1 / 2) (by norm_num) (by decide) 1 (by decide) (by decide)
example : counted (pssmAlphabet 1) (columnAt exR 0) = exR.length := by decide
example : pssm exR 2 1 false (1 / 2 : ℝ) 1 = .ok (pssmTable exR 2 1 (freqCell 3 4 (1 / 2))) := pssm_freq exR 2 (by decide) (by decide) 1 _
example : pssm exR 2 1 true (1 / 2 : ℝ) 1 =
    .ok ((pssmTable exR 2 1 (freqCell 3 4 (1 / 2))).map fun p => (p.1, p.2.map fun x => Real.logb 2 x)) :=
  pssm_log exR 2 1 _ 1 (by decide) _ (pssm_freq exR 2 (by decide) (by decide) 1 _)
example : pssm exR 2 1 false (0 : ℝ) 7 = .err :=
  (pssm_err_iff exR 2 (by decide) (by decide) 1 false 0 7).mpr (Or.inl (by decide))
example : pssm gapRows 2 1 false (0 : ℝ) 2 = .err :=
  (pssm_err_iff gapRows 2 (by decide) (by decide) 1 false 0 2).mpr (Or.inr ⟨rfl, 71, by decide, by decide⟩)
example : pssm ([] : CRows) (-1) 1 false (0 : ℝ) 1 = .err := pssm_empty_is_error [] (-1) 1 false 0 1 (Or.inl rfl)
set_option maxRecDepth 100000 in
example : ∀ c ∈ pssmAlphabet 1, 0 < Spec.occ Spec.upperCase (([("a", [65, 99]), ("b", [71, 84])] : CRows).flatMap Prod.snd) c := by
  decide

end Gv.Props.C14Pssm
