import Gv.Props.C07
import Gv.Props.C18
/-!
# C07 ↔ C18 — each published distance estimator inverts the expected observable of its model

Two stationary sequences separated by evolutionary time `t` under a substitution model with
frequencies `π` and transition matrix `P(t)` show the site pattern `(i, j)` with probability
`π i · P(t) i j`.  The *expected observables* are sums of these pattern probabilities: the proportion
of differing sites, of transitional / transversional differences, of A↔G and of C↔T differences.

For every model the theorems below say: the published estimator of `Spec/Published.lean` (and the
estimator code regenerated from `distance/dna/*.go`) applied to the expected observables at time `t`
returns `t`.  `P(t)` is the analytic closed form of `Props/C18.lean` (`jcP`, `k2pP`, `f84P`), which
C18 proves equal to `exp(t·Q)` for the textbook rate matrix scaled to one substitution per unit
time; for F81 and TN93 (no closed form in the Go code: gonum decomposes them numerically) a symbolic
eigen-system is given here and proved to diagonalise the *regenerated* rate matrix, so `P(t)` is
`exp(t·Q)` itself.  State order A, C, G, T.
-/
namespace Gv.Props.C07Inv
open Gv Gv.Gen.Models Gv.Spec.Subst Gv.Spec.Published Gv.Proofs Gv.Proofs.SubstReal Gv.Props.C18 Matrix

/-! ## expected observables -/

/-- probability that a site differs: `Σ_{i ≠ j} π_i P_ij` -/
noncomputable def expDiff (π : Fin 4 → ℝ) (P : Matrix (Fin 4) (Fin 4) ℝ) : ℝ :=
  ∑ i, ∑ j, if i = j then 0 else π i * P i j

/-- probability of a transitional difference (A↔G, C↔T) -/
noncomputable def expTs (π : Fin 4 → ℝ) (P : Matrix (Fin 4) (Fin 4) ℝ) : ℝ :=
  ∑ i : Fin 4, ∑ j : Fin 4, if isTransition i.val j.val then π i * P i j else 0

/-- probability of a transversional difference -/
noncomputable def expTv (π : Fin 4 → ℝ) (P : Matrix (Fin 4) (Fin 4) ℝ) : ℝ :=
  ∑ i : Fin 4, ∑ j : Fin 4, if i = j ∨ isTransition i.val j.val then 0 else π i * P i j

/-- probability of an A↔G difference -/
noncomputable def expAG (π : Fin 4 → ℝ) (P : Matrix (Fin 4) (Fin 4) ℝ) : ℝ := π 0 * P 0 2 + π 2 * P 2 0

/-- probability of a C↔T difference -/
noncomputable def expCT (π : Fin 4 → ℝ) (P : Matrix (Fin 4) (Fin 4) ℝ) : ℝ := π 1 * P 1 3 + π 3 * P 3 1

theorem expDiff_eq (π : Fin 4 → ℝ) (P : Matrix (Fin 4) (Fin 4) ℝ) :
    expDiff π P = π 0 * (P 0 1 + P 0 2 + P 0 3) + π 1 * (P 1 0 + P 1 2 + P 1 3)
      + π 2 * (P 2 0 + P 2 1 + P 2 3) + π 3 * (P 3 0 + P 3 1 + P 3 2) := by
  simp [expDiff, Fin.sum_univ_four]; ring

theorem expTs_eq (π : Fin 4 → ℝ) (P : Matrix (Fin 4) (Fin 4) ℝ) : expTs π P = expAG π P + expCT π P := by
  simp [expTs, expAG, expCT, Fin.sum_univ_four, isTransition]; ring

theorem expTv_eq (π : Fin 4 → ℝ) (P : Matrix (Fin 4) (Fin 4) ℝ) :
    expTv π P = π 0 * (P 0 1 + P 0 3) + π 1 * (P 1 0 + P 1 2) + π 2 * (P 2 1 + P 2 3) + π 3 * (P 3 0 + P 3 2) := by
  simp [expTv, Fin.sum_univ_four, isTransition]; ring

/-- every difference is a transition or a transversion -/
theorem expDiff_eq_ts_add_tv (π : Fin 4 → ℝ) (P : Matrix (Fin 4) (Fin 4) ℝ) :
    expDiff π P = expTs π P + expTv π P := by
  rw [expDiff_eq, expTs_eq, expTv_eq, expAG, expCT]; ring

/-- uniform base frequencies -/
noncomputable def uniform : Fin 4 → ℝ := fun _ => 1 / 4

/-! ## JC69 -/

/-- under JC69 the expected proportion of differing sites after time `t` is `3/4 (1 − e^{−4t/3})` -/
theorem jc_expected_p (t : ℝ) : expDiff uniform (jcP t) = 3 / 4 * (1 - Real.exp (-(4 / 3) * t)) := by
  rw [expDiff_eq]
  simp only [jcP_apply, uniform]
  simp
  ring

/-- **JC69 inverts its model**: the published estimator applied to the expected proportion of differences
after time `t` returns `t` (every real `t`). -/
theorem jc_inverts_expected_p (t : ℝ) : jc69 (expDiff uniform (jcP t)) = t := by
  rw [jc_expected_p]
  unfold jc69
  real_like
  have : 1 - 4 / 3 * (3 / 4 * (1 - Real.exp (-(4 / 3) * t))) = Real.exp (-(4 / 3) * t) := by ring
  rw [this, Real.log_exp]; ring

/-- the same against the textbook Markov model itself: `P(t) = exp(t·Q)`, `Q` the JC69 rate matrix scaled to
one expected substitution per unit time -/
theorem jc_inverts_textbook_model (t : ℝ) : jc69 (expDiff uniform (NormedSpace.exp (t • jcQ))) = t := by
  rw [← jc_eq_exp_of_rate_matrix]; exact jc_inverts_expected_p t

/-- … and for the estimator code regenerated from `distance/dna/jc.go`: on `n > 0` comparable sites of which
the expected number `n · p(t)` differ, `Distance` returns `t` (for `t ≥ 0`; `a` is the unused gamma shape) -/
theorem jc_code_inverts_expected_p (a n t : ℝ) (hn : 0 < n) (ht : 0 ≤ t) :
    Gen.jcDistance false a (n * expDiff uniform (jcP t)) n = t := by
  have he : Real.exp (-(4 / 3) * t) ≤ 1 := Real.exp_le_one_iff.mpr (by linarith)
  have hpos := Real.exp_pos (-(4 / 3) * t)
  have hp : n * expDiff uniform (jcP t) / n = expDiff uniform (jcP t) := by field_simp
  rw [C07.jc_eq_published a _ n (by rw [jc_expected_p]; apply mul_nonneg hn.le; linarith) hn
    (by rw [hp, jc_expected_p]; linarith), hp]
  exact jc_inverts_expected_p t

/-- the hypotheses are satisfiable and the statement is not vacuous: at `t = 1/2` the expected proportion
is strictly between 0 and 3/4 -/
example : 0 < expDiff uniform (jcP (1 / 2)) ∧ expDiff uniform (jcP (1 / 2)) < 3 / 4 := by
  rw [jc_expected_p]
  have h1 : Real.exp (-(4 / 3) * (1 / 2)) < 1 := by rw [Real.exp_lt_one_iff]; norm_num
  have h0 := Real.exp_pos (-(4 / 3) * (1 / 2))
  constructor <;> linarith

/-! ## K80 / K2P -/

/-- under K80 with transition/transversion ratio `κ`: expected transitional proportion
`P(t) = 1/4 − e₁/2 + e₂/4` and transversional proportion `Q(t) = 1/2 − e₂/2` -/
theorem k2p_expected_PQ (κ t : ℝ) :
    expTs uniform (k2pP κ t) = 1 / 4 - 1 / 2 * k2pE1 κ t + 1 / 4 * k2pE2 κ t ∧
    expTv uniform (k2pP κ t) = 1 / 2 - 1 / 2 * k2pE2 κ t := by
  rw [expTs_eq, expTv_eq, expAG, expCT]
  simp only [k2pP_apply, uniform]
  simp [isTransition]
  constructor <;> ring

/-- **K80 inverts its model** (`κ > 0`, every real `t`) -/
theorem k2p_inverts_expected_PQ (κ t : ℝ) (hκ : 0 < κ) :
    k80 (expTs uniform (k2pP κ t)) (expTv uniform (k2pP κ t)) = t := by
  obtain ⟨hP, hQ⟩ := k2p_expected_PQ κ t
  rw [hP, hQ]
  unfold k80
  real_like
  have h1 : 1 - 2 * (1 / 4 - 1 / 2 * k2pE1 κ t + 1 / 4 * k2pE2 κ t) - (1 / 2 - 1 / 2 * k2pE2 κ t) = k2pE1 κ t := by ring
  have h2 : 1 - 2 * (1 / 2 - 1 / 2 * k2pE2 κ t) = k2pE2 κ t := by ring
  rw [h1, h2, k2pE1, k2pE2, Real.log_exp, Real.log_exp]
  have hk : 1 / 2 * κ + 1 ≠ 0 := by positivity
  field_simp
  ring

theorem k2p_inverts_textbook_model (κ t : ℝ) (hκ : 0 < κ) :
    k80 (expTs uniform (NormedSpace.exp (t • k2pQ κ))) (expTv uniform (NormedSpace.exp (t • k2pQ κ))) = t := by
  rw [← k2p_eq_exp_of_rate_matrix κ t hκ]; exact k2p_inverts_expected_PQ κ t hκ

/-- for the estimator code regenerated from `distance/dna/k2p.go` (`t ≥ 0`) -/
theorem k2p_code_inverts_expected_PQ (a n κ t : ℝ) (hn : 0 < n) (hκ : 0 < κ) (ht : 0 ≤ t) :
    Gen.k2pDistance false a (n * expTs uniform (k2pP κ t)) (n * expTv uniform (k2pP κ t)) n = t := by
  obtain ⟨e1, e1', e2, e2', e12⟩ : 0 < k2pE1 κ t ∧ k2pE1 κ t ≤ 1 ∧ 0 < k2pE2 κ t ∧ k2pE2 κ t ≤ 1 ∧
      2 * k2pE1 κ t ≤ 1 + k2pE2 κ t := by
    have h := k2p_entries_in_unit_interval κ t hκ ht
    have hA := h 0 2; have hB := h 0 1; have hC := h 0 0
    simp only [k2pP_apply] at hA hB hC
    simp [isTransition] at hA hB hC
    refine ⟨Real.exp_pos _, ?_, Real.exp_pos _, ?_, ?_⟩ <;> linarith [Real.exp_pos (-2 / (1 / 2 * κ + 1) * t), hA.1, hB.1, hC.2, hA.2, hB.2]
  obtain ⟨hP, hQ⟩ := k2p_expected_PQ κ t
  have hp : ∀ x : ℝ, n * x / n = x := fun x => by field_simp
  rw [C07.k2p_eq_published a _ _ n (by rw [hP]; apply mul_nonneg hn.le; linarith)
    (by rw [hQ]; apply mul_nonneg hn.le; linarith) hn (by rw [hp, hp, hP, hQ]; linarith)
    (by rw [hp, hQ]; linarith), hp, hp]
  exact k2p_inverts_expected_PQ κ t hκ

example : 0 < expTs uniform (k2pP 2 1) ∧ 0 < expTv uniform (k2pP 2 1) := by
  obtain ⟨hP, hQ⟩ := k2p_expected_PQ 2 1
  rw [hP, hQ]
  have h1 : k2pE1 2 1 < 1 := by unfold k2pE1; rw [Real.exp_lt_one_iff]; norm_num
  have h2 : k2pE2 2 1 < 1 := by unfold k2pE2; rw [Real.exp_lt_one_iff]; norm_num
  have h3 : 0 < k2pE2 2 1 := Real.exp_pos _
  have h0 : 0 < k2pE1 2 1 := Real.exp_pos _
  have hx : 2 * k2pE1 2 1 < 1 + k2pE2 2 1 := by
    -- e1 = exp(-3/2), e2 = exp(-1): e1 < e2·1 hence 2 e1 < 1 + e2 via e1 ≤ e2 < 1
    have : k2pE1 2 1 < k2pE2 2 1 := by
      unfold k2pE1 k2pE2; apply Real.exp_lt_exp.mpr; norm_num
    nlinarith
  constructor <;> linarith

/-! ## the Tamura–Nei family (F81 ⊂ F84 ⊂ TN93): one eigenvector system, three eigenvalues

The eigenvectors of the regenerated `F84Model.Eigens` do not involve `κ`; they diagonalise every rate matrix
of the family.  `tnP d₁ d₂ d₃` is `R · diag(1, e^{d₁x}, e^{d₂x}, e^{d₃x}) · L` with these eigenvectors:
`d₁` belongs to the C/T contrast, `d₂` to the A/G contrast, `d₃` to the purine/pyrimidine contrast. -/

/-- base frequencies as a function on the four states -/
noncomputable def freq (a c g t : ℝ) : Fin 4 → ℝ := fun i => pi4 a c g t i.val

noncomputable def tnR (a c g t : ℝ) : Matrix (Fin 4) (Fin 4) ℝ := f84R 0 a c g t
noncomputable def tnL (a c g t : ℝ) : Matrix (Fin 4) (Fin 4) ℝ := f84L 0 a c g t
/-- eigenvalues `0, d₁, d₂, d₃` -/
def tnD (d1 d2 d3 : ℝ) : Fin 4 → ℝ := fun k => ([0, d1, d2, d3] : List ℝ).getD k.val 0

noncomputable def tnP (d1 d2 d3 a c g t x : ℝ) : Matrix (Fin 4) (Fin 4) ℝ :=
  MatrixExp.assembly (tnR a c g t) (tnL a c g t) (tnD d1 d2 d3) x

theorem f84R_indep (κ a c g t : ℝ) : f84R κ a c g t = tnR a c g t := by
  ext i j; fin_cases i <;> fin_cases j <;> simp [tnR, f84R, f84Eig, F84Model_Eigens, F84Model_InitModel]

theorem f84L_indep (κ a c g t : ℝ) : f84L κ a c g t = tnL a c g t := by
  ext i j; fin_cases i <;> fin_cases j <;> simp [tnL, f84L, f84Eig, F84Model_Eigens, F84Model_InitModel]

/-- the expected observables of any member of the family, in closed form -/
theorem tnP_expected (d1 d2 d3 a c g t x : ℝ) (ha : 0 < a) (hc : 0 < c) (hg : 0 < g) (ht : 0 < t) :
    expTv (freq a c g t) (tnP d1 d2 d3 a c g t x) = 2 * (a + g) * (c + t) * (1 - Real.exp (d3 * x)) ∧
    expAG (freq a c g t) (tnP d1 d2 d3 a c g t x)
      = 2 * a * g / (a + g) * ((a + g) + (c + t) * Real.exp (d3 * x) - Real.exp (d2 * x)) ∧
    expCT (freq a c g t) (tnP d1 d2 d3 a c g t x)
      = 2 * c * t / (c + t) * ((c + t) + (a + g) * Real.exp (d3 * x) - Real.exp (d1 * x)) := by
  have hR : a + g ≠ 0 := by positivity
  have hY : t + c ≠ 0 := by positivity
  have hY' : c + t ≠ 0 := by positivity
  have hg' := hg.ne'
  have ht' := ht.ne'
  rw [expTv_eq, expAG, expCT]
  simp only [tnP, MatrixExp.assembly_apply, Fin.sum_univ_four]
  simp [freq, pi4, tnR, tnL, tnD, f84R, f84L, f84Eig, F84Model_Eigens, F84Model_InitModel]
  refine ⟨?_, ?_, ?_⟩ <;> field_simp <;> ring

/-! ## F84 -/

/-- the scaling of `F84Model.Eigens` (`norm` in `models/dna/f84.go`) -/
noncomputable def f84Norm (κ a c g t : ℝ) : ℝ :=
  1 / (1 - a * a - c * c - g * g - t * t + 2 * κ * (c * t / (t + c) + a * g / (a + g)))

/-- the C18 closed form `f84P` (assembled from the regenerated eigen-system) as a member of the family -/
theorem f84P_eq_tnP (κ a c g t x : ℝ) :
    f84P κ a c g t x = tnP (-f84Norm κ a c g t * (1 + κ)) (-f84Norm κ a c g t * (1 + κ)) (-f84Norm κ a c g t) a c g t x := by
  unfold f84P tnP
  rw [f84R_indep, f84L_indep]
  congr 1
  ext k
  fin_cases k <;> simp [f84D, tnD, f84Norm, vecOfList, f84Eig, F84Model_Eigens, F84Model_InitModel]

/-- expected transitional and transversional proportions under F84 -/
theorem f84_expected_PQ (κ a c g t x : ℝ) (ha : 0 < a) (hc : 0 < c) (hg : 0 < g) (ht : 0 < t) :
    expTs (freq a c g t) (f84P κ a c g t x)
      = 2 * a * g / (a + g) * ((a + g) + (c + t) * Real.exp (-f84Norm κ a c g t * x)
          - Real.exp (-f84Norm κ a c g t * (1 + κ) * x))
        + 2 * c * t / (c + t) * ((c + t) + (a + g) * Real.exp (-f84Norm κ a c g t * x)
          - Real.exp (-f84Norm κ a c g t * (1 + κ) * x)) ∧
    expTv (freq a c g t) (f84P κ a c g t x) = 2 * (a + g) * (c + t) * (1 - Real.exp (-f84Norm κ a c g t * x)) := by
  obtain ⟨h1, h2, h3⟩ := tnP_expected (-f84Norm κ a c g t * (1 + κ)) (-f84Norm κ a c g t * (1 + κ))
    (-f84Norm κ a c g t) a c g t x ha hc hg ht
  rw [expTs_eq, f84P_eq_tnP, h1, h2, h3]
  exact ⟨rfl, rfl⟩

/-- the two logarithm arguments of the published F84 formula, evaluated at the expected observables, are the
two exponentials of the model -/
theorem f84_log_args (κ a c g t x : ℝ) (ha : 0 < a) (hc : 0 < c) (hg : 0 < g) (ht : 0 < t)
    (hsum : a + c + g + t = 1) :
    1 - expTs (freq a c g t) (f84P κ a c g t x) / (2 * f84A a c g t)
      - (f84A a c g t - f84B a c g t) * expTv (freq a c g t) (f84P κ a c g t x) / (2 * f84A a c g t * f84C a c g t)
      = Real.exp (-f84Norm κ a c g t * (1 + κ) * x) ∧
    1 - expTv (freq a c g t) (f84P κ a c g t x) / (2 * f84C a c g t) = Real.exp (-f84Norm κ a c g t * x) := by
  obtain ⟨hP, hQ⟩ := f84_expected_PQ κ a c g t x ha hc hg ht
  rw [hP, hQ]
  have hR : a + g ≠ 0 := by positivity
  have hY : c + t ≠ 0 := by positivity
  have hAne : c * t * (a + g) + a * g * (c + t) ≠ 0 := by positivity
  have hRY : a + g + (c + t) = 1 := by linarith
  generalize Real.exp (-f84Norm κ a c g t * (1 + κ) * x) = e1
  generalize Real.exp (-f84Norm κ a c g t * x) = e3
  unfold f84A f84B f84C
  constructor
  · clear hP hQ hsum
    generalize a + g = R at *
    generalize c + t = Y at *
    obtain rfl : Y = 1 - R := by linarith
    have ht' := ht.ne'
    clear hc ha hg hRY
    -- name the denominator of `A` and eliminate `c` in its favour
    obtain ⟨D, hD⟩ : ∃ D, D = c * t * R + a * g * (1 - R) := ⟨_, rfl⟩
    rw [← hD] at hAne
    obtain rfl : c = (D - a * g * (1 - R)) / (t * R) := by rw [hD]; field_simp; ring
    clear hD
    field_simp
    rw [show D - a * g * (1 - R) + a * g * (1 - R) = D by ring]
    field_simp
    ring
  · field_simp; ring

/-- **F84 inverts its model**: the published two-logarithm estimator applied to the expected transitional and
transversional proportions after time `x` returns `x` (`κ ≥ 0`, positive frequencies summing to one) -/
theorem f84_inverts_expected_PQ (κ a c g t x : ℝ) (hκ : 0 ≤ κ) (ha : 0 < a) (hc : 0 < c) (hg : 0 < g) (ht : 0 < t)
    (hsum : a + c + g + t = 1) :
    f84 a c g t (expTs (freq a c g t) (f84P κ a c g t x)) (expTv (freq a c g t) (f84P κ a c g t x)) = x := by
  obtain ⟨h1, h2⟩ := f84_log_args κ a c g t x ha hc hg ht hsum
  unfold f84
  real_like
  rw [h1, h2, Real.log_exp, Real.log_exp, f84Norm]
  unfold f84A f84B f84C
  have hR : a + g ≠ 0 := by positivity
  have hY : c + t ≠ 0 := by positivity
  have hden : 0 < 1 - a * a - c * c - g * g - t * t + 2 * κ * (c * t / (t + c) + a * g / (a + g)) := by
    have h : (a + c + g + t) * (a + c + g + t) = 1 := by rw [hsum]; ring
    have : 1 - a * a - c * c - g * g - t * t = 2 * (a * c + a * g + a * t + c * g + c * t + g * t) := by
      nlinarith [h]
    rw [this]; positivity
  clear h1 h2
  rw [show t + c = c + t from add_comm t c] at hden ⊢
  obtain ⟨A, hA⟩ : ∃ A, A = c * t / (c + t) + a * g / (a + g) := ⟨_, rfl⟩
  obtain ⟨Z, hZ⟩ : ∃ Z, Z = κ * A + (c * t + a * g) + (a + g) * (c + t) := ⟨_, rfl⟩
  have key : 1 - a * a - c * c - g * g - t * t + 2 * κ * (c * t / (c + t) + a * g / (a + g)) = 2 * Z := by
    rw [hZ, hA]; linear_combination (-(a + c + g + t + 1)) * hsum
  rw [key] at hden ⊢
  rw [← hA]
  have hZ0 : Z ≠ 0 := by linarith
  field_simp
  rw [hZ]; ring

/-- against the textbook Markov model: `P(x) = exp(x·Q)`, `Q` the F84 rate matrix of `Spec/SubstModels.lean` -/
theorem f84_inverts_textbook_model (κ a c g t x : ℝ) (hκ : 0 ≤ κ) (ha : 0 < a) (hc : 0 < c) (hg : 0 < g)
    (ht : 0 < t) (hsum : a + c + g + t = 1) :
    f84 a c g t (expTs (freq a c g t) (NormedSpace.exp (x • f84Q κ a c g t)))
      (expTv (freq a c g t) (NormedSpace.exp (x • f84Q κ a c g t))) = x := by
  rw [← (f84_laws κ a c g t hκ ha hc hg ht hsum).1 x]
  exact f84_inverts_expected_PQ κ a c g t x hκ ha hc hg ht hsum

/-- `0 < f84Norm` on the parameter domain -/
theorem f84Norm_pos (κ a c g t : ℝ) (hκ : 0 ≤ κ) (ha : 0 < a) (hc : 0 < c) (hg : 0 < g) (ht : 0 < t)
    (hsum : a + c + g + t = 1) : 0 < f84Norm κ a c g t := by
  unfold f84Norm
  apply one_div_pos.mpr
  have h : (a + c + g + t) * (a + c + g + t) = 1 := by rw [hsum]; ring
  have : 1 - a * a - c * c - g * g - t * t = 2 * (a * c + a * g + a * t + c * g + c * t + g * t) := by
    nlinarith [h]
  rw [this]; positivity

/-- for the estimator code regenerated from `distance/dna/f84.go` (`InitModel` + `Distance`), `x ≥ 0`:
`n` comparable sites with the expected numbers of transitions and transversions -/
theorem f84_code_inverts_expected_PQ (al n κ a c g t x : ℝ) (hn : 0 < n) (hκ : 0 ≤ κ) (ha : 0 < a) (hc : 0 < c)
    (hg : 0 < g) (ht : 0 < t) (hsum : a + c + g + t = 1) (hx : 0 ≤ x) :
    Gen.f84Distance false al (Gen.f84Init a c g t).1 (Gen.f84Init a c g t).2.1 (Gen.f84Init a c g t).2.2
      (n * expTs (freq a c g t) (f84P κ a c g t x)) (n * expTv (freq a c g t) (f84P κ a c g t x)) n = x := by
  have hp : ∀ y : ℝ, n * y / n = y := fun y => by field_simp
  obtain ⟨_, _, _, _, hunit, _⟩ := f84_laws κ a c g t hκ ha hc hg ht hsum
  have hnn : ∀ i j, 0 ≤ freq a c g t i * f84P κ a c g t x i j := fun i j =>
    mul_nonneg (by fin_cases i <;> simp [freq, pi4] <;> linarith) (hunit x hx i j).1
  have hTs : 0 ≤ expTs (freq a c g t) (f84P κ a c g t x) := by
    rw [expTs_eq, expAG, expCT]; linarith [hnn 0 2, hnn 2 0, hnn 1 3, hnn 3 1]
  have hTv : 0 ≤ expTv (freq a c g t) (f84P κ a c g t x) := by
    rw [expTv_eq]; simp only [mul_add]
    linarith [hnn 0 1, hnn 0 3, hnn 1 0, hnn 1 2, hnn 2 1, hnn 2 3, hnn 3 0, hnn 3 2]
  obtain ⟨h1, h2⟩ := f84_log_args κ a c g t x ha hc hg ht hsum
  rw [C07.f84_eq_published al a c g t _ _ n ha hc hg ht hsum (mul_nonneg hn.le hTs) (mul_nonneg hn.le hTv) hn
    (by rw [hp, hp, h1]; exact Real.exp_pos _) (by rw [hp, h2]; exact Real.exp_pos _), hp, hp]
  exact f84_inverts_expected_PQ κ a c g t x hκ ha hc hg ht hsum

example : 0 < expTv (freq (1/10) (2/10) (3/10) (4/10)) (f84P 2 (1/10) (2/10) (3/10) (4/10) 1) := by
  rw [(f84_expected_PQ 2 (1/10) (2/10) (3/10) (4/10) 1 (by norm_num) (by norm_num) (by norm_num) (by norm_num)).2]
  have hN := f84Norm_pos 2 (1/10) (2/10) (3/10) (4/10) (by norm_num) (by norm_num) (by norm_num) (by norm_num)
    (by norm_num) (by norm_num)
  have : Real.exp (-f84Norm 2 (1/10) (2/10) (3/10) (4/10) * 1) < 1 := by rw [Real.exp_lt_one_iff]; linarith
  nlinarith

/-! ## F81 (equal input): F84 with `κ = 0` -/

/-- the F84 exchangeabilities with `κ = 0` are those of F81 -/
theorem exF84_zero (r y : ℝ) : exF84 (0 : ℝ) r y = exF81 := by
  funext i j; simp [exF84, exF81]

/-- the rate matrix regenerated from `F81Model.InitModel` is the textbook F84 matrix at `κ = 0` -/
theorem f81Q_eq_f84Q_zero (a c g t : ℝ) (ha : 0 < a) (hc : 0 < c) (hg : 0 < g) (ht : 0 < t)
    (hsum : a + c + g + t = 1) : f81Q a c g t = f84Q 0 a c g t := by
  rw [f81_Q_eq_textbook a c g t ha hc hg ht hsum, f84Q, exF84_zero]

/-- **closed form of the F81 transition probabilities** (the Go code has none: it decomposes the matrix
numerically).  `exp(x·Q)` for the rate matrix regenerated from `F81Model.InitModel` is
`e^{−x/b} δ_ij + (1 − e^{−x/b}) π_j` with `b = 1 − Σπ²`. -/
theorem f81_P_closed_form (a c g t x : ℝ) (ha : 0 < a) (hc : 0 < c) (hg : 0 < g) (ht : 0 < t)
    (hsum : a + c + g + t = 1) (i j : Fin 4) :
    NormedSpace.exp (x • f81Q a c g t) i j =
      (if i = j then Real.exp (-(x / tajimaNeiB a c g t)) else 0)
        + (1 - Real.exp (-(x / tajimaNeiB a c g t))) * freq a c g t j := by
  rw [f81Q_eq_f84Q_zero a c g t ha hc hg ht hsum, ← (f84_laws 0 a c g t le_rfl ha hc hg ht hsum).1 x, f84P_eq_tnP]
  have hN : -f84Norm 0 a c g t = -(1 / tajimaNeiB a c g t) := by
    unfold f84Norm tajimaNeiB; real_like; congr 2; ring
  have hN1 : -f84Norm 0 a c g t * (1 + 0) = -(1 / tajimaNeiB a c g t) := by rw [hN]; ring
  rw [hN1, hN]
  have he : ∀ k : Fin 4, k ≠ 0 → Real.exp (tnD (-(1 / tajimaNeiB a c g t)) (-(1 / tajimaNeiB a c g t))
      (-(1 / tajimaNeiB a c g t)) k * x) = Real.exp (-(x / tajimaNeiB a c g t)) := by
    intro k hk
    fin_cases k
    · exact absurd rfl hk
    all_goals (simp [tnD]; ring_nf)
  have hR : a + g ≠ 0 := by positivity
  have hY : t + c ≠ 0 := by positivity
  have hg' := hg.ne'
  have ht' := ht.ne'
  simp only [tnP, MatrixExp.assembly_apply, Fin.sum_univ_four]
  rw [he 1 (by decide), he 2 (by decide), he 3 (by decide)]
  generalize Real.exp (-(x / tajimaNeiB a c g t)) = e
  obtain rfl : t = 1 - a - c - g := by linarith
  fin_cases i <;> fin_cases j <;>
    simp [freq, pi4, tnR, tnL, tnD, f84R, f84L, f84Eig, F84Model_Eigens, F84Model_InitModel] <;>
    field_simp <;> ring

theorem tajimaNeiB_pos (a c g t : ℝ) (ha : 0 < a) (hc : 0 < c) (hg : 0 < g) (ht : 0 < t)
    (hsum : a + c + g + t = 1) : 0 < tajimaNeiB a c g t := by
  have h : (a + c + g + t) * (a + c + g + t) = 1 := by rw [hsum]; ring
  have : tajimaNeiB a c g t = 2 * (a * c + a * g + a * t + c * g + c * t + g * t) := by
    unfold tajimaNeiB; real_like; nlinarith [h]
  rw [this]; positivity

/-- under F81 the expected proportion of differing sites after time `x` is `b (1 − e^{−x/b})`, `b = 1 − Σπ²` -/
theorem f81_expected_p (a c g t x : ℝ) (ha : 0 < a) (hc : 0 < c) (hg : 0 < g) (ht : 0 < t)
    (hsum : a + c + g + t = 1) :
    expDiff (freq a c g t) (NormedSpace.exp (x • f81Q a c g t))
      = tajimaNeiB a c g t * (1 - Real.exp (-(x / tajimaNeiB a c g t))) := by
  rw [expDiff_eq]
  simp only [f81_P_closed_form a c g t x ha hc hg ht hsum]
  generalize Real.exp (-(x / tajimaNeiB a c g t)) = e
  unfold tajimaNeiB
  real_like
  simp [freq, pi4]
  obtain rfl : t = 1 - a - c - g := by linarith
  ring

/-- **F81 / Tajima–Nei inverts its model** -/
theorem f81_inverts_expected_p (a c g t x : ℝ) (ha : 0 < a) (hc : 0 < c) (hg : 0 < g) (ht : 0 < t)
    (hsum : a + c + g + t = 1) :
    f81 a c g t (expDiff (freq a c g t) (NormedSpace.exp (x • f81Q a c g t))) = x := by
  rw [f81_expected_p a c g t x ha hc hg ht hsum]
  have hb := (tajimaNeiB_pos a c g t ha hc hg ht hsum).ne'
  unfold f81
  real_like
  have : 1 - tajimaNeiB a c g t * (1 - Real.exp (-(x / tajimaNeiB a c g t))) / tajimaNeiB a c g t
      = Real.exp (-(x / tajimaNeiB a c g t)) := by field_simp; ring
  rw [this, Real.log_exp]
  field_simp

/-- the same for the textbook F81 rate matrix -/
theorem f81_inverts_textbook_model (a c g t x : ℝ) (ha : 0 < a) (hc : 0 < c) (hg : 0 < g) (ht : 0 < t)
    (hsum : a + c + g + t = 1) :
    f81 a c g t (expDiff (freq a c g t) (NormedSpace.exp (x • specQ 4 exF81 (pi4 a c g t)))) = x := by
  rw [← f81_Q_eq_textbook a c g t ha hc hg ht hsum]
  exact f81_inverts_expected_p a c g t x ha hc hg ht hsum

/-- for the estimator code regenerated from `distance/dna/f81.go` (`InitModel` + `Distance`), `x ≥ 0` -/
theorem f81_code_inverts_expected_p (al n a c g t x : ℝ) (hn : 0 < n) (ha : 0 < a) (hc : 0 < c) (hg : 0 < g)
    (ht : 0 < t) (hsum : a + c + g + t = 1) (hx : 0 ≤ x) :
    Gen.f81Distance false al (Gen.f81Init a c g t)
      (n * expDiff (freq a c g t) (NormedSpace.exp (x • f81Q a c g t))) n = x := by
  have hp : ∀ y : ℝ, n * y / n = y := fun y => by field_simp
  have hb := tajimaNeiB_pos a c g t ha hc hg ht hsum
  have he : Real.exp (-(x / tajimaNeiB a c g t)) ≤ 1 :=
    Real.exp_le_one_iff.mpr (by have := div_nonneg hx hb.le; linarith)
  have hE := f81_expected_p a c g t x ha hc hg ht hsum
  rw [C07.f81_eq_published al a c g t _ n (by rw [hE]; exact mul_nonneg hn.le (mul_nonneg hb.le (by linarith))) hn hb
    (by
      rw [hp, hE]
      have : 1 - tajimaNeiB a c g t * (1 - Real.exp (-(x / tajimaNeiB a c g t))) / tajimaNeiB a c g t
          = Real.exp (-(x / tajimaNeiB a c g t)) := by field_simp; ring
      rw [this]; exact Real.exp_pos _), hp]
  exact f81_inverts_expected_p a c g t x ha hc hg ht hsum

example : 0 < expDiff (freq (1/10) (2/10) (3/10) (4/10)) (NormedSpace.exp ((1 : ℝ) • f81Q (1/10) (2/10) (3/10) (4/10))) := by
  rw [f81_expected_p _ _ _ _ _ (by norm_num) (by norm_num) (by norm_num) (by norm_num) (by norm_num)]
  have hb := tajimaNeiB_pos (1/10) (2/10) (3/10) (4/10) (by norm_num) (by norm_num) (by norm_num) (by norm_num) (by norm_num)
  have : Real.exp (-(1 / tajimaNeiB (1/10) (2/10) (3/10) (4/10))) < 1 := by
    rw [Real.exp_lt_one_iff]; have := one_div_pos.mpr hb; linarith
  exact mul_pos hb (by linarith)

/-! ## TN93: a symbolic eigen-system for the regenerated rate matrix

`models/dna/tn93.go` has no closed form: it builds the rate matrix and lets gonum decompose it.  The
eigenvectors of the family with the three eigenvalues below diagonalise the matrix **regenerated from
`TN93Model.InitModel`**, so `exp(x·Q)` is available in closed form. -/

noncomputable def tn93Norm (κ1 κ2 a c g t : ℝ) : ℝ :=
  a * (c + κ1 * g + t) + c * (a + g + κ2 * t) + g * (κ1 * a + c + t) + t * (a + κ2 * c + g)
noncomputable def tn93D1 (κ1 κ2 a c g t : ℝ) : ℝ := -((c + t) * κ2 + (a + g)) / tn93Norm κ1 κ2 a c g t
noncomputable def tn93D2 (κ1 κ2 a c g t : ℝ) : ℝ := -((a + g) * κ1 + (c + t)) / tn93Norm κ1 κ2 a c g t
noncomputable def tn93D3 (κ1 κ2 a c g t : ℝ) : ℝ := -1 / tn93Norm κ1 κ2 a c g t
theorem tn93Norm_pos (κ1 κ2 a c g t : ℝ) (h1 : 0 < κ1) (h2 : 0 < κ2) (ha : 0 < a) (hc : 0 < c) (hg : 0 < g)
    (ht : 0 < t) : 0 < tn93Norm κ1 κ2 a c g t := by unfold tn93Norm; positivity


theorem tn_eigen_LR (a c g t : ℝ) (ha : 0 < a) (hc : 0 < c) (hg : 0 < g) (ht : 0 < t)
    (hsum : a + c + g + t = 1) : tnL a c g t * tnR a c g t = 1 := f84_eigen_LR 0 a c g t ha hc hg ht hsum

/-- the unscaled TN93 rate matrix -/
noncomputable def tn93U (κ1 κ2 a c g t : ℝ) : Matrix (Fin 4) (Fin 4) ℝ :=
  !![-(c + κ1 * g + t), c, κ1 * g, t;
     a, -(a + g + κ2 * t), g, κ2 * t;
     κ1 * a, c, -(κ1 * a + c + t), t;
     a, κ2 * c, g, -(a + κ2 * c + g)]

theorem tn93Q_apply (κ1 κ2 a c g t : ℝ) (h1 : 0 < κ1) (h2 : 0 < κ2) (ha : 0 < a) (hc : 0 < c) (hg : 0 < g)
    (ht : 0 < t) (i j : Fin 4) :
    tn93Q κ1 κ2 a c g t i j = tn93U κ1 κ2 a c g t i j / tn93Norm κ1 κ2 a c g t := by
  have hM := (tn93Norm_pos κ1 κ2 a c g t h1 h2 ha hc hg ht).ne'
  unfold tn93Norm at hM ⊢
  fin_cases i <;> fin_cases j <;>
    simp [tn93Q, TN93Model_InitModel, tn93U] <;>
    (rw [div_eq_div_iff] <;> first | ring1 | exact hM | (intro h; exact hM (by linear_combination h)))

theorem tn93_eigen_RDL (κ1 κ2 a c g t : ℝ) (h1 : 0 < κ1) (h2 : 0 < κ2) (ha : 0 < a) (hc : 0 < c) (hg : 0 < g)
    (ht : 0 < t) (hsum : a + c + g + t = 1) :
    tnR a c g t * diagonal (tnD (tn93D1 κ1 κ2 a c g t) (tn93D2 κ1 κ2 a c g t) (tn93D3 κ1 κ2 a c g t)) * tnL a c g t
      = tn93Q κ1 κ2 a c g t := by
  have hM := (tn93Norm_pos κ1 κ2 a c g t h1 h2 ha hc hg ht).ne'
  have hY : t + c ≠ 0 := by positivity
  have hR : a + g ≠ 0 := by positivity
  have hg' := hg.ne'
  have ht' := ht.ne'
  have ht'' : t = 1 - a - c - g := by linarith
  ext i j
  rw [Matrix.mul_apply, Fin.sum_univ_four, tn93Q_apply κ1 κ2 a c g t h1 h2 ha hc hg ht]
  simp only [Matrix.mul_diagonal, tn93D1, tn93D2, tn93D3]
  generalize tn93Norm κ1 κ2 a c g t = M at *
  fin_cases i <;> fin_cases j <;>
    simp [tnR, tnL, tnD, tn93U, f84L, f84R, f84Eig, F84Model_Eigens, F84Model_InitModel] <;>
    field_simp <;> (subst ht''; ring)

/-- the closed-form TN93 transition matrix -/
noncomputable def tn93P (κ1 κ2 a c g t x : ℝ) : Matrix (Fin 4) (Fin 4) ℝ :=
  tnP (tn93D1 κ1 κ2 a c g t) (tn93D2 κ1 κ2 a c g t) (tn93D3 κ1 κ2 a c g t) a c g t x

/-- `tn93P` is the matrix exponential of the regenerated rate matrix, which is the textbook TN93 matrix -/
theorem tn93P_eq_exp (κ1 κ2 a c g t x : ℝ) (h1 : 0 < κ1) (h2 : 0 < κ2) (ha : 0 < a) (hc : 0 < c) (hg : 0 < g)
    (ht : 0 < t) (hsum : a + c + g + t = 1) :
    tn93P κ1 κ2 a c g t x = NormedSpace.exp (x • tn93Q κ1 κ2 a c g t) ∧
    tn93P κ1 κ2 a c g t x = NormedSpace.exp (x • specQ 4 (exTN93 κ1 κ2) (pi4 a c g t)) := by
  have h := MatrixExp.eigen_assembly_eq_exp (tn_eigen_LR a c g t ha hc hg ht hsum)
    (tn93_eigen_RDL κ1 κ2 a c g t h1 h2 ha hc hg ht hsum) x
  refine ⟨h, ?_⟩
  rw [← tn93_Q_eq_textbook κ1 κ2 a c g t h1 h2 ha hc hg ht hsum]; exact h

/-- with this eigen-system the conditional C18 theorem `tn93_laws_of_eigen_system` applies: every law of
`P(x)` holds for the closed form -/
theorem tn93_closed_form_laws (κ1 κ2 a c g t : ℝ) (h1 : 0 < κ1) (h2 : 0 < κ2) (ha : 0 < a) (hc : 0 < c)
    (hg : 0 < g) (ht : 0 < t) (hsum : a + c + g + t = 1) :
    tn93P κ1 κ2 a c g t 0 = 1 ∧
    (∀ x y, tn93P κ1 κ2 a c g t (x + y) = tn93P κ1 κ2 a c g t x * tn93P κ1 κ2 a c g t y) ∧
    (∀ x i, ∑ j, tn93P κ1 κ2 a c g t x i j = 1) ∧
    (∀ x, 0 ≤ x → ∀ i j, 0 ≤ tn93P κ1 κ2 a c g t x i j ∧ tn93P κ1 κ2 a c g t x i j ≤ 1) ∧
    (∀ x (i j : Fin 4), freq a c g t i * tn93P κ1 κ2 a c g t x i j = freq a c g t j * tn93P κ1 κ2 a c g t x j i) :=
  (tn93_laws_of_eigen_system κ1 κ2 a c g t h1 h2 ha hc hg ht hsum _ _ _ (tn_eigen_LR a c g t ha hc hg ht hsum)
    (tn93_eigen_RDL κ1 κ2 a c g t h1 h2 ha hc hg ht hsum)).2

/-- the three logarithm arguments of the published TN93 formula, evaluated at the expected observables, are
the three exponentials of the model -/
theorem tn93_log_args (κ1 κ2 a c g t x : ℝ) (ha : 0 < a) (hc : 0 < c) (hg : 0 < g) (ht : 0 < t)
    (hsum : a + c + g + t = 1) :
    tn93E1 a c g t (expTv (freq a c g t) (tn93P κ1 κ2 a c g t x)) = Real.exp (tn93D3 κ1 κ2 a c g t * x) ∧
    tn93E2 a c g t (expAG (freq a c g t) (tn93P κ1 κ2 a c g t x)) (expTv (freq a c g t) (tn93P κ1 κ2 a c g t x))
      = Real.exp (tn93D2 κ1 κ2 a c g t * x) ∧
    tn93E3 a c g t (expCT (freq a c g t) (tn93P κ1 κ2 a c g t x)) (expTv (freq a c g t) (tn93P κ1 κ2 a c g t x))
      = Real.exp (tn93D1 κ1 κ2 a c g t * x) := by
  obtain ⟨hv, hag, hct⟩ := tnP_expected (tn93D1 κ1 κ2 a c g t) (tn93D2 κ1 κ2 a c g t) (tn93D3 κ1 κ2 a c g t)
    a c g t x ha hc hg ht
  unfold tn93P
  rw [hv, hag, hct]
  generalize Real.exp (tn93D1 κ1 κ2 a c g t * x) = e1
  generalize Real.exp (tn93D2 κ1 κ2 a c g t * x) = e2
  generalize Real.exp (tn93D3 κ1 κ2 a c g t * x) = e3
  have hR : a + g ≠ 0 := by positivity
  have hY : c + t ≠ 0 := by positivity
  have ha' := ha.ne'
  have hc' := hc.ne'
  have hg' := hg.ne'
  have ht' := ht.ne'
  unfold tn93E1 tn93E2 tn93E3
  real_like
  obtain rfl : t = 1 - a - c - g := by linarith
  refine ⟨?_, ?_, ?_⟩ <;> field_simp <;> ring

/-- **TN93 inverts its model**: the published estimator applied to the expected A↔G, C↔T and transversional
proportions after time `x` returns `x` -/
theorem tn93_inverts_expected (κ1 κ2 a c g t x : ℝ) (h1 : 0 < κ1) (h2 : 0 < κ2) (ha : 0 < a) (hc : 0 < c)
    (hg : 0 < g) (ht : 0 < t) (hsum : a + c + g + t = 1) :
    tn93 a c g t (expAG (freq a c g t) (tn93P κ1 κ2 a c g t x)) (expCT (freq a c g t) (tn93P κ1 κ2 a c g t x))
      (expTv (freq a c g t) (tn93P κ1 κ2 a c g t x)) = x := by
  obtain ⟨e1, e2, e3⟩ := tn93_log_args κ1 κ2 a c g t x ha hc hg ht hsum
  unfold tn93
  real_like
  rw [e1, e2, e3, Real.log_exp, Real.log_exp, Real.log_exp]
  have hM := (tn93Norm_pos κ1 κ2 a c g t h1 h2 ha hc hg ht).ne'
  unfold tn93D1 tn93D2 tn93D3
  have hR : a + g ≠ 0 := by positivity
  have hY : c + t ≠ 0 := by positivity
  field_simp
  unfold tn93Norm
  ring

/-- against the textbook TN93 rate matrix of `Spec/SubstModels.lean` -/
theorem tn93_inverts_textbook_model (κ1 κ2 a c g t x : ℝ) (h1 : 0 < κ1) (h2 : 0 < κ2) (ha : 0 < a) (hc : 0 < c)
    (hg : 0 < g) (ht : 0 < t) (hsum : a + c + g + t = 1) :
    tn93 a c g t (expAG (freq a c g t) (NormedSpace.exp (x • specQ 4 (exTN93 κ1 κ2) (pi4 a c g t))))
      (expCT (freq a c g t) (NormedSpace.exp (x • specQ 4 (exTN93 κ1 κ2) (pi4 a c g t))))
      (expTv (freq a c g t) (NormedSpace.exp (x • specQ 4 (exTN93 κ1 κ2) (pi4 a c g t)))) = x := by
  rw [← (tn93P_eq_exp κ1 κ2 a c g t x h1 h2 ha hc hg ht hsum).2]
  exact tn93_inverts_expected κ1 κ2 a c g t x h1 h2 ha hc hg ht hsum

/-- for the estimator code regenerated from `distance/dna/tn93.go`, `x ≥ 0` (`trS`, the total number of
transitions, is not used by the formula) -/
theorem tn93_code_inverts_expected (al n trS κ1 κ2 a c g t x : ℝ) (hn : 0 < n) (h1 : 0 < κ1) (h2 : 0 < κ2)
    (ha : 0 < a) (hc : 0 < c) (hg : 0 < g) (ht : 0 < t) (hsum : a + c + g + t = 1) (hx : 0 ≤ x) :
    Gen.tn93Distance false al a c g t trS (n * expTv (freq a c g t) (tn93P κ1 κ2 a c g t x))
      (n * expAG (freq a c g t) (tn93P κ1 κ2 a c g t x)) (n * expCT (freq a c g t) (tn93P κ1 κ2 a c g t x)) n = x := by
  have hp : ∀ y : ℝ, n * y / n = y := fun y => by field_simp
  obtain ⟨_, _, _, hunit, _⟩ := tn93_closed_form_laws κ1 κ2 a c g t h1 h2 ha hc hg ht hsum
  have hnn : ∀ i j, 0 ≤ freq a c g t i * tn93P κ1 κ2 a c g t x i j := fun i j =>
    mul_nonneg (by fin_cases i <;> simp [freq, pi4] <;> linarith) (hunit x hx i j).1
  have hAG : 0 ≤ expAG (freq a c g t) (tn93P κ1 κ2 a c g t x) := by rw [expAG]; linarith [hnn 0 2, hnn 2 0]
  have hCT : 0 ≤ expCT (freq a c g t) (tn93P κ1 κ2 a c g t x) := by rw [expCT]; linarith [hnn 1 3, hnn 3 1]
  have hTv : 0 ≤ expTv (freq a c g t) (tn93P κ1 κ2 a c g t x) := by
    rw [expTv_eq]; simp only [mul_add]
    linarith [hnn 0 1, hnn 0 3, hnn 1 0, hnn 1 2, hnn 2 1, hnn 2 3, hnn 3 0, hnn 3 2]
  obtain ⟨e1, e2, e3⟩ := tn93_log_args κ1 κ2 a c g t x ha hc hg ht hsum
  rw [C07.tn93_eq_published al a c g t trS _ _ _ n ha hc hg ht hn (mul_nonneg hn.le hAG) (mul_nonneg hn.le hCT)
    (mul_nonneg hn.le hTv) (by rw [hp, e1]; exact Real.exp_pos _) (by rw [hp, hp, e2]; exact Real.exp_pos _)
    (by rw [hp, hp, e3]; exact Real.exp_pos _), hp, hp, hp]
  exact tn93_inverts_expected κ1 κ2 a c g t x h1 h2 ha hc hg ht hsum

example : 0 < expTv (freq (1/10) (2/10) (3/10) (4/10)) (tn93P 2 3 (1/10) (2/10) (3/10) (4/10) 1) := by
  unfold tn93P
  rw [(tnP_expected _ _ _ (1/10) (2/10) (3/10) (4/10) 1 (by norm_num) (by norm_num) (by norm_num) (by norm_num)).1]
  have hM := tn93Norm_pos 2 3 (1/10) (2/10) (3/10) (4/10) (by norm_num) (by norm_num) (by norm_num) (by norm_num)
    (by norm_num) (by norm_num)
  have : Real.exp (tn93D3 2 3 (1/10) (2/10) (3/10) (4/10) * 1) < 1 := by
    rw [Real.exp_lt_one_iff, tn93D3]
    have := div_pos one_pos hM
    rw [mul_one, neg_div]; linarith
  nlinarith

end Gv.Props.C07Inv
