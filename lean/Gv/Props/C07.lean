import Gv.NumRealD
import Gv.Model.Dist
import Gv.Spec.Published
import Gv.Proofs.DistLemmas
import Gv.Proofs.DistReal
/-!
# C07 — nucleotide distances equal the published estimators and form sane matrices

Part 1 (discrete, for every alignment, by induction over the sites): the pair counters of
`distance/dna/distance.go` are symmetric, vanish on equal rows, treat `nil` weights as unit
weights; the site selection is "every row holds A/C/G/T"; the assembled matrix is symmetric with a
zero diagonal.  Generic in the weight type wherever no arithmetic law is needed.

Part 2 (real-valued): theorems about the estimator code **regenerated from the Go source**
(`Gv.Gen.*Distance`, `Gv.Gen.*Init`, tie T2) evaluated at `ℝ`: equal to the published formulas of
`Spec/Published.lean` on their domain, at least the observed proportion of differences there, zero
without differences.  The proofs do not name the generated text: they hold for the unchanged
source and for the repaired one (guards before the logarithms, clamp in F84).

Part 3 (special values, `FVal`): an undefined estimator never becomes a finite matrix entry —
proved about whatever the regenerated code is, in the form "the code guards its logarithms, or it
is exactly the unchanged code that returns 0 on the saturated witness".

Helper lemmas: `Proofs/DistLemmas.lean` (core-only), `Proofs/DistReal.lean` (Mathlib).
-/
namespace Gv.Props.C07
open Gv Gv.Model.Dist Gv.Proofs.Dist Gv.Proofs.DistReal Gv.Spec.Published
set_option maxRecDepth 100000

/-! ## Part 1 — counters, selection, matrix -/

section discrete
variable {α : Type} [RealLike α]

/-- `countDiffs(seq2, seq1, …) = countDiffs(seq1, seq2, …)` for all rows, selections and weights -/
theorem countDiffs_symmetric (rmAmb : Bool) (s1 s2 : List Code) (sel : List Bool) (ws : Option (List α)) :
    countDiffs rmAmb (sites s2 s1 sel ws) = countDiffs rmAmb (sites s1 s2 sel ws) := by
  rw [sites_swap]
  exact foldl_map_swap _ (diffStep_swap false rmAmb) _ _

/-- the same for `countDiffsWithGaps` -/
theorem countDiffsWithGaps_symmetric (rmAmb : Bool) (s1 s2 : List Code) (sel : List Bool) (ws : Option (List α)) :
    countDiffsWithGaps rmAmb (sites s2 s1 sel ws) = countDiffsWithGaps rmAmb (sites s1 s2 sel ws) := by
  rw [sites_swap]
  exact foldl_map_swap _ (diffStep_swap true rmAmb) _ _

/-- transitions, transversions, A<->G, C<->T and total do not depend on the order of the two rows -/
theorem countMutations_symmetric (s1 s2 : List Code) (sel : List Bool) (ws : Option (List α)) :
    countMutations (sites s2 s1 sel ws) = countMutations (sites s1 s2 sel ws) := by
  rw [sites_swap]
  exact foldl_map_swap _ mutStep_swap _ _

/-- `countDiffsWithInternalGaps` is symmetric whenever the maximum of the two trailing-gap
accumulators does not depend on their order (true over `ℝ`, next theorem; for `float64` it holds
for the non-NaN values that finite positive weights produce).  Both the unchanged counter
(`honour = false`) and the repaired one. -/
theorem countDiffsWithInternalGaps_symmetric_of_max_comm (hmax : ∀ x y : α, maxG x y = maxG y x)
    (honour rmAmb : Bool) (s1 s2 : List Code) (sel : List Bool) (ws : Option (List α)) :
    countDiffsWithInternalGaps honour rmAmb (sites s2 s1 sel ws)
      = countDiffsWithInternalGaps honour rmAmb (sites s1 s2 sel ws) := by
  rw [sites_swap]
  unfold countDiffsWithInternalGaps
  have h0 : (⟨0, 0, true, true, 0, 0⟩ : IG α) = swapIG ⟨0, 0, true, true, 0, 0⟩ := rfl
  rw [h0, ig_foldl_swap]
  simp only [swapIG, hmax ((List.foldl (igStep honour rmAmb) ⟨0, 0, true, true, 0, 0⟩ (sites s1 s2 sel ws)).tmp2)]

/-- two equal rows have no counted difference (`countDiffs`, `countDiffsWithGaps`), whatever the
selection, the weights and the ambiguity mode -/
theorem counters_zero_on_equal_rows (rmAmb : Bool) (s : List Code) (sel : List Bool) (ws : Option (List α)) :
    (countDiffs rmAmb (sites s s sel ws)).1 = 0 ∧ (countDiffsWithGaps rmAmb (sites s s sel ws)).1 = 0 :=
  ⟨countDiffsGen_diag false rmAmb _ (sites_diag s sel ws), countDiffsGen_diag true rmAmb _ (sites_diag s sel ws)⟩

/-- … and no transition, transversion, A<->G or C<->T -/
theorem countMutations_zero_on_equal_rows (s : List Code) (sel : List Bool) (ws : Option (List α)) :
    (countMutations (sites s s sel ws)).transitions = 0 ∧ (countMutations (sites s s sel ws)).transversions = 0 ∧
    (countMutations (sites s s sel ws)).ag = 0 ∧ (countMutations (sites s s sel ws)).ct = 0 :=
  countMutations_diag _ (sites_diag s sel ws)

/-- passing unit weights is the same as passing no weights: the counters see the same sites -/
theorem weights_nil_eq_unit (s1 s2 : List Code) (sel : List Bool) :
    sites s1 s2 sel (some (List.replicate s1.length (1 : α))) = sites s1 s2 sel none :=
  sites_unit s1 s2 sel s1.length (Nat.le_refl _)

/-- the assembled matrix is symmetric: for every model, option set, range mode and variant -/
theorem matrix_symmetric (c : Cfg α) (rows : List Seq) (r1min r1max r2min r2max : Int) (m : List (List α))
    (h : distMatrix c rows r1min r1max r2min r2max = some m) (i j : Nat) (hi : i < rows.length) (hj : j < rows.length) :
    (m.getD i []).getD j 0 = (m.getD j []).getD i 0 := by
  obtain ⟨entries, _, rfl⟩ := distMatrix_shape c rows _ _ _ _ m h
  simp [List.getD, hi, hj, cell_symm c.variant entries i j]

/-- … with a zero diagonal -/
theorem matrix_diag_zero (c : Cfg α) (rows : List Seq) (r1min r1max r2min r2max : Int) (m : List (List α))
    (h : distMatrix c rows r1min r1max r2min r2max = some m) (i : Nat) (hi : i < rows.length) :
    (m.getD i []).getD i 1 = 0 := by
  obtain ⟨entries, hoff, rfl⟩ := distMatrix_shape c rows _ _ _ _ m h
  simp [List.getD, hi, cell_diag c.variant entries i hoff]

end discrete

/-- over the reals the internal-gap counter is symmetric too (unchanged and repaired variant) -/
theorem countDiffsWithInternalGaps_symmetric (honour rmAmb : Bool) (s1 s2 : List Code) (sel : List Bool)
    (ws : Option (List ℝ)) :
    countDiffsWithInternalGaps honour rmAmb (sites s2 s1 sel ws)
      = countDiffsWithInternalGaps honour rmAmb (sites s1 s2 sel ws) := by
  apply countDiffsWithInternalGaps_symmetric_of_max_comm
  intro x y
  unfold maxG
  real_like
  simp only [decide_eq_true_eq]
  split_ifs with h1 h2 h2
  · exact absurd h1 (not_lt.mpr h2.le)
  · rfl
  · rfl
  · linarith

/-- … and it counts no difference between equal rows -/
theorem internalGaps_zero_on_equal_rows (honour rmAmb : Bool) (s : List Code) (sel : List Bool)
    (ws : Option (List ℝ)) : (countDiffsWithInternalGaps honour rmAmb (sites s s sel ws)).1 = 0 := by
  rw [countDiffsWithInternalGaps_diag honour rmAmb _ (sites_diag s sel ws)]
  real_like
  simp

/-- site selection: with gap-site removal a site is selected iff every row holds A, C, G or T
(either case) there; without it every site is selected.  (`nt2index` is regenerated from the source.) -/
theorem selectedSites_spec (rows : List Seq) (rmGaps : Bool) (l : Nat) (hl : l < (rows.headD []).length) :
    (selectedSites rows rmGaps)[l]? = some (!rmGaps || rows.all fun s => isACGT (s.getD l 0)) :=
  selectedSites_get rows rmGaps l hl

/-- non-vacuity (`AC-a` / `ACGt`): a gapped column is dropped, an `acgt` column is kept -/
example : selectedSites [[65, 67, 45, 97], [65, 67, 71, 116]] true = [true, true, false, true] := by decide

/-- non-vacuity: the pairs of the whole matrix and of a range request -/
example : pairList 3 (-1) (-1) (-1) (-1) = some [(0, 1), (0, 2), (1, 2)] := by decide
example : pairList 3 0 1 1 5 = some [(0, 1), (0, 2), (1, 2)] := by decide

/-! ## Part 2 — the regenerated estimators over ℝ

`Gv.Gen.*Distance` is the Go code of the working tree (tie T2).  Every proof below follows one
script that never mentions the generated text: unfold, move to ordinary real arithmetic, normalise
the hypotheses and the goal with `ring_nf` so that a guard `if !(arg > 0)` (repaired source) is
discharged by the domain hypotheses, remove the clamp `if dist > 0` (where the source has one)
with the non-negativity of the published value, finish with `field_simp; ring`. -/

section real
set_option linter.unusedSimpArgs false
set_option linter.unreachableTactic false
set_option linter.unusedTactic false
set_option linter.unusedVariables false

/-- last steps of every proof: remove the clamp (if any) using `0 ≤ published value`, then algebra -/
local macro "est_close" hS:ident : tactic => `(tactic|
  (first
     | refine clamp_congr ?_ $hS
     | skip
   try ring_nf
   try (field_simp; ring)))

/-- guard (if any) and Boolean plumbing -/
local macro "est_guard" "[" hs:Lean.Parser.Tactic.simpLemma,* "]" : tactic => `(tactic|
  try simp only [$hs,*, decide_true, decide_false, Bool.not_true, Bool.not_false, Bool.and_self, Bool.or_self,
    Bool.and_true, Bool.true_and, Bool.or_false, Bool.false_or, Bool.false_eq_true, if_false, if_true,
    decide_eq_true_eq])

/-- JC69: on `0 ≤ p < 3/4` the code computes `-(3/4) ln(1 - 4p/3)` (Jukes & Cantor 1969) -/
theorem jc_eq_published (a d t : ℝ) (hd : 0 ≤ d) (ht : 0 < t) (hp : d / t < 3 / 4) :
    Gen.jcDistance false a d t = jc69 (d / t) := by
  have hp0 : 0 ≤ d / t := div_nonneg hd ht.le
  have hS : 0 ≤ jc69 (d / t) := le_trans hp0 (jcS_ge false one_pos hp)
  have hb : 0 < 1 - 4 / 3 * (d / t) := by linarith
  unfold Gen.jcDistance
  unfold jc69 at *
  real_like at *
  simp only [Bool.false_eq_true, if_false, if_true, decide_eq_true_eq] at *
  all_goals ring_nf at hb hS ⊢
  all_goals est_guard [hb]
  all_goals est_close hS

/-- JC69 with gamma rates (Jin & Nei 1990) -/
theorem jc_gamma_eq_published (a d t : ℝ) (ha : 0 < a) (hd : 0 ≤ d) (ht : 0 < t) (hp : d / t < 3 / 4) :
    Gen.jcDistance true a d t = jc69Gamma a (d / t) := by
  have hp0 : 0 ≤ d / t := div_nonneg hd ht.le
  have hS : 0 ≤ jc69Gamma a (d / t) := le_trans hp0 (jcS_ge true ha hp)
  have hb : 0 < 1 - 4 / 3 * (d / t) := by linarith
  unfold Gen.jcDistance
  unfold jc69Gamma at *
  real_like at *
  simp only [Bool.false_eq_true, if_false, if_true, decide_eq_true_eq] at *
  all_goals ring_nf at hb hS ⊢
  all_goals est_guard [hb]
  all_goals est_close hS

/-- non-vacuity of the JC69 domain: 3 differences out of 10 sites -/
example : (0 : ℝ) ≤ 3 ∧ (0 : ℝ) < 10 ∧ (3 : ℝ) / 10 < 3 / 4 := by norm_num

/-- K2P / K80 (Kimura 1980) on its domain `1 - 2P - Q > 0`, `1 - 2Q > 0` -/
theorem k2p_eq_published (a trS trV t : ℝ) (hP : 0 ≤ trS) (hQ : 0 ≤ trV) (ht : 0 < t)
    (h1 : 0 < 1 - 2 * (trS / t) - trV / t) (h2 : 0 < 1 - 2 * (trV / t)) :
    Gen.k2pDistance false a trS trV t = k80 (trS / t) (trV / t) := by
  have hP0 : 0 ≤ trS / t := div_nonneg hP ht.le
  have hQ0 : 0 ≤ trV / t := div_nonneg hQ ht.le
  have hS : 0 ≤ k80 (trS / t) (trV / t) := le_trans (by linarith) (k80S_ge false one_pos h1 h2)
  unfold Gen.k2pDistance
  unfold k80 at *
  real_like at *
  simp only [Bool.false_eq_true, if_false, if_true, decide_eq_true_eq] at *
  all_goals ring_nf at h1 h2 hS ⊢
  all_goals est_guard [h1, h2]
  all_goals est_close hS

/-- K2P with gamma rates -/
theorem k2p_gamma_eq_published (a trS trV t : ℝ) (ha : 0 < a) (hP : 0 ≤ trS) (hQ : 0 ≤ trV) (ht : 0 < t)
    (h1 : 0 < 1 - 2 * (trS / t) - trV / t) (h2 : 0 < 1 - 2 * (trV / t)) :
    Gen.k2pDistance true a trS trV t = k80Gamma a (trS / t) (trV / t) := by
  have hP0 : 0 ≤ trS / t := div_nonneg hP ht.le
  have hQ0 : 0 ≤ trV / t := div_nonneg hQ ht.le
  have hS : 0 ≤ k80Gamma a (trS / t) (trV / t) := le_trans (by linarith) (k80S_ge true ha h1 h2)
  unfold Gen.k2pDistance
  unfold k80Gamma at *
  real_like at *
  simp only [Bool.false_eq_true, if_false, if_true, decide_eq_true_eq] at *
  all_goals ring_nf at h1 h2 hS ⊢
  all_goals est_guard [h1, h2]
  all_goals est_close hS

/-- F81 (Tajima & Nei 1984): `InitModel`'s `b1` is `1 - Σ πi²` and `Distance` is `-b ln(1 - p/b)` -/
theorem f81_eq_published (a πA πC πG πT d t : ℝ) (hd : 0 ≤ d) (ht : 0 < t)
    (hb : 0 < tajimaNeiB πA πC πG πT) (h1 : 0 < 1 - d / t / tajimaNeiB πA πC πG πT) :
    Gen.f81Distance false a (Gen.f81Init πA πC πG πT) d t = f81 πA πC πG πT (d / t) := by
  have hp0 : 0 ≤ d / t := div_nonneg hd ht.le
  have hS : 0 ≤ f81 πA πC πG πT (d / t) := le_trans hp0 (f81S_ge false one_pos hb h1)
  unfold Gen.f81Distance Gen.f81Init
  unfold f81 tajimaNeiB at *
  real_like at *
  simp only [Bool.false_eq_true, if_false, if_true, decide_eq_true_eq] at *
  all_goals ring_nf at h1 hS ⊢
  all_goals est_guard [h1]
  all_goals est_close hS

/-- F81 with gamma rates -/
theorem f81_gamma_eq_published (a πA πC πG πT d t : ℝ) (ha : 0 < a) (hd : 0 ≤ d) (ht : 0 < t)
    (hb : 0 < tajimaNeiB πA πC πG πT) (h1 : 0 < 1 - d / t / tajimaNeiB πA πC πG πT) :
    Gen.f81Distance true a (Gen.f81Init πA πC πG πT) d t = f81Gamma a πA πC πG πT (d / t) := by
  have hp0 : 0 ≤ d / t := div_nonneg hd ht.le
  have hS : 0 ≤ f81Gamma a πA πC πG πT (d / t) := le_trans hp0 (f81S_ge true ha hb h1)
  unfold Gen.f81Distance Gen.f81Init
  unfold f81Gamma tajimaNeiB at *
  real_like at *
  simp only [Bool.false_eq_true, if_false, if_true, decide_eq_true_eq] at *
  all_goals ring_nf at h1 hS ⊢
  all_goals est_guard [h1]
  all_goals est_close hS

/-- F84 (Felsenstein 1984 as in PHYLIP's dnadist): `InitModel`'s `a, b, c` are the published `A, B, C`
and `Distance` is the published two-logarithm formula.  (`Σπ = 1` is only used to know that the
published value is non-negative, which matters once the source clamps negative rounding noise.) -/
theorem f84_eq_published (a πA πC πG πT trS trV t : ℝ) (hA : 0 < πA) (hC : 0 < πC) (hG : 0 < πG) (hT : 0 < πT)
    (hsum : πA + πC + πG + πT = 1) (hP : 0 ≤ trS) (hQ : 0 ≤ trV) (ht : 0 < t)
    (h1 : 0 < 1 - trS / t / (2 * f84A πA πC πG πT)
            - (f84A πA πC πG πT - f84B πA πC πG πT) * (trV / t) / (2 * f84A πA πC πG πT * f84C πA πC πG πT))
    (h2 : 0 < 1 - trV / t / (2 * f84C πA πC πG πT)) :
    Gen.f84Distance false a (Gen.f84Init πA πC πG πT).1 (Gen.f84Init πA πC πG πT).2.1 (Gen.f84Init πA πC πG πT).2.2
      trS trV t = f84 πA πC πG πT (trS / t) (trV / t) := by
  have hP0 : 0 ≤ trS / t := div_nonneg hP ht.le
  have hQ0 : 0 ≤ trV / t := div_nonneg hQ ht.le
  have hS : 0 ≤ f84 πA πC πG πT (trS / t) (trV / t) :=
    le_trans (by linarith) (f84S_ge false one_pos hA hC hG hT hsum h1 h2)
  have hR : πA + πG ≠ 0 := by positivity
  have hY : πC + πT ≠ 0 := by positivity
  have hAne : πC * πT * (πA + πG) + πA * πG * (πC + πT) ≠ 0 := by positivity
  have htne : t ≠ 0 := ne_of_gt ht
  unfold Gen.f84Distance Gen.f84Init
  unfold f84 f84A f84B f84C at *
  real_like at *
  simp only [Bool.false_eq_true, if_false, if_true, decide_eq_true_eq] at *
  all_goals ring_nf at h1 h2 hS ⊢
  all_goals est_guard [h1, h2]
  all_goals est_close hS

/-- F84 with gamma rates -/
theorem f84_gamma_eq_published (a πA πC πG πT trS trV t : ℝ) (ha : 0 < a)
    (hA : 0 < πA) (hC : 0 < πC) (hG : 0 < πG) (hT : 0 < πT)
    (hsum : πA + πC + πG + πT = 1) (hP : 0 ≤ trS) (hQ : 0 ≤ trV) (ht : 0 < t)
    (h1 : 0 < 1 - trS / t / (2 * f84A πA πC πG πT)
            - (f84A πA πC πG πT - f84B πA πC πG πT) * (trV / t) / (2 * f84A πA πC πG πT * f84C πA πC πG πT))
    (h2 : 0 < 1 - trV / t / (2 * f84C πA πC πG πT)) :
    Gen.f84Distance true a (Gen.f84Init πA πC πG πT).1 (Gen.f84Init πA πC πG πT).2.1 (Gen.f84Init πA πC πG πT).2.2
      trS trV t = f84Gamma a πA πC πG πT (trS / t) (trV / t) := by
  have hP0 : 0 ≤ trS / t := div_nonneg hP ht.le
  have hQ0 : 0 ≤ trV / t := div_nonneg hQ ht.le
  have hS : 0 ≤ f84Gamma a πA πC πG πT (trS / t) (trV / t) :=
    le_trans (by linarith) (f84S_ge true ha hA hC hG hT hsum h1 h2)
  have hR : πA + πG ≠ 0 := by positivity
  have hY : πC + πT ≠ 0 := by positivity
  have hAne : πC * πT * (πA + πG) + πA * πG * (πC + πT) ≠ 0 := by positivity
  have htne : t ≠ 0 := ne_of_gt ht
  unfold Gen.f84Distance Gen.f84Init
  unfold f84Gamma f84A f84B f84C at *
  real_like at *
  simp only [Bool.false_eq_true, if_false, if_true, decide_eq_true_eq] at *
  all_goals ring_nf at h1 h2 hS ⊢
  all_goals est_guard [h1, h2]
  all_goals est_close hS

/-- TN93 (Tamura & Nei 1993, eq. 7) on its domain, for positive base frequencies -/
theorem tn93_eq_published (a πA πC πG πT trS trV p1 p2 t : ℝ)
    (hA : 0 < πA) (hC : 0 < πC) (hG : 0 < πG) (hT : 0 < πT)
    (ht : 0 < t) (h1 : 0 ≤ p1) (h2 : 0 ≤ p2) (hv : 0 ≤ trV)
    (he1 : 0 < tn93E1 πA πC πG πT (trV / t)) (he2 : 0 < tn93E2 πA πC πG πT (p1 / t) (trV / t))
    (he3 : 0 < tn93E3 πA πC πG πT (p2 / t) (trV / t)) :
    Gen.tn93Distance false a πA πC πG πT trS trV p1 p2 t = tn93 πA πC πG πT (p1 / t) (p2 / t) (trV / t) := by
  have hS : 0 ≤ tn93 πA πC πG πT (p1 / t) (p2 / t) (trV / t) := by
    rw [tn93S_eq_nl 1]
    have := tn93_combo_ge false one_pos hA hC hG hT he1 he2 he3
    have : 0 ≤ p1 / t + p2 / t + trV / t := by positivity
    linarith
  have hR : πA + πG ≠ 0 := by positivity
  have hY : πC + πT ≠ 0 := by positivity
  have hsum' : πA * πG + πC * πT ≠ 0 := by positivity
  unfold Gen.tn93Distance
  unfold tn93 tn93E1 tn93E2 tn93E3 at *
  real_like at *
  simp only [Bool.false_eq_true, if_false, if_true, decide_eq_true_eq] at *
  all_goals ring_nf at he1 he2 he3 hS ⊢
  all_goals est_guard [he1, he2, he3]
  all_goals est_close hS

/-- TN93 with gamma rates (the constant term of the published form uses `Σπ = 1`) -/
theorem tn93_gamma_eq_published (a πA πC πG πT trS trV p1 p2 t : ℝ) (ha : 0 < a)
    (hA : 0 < πA) (hC : 0 < πC) (hG : 0 < πG) (hT : 0 < πT) (hsum : πA + πC + πG + πT = 1)
    (ht : 0 < t) (h1 : 0 ≤ p1) (h2 : 0 ≤ p2) (hv : 0 ≤ trV)
    (he1 : 0 < tn93E1 πA πC πG πT (trV / t)) (he2 : 0 < tn93E2 πA πC πG πT (p1 / t) (trV / t))
    (he3 : 0 < tn93E3 πA πC πG πT (p2 / t) (trV / t)) :
    Gen.tn93Distance true a πA πC πG πT trS trV p1 p2 t = tn93Gamma a πA πC πG πT (p1 / t) (p2 / t) (trV / t) := by
  have hR : πA + πG ≠ 0 := by positivity
  have hY : πC + πT ≠ 0 := by positivity
  rw [tn93GammaS_eq_nl a _ _ _ _ _ _ _ hR hY hsum]
  have hS : 0 ≤ tnK1 πA πG * nl true a (tn93E2 πA πC πG πT (p1 / t) (trV / t))
      + tnK2 πC πT * nl true a (tn93E3 πA πC πG πT (p2 / t) (trV / t))
      + tnK3 πA πC πG πT * nl true a (tn93E1 πA πC πG πT (trV / t)) := by
    have := tn93_combo_ge true ha hA hC hG hT he1 he2 he3
    have : 0 ≤ p1 / t + p2 / t + trV / t := by positivity
    linarith
  have hsum' : πA * πG + πC * πT ≠ 0 := by positivity
  unfold Gen.tn93Distance
  unfold nl tnK1 tnK2 tnK3 tn93E1 tn93E2 tn93E3 at *
  real_like at *
  simp only [Bool.false_eq_true, if_false, if_true, decide_eq_true_eq] at *
  all_goals ring_nf at he1 he2 he3 hS ⊢
  all_goals est_guard [he1, he2, he3]
  all_goals est_close hS

/-! ### every finite corrected distance is at least the observed proportion of differences -/

theorem jc_ge_pdist (g : Bool) (a d t : ℝ) (ha : 0 < a) (hd : 0 ≤ d) (ht : 0 < t) (hp : d / t < 3 / 4) :
    d / t ≤ Gen.jcDistance g a d t := by
  cases g
  · rw [jc_eq_published a d t hd ht hp]; simpa using jcS_ge false ha hp
  · rw [jc_gamma_eq_published a d t ha hd ht hp]; simpa using jcS_ge true ha hp

theorem k2p_ge_pdist (g : Bool) (a trS trV t : ℝ) (ha : 0 < a) (hP : 0 ≤ trS) (hQ : 0 ≤ trV) (ht : 0 < t)
    (h1 : 0 < 1 - 2 * (trS / t) - trV / t) (h2 : 0 < 1 - 2 * (trV / t)) :
    trS / t + trV / t ≤ Gen.k2pDistance g a trS trV t := by
  cases g
  · rw [k2p_eq_published a trS trV t hP hQ ht h1 h2]; simpa using k80S_ge false ha h1 h2
  · rw [k2p_gamma_eq_published a trS trV t ha hP hQ ht h1 h2]; simpa using k80S_ge true ha h1 h2

theorem f81_ge_pdist (g : Bool) (a πA πC πG πT d t : ℝ) (ha : 0 < a) (hd : 0 ≤ d) (ht : 0 < t)
    (hb : 0 < tajimaNeiB πA πC πG πT) (h1 : 0 < 1 - d / t / tajimaNeiB πA πC πG πT) :
    d / t ≤ Gen.f81Distance g a (Gen.f81Init πA πC πG πT) d t := by
  cases g
  · rw [f81_eq_published a πA πC πG πT d t hd ht hb h1]; simpa using f81S_ge false ha hb h1
  · rw [f81_gamma_eq_published a πA πC πG πT d t ha hd ht hb h1]; simpa using f81S_ge true ha hb h1

theorem f84_ge_pdist (g : Bool) (a πA πC πG πT trS trV t : ℝ) (ha : 0 < a)
    (hA : 0 < πA) (hC : 0 < πC) (hG : 0 < πG) (hT : 0 < πT)
    (hsum : πA + πC + πG + πT = 1) (hP : 0 ≤ trS) (hQ : 0 ≤ trV) (ht : 0 < t)
    (h1 : 0 < 1 - trS / t / (2 * f84A πA πC πG πT)
            - (f84A πA πC πG πT - f84B πA πC πG πT) * (trV / t) / (2 * f84A πA πC πG πT * f84C πA πC πG πT))
    (h2 : 0 < 1 - trV / t / (2 * f84C πA πC πG πT)) :
    trS / t + trV / t ≤ Gen.f84Distance g a (Gen.f84Init πA πC πG πT).1 (Gen.f84Init πA πC πG πT).2.1
      (Gen.f84Init πA πC πG πT).2.2 trS trV t := by
  cases g
  · rw [f84_eq_published a πA πC πG πT trS trV t hA hC hG hT hsum hP hQ ht h1 h2]
    simpa using f84S_ge false ha hA hC hG hT hsum h1 h2
  · rw [f84_gamma_eq_published a πA πC πG πT trS trV t ha hA hC hG hT hsum hP hQ ht h1 h2]
    simpa using f84S_ge true ha hA hC hG hT hsum h1 h2

theorem tn93_ge_pdist (g : Bool) (a πA πC πG πT trS trV p1 p2 t : ℝ) (ha : 0 < a)
    (hA : 0 < πA) (hC : 0 < πC) (hG : 0 < πG) (hT : 0 < πT) (hsum : πA + πC + πG + πT = 1)
    (ht : 0 < t) (h1 : 0 ≤ p1) (h2 : 0 ≤ p2) (hv : 0 ≤ trV)
    (he1 : 0 < tn93E1 πA πC πG πT (trV / t)) (he2 : 0 < tn93E2 πA πC πG πT (p1 / t) (trV / t))
    (he3 : 0 < tn93E3 πA πC πG πT (p2 / t) (trV / t)) :
    p1 / t + p2 / t + trV / t ≤ Gen.tn93Distance g a πA πC πG πT trS trV p1 p2 t := by
  have hR : πA + πG ≠ 0 := by positivity
  have hY : πC + πT ≠ 0 := by positivity
  cases g
  · rw [tn93_eq_published a πA πC πG πT trS trV p1 p2 t hA hC hG hT ht h1 h2 hv he1 he2 he3, tn93S_eq_nl a]
    exact tn93_combo_ge false ha hA hC hG hT he1 he2 he3
  · rw [tn93_gamma_eq_published a πA πC πG πT trS trV p1 p2 t ha hA hC hG hT hsum ht h1 h2 hv he1 he2 he3,
      tn93GammaS_eq_nl a _ _ _ _ _ _ _ hR hY hsum]
    exact tn93_combo_ge true ha hA hC hG hT he1 he2 he3

/-- non-vacuity of the F84 / TN93 domains: equal frequencies, one transition and one transversion in ten sites -/
example : (0 : ℝ) < tn93E1 (1/4) (1/4) (1/4) (1/4) (1/10) ∧ (0 : ℝ) < tn93E2 (1/4) (1/4) (1/4) (1/4) (1/10) (1/10) ∧
    (0 : ℝ) < tn93E3 (1/4) (1/4) (1/4) (1/4) 0 (1/10) := by
  unfold tn93E1 tn93E2 tn93E3
  real_like
  norm_num

/-! ### no counted difference ⇒ distance 0 (every model, with and without gamma, any parameters) -/

theorem estimator_zero_of_no_difference (g : Bool) (a t b A B C πA πC πG πT trS : ℝ) :
    Gen.jcDistance g a 0 t = 0 ∧ Gen.k2pDistance g a 0 0 t = 0 ∧ Gen.f81Distance g a b 0 t = 0 ∧
    Gen.f84Distance g a A B C 0 0 t = 0 ∧ Gen.tn93Distance g a πA πC πG πT trS 0 0 0 t = 0 ∧
    Gen.pdistDistance (0 : ℝ) t = 0 ∧ Gen.rawdistDistance (0 : ℝ) = 0 := by
  refine ⟨?_, ?_, ?_, ?_, ?_, ?_, ?_⟩
  · unfold Gen.jcDistance; real_like; cases g <;> simp
  · unfold Gen.k2pDistance; real_like; cases g <;> simp <;> norm_num
  · unfold Gen.f81Distance; real_like; cases g <;> simp
  · unfold Gen.f84Distance; real_like; cases g <;> simp <;> ring_nf
  · unfold Gen.tn93Distance; real_like; cases g <;> simp
  · unfold Gen.pdistDistance; real_like; simp
  · unfold Gen.rawdistDistance; rfl

end real

/-! ## Part 3 — undefined estimators (IEEE special values, `FVal`)

`Gv.Gen.*Distance` evaluated at `FVal`: counts are finite non-negative reals, `log` of a negative
number and `0/0` are NaN, `x/0` is an infinity, comparisons with NaN are false.  The estimator of a
pair is *undefined* when no site is comparable (`total = 0`) or a logarithm argument is not
positive.  `Safe v`: the value cannot end up as a finite entry of the matrix — NaN stays NaN, and
what `DistMatrix` flags (negative, `+Inf`, above `NT_DIST_OVER`) is replaced by the substitute.

The unchanged jc.go / f81.go / tn93.go end with `if dist > 0 { return dist } else { return 0 }`,
which turns NaN into 0: for them the property is **false**, and the second disjunct of the
`…_or_witness` theorems is the proof of that (`AAAA` vs `CCCC`: 4 differences on 4 sites ↦ 0).
Once the source guards its logarithm (`if !(arg > 0) { return +Inf }`) the first disjunct — the
property for all inputs — is what gets proved.  Any third behaviour breaks the theorem. -/

section special
open FVal
set_option linter.unusedSimpArgs false
set_option linter.unreachableTactic false
set_option linter.unusedTactic false
set_option linter.unusedVariables false

/-- the value cannot become a finite matrix entry -/
def Safe (v : FVal) : Prop := v = FVal.nan ∨ isUncomputable v = true

theorem safe_pinf : Safe FVal.pinf := by
  right
  unfold isUncomputable
  simp

/-- the unchanged code is *not* safe: 0 is an accepted entry -/
theorem not_safe_zero : ¬ Safe (FVal.fin 0) := by
  intro h
  rcases h with h | h
  · exact FVal.noConfusion h
  · have h100 : Gen.c_NT_DIST_OVER.toNat = 100000 := by decide
    unfold isUncomputable ntDistOver at h
    rw [h100] at h
    simp at h
    norm_num at h

/-- JC69 (with and without gamma): saturation (`p ≥ 3/4`) or no comparable site never gives a finite
entry — or the source is the unchanged one, which returns 0 for `AAAA` vs `CCCC` -/
theorem jc_undefined_never_small_or_witness :
    (∀ (g : Bool) (a d t : ℝ), 0 < a → 0 ≤ d → 0 ≤ t → (t = 0 ∨ 3 / 4 ≤ d / t) →
        Safe (Gen.jcDistance g (fin a) (fin d) (fin t)))
    ∨ Gen.jcDistance false (fin 1) (fin 4) (fin 4) = fin 0 := by
  first
    | (right
       unfold Gen.jcDistance
       simp only [FVal.ofNat_eq, Nat.cast_ofNat, Nat.cast_one, Nat.cast_zero]
       norm_num
       done)
    | (left
       intro g a d t _ hd ht hu
       suffices h : Gen.jcDistance g (fin a) (fin d) (fin t) = pinf by rw [h]; exact safe_pinf
       unfold Gen.jcDistance
       simp only [FVal.ofNat_eq, Nat.cast_ofNat, Nat.cast_one, Nat.cast_zero]
       rcases eq_or_lt_of_le ht with h0 | hpos
       · subst h0
         rcases eq_or_lt_of_le hd with hd0 | hdpos
         · subst hd0
           simp
         · simp [hdpos]
       · have hne : t ≠ 0 := ne_of_gt hpos
         have hu' : 3 / 4 ≤ d / t := by
           rcases hu with h | h
           · exact absurd h hne
           · exact h
         have : ¬ (0 < 1 - 4 * (d / t) / 3) := by linarith
         simp [hne, this])

/-- F81 (with and without gamma): `p ≥ b`, a single base in the alignment (`b = 0`) or no comparable
site never gives a finite entry — or the source is the unchanged one (witness: 4 differences on 4
sites with `b = 3/4` ↦ 0) -/
theorem f81_undefined_never_small_or_witness :
    (∀ (g : Bool) (a b d t : ℝ), 0 < a → 0 ≤ b → 0 ≤ d → 0 ≤ t → (t = 0 ∨ b = 0 ∨ b ≤ d / t) →
        Safe (Gen.f81Distance g (fin a) (fin b) (fin d) (fin t)))
    ∨ Gen.f81Distance false (fin 1) (fin (3 / 4)) (fin 4) (fin 4) = fin 0 := by
  first
    | (right
       unfold Gen.f81Distance
       simp only [FVal.ofNat_eq, Nat.cast_ofNat, Nat.cast_one, Nat.cast_zero]
       norm_num
       done)
    | (left
       intro g a b d t _ hb hd ht hu
       suffices h : Gen.f81Distance g (fin a) (fin b) (fin d) (fin t) = pinf by rw [h]; exact safe_pinf
       unfold Gen.f81Distance
       simp only [FVal.ofNat_eq, Nat.cast_ofNat, Nat.cast_one, Nat.cast_zero]
       rcases eq_or_lt_of_le ht with h0 | hpos
       · subst h0
         rcases eq_or_lt_of_le hd with hd0 | hdpos
         · subst hd0
           simp
         · rcases eq_or_lt_of_le hb with hb0 | hbpos
           · subst hb0; simp [hdpos]
           · simp [hdpos, hbpos.le]
       · have hne : t ≠ 0 := ne_of_gt hpos
         have hp0 : 0 ≤ d / t := div_nonneg hd ht
         rcases eq_or_lt_of_le hb with hb0 | hbpos
         · subst hb0
           rcases eq_or_lt_of_le hp0 with hp | hp
           · simp [hne, ← hp]
           · simp [hne, hp]
         · have hbne : b ≠ 0 := ne_of_gt hbpos
           have hu' : b ≤ d / t := by
             rcases hu with h | h | h
             · exact absurd h hne
             · exact absurd h hbne
             · exact h
           have : ¬ (0 < 1 - d / t / b) := by
             rw [not_lt, sub_nonpos, le_div_iff₀ hbpos]
             linarith
           simp [hne, hbne, this])

/-- K2P (with and without gamma): `1 - 2P - Q ≤ 0`, `1 - 2Q ≤ 0` or no comparable site never gives a
finite entry — or the source is the unchanged one, whose gamma variant raises the negative
argument to an integer power (witness: 4 transitions on 4 sites, alpha = 1/2: `pow(-1, -2) = 1` ↦ 0) -/
theorem k2p_undefined_never_small_or_witness :
    (∀ (g : Bool) (a trS trV t : ℝ), 0 < a → 0 ≤ trS → 0 ≤ trV → 0 ≤ t →
        (t = 0 ∨ 1 - 2 * (trS / t) - trV / t ≤ 0 ∨ 1 - 2 * (trV / t) ≤ 0) →
        Safe (Gen.k2pDistance g (fin a) (fin trS) (fin trV) (fin t)))
    ∨ Gen.k2pDistance true (fin (1 / 2)) (fin 4) (fin 0) (fin 4) = fin 0 := by
  first
    | (right
       unfold Gen.k2pDistance
       simp only [FVal.ofNat_eq, Nat.cast_ofNat, Nat.cast_one, Nat.cast_zero]
       have e1 : (fin 4 / fin 4 : FVal) = fin 1 := by rw [FVal.div_fin_ne (by norm_num)]; norm_num
       have e2 : (fin 0 / fin 4 : FVal) = fin 0 := by rw [FVal.div_fin_ne (by norm_num)]; norm_num
       have e3 : (-(fin 1) / fin (1 / 2) : FVal) = fin (-2) := by
         rw [FVal.neg_fin, FVal.div_fin_ne (by norm_num)]; norm_num
       simp only [e1, e2, e3, FVal.mul_fin, FVal.sub_fin, FVal.add_fin]
       norm_num
       rw [FVal.pow_neg_one_neg_two, FVal.pow_one_base _ (by norm_num)]
       simp
       norm_num
       done)
    | (left
       intro g a trS trV t _ hP hQ ht hu
       suffices h : Gen.k2pDistance g (fin a) (fin trS) (fin trV) (fin t) = pinf by rw [h]; exact safe_pinf
       unfold Gen.k2pDistance
       simp only [FVal.ofNat_eq, Nat.cast_ofNat, Nat.cast_one, Nat.cast_zero]
       rcases eq_or_lt_of_le ht with h0 | hpos
       · subst h0
         rcases eq_or_lt_of_le hP with hP0 | hPpos
         · subst hP0
           simp
         · rcases eq_or_lt_of_le hQ with hQ0 | hQpos
           · subst hQ0; simp [hPpos]
           · simp [hPpos, hQpos]
       · have hne : t ≠ 0 := ne_of_gt hpos
         have hu' : 1 - 2 * (trS / t) - trV / t ≤ 0 ∨ 1 - 2 * (trV / t) ≤ 0 := by
           rcases hu with h | h | h
           · exact absurd h hne
           · exact Or.inl h
           · exact Or.inr h
         rcases hu' with h | h
         · have : ¬ (0 < 1 - 2 * (trS / t) - trV / t) := not_lt.mpr h
           simp [hne, this]
         · have : ¬ (0 < 1 - 2 * (trV / t)) := not_lt.mpr h
           simp [hne, this])

/-- TN93 (with and without gamma), positive base frequencies: a non-positive logarithm argument or no
comparable site never gives a finite entry — or the source is the unchanged one (witness: equal
frequencies, 4 A<->G differences on 4 sites: `e2 = -3`, NaN, clamped to 0) -/
theorem tn93_undefined_never_small_or_witness :
    (∀ (g : Bool) (a πA πC πG πT trS trV p1 p2 t : ℝ), 0 < a → 0 < πA → 0 < πC → 0 < πG → 0 < πT →
        0 ≤ trV → 0 ≤ p1 → 0 ≤ p2 → 0 ≤ t →
        (t = 0 ∨ tn93E1 πA πC πG πT (trV / t) ≤ 0 ∨ tn93E2 πA πC πG πT (p1 / t) (trV / t) ≤ 0
          ∨ tn93E3 πA πC πG πT (p2 / t) (trV / t) ≤ 0) →
        Safe (Gen.tn93Distance g (fin a) (fin πA) (fin πC) (fin πG) (fin πT) (fin trS) (fin trV) (fin p1) (fin p2) (fin t)))
    ∨ Gen.tn93Distance false (fin 1) (fin (1 / 4)) (fin (1 / 4)) (fin (1 / 4)) (fin (1 / 4))
        (fin 4) (fin 0) (fin 4) (fin 0) (fin 4) = fin 0 := by
  first
    | (right
       unfold Gen.tn93Distance
       simp only [FVal.ofNat_eq, Nat.cast_ofNat, Nat.cast_one, Nat.cast_zero, Bool.false_eq_true, if_false]
       norm_num [FVal.div_fin_ne]
       done)
    | (left
       intro g a πA πC πG πT trS trV p1 p2 t _ hA hC hG hT hv _ _ ht hu
       suffices h : Gen.tn93Distance g (fin a) (fin πA) (fin πC) (fin πG) (fin πT) (fin trS) (fin trV) (fin p1)
           (fin p2) (fin t) = pinf by rw [h]; exact safe_pinf
       have hR : πA + πG ≠ 0 := by positivity
       have hY : πC + πT ≠ 0 := by positivity
       have hRY : 2 * (πC + πT) * (πA + πG) ≠ 0 := by positivity
       have hR2 : 2 * (πA + πG) ≠ 0 := by positivity
       have hY2 : 2 * (πC + πT) ≠ 0 := by positivity
       have hAG : 2 * (πA * πG) ≠ 0 := by positivity
       have hCT : 2 * (πC * πT) ≠ 0 := by positivity
       have hRYp : 0 ≤ 2 * (πC + πT) * (πA + πG) := by positivity
       unfold Gen.tn93Distance
       simp only [FVal.ofNat_eq, Nat.cast_ofNat, Nat.cast_one, Nat.cast_zero]
       rcases eq_or_lt_of_le ht with h0 | hpos
       · subst h0
         rcases eq_or_lt_of_le hv with hv0 | hvpos
         · subst hv0
           simp
         · simp [hvpos, hRYp]
       · have hne : t ≠ 0 := ne_of_gt hpos
         unfold tn93E1 tn93E2 tn93E3 at hu
         real_like at hu
         simp [hne, hRY, hR2, hY2, hAG, hCT, hR, hY]
         rcases hu with h | h | h | h
         · exact absurd h hne
         all_goals
           intro c1 c2 c3
           exfalso
           ring_nf at h c1 c2 c3
           linarith)

/-- F84 (with and without gamma), `A, C > 0`: a non-positive logarithm argument or no comparable site
never gives a finite entry — or the source is the unchanged one, whose gamma variant raises the
negative argument to an integer power (witness: equal frequencies, 4 transitions on 4 sites,
alpha = 1/2 ↦ 0) -/
theorem f84_undefined_never_small_or_witness :
    (∀ (g : Bool) (a A B C trS trV t : ℝ), 0 < a → 0 < A → 0 < C → 0 ≤ trS → 0 ≤ trV → 0 ≤ t →
        (t = 0 ∨ 1 - trS / t / (2 * A) - (A - B) * (trV / t) / (2 * A * C) ≤ 0 ∨ 1 - trV / t / (2 * C) ≤ 0) →
        Safe (Gen.f84Distance g (fin a) (fin A) (fin B) (fin C) (fin trS) (fin trV) (fin t)))
    ∨ Gen.f84Distance true (fin (1 / 2)) (fin (1 / 4)) (fin (1 / 8)) (fin (1 / 4)) (fin 4) (fin 0) (fin 4) = fin 0 := by
  first
    | (right
       unfold Gen.f84Distance
       simp only [FVal.ofNat_eq, Nat.cast_ofNat, Nat.cast_one, Nat.cast_zero, if_true]
       have e3 : (-(fin 1) / fin (1 / 2) : FVal) = fin (-2) := by
         rw [FVal.neg_fin, FVal.div_fin_ne (by norm_num)]; norm_num
       rw [e3]
       norm_num [FVal.div_fin_ne]
       rw [FVal.pow_neg_one_neg_two, FVal.pow_one_base _ (by norm_num)]
       first
         | (simp; done)
         | (simp; norm_num; done))
    | (left
       intro g a A B C trS trV t _ hA hC _ hQ ht hu
       suffices h : Gen.f84Distance g (fin a) (fin A) (fin B) (fin C) (fin trS) (fin trV) (fin t) = pinf by
         rw [h]; exact safe_pinf
       have h2A : 2 * A ≠ 0 := by positivity
       have h2C : 2 * C ≠ 0 := by positivity
       have h2AC : 2 * A * C ≠ 0 := by positivity
       have h2Cp : 0 ≤ 2 * C := by positivity
       unfold Gen.f84Distance
       simp only [FVal.ofNat_eq, Nat.cast_ofNat, Nat.cast_one, Nat.cast_zero]
       rcases eq_or_lt_of_le ht with h0 | hpos
       · subst h0
         rcases eq_or_lt_of_le hQ with hQ0 | hQpos
         · subst hQ0
           simp
         · simp [hQpos, h2Cp]
       · have hne : t ≠ 0 := ne_of_gt hpos
         simp [hne, h2A, h2C, h2AC]
         rcases hu with h | h | h
         · exact absurd h hne
         all_goals
           intro c1 c2
           exfalso
           ring_nf at h c1 c2
           linarith)

/-- matrix assembly: when every evaluation of the pair's estimator is `Safe`, the cell is NaN or the
matrix-wide substitute — never one of the estimator's own finite values (all variants of the model) -/
theorem undefined_never_small_matrix (v : Variant) (entries : List ((Nat × Nat) × FVal)) (i j : Nat)
    (hne : ∃ e ∈ entries, samePair e.1 i j = true)
    (hsafe : ∀ e ∈ entries, samePair e.1 i j = true → Safe e.2) :
    cell v entries i j = FVal.nan ∨ cell v entries i j = substitute v entries := by
  unfold cell
  by_cases hany : (entries.filter fun e => samePair e.1 i j).any (fun e => isUncomputable e.2) = true
  · right; simp only [hany, if_true]
  · left
    simp only [hany, Bool.false_eq_true, if_false]
    obtain ⟨e0, he0, hs0⟩ := hne
    have hmem0 : e0 ∈ entries.filter fun e => samePair e.1 i j := List.mem_filter.mpr ⟨he0, hs0⟩
    cases hl : (entries.filter fun e => samePair e.1 i j).getLast? with
    | none =>
      rw [List.getLast?_eq_none_iff] at hl
      rw [hl] at hmem0
      exact absurd hmem0 (by simp)
    | some e =>
      have hmem : e ∈ entries.filter fun e => samePair e.1 i j := List.mem_of_getLast? hl
      obtain ⟨hin, hs⟩ := List.mem_filter.mp hmem
      rcases hsafe e hin hs with hnan | hunc
      · exact hnan
      · exfalso
        apply hany
        rw [List.any_eq_true]
        exact ⟨e, hmem, hunc⟩

private theorem maxAccepted_fin (vals : List FVal) : ∃ m : ℝ, 0 ≤ m ∧ maxAccepted vals = fin m := by
  unfold maxAccepted
  apply foldl_inv (fun mx : FVal => ∃ m : ℝ, 0 ≤ m ∧ mx = fin m)
  · exact ⟨0, le_refl 0, by simp⟩
  · intro st d _ hp
    obtain ⟨m, hm, rfl⟩ := hp
    by_cases hu : isUncomputable d = true
    · simp only [hu, if_true]; exact ⟨m, hm, rfl⟩
    · simp only [hu, Bool.false_eq_true, if_false]
      cases d with
      | nan => exact ⟨m, hm, by simp⟩
      | pinf => exact absurd (by unfold isUncomputable; simp) hu
      | ninf => exact ⟨m, hm, by simp⟩
      | fin x =>
        by_cases hx : m < x
        · exact ⟨x, by linarith, by simp [hx]⟩
        · exact ⟨m, hm, by simp [hx]⟩

/-- the repaired assembly never substitutes a zero or negative value: NaN when no accepted entry is
positive, else twice the (positive) maximum -/
theorem substitute_repaired_pos_or_nan (entries : List ((Nat × Nat) × FVal)) :
    substitute Variant.repaired entries = FVal.nan ∨ ∃ x : ℝ, 0 < x ∧ substitute Variant.repaired entries = fin x := by
  unfold substitute
  obtain ⟨m, hm, hmx⟩ := maxAccepted_fin (entries.map (·.2))
  simp only [hmx, Variant.repaired, Bool.true_and, FVal.ofNat_eq, Nat.cast_zero, Nat.cast_ofNat, FVal.eqb_fin,
    decide_eq_true_eq]
  by_cases h0 : m = 0
  · left; simp [h0]
  · right
    refine ⟨2 * m, ?_, ?_⟩
    · have : 0 < m := lt_of_le_of_ne hm (Ne.symm h0)
      linarith
    · simp [h0]

/-- … whereas the unchanged assembly substitutes `2 * 0 = 0` when every pair is undefined
(`AAGG` vs `GGGG` under K2P: `1 - 2P - Q = 0`, the estimator returns `+Inf`, the matrix reports 0) -/
theorem substitute_asIs_zero_witness : substitute Variant.asIs [((0, 1), FVal.pinf)] = fin 0 := by
  unfold substitute maxAccepted isUncomputable
  simp [Variant.asIs]

end special

end Gv.Props.C07
