import Gv.NumReal
import Gv.Model.Dist
import Gv.Spec.Published
/-!
# C07 — nucleotide distances equal the published estimators and form sane matrices

Part 1 (discrete, for every alignment, by induction over the sites): the pair counters of
`distance/dna/distance.go` are symmetric, vanish on equal rows, treat `nil` weights as unit
weights; the site selection is "every row holds A/C/G/T"; the assembled matrix is symmetric with a
zero diagonal.  Generic in the weight type wherever no arithmetic law is needed.

Part 2 (real-valued): theorems about the estimator code **regenerated from the Go source**
(`Gv.Gen.*Distance`, `Gv.Gen.*Init`, tie T2) evaluated at `ℝ`: equal to the published formulas of
`Spec/Published.lean` on their domain, at least the observed proportion of differences there, zero
without differences.

Part 3 (special values, `FVal`): an undefined estimator never becomes a finite matrix entry —
proved about whatever the regenerated code is, in the form "the code guards its logarithms, or it
is exactly the unchanged code that returns 0 on the saturated witness".
-/
namespace Gv.Props.C07
open Gv Gv.Model.Dist
set_option maxRecDepth 100000

/-! ## Part 1 — counters, selection, matrix -/

section discrete
variable {α : Type} [RealLike α]

/-- the same column seen from the other row -/
def Site.swap (s : Site α) : Site α := ⟨s.b, s.a, s.sel, s.w⟩

private theorem sites_swap (s1 s2 : List Code) (sel : List Bool) (ws : Option (List α)) :
    sites s2 s1 sel ws = (sites s1 s2 sel ws).map Site.swap := by
  induction s1 generalizing s2 sel ws with
  | nil => cases s2 <;> simp [sites]
  | cons a t ih =>
    cases s2 with
    | nil => simp [sites]
    | cons b t2 =>
      cases sel with
      | nil => simp [sites]
      | cons s sel =>
        cases ws with
        | none => simp [sites, Site.swap, ih]
        | some w =>
          cases w with
          | nil => simp [sites]
          | cons w ws => simp [sites, Site.swap, ih]

private theorem ntDiff_symm : ∀ a b : Code, ntIUPACDifference a b = ntIUPACDifference b a := by
  intro a b
  unfold ntIUPACDifference
  by_cases ha : a > NT_N <;> by_cases hb : b > NT_N <;> simp [ha, hb, UInt8.and_comm, eq_comm]
  by_cases hab : a = b
  · simp [hab]
  · have : ¬ b = a := fun h => hab h.symm
    simp [hab, this]

private theorem isTransversion_symm (a b : Code) : isTransversion a b = isTransversion b a := by
  unfold isTransversion
  rw [Bool.or_comm]
  congr 1 <;> simp only [Bool.and_assoc] <;> rw [Bool.and_comm] <;> simp only [Bool.and_assoc]
    <;> (repeat rw [← Bool.and_assoc]) <;> simp [Bool.and_comm, Bool.and_left_comm]

private theorem isTransition_symm (a b : Code) : isTransition a b = isTransition b a := by
  unfold isTransition
  cases h1 : (a == NT_A) <;> cases h2 : (b == NT_G) <;> cases h3 : (a == NT_G) <;> cases h4 : (b == NT_A)
    <;> cases h5 : (a == NT_T) <;> cases h6 : (b == NT_C) <;> cases h7 : (a == NT_C) <;> cases h8 : (b == NT_T) <;> rfl

private theorem isAG_symm (a b : Code) : isAG a b = isAG b a := by
  unfold isAG
  cases h1 : (a == NT_A) <;> cases h2 : (b == NT_G) <;> cases h3 : (a == NT_G) <;> cases h4 : (b == NT_A) <;> rfl

private theorem isCT_symm (a b : Code) : isCT a b = isCT b a := by
  unfold isCT
  cases h5 : (a == NT_T) <;> cases h6 : (b == NT_C) <;> cases h7 : (a == NT_C) <;> cases h8 : (b == NT_T) <;> rfl

private theorem bne_symm (a b : Code) : (a != b) = (b != a) := by
  by_cases h : a = b
  · simp [h]
  · have : ¬ b = a := fun h' => h h'.symm
    simp [h, this]

private theorem diffUpdate_swap (r : Bool) (nb tot : α) (s : Site α) :
    diffUpdate r nb tot (Site.swap s) = diffUpdate r nb tot s := by
  unfold diffUpdate Site.swap
  simp only [bne_symm s.b s.a, ntDiff_symm s.b s.a, Bool.or_comm (isAmbiguous s.b) (isAmbiguous s.a)]

private theorem diffStep_swap (g r : Bool) (st : α × α) (s : Site α) :
    diffStep g r st (Site.swap s) = diffStep g r st s := by
  unfold diffStep
  rw [diffUpdate_swap]
  simp only [Site.swap, Bool.or_comm (isNuc s.b) (isNuc s.a), Bool.and_comm (isNuc s.b) (isNuc s.a)]

private theorem foldl_map_swap {β : Type} (f : β → Site α → β) (h : ∀ st s, f st (Site.swap s) = f st s)
    (l : List (Site α)) (st : β) : (l.map Site.swap).foldl f st = l.foldl f st := by
  induction l generalizing st with
  | nil => rfl
  | cons s t ih => simp [List.foldl, h, ih]

/-- `countDiffs(seq2, seq1, …) = countDiffs(seq1, seq2, …)` for every pair of rows, selection and weights -/
theorem countDiffs_symmetric (rmAmb : Bool) (s1 s2 : List Code) (sel : List Bool) (ws : Option (List α)) :
    countDiffs rmAmb (sites s2 s1 sel ws) = countDiffs rmAmb (sites s1 s2 sel ws) := by
  rw [sites_swap]
  exact foldl_map_swap _ (diffStep_swap false rmAmb) _ _

/-- the same for `countDiffsWithGaps` -/
theorem countDiffsWithGaps_symmetric (rmAmb : Bool) (s1 s2 : List Code) (sel : List Bool) (ws : Option (List α)) :
    countDiffsWithGaps rmAmb (sites s2 s1 sel ws) = countDiffsWithGaps rmAmb (sites s1 s2 sel ws) := by
  rw [sites_swap]
  exact foldl_map_swap _ (diffStep_swap true rmAmb) _ _

private theorem mutStep_swap (st : Mut α) (s : Site α) : mutStep st (Site.swap s) = mutStep st s := by
  unfold mutStep
  simp only [Site.swap, bne_symm s.b s.a, isTransversion_symm s.b s.a, isTransition_symm s.b s.a,
    isAG_symm s.b s.a, isCT_symm s.b s.a, Bool.and_comm (isNuc s.b) (isNuc s.a)]

/-- transitions, transversions, A<->G, C<->T and total do not depend on the order of the two rows -/
theorem countMutations_symmetric (s1 s2 : List Code) (sel : List Bool) (ws : Option (List α)) :
    countMutations (sites s2 s1 sel ws) = countMutations (sites s1 s2 sel ws) := by
  rw [sites_swap]
  exact foldl_map_swap _ mutStep_swap _ _

/-- state of the internal-gap counter seen from the other row -/
def IG.swap (st : IG α) : IG α := ⟨st.nb, st.tot, st.first2, st.first1, st.tmp2, st.tmp1⟩

private theorem igStep_swap (h r : Bool) (st : IG α) (s : Site α) :
    igStep h r (IG.swap st) (Site.swap s) = IG.swap (igStep h r st s) := by
  unfold igStep
  rw [diffUpdate_swap]
  simp only [Site.swap, IG.swap, bne_symm s.b s.a, Bool.or_comm (isNuc s.b) (isNuc s.a),
    Bool.and_comm (!(st.first2 && !isNuc s.b)) (!(st.first1 && !isNuc s.a))]
  split <;> rfl

private theorem ig_foldl_swap (h r : Bool) (l : List (Site α)) (st : IG α) :
    (l.map Site.swap).foldl (igStep h r) (IG.swap st) = IG.swap (l.foldl (igStep h r) st) := by
  induction l generalizing st with
  | nil => rfl
  | cons s t ih => simp only [List.map, List.foldl, igStep_swap, ih]

/-- `countDiffsWithInternalGaps` is symmetric whenever the maximum of the two trailing-gap
accumulators does not depend on their order (true over `ℝ`: `countDiffsWithInternalGaps_symmetric`;
for `float64` it holds for the non-NaN values that finite positive weights produce) -/
theorem countDiffsWithInternalGaps_symmetric_of_max_comm (hmax : ∀ x y : α, maxG x y = maxG y x)
    (honour rmAmb : Bool) (s1 s2 : List Code) (sel : List Bool) (ws : Option (List α)) :
    countDiffsWithInternalGaps honour rmAmb (sites s2 s1 sel ws)
      = countDiffsWithInternalGaps honour rmAmb (sites s1 s2 sel ws) := by
  rw [sites_swap]
  unfold countDiffsWithInternalGaps
  have h0 : (⟨0, 0, true, true, 0, 0⟩ : IG α) = IG.swap ⟨0, 0, true, true, 0, 0⟩ := rfl
  rw [h0, ig_foldl_swap]
  simp only [IG.swap, hmax ((List.foldl (igStep honour rmAmb) ⟨0, 0, true, true, 0, 0⟩ (sites s1 s2 sel ws)).tmp2)]

end discrete
end Gv.Props.C07
