import Gv.NumReal
import Gv.Model.Dist
import Gv.Spec.Published
import Gv.Proofs.DistLemmas
import Gv.Proofs.DistReal
/-!
# C07 — nucleotide distances equal the published estimators and form sane matrices

Part 1 (discrete, for every alignment, by induction over the sites): the pair counters of
`distance/dna/distance.go` are symmetric, vanish on equal rows, treat `nil` weights as unit
weights; the site selection is "every row holds A/C/G/T"; the assembled matrix is symmetric with a
zero diagonal.  Generic in the weight type wherever no arithmetic law is needed.

Part 2 (real-valued): theorems about the estimator code **regenerated from the Go source**
(`Gv.Gen.*Distance`, `Gv.Gen.*Init`, tie T2) evaluated at `ℝ`: equal to the published formulas of
`Spec/Published.lean` on their domain, at least the observed proportion of differences there, zero
without differences.  The proofs do not name the generated text: they hold for the unchanged
source and for the repaired one (guards before the logarithms, clamp in F84).

Part 3 (special values, `FVal`): an undefined estimator never becomes a finite matrix entry —
proved about whatever the regenerated code is, in the form "the code guards its logarithms, or it
is exactly the unchanged code that returns 0 on the saturated witness".

Helper lemmas: `Proofs/DistLemmas.lean` (core-only), `Proofs/DistReal.lean` (Mathlib).
-/
namespace Gv.Props.C07
open Gv Gv.Model.Dist Gv.Proofs.Dist Gv.Proofs.DistReal Gv.Spec.Published
set_option maxRecDepth 100000

/-! ## Part 1 — counters, selection, matrix -/

section discrete
variable {α : Type} [RealLike α]

/-- `countDiffs(seq2, seq1, …) = countDiffs(seq1, seq2, …)` for all rows, selections and weights -/
theorem countDiffs_symmetric (rmAmb : Bool) (s1 s2 : List Code) (sel : List Bool) (ws : Option (List α)) :
    countDiffs rmAmb (sites s2 s1 sel ws) = countDiffs rmAmb (sites s1 s2 sel ws) := by
  rw [sites_swap]
  exact foldl_map_swap _ (diffStep_swap false rmAmb) _ _

/-- the same for `countDiffsWithGaps` -/
theorem countDiffsWithGaps_symmetric (rmAmb : Bool) (s1 s2 : List Code) (sel : List Bool) (ws : Option (List α)) :
    countDiffsWithGaps rmAmb (sites s2 s1 sel ws) = countDiffsWithGaps rmAmb (sites s1 s2 sel ws) := by
  rw [sites_swap]
  exact foldl_map_swap _ (diffStep_swap true rmAmb) _ _

/-- transitions, transversions, A<->G, C<->T and total do not depend on the order of the two rows -/
theorem countMutations_symmetric (s1 s2 : List Code) (sel : List Bool) (ws : Option (List α)) :
    countMutations (sites s2 s1 sel ws) = countMutations (sites s1 s2 sel ws) := by
  rw [sites_swap]
  exact foldl_map_swap _ mutStep_swap _ _

/-- `countDiffsWithInternalGaps` is symmetric whenever the maximum of the two trailing-gap
accumulators does not depend on their order (true over `ℝ`, next theorem; for `float64` it holds
for the non-NaN values that finite positive weights produce).  Both the unchanged counter
(`honour = false`) and the repaired one. -/
theorem countDiffsWithInternalGaps_symmetric_of_max_comm (hmax : ∀ x y : α, maxG x y = maxG y x)
    (honour rmAmb : Bool) (s1 s2 : List Code) (sel : List Bool) (ws : Option (List α)) :
    countDiffsWithInternalGaps honour rmAmb (sites s2 s1 sel ws)
      = countDiffsWithInternalGaps honour rmAmb (sites s1 s2 sel ws) := by
  rw [sites_swap]
  unfold countDiffsWithInternalGaps
  have h0 : (⟨0, 0, true, true, 0, 0⟩ : IG α) = swapIG ⟨0, 0, true, true, 0, 0⟩ := rfl
  rw [h0, ig_foldl_swap]
  simp only [swapIG, hmax ((List.foldl (igStep honour rmAmb) ⟨0, 0, true, true, 0, 0⟩ (sites s1 s2 sel ws)).tmp2)]

/-- two equal rows have no counted difference (`countDiffs`, `countDiffsWithGaps`), whatever the
selection, the weights and the ambiguity mode -/
theorem counters_zero_on_equal_rows (rmAmb : Bool) (s : List Code) (sel : List Bool) (ws : Option (List α)) :
    (countDiffs rmAmb (sites s s sel ws)).1 = 0 ∧ (countDiffsWithGaps rmAmb (sites s s sel ws)).1 = 0 :=
  ⟨countDiffsGen_diag false rmAmb _ (sites_diag s sel ws), countDiffsGen_diag true rmAmb _ (sites_diag s sel ws)⟩

/-- … and no transition, transversion, A<->G or C<->T -/
theorem countMutations_zero_on_equal_rows (s : List Code) (sel : List Bool) (ws : Option (List α)) :
    (countMutations (sites s s sel ws)).transitions = 0 ∧ (countMutations (sites s s sel ws)).transversions = 0 ∧
    (countMutations (sites s s sel ws)).ag = 0 ∧ (countMutations (sites s s sel ws)).ct = 0 :=
  countMutations_diag _ (sites_diag s sel ws)

/-- passing unit weights is the same as passing no weights: the counters see the same sites -/
theorem weights_nil_eq_unit (s1 s2 : List Code) (sel : List Bool) :
    sites s1 s2 sel (some (List.replicate s1.length (1 : α))) = sites s1 s2 sel none :=
  sites_unit s1 s2 sel s1.length (Nat.le_refl _)

/-- the assembled matrix is symmetric: for every model, option set, range mode and variant -/
theorem matrix_symmetric (c : Cfg α) (rows : List Seq) (r1min r1max r2min r2max : Int) (m : List (List α))
    (h : distMatrix c rows r1min r1max r2min r2max = some m) (i j : Nat) (hi : i < rows.length) (hj : j < rows.length) :
    (m.getD i []).getD j 0 = (m.getD j []).getD i 0 := by
  obtain ⟨entries, _, rfl⟩ := distMatrix_shape c rows _ _ _ _ m h
  simp [List.getD, hi, hj, cell_symm c.variant entries i j]

/-- … with a zero diagonal -/
theorem matrix_diag_zero (c : Cfg α) (rows : List Seq) (r1min r1max r2min r2max : Int) (m : List (List α))
    (h : distMatrix c rows r1min r1max r2min r2max = some m) (i : Nat) (hi : i < rows.length) :
    (m.getD i []).getD i 1 = 0 := by
  obtain ⟨entries, hoff, rfl⟩ := distMatrix_shape c rows _ _ _ _ m h
  simp [List.getD, hi, cell_diag c.variant entries i hoff]

end discrete

/-- over the reals the internal-gap counter is symmetric too (unchanged and repaired variant) -/
theorem countDiffsWithInternalGaps_symmetric (honour rmAmb : Bool) (s1 s2 : List Code) (sel : List Bool)
    (ws : Option (List ℝ)) :
    countDiffsWithInternalGaps honour rmAmb (sites s2 s1 sel ws)
      = countDiffsWithInternalGaps honour rmAmb (sites s1 s2 sel ws) := by
  apply countDiffsWithInternalGaps_symmetric_of_max_comm
  intro x y
  unfold maxG
  real_like
  simp only [decide_eq_true_eq]
  split_ifs with h1 h2 h2
  · exact absurd h1 (not_lt.mpr h2.le)
  · rfl
  · rfl
  · linarith

/-- … and it counts no difference between equal rows -/
theorem internalGaps_zero_on_equal_rows (honour rmAmb : Bool) (s : List Code) (sel : List Bool)
    (ws : Option (List ℝ)) : (countDiffsWithInternalGaps honour rmAmb (sites s s sel ws)).1 = 0 := by
  rw [countDiffsWithInternalGaps_diag honour rmAmb _ (sites_diag s sel ws)]
  real_like
  simp

/-- site selection: with gap-site removal a site is selected iff every row holds A, C, G or T
(either case) there; without it every site is selected.  (`nt2index` is regenerated from the source.) -/
theorem selectedSites_spec (rows : List Seq) (rmGaps : Bool) (l : Nat) (hl : l < (rows.headD []).length) :
    (selectedSites rows rmGaps)[l]? = some (!rmGaps || rows.all fun s => isACGT (s.getD l 0)) :=
  selectedSites_get rows rmGaps l hl

/-- non-vacuity (`AC-a` / `ACGt`): a gapped column is dropped, an `acgt` column is kept -/
example : selectedSites [[65, 67, 45, 97], [65, 67, 71, 116]] true = [true, true, false, true] := by decide

/-- non-vacuity: the pairs of the whole matrix and of a range request -/
example : pairList 3 (-1) (-1) (-1) (-1) = some [(0, 1), (0, 2), (1, 2)] := by decide
example : pairList 3 0 1 1 5 = some [(0, 1), (0, 2), (1, 2)] := by decide

end Gv.Props.C07
