import Gv.Proofs.FastaRT
import Gv.Model.Fmt.Nexus
/-!
C02 — every alignment format round-trips losslessly through writer and parser.

`Spec.Fmt.repr<Fmt>` is the decidable representability predicate (the property's quantifier);
"the same detected alphabet" is `Model.autoAlphabet` of the rows that were written (goalign's own
detection over the character classes regenerated from the source).

Proved: FASTA, complete (every wrap width `w > 0`, every number of rows, every length, every
duplicate-name policy, with or without the proposed "no sequence ⇒ error" patch).
Open (stated, checked on the implementation by the oracle predicate on every run, see `PARTIAL` in
driver/props/c02.py):

  theorem roundtrip_phylip (strict oneline noblock) (rows) (h : reprPhylip strict rows) :
      Phylip.parse ⟨strict, 0, 2⟩ (Phylip.write strict oneline noblock rows) = ok ⟨autoAlphabet …, L, rows⟩
  theorem phylip_multi (as) (h : ∀ a ∈ as, reprPhylip strict a) :
      Phylip.parseMultiple strict (as.flatMap (Phylip.write strict ol nb)) = (as.map …, ok)
  theorem roundtrip_nexus / roundtrip_clustal / roundtrip_stockholm  (same shape; Nexus additionally
      needs "no row spells a reserved word", which is the recorded finding `nexus-keyword-row`)
  theorem autodetect (h : repr f rows) : Auto.detect (write f rows) = f       -- f ∈ fasta, nexus, clustal, phylip
-/
namespace Gv.Props.C02
open Gv Gv.Model Gv.Model.Fmt Gv.Model.Fmt.Fasta Gv.Proofs.FastaRT
open Gv.Spec.Fmt (reprFasta reprBase rectangular residuesOk distinct isPrintable isNt isAa isSpecial)

set_option maxRecDepth 100000

private theorem printable_ok : ∀ b : Byte, isPrintable b = true → identChar b = true ∧ b ≠ SP := by decide

private theorem residue_ok : ∀ b : Byte, (isNt b || isSpecial b) = true ∨ (isAa b || isSpecial b) = true →
    identChar b = true ∧ b ≠ GT ∧ b ≠ SP := by decide

/-- what `reprFasta` gives row by row -/
private theorem repr_rows (rows : List XRow) (h : reprFasta rows = true) :
    rows ≠ [] ∧ (∀ r ∈ rows, ValidRow r) ∧
    (∃ L, 1 ≤ L ∧ rows.head?.map (·.2.length) = some L ∧ ∀ r ∈ rows, r.2.length = L) ∧
    distinct (rows.map (·.1)) = true := by
  simp only [reprFasta, reprBase, Bool.and_eq_true] at h
  obtain ⟨⟨⟨⟨hrect, hres⟩, hdist⟩, hnames⟩, hgt⟩ := h
  cases rows with
  | nil => simp [rectangular] at hrect
  | cons r0 rs =>
    simp only [rectangular, Bool.and_eq_true, decide_eq_true_eq, List.all_eq_true, beq_iff_eq] at hrect
    have hlen : ∀ r ∈ r0 :: rs, r.2.length = r0.2.length := by
      intro r hr
      cases hr with
      | head => rfl
      | tail _ hr => exact hrect.2 r hr
    refine ⟨by simp, ?_, ⟨r0.2.length, hrect.1, by simp, hlen⟩, hdist⟩
    intro r hr
    have hn := (List.all_eq_true.mp hnames) r hr
    simp only [Bool.and_eq_true, Bool.not_eq_true', List.all_eq_true] at hn
    have hg := (List.all_eq_true.mp hgt) r hr
    have hne : r.1 ≠ [] := by
      intro e; rw [e] at hn; simp at hn
    have hresr : ∀ b ∈ r.2, identChar b = true ∧ b ≠ GT ∧ b ≠ SP := by
      intro b hb
      apply residue_ok
      simp only [residuesOk, Bool.or_eq_true, List.all_eq_true] at hres
      cases hres with
      | inl h1 => left; simpa using h1 r hr b hb
      | inr h1 => right; simpa using h1 r hr b hb
    have hq : r.2 ≠ [] := by
      intro e
      have := hlen r hr
      rw [e] at this
      simp at this
      omega
    refine ⟨⟨⟨hne, fun b hb => (printable_ok b (hn.2 b hb)).1, ?_⟩, ?_⟩, hq, hresr⟩
    · have hg' : ¬ (r.1.head? = some 62) := by simpa using hg
      exact hg'
    · cases hr1 : r.1 with
      | nil => exact absurd hr1 hne
      | cons x xs =>
        have := (printable_ok x (hn.2 x (by rw [hr1]; simp))).2
        simpa using this

/-- **FASTA round trip.**  For every line width `w > 0` (Go: `FASTA_LINE = 80`), every representable
alignment (any number of rows, any length), every duplicate-name policy, auto-detected alphabet:
parsing the writer's output gives back the same names in the same order, the same residues, the same
length and the detected alphabet.  Holds for the code as it is (`fix = false`) and with the proposed
patch (`fix = true`). -/
theorem roundtrip_fasta (w : Nat) (hw : 0 < w) (fix : Bool) (o : POpts) (ho : normAlphabet o.alphabet = 2)
    (rows : List XRow) (h : reprFasta rows = true) :
    ∃ L : Nat, 1 ≤ L ∧ (∀ r ∈ rows, r.2.length = L) ∧
      Fasta.parse fix o (Fasta.write w rows) = .ok ⟨autoAlphabet (rows.map (·.2)), L, rows⟩ := by
  obtain ⟨hne, hvalid, ⟨L, hL1, _, hlen⟩, hdist⟩ := repr_rows rows h
  refine ⟨L, hL1, hlen, ?_⟩
  have hl := lex_write w hw rows hvalid
  have hbag : parseBag o.ignore (Fasta.write w rows) =
      some { ignore := normIgnore o.ignore, length := L, rows := rows } := by
    unfold parseBag
    rw [hl]
    cases rows with
    | nil => exact absurd rfl hne
    | cons r rs =>
      have hb := body_rows w hw (r :: rs) hvalid { bag := { ignore := normIgnore o.ignore } } (Or.inr ⟨rfl, rfl⟩)
      simp only [List.flatMap_cons, rowToks, List.cons_append, skipEol] at hb ⊢
      rw [loop, hb]
      · have := addAll_ok L (r :: rs) { ignore := normIgnore o.ignore } hlen (Or.inl ⟨rfl, rfl⟩)
          (by intro _ _ q hq; simp at hq) hdist
        simpa [pending] using this
      · intro ts hts; cases hts
  unfold Fasta.parse
  rw [hbag]
  have hnotempty : rows.isEmpty = false := by
    cases rows with
    | nil => exact absurd rfl hne
    | cons _ _ => rfl
  simp only [hnotempty, Bool.and_false, Bool.false_eq_true, if_false]
  simp [Bag.finish, ho, BOTH, Bag.detect, autoAlphabet]

/-- non-vacuity: a two-row nucleotide alignment with a gap is representable -/
example : reprFasta [([115, 49], [65, 67, 45, 84]), ([115, 50], [65, 67, 71, 116])] = true := by decide

/-- the theorem instantiated at Go's line width -/
theorem roundtrip_fasta_go (rows : List XRow) (h : reprFasta rows = true) :
    ∃ L : Nat, Fasta.parse false {} (Fasta.write Gen.c_FASTA_LINE.toNat rows) =
      .ok ⟨autoAlphabet (rows.map (·.2)), L, rows⟩ := by
  obtain ⟨L, _, _, h⟩ := roundtrip_fasta Gen.c_FASTA_LINE.toNat (by decide) false {} (by decide) rows h
  exact ⟨L, h⟩

/-- **Nexus: the round trip is FALSE for the code as it is.**  The protein alignment `a = END`, `b = ENV`
is representable (`reprNexus`), the writer emits it, and the parser rejects the writer's output because
`scanIdent` turns the residue row `END` into the keyword token (finding `nexus-keyword-row`). -/
theorem roundtrip_nexus_counterexample :
    Spec.Fmt.reprNexus [([97], [69, 78, 68]), ([98], [69, 78, 86])] = true ∧
    Nexus.parse ⟨false, false, false⟩ {} (Nexus.write 0 [([97], [69, 78, 68]), ([98], [69, 78, 86])]) = .error := by
  decide

end Gv.Props.C02
